//! C07, the part of the shared API that is not in the Lean model: one straight-line program over
//! construction variants, comparison, formatting, hashing, raw-pointer round trips of `Weak`,
//! `Weak::new`, `pin`, `new_uninit`, `Borrow`/`AsRef`, instantiated once on `std::rc` and once on
//! `cactusref`; the two transcripts must be equal line by line.

macro_rules! api_program {
    ($modname:ident, $rc:path, $weak:path) => {
        pub mod $modname {
            use std::cell::RefCell;
            use std::collections::hash_map::DefaultHasher;
            use std::fmt::Write as _;
            use std::hash::{Hash, Hasher};
            use $rc as Rc;
            use $weak as Weak;

            thread_local! { static LOG: RefCell<String> = RefCell::new(String::new()); }
            fn log(s: String) {
                LOG.with(|l| {
                    l.borrow_mut().push_str(&s);
                    l.borrow_mut().push('\n');
                });
            }

            #[derive(Debug, PartialEq, Eq, PartialOrd, Ord, Hash, Clone, Default)]
            struct V(i64, String);
            impl std::fmt::Display for V {
                fn fmt(&self, f: &mut std::fmt::Formatter<'_>) -> std::fmt::Result {
                    write!(f, "V<{}:{}>", self.0, self.1)
                }
            }
            /// equality that is not reflexive: `std` may not short-cut comparisons of two handles to
            /// one allocation unless `T: Eq`
            #[derive(Debug, PartialEq, PartialOrd, Clone)]
            struct NanKey(f64, u8);
            struct D(u32);
            impl Drop for D {
                fn drop(&mut self) {
                    log(format!("drop D{}", self.0));
                }
            }
            fn h<T: Hash>(t: &T) -> u64 {
                let mut s = DefaultHasher::new();
                t.hash(&mut s);
                s.finish()
            }

            /// marker-trait parity as a run-time value: the inherent method exists only when the bound holds and
            /// wins over the trait fallback
            struct MarkerProbe<T>(std::marker::PhantomData<T>);
            trait MarkerFallback {
                fn is_unpin(&self) -> bool { false }
                fn is_send(&self) -> bool { false }
                fn is_sync(&self) -> bool { false }
            }
            impl<T> MarkerFallback for MarkerProbe<T> {}
            impl<T: Unpin> MarkerProbe<T> { fn is_unpin(&self) -> bool { true } }
            #[allow(dead_code)]
            struct SendOnly<T>(std::marker::PhantomData<T>);
            impl<T: Send> MarkerProbe<SendOnly<T>> { fn is_send(&self) -> bool { true } }
            impl<T: Sync> MarkerProbe<(SendOnly<T>, ())> { fn is_sync(&self) -> bool { true } }

            #[derive(Clone, PartialEq, Debug)]
            #[repr(align(128))]
            struct A128(u8);
            #[derive(Clone, PartialEq, Debug)]
            #[repr(align(4096))]
            struct A4096(u16);
            #[derive(Clone, PartialEq, Debug)]
            struct Odd([u8; 3]);

            /// payload shapes: zero-sized, tiny, odd-sized, large, over-aligned — every raw-pointer path and the
            /// count API must behave the same whatever the layout of `T`
            fn shape_trip<T: Clone + PartialEq + std::fmt::Debug>(name: &str, val: T, sum: fn(&T) -> u64) {
                // construction from a box and from a value, for this layout
                let fb: Rc<T> = Rc::from(Box::new(val.clone()));
                let fv: Rc<T> = Rc::from(val.clone());
                let from_ok = *fb == val && *fv == val && Rc::strong_count(&fb) == 1 && Rc::weak_count(&fv) == 0;
                let fbw = Rc::downgrade(&fb);
                drop(fb);
                let from_dead = fbw.upgrade().is_none();
                drop(fbw);
                drop(fv);
                log(format!("shape {} from-box/from-value {} {}", name, from_ok, from_dead));
                let r: Rc<T> = Rc::new(val.clone());
                let aligned = (Rc::as_ptr(&r) as usize) % std::mem::align_of::<T>().max(1) == 0;
                let w = Rc::downgrade(&r);
                let w_same = w.as_ptr() == Rc::as_ptr(&r);
                let p = Rc::into_raw(Rc::clone(&r));
                let p_same = p == Rc::as_ptr(&r);
                unsafe { Rc::increment_strong_count(p) };
                let c1 = (Rc::strong_count(&r), Rc::weak_count(&r));
                unsafe { Rc::decrement_strong_count(p) };
                let back = unsafe { Rc::from_raw(p) };
                let eq_back = Rc::ptr_eq(&back, &r) && *back == val;
                drop(back);
                let wp = w.into_raw();
                let w2 = unsafe { Weak::from_raw(wp) };
                let up = w2.upgrade();
                let up_ok = up.as_ref().map(|u| Rc::ptr_eq(u, &r) && **u == val).unwrap_or(false);
                drop(up);
                let c2 = (Rc::strong_count(&r), Rc::weak_count(&r), w2.strong_count(), w2.weak_count());
                let mut r = r;
                let gm = Rc::get_mut(&mut r).is_some();
                let mut r2 = Rc::clone(&r);
                let mm = sum(Rc::make_mut(&mut r2));
                let distinct = !Rc::ptr_eq(&r, &r2);
                drop(r2);
                let un = Rc::try_unwrap(r);
                let (un_ok, un_sum) = match &un { Ok(v) => (*v == val, sum(v)), Err(_) => (false, 0) };
                let dead = (w2.upgrade().is_none(), w2.strong_count(), w2.weak_count());
                let w3 = unsafe { Weak::from_raw(w2.into_raw()) };
                let dead2 = w3.upgrade().is_none();
                log(format!(
                    "shape {} aligned {} wptr {} rawptr {} c1 {:?} back {} up {} c2 {:?} getmut {} makemut {} {} unwrap {} {} dead {:?} {}",
                    name, aligned, w_same, p_same, c1, eq_back, up_ok, c2, gm, mm, distinct, un_ok, un_sum, dead, dead2
                ));
            }

            pub fn run(seed: u64) -> String {
                LOG.with(|l| l.borrow_mut().clear());
                let mut x = seed | 1;
                let mut next = || {
                    x ^= x << 13;
                    x ^= x >> 7;
                    x ^= x << 17;
                    x
                };
                {
                    use std::marker::{PhantomData, PhantomPinned};
                    // `Rc<T>` is `Unpin` for every `T` (moving the handle never moves the value), never `Send`/`Sync`
                    log(format!(
                        "markers rc unpin(pinned payload) {} unpin(u8) {} send {} sync {}",
                        MarkerProbe::<Rc<PhantomPinned>>(PhantomData).is_unpin(),
                        MarkerProbe::<Rc<u8>>(PhantomData).is_unpin(),
                        MarkerProbe::<SendOnly<Rc<u8>>>(PhantomData).is_send(),
                        MarkerProbe::<(SendOnly<Rc<u8>>, ())>(PhantomData).is_sync(),
                    ));
                    log(format!(
                        "markers weak unpin(u8) {} send {} sync {}",
                        MarkerProbe::<Weak<u8>>(PhantomData).is_unpin(),
                        MarkerProbe::<SendOnly<Weak<u8>>>(PhantomData).is_send(),
                        MarkerProbe::<(SendOnly<Weak<u8>>, ())>(PhantomData).is_sync(),
                    ));
                }
                shape_trip::<()>("unit", (), |_| 0);
                shape_trip::<[u8; 0]>("empty-array", [], |_| 0);
                shape_trip::<u8>("u8", (seed % 251) as u8, |v| *v as u64);
                shape_trip::<Odd>("odd3", Odd([1, (seed % 200) as u8, 3]), |v| v.0.iter().map(|b| *b as u64).sum());
                shape_trip::<[u64; 625]>("big5000", [seed % 1000; 625], |v| v.iter().sum());
                shape_trip::<A128>("align128", A128((seed % 199) as u8), |v| v.0 as u64);
                shape_trip::<A4096>("align4096", A4096((seed % 60000) as u16), |v| v.0 as u64);
                shape_trip::<(u8, A128, u8)>("tuple-pad", (1, A128(2), (seed % 7) as u8), |v| v.0 as u64 + v.1 .0 as u64 + v.2 as u64);
                for round in 0..40 {
                    let a = (next() % 7) as i64 - 3;
                    let b = (next() % 7) as i64 - 3;
                    let ra: Rc<V> = Rc::new(V(a, format!("s{}", next() % 3)));
                    let rb: Rc<V> = Rc::from(V(b, format!("s{}", next() % 3)));
                    let rc2: Rc<V> = Rc::from(Box::new(V(a, ra.1.clone())));
                    let rd: Rc<V> = Rc::default();
                    log(format!("r{} eq {} {} {} ne {}", round, ra == rb, ra == rc2, rd == Rc::new(V::default()), ra != rb));
                    log(format!("ord {:?} {:?} lt {} le {} gt {} ge {}", ra.partial_cmp(&rb), ra.cmp(&rb), ra < rb, ra <= rb, ra > rb, ra >= rb));
                    log(format!("hash {} {} {}", h(&ra) == h(&*ra), h(&ra) == h(&rc2), h(&ra) == h(&rb)));
                    log(format!("fmt {} {:?} {:>12} {:#?}", ra, rb, format!("{}", rc2), rd));
                    let p = format!("{:p}", ra);
                    log(format!("ptrfmt {}", p == format!("{:p}", Rc::as_ptr(&ra))));
                    let br: &V = std::borrow::Borrow::borrow(&ra);
                    let ar: &V = ra.as_ref();
                    log(format!("borrow {} {} deref {}", br == &*ra, ar.0, ra.0 + ra.1.len() as i64));
                    // non-reflexive payload, two handles to ONE allocation (clone, upgraded Weak, raw round trip)
                    let key = if next() % 2 == 0 { f64::NAN } else { (next() % 5) as f64 };
                    let n1: Rc<NanKey> = Rc::new(NanKey(key, (next() % 3) as u8));
                    let n2 = Rc::clone(&n1);
                    let n3 = Rc::downgrade(&n1).upgrade().unwrap();
                    let n4 = unsafe { Rc::from_raw(Rc::into_raw(Rc::clone(&n1))) };
                    let n5: Rc<NanKey> = Rc::new((*n1).clone());
                    log(format!("nan eq {} {} {} {} ne {} {} cmp {:?} {:?} lt {} le {} gt {} ge {}", n1 == n2, n1 == n3, n1 == n4, n1 == n5,
                        n1 != n2, n1 != n5, n1.partial_cmp(&n2), n1.partial_cmp(&n5), n1 < n2, n1 <= n2, n1 > n3, n1 >= n4));
                    // Weak::new / default: dangling
                    let w0: Weak<V> = Weak::new();
                    let w1: Weak<V> = Weak::default();
                    log(format!("weaknew {} {} {} {} {}", w0.upgrade().is_none(), w0.strong_count(), w0.weak_count(), w0.ptr_eq(&w1), format!("{:?}", w0)));
                    let w0c = w0.clone();
                    drop(w0);
                    log(format!("weaknewclone {}", w0c.upgrade().is_none()));
                    // raw round trip of the dangling sentinel
                    let wd1: Weak<V> = unsafe { Weak::from_raw(Weak::<V>::new().into_raw()) };
                    log(format!("weaknew raw {} {} {} {} {}", wd1.upgrade().is_none(), wd1.strong_count(), wd1.weak_count(), wd1.ptr_eq(&Weak::new()), wd1.as_ptr() == Weak::<V>::new().as_ptr()));
                    let wd2 = wd1.clone();
                    drop(wd1);
                    log(format!("weaknew raw clone {} {}", wd2.upgrade().is_none(), wd2.weak_count()));
                    drop(wd2);
                    // Weak raw round trip
                    let wa = Rc::downgrade(&ra);
                    log(format!("weak asptr {} counts {} {}", wa.as_ptr() == Rc::as_ptr(&ra), Rc::strong_count(&ra), Rc::weak_count(&ra)));
                    let raw = wa.into_raw();
                    log(format!("weak raw counts {} {}", Rc::strong_count(&ra), Rc::weak_count(&ra)));
                    let wa2 = unsafe { Weak::from_raw(raw) };
                    log(format!("weak from_raw {} {} ptr_eq {}", wa2.upgrade().map(|r| r.0).unwrap_or(-99), Rc::weak_count(&ra), wa2.ptr_eq(&Rc::downgrade(&ra))));
                    // Rc raw round trip and strong count adjustments
                    let rr = Rc::into_raw(Rc::clone(&ra));
                    unsafe { Rc::increment_strong_count(rr) };
                    log(format!("raw counts {}", Rc::strong_count(&ra)));
                    unsafe { Rc::decrement_strong_count(rr) };
                    let back = unsafe { Rc::from_raw(rr) };
                    log(format!("raw back {} {} {}", Rc::ptr_eq(&back, &ra), Rc::strong_count(&ra), back.0));
                    drop(back);
                    // new_uninit / assume_init / get_mut_unchecked
                    let mut u = Rc::<u64>::new_uninit();
                    unsafe {
                        Rc::get_mut_unchecked(&mut u).as_mut_ptr().write(next() % 1000);
                    }
                    let u = unsafe { u.assume_init() };
                    log(format!("uninit {} {}", *u, Rc::strong_count(&u)));
                    // pin
                    let pinned = Rc::pin(V(a * 2, "p".into()));
                    log(format!("pin {} {:?}", pinned.0, *pinned));
                    // get_mut / make_mut / try_unwrap with and without Weak
                    let mut m = Rc::new(V(b, "m".into()));
                    log(format!("get_mut {}", Rc::get_mut(&mut m).map(|v| { v.0 += 1; v.0 }).unwrap_or(-1)));
                    let wm = Rc::downgrade(&m);
                    log(format!("get_mut weak {}", Rc::get_mut(&mut m).is_none()));
                    Rc::make_mut(&mut m).0 += 10;
                    log(format!("make_mut steal {} weak dead {} {} {}", m.0, wm.upgrade().is_none(), wm.strong_count(), wm.weak_count()));
                    let m2 = Rc::clone(&m);
                    Rc::make_mut(&mut m).0 += 100;
                    log(format!("make_mut clone {} {} {}", m.0, m2.0, Rc::ptr_eq(&m, &m2)));
                    log(format!("try_unwrap {:?} {:?}", Rc::try_unwrap(m).map(|v| v.0), Rc::try_unwrap(Rc::clone(&m2)).map_err(|r| Rc::strong_count(&r))));
                    // destruction order of nested values and Weak after death
                    let d1 = Rc::new(D(round));
                    let wd = Rc::downgrade(&d1);
                    let d2 = Rc::clone(&d1);
                    drop(d1);
                    log(format!("d alive {} {}", wd.upgrade().is_some(), wd.strong_count()));
                    drop(d2);
                    log(format!("d dead {} {} {}", wd.upgrade().is_none(), wd.strong_count(), wd.weak_count()));
                    let wd2 = wd.clone();
                    let dead_ptr = wd.as_ptr();
                    let raw = wd.into_raw();
                    let back = unsafe { Weak::from_raw(raw) };
                    log(format!("d dead raw {} {} {} {}", raw == dead_ptr, back.ptr_eq(&wd2), back.upgrade().is_none(), back.as_ptr() == wd2.as_ptr()));
                    drop(back);
                    log(format!("d dead clone {} {}", wd2.strong_count(), wd2.weak_count()));
                }
                let mut out = String::new();
                LOG.with(|l| write!(out, "{}", l.borrow()).unwrap());
                out
            }
        }
    };
}

api_program!(on_std, std::rc::Rc, std::rc::Weak);
api_program!(on_cactus, cactusref::Rc, cactusref::Weak);

pub fn main(seeds: u64) -> i32 {
    let mut lines = 0;
    for seed in 1..=seeds {
        let a = on_std::run(seed);
        let b = on_cactus::run(seed);
        for (i, (x, y)) in a.lines().zip(b.lines()).enumerate() {
            lines += 1;
            if x != y {
                println!("FAIL seed={} line={} std=`{}` cactusref=`{}`", seed, i, x, y);
                return 1;
            }
        }
        if a.lines().count() != b.lines().count() {
            println!("FAIL seed={} transcript lengths differ", seed);
            return 1;
        }
    }
    println!("ok seeds={} lines={}", seeds, lines);
    0
}
