// Executor core, `include!`d once per implementation under test (cactusref / std).
// The including module provides: `Rc`, `Weak`, `sh_adopt`, `sh_unadopt`, `sh_peek`, `sh_links`,
// `sh_trace_counters`, `HAS_HOOKS`.

use crate::alloc_track as at;
use crate::ops::{Act, Op};
use std::cell::{Cell, RefCell};
use std::collections::HashMap;
use std::fmt::Write as _;
use std::panic::{catch_unwind, resume_unwind, AssertUnwindSafe};
use std::sync::atomic::Ordering::Relaxed;

const CANARY_LIVE: u64 = 0x5AFE_C0DE_1234_5678;
const CANARY_DEAD: u64 = 0xDEAD_DEAD_DEAD_DEAD;

#[repr(align(64))]
pub struct Node {
    vid: usize,
    canary: Cell<u64>,
    out: RefCell<Vec<Rc<Node>>>,
    wk: RefCell<Vec<Weak<Node>>>,
    script: RefCell<Vec<Act>>,
    panics: Cell<bool>,
    shallow: Cell<bool>,
}

impl Node {
    fn new(vid: usize) -> Self {
        Node {
            vid,
            canary: Cell::new(CANARY_LIVE),
            out: RefCell::new(Vec::new()),
            wk: RefCell::new(Vec::new()),
            script: RefCell::new(Vec::new()),
            panics: Cell::new(false),
            shallow: Cell::new(false),
        }
    }
}

impl Clone for Node {
    fn clone(&self) -> Self {
        let vid = with(|w| {
            let v = w.next_vid;
            w.next_vid += 1;
            v
        });
        let shallow = self.shallow.get();
        Node {
            vid,
            canary: Cell::new(CANARY_LIVE),
            out: RefCell::new(if shallow { Vec::new() } else { self.out.borrow().clone() }),
            wk: RefCell::new(if shallow { Vec::new() } else { self.wk.borrow().clone() }),
            script: RefCell::new(self.script.borrow().clone()),
            panics: Cell::new(self.panics.get()),
            shallow: Cell::new(shallow),
        }
    }
}

struct UserScope;
impl UserScope {
    fn enter() -> Self {
        at::USER_DEPTH.fetch_add(1, Relaxed);
        UserScope
    }
}
impl Drop for UserScope {
    fn drop(&mut self) {
        at::USER_DEPTH.fetch_sub(1, Relaxed);
    }
}

impl Drop for Node {
    fn drop(&mut self) {
        // everything the destructor body allocates is the harness's own bookkeeping
        let _user = UserScope::enter();
        let c = self.canary.get();
        let vid = self.vid;
        with(|w| {
            if c != CANARY_LIVE {
                w.errs.push(format!("canary:vid{}:{:x}", vid, c));
            }
            w.dseq.push(vid);
            w.note_destroyed(vid);
        });
        self.canary.set(CANARY_DEAD);
        let script = std::mem::take(&mut *self.script.borrow_mut());
        for a in script {
            apply_act(&a, Some(self));
        }
        if self.panics.get() {
            with(|w| w.scripted_panics += 1);
            std::panic::panic_any(ScriptedPanic);
        }
    }
}

pub struct ScriptedPanic;

#[derive(Default, Clone)]
struct ValLedger {
    vid: usize,
    held: Vec<usize>,
    weaks: Vec<usize>,
}

#[derive(Default)]
struct ObjInfo {
    ptr: usize,
    block: usize,
    val: ValLedger,
    destroyed: bool, // value destructor has run
    gone: bool,      // value moved out by try_unwrap / make_mut (object given up)
    freed: bool,
}

#[derive(Default)]
pub struct World {
    roots: Vec<Rc<Node>>,
    wroots: Vec<Weak<Node>>,
    vals: Vec<Box<Node>>,
    raws: Vec<*const Node>,
    // shadow ledger
    objs: Vec<ObjInfo>,
    root_ids: Vec<usize>,
    wroot_ids: Vec<usize>,
    val_led: Vec<ValLedger>,
    raw_ids: Vec<usize>,
    adopt: HashMap<(usize, usize), usize>,
    loopc: HashMap<usize, usize>,
    by_ptr: HashMap<usize, usize>,
    by_block: HashMap<usize, usize>,
    vid_obj: HashMap<usize, usize>,
    next_vid: usize,
    destroyed_vids: HashMap<usize, usize>,
    // per-op records
    dseq: Vec<usize>,
    rets: Vec<usize>,
    errs: Vec<String>,
    scripted_panics: usize,
    stop: Option<String>,
    // contract tracking
    contract_ok: bool,
    broken_by: String,
    cur_op: String,
    any_panic: bool,
    dropped_targets: Vec<usize>,
    c14: Vec<(usize, usize)>,
    /// oracle failures found while executing the op itself (reported with the op's oracle line)
    act_fails: Vec<String>,
}

thread_local! {
    static W: RefCell<World> = RefCell::new(World::default());
}

fn with<R>(f: impl FnOnce(&mut World) -> R) -> R {
    W.with(|w| f(&mut w.borrow_mut()))
}

impl World {
    fn note_destroyed(&mut self, vid: usize) {
        *self.destroyed_vids.entry(vid).or_insert(0) += 1;
        if let Some(&o) = self.vid_obj.get(&vid) {
            if !self.objs[o].gone {
                self.objs[o].destroyed = true;
                self.objs[o].val.held.clear();
                self.objs[o].val.weaks.clear();
                self.purge_ledger(o);
            }
        }
        // unwrapped values are removed from `val_led` by the op that drops them
    }

    /// the object takes part in no recorded adoption (as owner, as target, or through the same handle)
    fn ledger_unlinked(&self, o: usize) -> bool {
        !self.loopc.contains_key(&o) && !self.adopt.keys().any(|&(a, b)| a == o || b == o)
    }

    fn purge_ledger(&mut self, o: usize) {
        self.adopt.retain(|&(a, b), _| a != o && b != o);
        self.loopc.remove(&o);
    }

    fn is_live(&self, o: usize) -> bool {
        let ob = &self.objs[o];
        if ob.freed {
            return false;
        }
        match unsafe { sh_peek(ob.ptr as *const Node) } {
            Some((s, _)) => s != 0 && s != usize::MAX,
            None => !ob.destroyed && !ob.gone,
        }
    }

    fn use_root(&mut self, r: usize) -> Option<usize> {
        if self.roots.is_empty() {
            return None;
        }
        let i = r % self.roots.len();
        let o = self.root_ids[i];
        if self.is_live(o) {
            Some(i)
        } else {
            if self.stop.is_none() {
                self.stop = Some(format!("dangling{}", o));
            }
            None
        }
    }

    fn register(&mut self, h: &Rc<Node>, vid: usize, led: ValLedger) -> usize {
        let id = self.objs.len();
        let ptr = Rc::as_ptr(h) as usize;
        let block = ptr - crate::value_offset();
        self.objs.push(ObjInfo { ptr, block, val: ValLedger { vid, ..led }, ..Default::default() });
        self.by_ptr.insert(ptr, id);
        self.by_block.insert(block, id);
        self.vid_obj.insert(vid, id);
        id
    }
}

fn idx(len: usize, i: usize) -> usize {
    i % len
}

/// Execute one user-level action, at top level (`me == None`) or from inside the destructor of `me`.
pub fn apply_act(a: &Act, me: Option<&Node>) {
    if with(|w| w.stop.is_some()) {
        return;
    }
    match *a {
        Act::New => {
            let vid = with(|w| {
                let v = w.next_vid;
                w.next_vid += 1;
                v
            });
            let h = Rc::new(Node::new(vid));
            with(|w| {
                let id = w.register(&h, vid, ValLedger::default());
                w.roots.push(h);
                w.root_ids.push(id);
            });
        }
        Act::Clone(r) => with(|w| {
            if let Some(i) = w.use_root(r) {
                // "no recorded adoption" is judged on the ledger, not on the table under test
                let oid = w.root_ids[i];
                let empty = HAS_HOOKS && w.ledger_unlinked(oid);
                let (a0, t0) = (at::ALLOC_CALLS.load(Relaxed), sh_trace_calls_now());
                let c = w.roots[i].clone();
                let (a1, t1) = (at::ALLOC_CALLS.load(Relaxed), sh_trace_calls_now());
                if empty {
                    w.c14.push((a1 - a0, t1 - t0));
                }
                let id = w.root_ids[i];
                w.roots.push(c);
                w.root_ids.push(id);
            }
        }),
        Act::Drop(r) => {
            let h = with(|w| {
                w.use_root(r).map(|i| {
                    let id = w.root_ids.remove(i);
                    w.dropped_targets.push(id);
                    let h = w.roots.remove(i);
                    // measured: non-final drops, and final drops of values that own nothing and run
                    // no script (so that nothing but the library's own drop path executes)
                    let plain_value = w.objs[id].val.held.is_empty()
                        && w.objs[id].val.weaks.is_empty()
                        && h.script.borrow().is_empty()
                        && !h.panics.get();
                    let empty = HAS_HOOKS && w.ledger_unlinked(id) && (Rc::strong_count(&h) > 1 || plain_value);
                    (h, empty)
                })
            });
            if let Some((h, empty)) = h {
                let (a0, t0) = (at::LIB_ALLOC_CALLS.load(Relaxed), sh_trace_calls_now());
                drop(h);
                let (a1, t1) = (at::LIB_ALLOC_CALLS.load(Relaxed), sh_trace_calls_now());
                if empty {
                    with(|w| w.c14.push((a1 - a0, t1 - t0)));
                }
            }
        }
        Act::Adopt(r1, r2) => with(|w| {
            let (a, b) = (w.use_root(r1), w.use_root(r2));
            if let (Some(i), Some(j)) = (a, b) {
                sh_adopt(&w.roots[i], &w.roots[j]);
                let (x, y) = (w.root_ids[i], w.root_ids[j]);
                if i == j {
                    *w.loopc.entry(x).or_insert(0) += 1;
                } else {
                    *w.adopt.entry((x, y)).or_insert(0) += 1;
                }
            }
        }),
        Act::Unadopt(r1, r2) => with(|w| {
            let (a, b) = (w.use_root(r1), w.use_root(r2));
            if let (Some(i), Some(j)) = (a, b) {
                sh_unadopt(&w.roots[i], &w.roots[j]);
                let (x, y) = (w.root_ids[i], w.root_ids[j]);
                if i == j {
                    dec_entry(&mut w.loopc, x);
                } else {
                    dec_entry(&mut w.adopt, (x, y));
                }
            }
        }),
        Act::Store(r, q) | Act::Link(r, q) => with(|w| {
            let (ra, rb) = (w.use_root(r), w.use_root(q));
            if let (Some(i), Some(j)) = (ra, rb) {
                if i == j {
                    return;
                }
                let (t, o) = (w.root_ids[i], w.root_ids[j]);
                if let Act::Link(..) = *a {
                    sh_adopt(&w.roots[j], &w.roots[i]);
                    *w.adopt.entry((o, t)).or_insert(0) += 1;
                }
                let h = w.roots.remove(i);
                w.root_ids.remove(i);
                let j2 = if j > i { j - 1 } else { j };
                w.roots[j2].out.borrow_mut().push(h);
                w.objs[o].val.held.push(t);
            }
        }),
        Act::Take(q, k) | Act::Unlink(q, k) => with(|w| {
            if let Some(j) = w.use_root(q) {
                let o = w.root_ids[j];
                let h = {
                    let mut out = w.roots[j].out.borrow_mut();
                    if out.is_empty() {
                        None
                    } else {
                        let kk = idx(out.len(), k);
                        Some((out.remove(kk), kk))
                    }
                };
                if let Some((h, kk)) = h {
                    let t = w.objs[o].val.held.remove(kk);
                    if let Act::Unlink(..) = *a {
                        if w.is_live(t) {
                            sh_unadopt(&w.roots[j], &h);
                            dec_entry(&mut w.adopt, (o, t));
                        } else if w.stop.is_none() {
                            w.stop = Some(format!("dangling{}", t));
                        }
                    }
                    w.roots.push(h);
                    w.root_ids.push(t);
                }
            }
        }),
        Act::Downgrade(r) => with(|w| {
            if let Some(i) = w.use_root(r) {
                let d = Rc::downgrade(&w.roots[i]);
                let id = w.root_ids[i];
                w.wroots.push(d);
                w.wroot_ids.push(id);
            }
        }),
        Act::Upgrade(wi) => with(|w| {
            if w.wroots.is_empty() {
                return;
            }
            let i = idx(w.wroots.len(), wi);
            let id = w.wroot_ids[i];
            match w.wroots[i].upgrade() {
                Some(h) => {
                    w.rets.push(1);
                    w.roots.push(h);
                    w.root_ids.push(id);
                }
                None => w.rets.push(0),
            }
        }),
        Act::CloneWeak(wi) => with(|w| {
            if w.wroots.is_empty() {
                return;
            }
            let i = idx(w.wroots.len(), wi);
            let c = w.wroots[i].clone();
            let id = w.wroot_ids[i];
            w.wroots.push(c);
            w.wroot_ids.push(id);
        }),
        Act::WeakRaw(wi) => with(|w| {
            // `Weak::as_ptr`, `into_raw`, `from_raw`: an identity on the handle (no action of the model; the driver
            // treats the line as a no-op); the pointer must be the object's value address whether or not it is alive
            if w.wroots.is_empty() {
                return;
            }
            let i = idx(w.wroots.len(), wi);
            let id = w.wroot_ids[i];
            let want = w.objs[id].ptr;
            let before = w.wroots[i].as_ptr() as usize;
            let wk = w.wroots.remove(i);
            let raw = wk.into_raw();
            let back = unsafe { Weak::from_raw(raw) };
            let after = back.as_ptr() as usize;
            if before != want || raw as usize != want || after != want {
                w.act_fails.push(format!(
                    "O6:weak-{}-to-object-{}-as_ptr-{:x}-into_raw-{:x}-after-round-trip-{:x}-value-at-{:x}",
                    i, id, before, raw as usize, after, want
                ));
            }
            w.wroots.insert(i, back);
        }),
        Act::DropWeak(wi) => {
            let h = with(|w| {
                if w.wroots.is_empty() {
                    return None;
                }
                let i = idx(w.wroots.len(), wi);
                w.wroot_ids.remove(i);
                Some(w.wroots.remove(i))
            });
            drop(h);
        }
        Act::StoreWeak(wi, q) => with(|w| {
            if w.wroots.is_empty() {
                return;
            }
            let i = idx(w.wroots.len(), wi);
            if let Some(j) = w.use_root(q) {
                let t = w.wroot_ids.remove(i);
                let h = w.wroots.remove(i);
                let o = w.root_ids[j];
                w.roots[j].wk.borrow_mut().push(h);
                w.objs[o].val.weaks.push(t);
            }
        }),
        Act::TryUnwrap(r) => {
            let taken = with(|w| {
                w.use_root(r).map(|i| {
                    let id = w.root_ids.remove(i);
                    (i, id, w.roots.remove(i))
                })
            });
            if let Some((i, id, h)) = taken {
                match Rc::try_unwrap(h) {
                    Ok(v) => with(|w| {
                        w.rets.push(1);
                        w.vals.push(Box::new(v));
                        let led = std::mem::take(&mut w.objs[id].val);
                        w.vid_obj.remove(&led.vid);
                        w.val_led.push(led);
                        w.objs[id].gone = true;
                        w.purge_ledger(id);
                    }),
                    Err(h) => with(|w| {
                        w.rets.push(0);
                        w.roots.insert(i, h);
                        w.root_ids.insert(i, id);
                    }),
                }
            }
        }
        Act::DropValue(i) => {
            let v = with(|w| {
                if w.vals.is_empty() {
                    return None;
                }
                let i = idx(w.vals.len(), i);
                w.val_led.remove(i);
                Some(w.vals.remove(i))
            });
            drop(v);
        }
        Act::MakeMut(r) => {
            let taken = with(|w| {
                w.use_root(r).map(|i| {
                    let id = w.root_ids.remove(i);
                    (i, id, w.roots.remove(i))
                })
            });
            if let Some((i, id, mut h)) = taken {
                let before = Rc::as_ptr(&h) as usize;
                let vid_before = h.vid;
                let (sc, wc) = (Rc::strong_count(&h), Rc::weak_count(&h));
                let old_led = with(|w| w.objs[id].val.clone());
                let res = catch_unwind(AssertUnwindSafe(|| {
                    let _ = Rc::make_mut(&mut h);
                }));
                let after = Rc::as_ptr(&h) as usize;
                with(|w| {
                    // which branch did the library take?  a clone has a fresh vid, a stolen value keeps it
                    let took = if after == before { 0 } else if h.vid != vid_before { 2 } else { 1 };
                    let want = if sc != 1 { 2 } else if wc != 0 { 1 } else { 0 };
                    if took != want && res.is_ok() {
                        w.errs.push(format!("O12:make_mut-took-branch-{}-expected-{}-(strong-{}-weak-{})", took, want, sc, wc));
                    }
                    let new_id = if after != before {
                        let vid = h.vid;
                        if took == 2 {
                            // cloned: the clone holds copies of every handle
                            w.rets.push(2);
                            w.dropped_targets.push(id);
                            // a shallow clone holds no handles
                            let led = if h.shallow.get() { ValLedger::default() } else { old_led.clone() };
                            let nid = w.register(&h, vid, led);
                            nid
                        } else {
                            // stolen: the value moved, the old allocation was given up
                            w.rets.push(1);
                            let led = std::mem::take(&mut w.objs[id].val);
                            w.objs[id].gone = true;
                            w.purge_ledger(id);
                            w.vid_obj.remove(&led.vid);
                            w.register(&h, vid, led)
                        }
                    } else {
                        let _ = wc;
                        w.rets.push(0);
                        id
                    };
                    let at_i = i.min(w.roots.len());
                    w.roots.insert(at_i, h);
                    w.root_ids.insert(at_i, new_id);
                });
                if let Err(p) = res {
                    resume_unwind(p);
                }
            }
        }
        Act::MakeMutField(q, k) => {
            // the real thing: `Rc::make_mut(&mut value.out[k])` on a handle that stays inside the holder's value.
            // The model runs it as `take q k; makeMut <taken>; store <taken> q` (lean/Cactus/Driver.lean), so the
            // slot is moved to the end of the vector afterwards (a move of an `Rc` the library cannot see).
            // A slot designating the holder itself is skipped on both sides (the expansion is not faithful there).
            let loc = with(|w| {
                let j = w.use_root(q)?;
                let o = w.root_ids[j];
                let holder: *const Node = Rc::as_ptr(&w.roots[j]);
                let mut out = w.roots[j].out.borrow_mut();
                if out.is_empty() {
                    return None;
                }
                let kk = idx(out.len(), k);
                let t = w.objs[o].val.held[kk];
                if t == o {
                    return None;
                }
                if !w.is_live(t) {
                    if w.stop.is_none() {
                        w.stop = Some(format!("dangling{}", t));
                    }
                    return None;
                }
                out.reserve(64);
                let slot: *mut Rc<Node> = &mut out[kk];
                Some((o, kk, t, slot, holder))
            });
            if let Some((o, kk, id, slot, holder)) = loc {
                // no `RefCell` guard of the holder is alive here: `Clone for Node` may read any field vector
                let h: &mut Rc<Node> = unsafe { &mut *slot };
                let before = Rc::as_ptr(h) as usize;
                let vid_before = h.vid;
                let (sc, wc) = (Rc::strong_count(h), Rc::weak_count(h));
                let old_led = with(|w| w.objs[id].val.clone());
                let res = catch_unwind(AssertUnwindSafe(|| {
                    let _ = Rc::make_mut(unsafe { &mut *slot });
                }));
                let h: &Rc<Node> = unsafe { &*slot };
                let after = Rc::as_ptr(h) as usize;
                with(|w| {
                    let took = if after == before { 0 } else if h.vid != vid_before { 2 } else { 1 };
                    let want = if sc != 1 { 2 } else if wc != 0 { 1 } else { 0 };
                    if took != want && res.is_ok() {
                        w.errs.push(format!("O12:make_mut-in-place-took-branch-{}-expected-{}-(strong-{}-weak-{})", took, want, sc, wc));
                    }
                    let new_id = if after != before {
                        let vid = h.vid;
                        if took == 2 {
                            w.rets.push(2);
                            w.dropped_targets.push(id);
                            let led = if h.shallow.get() { ValLedger::default() } else { old_led.clone() };
                            w.register(h, vid, led)
                        } else {
                            w.rets.push(1);
                            let led = std::mem::take(&mut w.objs[id].val);
                            w.objs[id].gone = true;
                            w.purge_ledger(id);
                            w.vid_obj.remove(&led.vid);
                            w.register(h, vid, led)
                        }
                    } else {
                        w.rets.push(0);
                        id
                    };
                    let hd: &Node = unsafe { &*holder };
                    let mut out = hd.out.borrow_mut();
                    let moved = out.remove(kk);
                    out.push(moved);
                    w.objs[o].val.held.remove(kk);
                    w.objs[o].val.held.push(new_id);
                });
                if let Err(p) = res {
                    resume_unwind(p);
                }
            }
        }
        Act::GetMut(r) => with(|w| {
            if let Some(i) = w.use_root(r) {
                let (sc, wc) = (Rc::strong_count(&w.roots[i]), Rc::weak_count(&w.roots[i]));
                let b = Rc::get_mut(&mut w.roots[i]).is_some();
                // exclusive access may be granted exactly to the only handle of any kind (adoptions do not count)
                if b != (sc == 1 && wc == 0) {
                    w.act_fails.push(format!("O12:get_mut-{}-with-strong-{}-weak-{}", if b { "granted" } else { "refused" }, sc, wc));
                }
                w.rets.push(b as usize);
            }
        }),
        Act::IntoRaw(r) => with(|w| {
            if let Some(i) = w.use_root(r) {
                let id = w.root_ids.remove(i);
                let h = w.roots.remove(i);
                w.raws.push(Rc::into_raw(h));
                w.raw_ids.push(id);
            }
        }),
        Act::FromRaw(i) => with(|w| {
            if w.raws.is_empty() {
                return;
            }
            let i = idx(w.raws.len(), i);
            let p = w.raws.remove(i);
            let id = w.raw_ids.remove(i);
            w.roots.push(unsafe { Rc::from_raw(p) });
            w.root_ids.push(id);
        }),
        Act::IncStrong(i) => with(|w| {
            if w.raws.is_empty() {
                return;
            }
            let i = idx(w.raws.len(), i);
            let id = w.raw_ids[i];
            if !w.is_live(id) {
                if w.stop.is_none() {
                    w.stop = Some(format!("dangling{}", id));
                }
                return;
            }
            let p = w.raws[i];
            unsafe { Rc::increment_strong_count(p) };
            w.raws.push(p);
            w.raw_ids.push(id);
        }),
        Act::DecStrong(i) => {
            let p = with(|w| {
                if w.raws.is_empty() {
                    return None;
                }
                let i = idx(w.raws.len(), i);
                let id = w.raw_ids[i];
                if !w.is_live(id) {
                    if w.stop.is_none() {
                        w.stop = Some(format!("dangling{}", id));
                    }
                    return None;
                }
                w.raw_ids.remove(i);
                w.dropped_targets.push(id);
                Some(w.raws.remove(i))
            });
            if let Some(p) = p {
                unsafe { Rc::decrement_strong_count(p) };
            }
        }
        Act::PtrEq(r1, r2) => with(|w| {
            let (a, b) = (w.use_root(r1), w.use_root(r2));
            if let (Some(i), Some(j)) = (a, b) {
                let e = Rc::ptr_eq(&w.roots[i], &w.roots[j]);
                let e2 = Rc::as_ptr(&w.roots[i]) == Rc::as_ptr(&w.roots[j]);
                if e != e2 {
                    w.errs.push("ptr_eq/as_ptr disagree".into());
                }
                w.rets.push(e as usize);
            }
        }),
        Act::Counts(r) => with(|w| {
            if let Some(i) = w.use_root(r) {
                w.rets.push(Rc::strong_count(&w.roots[i]));
                w.rets.push(Rc::weak_count(&w.roots[i]));
            }
        }),
        Act::WCounts(wi) => with(|w| {
            if w.wroots.is_empty() {
                return;
            }
            let i = idx(w.wroots.len(), wi);
            w.rets.push(w.wroots[i].strong_count());
            w.rets.push(w.wroots[i].weak_count());
        }),
        Act::SetPanic(q) => with(|w| {
            if let Some(j) = w.use_root(q) {
                w.roots[j].panics.set(true);
            }
        }),
        Act::SetShallow(q) => with(|w| {
            if let Some(j) = w.use_root(q) {
                w.roots[j].shallow.set(true);
            }
        }),
        Act::UpgradeField(k) => {
            if let Some(me) = me {
                let up = {
                    let wk = me.wk.borrow();
                    if wk.is_empty() {
                        None
                    } else {
                        let kk = idx(wk.len(), k);
                        Some((wk[kk].upgrade(), kk))
                    }
                };
                if let Some((u, kk)) = up {
                    with(|w| {
                        // the ledger of a value being destroyed was already cleared; recover the
                        // target from the pointer
                        match u {
                            Some(h) => {
                                w.rets.push(1);
                                let id = w.by_ptr.get(&(Rc::as_ptr(&h) as usize)).copied().unwrap_or(usize::MAX);
                                w.roots.push(h);
                                w.root_ids.push(id);
                            }
                            None => w.rets.push(0),
                        }
                        let _ = kk;
                    });
                }
            }
        }
        Act::DowngradeField(k) => {
            if let Some(me) = me {
                let d = {
                    let out = me.out.borrow();
                    if out.is_empty() {
                        None
                    } else {
                        let kk = idx(out.len(), k);
                        Some((Rc::downgrade(&out[kk]), Rc::as_ptr(&out[kk]) as usize))
                    }
                };
                if let Some((wk, p)) = d {
                    with(|w| {
                        let id = w.by_ptr.get(&p).copied().unwrap_or(usize::MAX);
                        w.wroots.push(wk);
                        w.wroot_ids.push(id);
                    });
                }
            }
        }
        Act::CloneField(k) => {
            if let Some(me) = me {
                let c = {
                    let out = me.out.borrow();
                    if out.is_empty() {
                        None
                    } else {
                        let kk = idx(out.len(), k);
                        crate::flush_out();
                        Some(out[kk].clone())
                    }
                };
                if let Some(h) = c {
                    with(|w| {
                        let id = w.by_ptr.get(&(Rc::as_ptr(&h) as usize)).copied().unwrap_or(usize::MAX);
                        w.roots.push(h);
                        w.root_ids.push(id);
                    });
                }
            }
        }
    }
}

fn dec_entry<K: std::hash::Hash + Eq + Copy>(m: &mut HashMap<K, usize>, k: K) {
    if let Some(c) = m.get_mut(&k) {
        if *c <= 1 {
            m.remove(&k);
        } else {
            *c -= 1;
        }
    }
}

fn apply_op(op: &Op) {
    match op {
        Op::Act(a) => apply_act(a, None),
        Op::SetScript(q, acts) => with(|w| {
            if let Some(j) = w.use_root(*q) {
                *w.roots[j].script.borrow_mut() = acts.clone();
            }
        }),
        Op::Shuffle(q, _) => with(|w| {
            let _ = w.use_root(*q);
        }),
        Op::LeakWorld => with(|w| {
            if w.stop.is_none() {
                w.stop = Some("leakworld".into());
            }
        }),
    }
}

fn join(v: &[usize]) -> String {
    let mut s = String::new();
    for (i, x) in v.iter().enumerate() {
        if i > 0 {
            s.push(',');
        }
        let _ = write!(s, "{}", x);
    }
    s
}

fn sorted(v: &[usize]) -> Vec<usize> {
    let mut v = v.to_vec();
    v.sort_unstable();
    v
}

/// Per-op oracle evaluation on the shadow ledger (knows nothing about the Lean model).
fn oracles(w: &mut World, pre_lower: &[usize], out: &mut String) {
    let n = w.objs.len();
    let alive = |w: &World, o: usize| !w.objs[o].destroyed && !w.objs[o].gone;
    // handle counts from the ledger
    let mut strong = vec![0usize; n];
    let mut weak = vec![0usize; n];
    let mut ext = vec![0usize; n];
    for &o in w.root_ids.iter().chain(w.raw_ids.iter()) {
        if o < n {
            strong[o] += 1;
            ext[o] += 1;
        }
    }
    for &o in &w.wroot_ids {
        if o < n {
            weak[o] += 1;
        }
    }
    for v in &w.val_led {
        for &t in &v.held {
            strong[t] += 1;
            ext[t] += 1;
        }
        for &t in &v.weaks {
            weak[t] += 1;
        }
    }
    for o in 0..n {
        if alive(w, o) {
            for &t in &w.objs[o].val.held {
                strong[t] += 1;
            }
            for &t in &w.objs[o].val.weaks {
                weak[t] += 1;
            }
        }
    }
    // contract P: recorded adoptions never exceed held handles
    let mut contract_now = true;
    for (&(a, b), &c) in &w.adopt {
        if alive(w, a) {
            let h = w.objs[a].val.held.iter().filter(|&&t| t == b).count();
            if c > h {
                contract_now = false;
            }
        }
    }
    let mut fails: Vec<String> = Vec::new();
    fails.extend(w.act_fails.drain(..));
    // O1: everything reachable from the program is alive and intact
    let mut reach = vec![false; n];
    let mut stack: Vec<usize> = (0..n).filter(|&o| ext[o] > 0).collect();
    while let Some(o) = stack.pop() {
        if reach[o] {
            continue;
        }
        reach[o] = true;
        if alive(w, o) {
            for &t in &w.objs[o].val.held {
                stack.push(t);
            }
        }
    }
    for o in 0..n {
        if reach[o] && (w.objs[o].destroyed || w.objs[o].freed) {
            fails.push(format!("O1:reachable-object-{}-destroyed", o));
            // the same event read as a count (C06): handles to `o` exist — the ledger counts `strong[o]` of them,
            // held by the program or by live values — yet its strong count reads 0.  Only under the adoption
            // contract (as O1 itself); m94 drifts a Forward count until a held object is decremented to zero
            if strong[o] > 0 && contract_now && w.contract_ok {
                fails.push(format!("O6:held-object-{}-destroyed-with-{}-handles", o, strong[o]));
            }
        }
    }
    for (i, h) in w.roots.iter().enumerate() {
        let o = w.root_ids[i];
        if o < n && !w.objs[o].freed && !w.objs[o].destroyed && !w.objs[o].gone {
            if h.canary.get() != CANARY_LIVE || h.vid != w.objs[o].val.vid {
                fails.push(format!("O1:deref-root-{}-corrupt", i));
            }
        }
    }
    // O2: at most one destruction per value, at most one release per allocation
    for (&vid, &c) in &w.destroyed_vids {
        if c > 1 {
            fails.push(format!("O2:vid-{}-destroyed-{}-times", vid, c));
        }
    }
    if at::DOUBLE_FREE.load(Relaxed) > 0 {
        fails.push("O2:double-free".into());
    }
    if HAS_HOOKS {
        for o in 0..n {
            if w.objs[o].freed {
                if weak[o] > 0 {
                    fails.push(format!("O5:object-{}-released-under-{}-weak", o, weak[o]));
                }
                continue;
            }
            let (s, wk) = unsafe { sh_peek(w.objs[o].ptr as *const Node) }.unwrap();
            if alive(w, o) && !w.any_panic {
                // O6: counts are exact
                if s != strong[o] {
                    fails.push(format!("O6:object-{}-strong-{}-ledger-{}", o, s, strong[o]));
                }
                if wk != weak[o] + 1 {
                    fails.push(format!("O6:object-{}-weak-{}-ledger-{}", o, wk, weak[o] + 1));
                }
                // O8: table = adoption ledger, both ends
                if s != 0 && s != usize::MAX {
                    let mut want: Vec<(u8, usize, usize)> = Vec::new();
                    for (&(a, b), &c) in &w.adopt {
                        if a == o {
                            want.push((0, b, c));
                        }
                        if b == o {
                            want.push((1, a, c));
                        }
                    }
                    if let Some(&c) = w.loopc.get(&o) {
                        want.push((2, o, c));
                    }
                    want.sort_unstable();
                    let mut got: Vec<(u8, usize, usize)> = unsafe { sh_links(w.objs[o].ptr as *const Node) }
                        .unwrap()
                        .into_iter()
                        .map(|(p, k, c)| (k, w.by_ptr.get(&p).copied().unwrap_or(usize::MAX), c))
                        .collect();
                    got.sort_unstable();
                    if got != want {
                        fails.push(format!("O8:object-{}-table-{:?}-ledger-{:?}", o, got, want));
                    }
                }
            }
            if (w.objs[o].destroyed || w.objs[o].gone) && !w.any_panic {
                // O4/O5: a destroyed object with no Weak must be released; with Weak it must not
                if weak[o] == 0 {
                    fails.push(format!("O4:object-{}-dead-no-weak-not-released", o));
                }
            }
        }
    }
    // O5/O6 through the public API: every handle the program holds reports the ledger's counts;
    // a Weak to a destroyed object reports 0/0 on every teardown path
    for (i, h) in w.roots.iter().enumerate() {
        let o = w.root_ids[i];
        if o < n && alive(w, o) && !w.objs[o].freed && w.is_live(o) {
            let (sc, wc) = (Rc::strong_count(h), Rc::weak_count(h));
            if sc != strong[o] || wc != weak[o] {
                fails.push(format!("O6:root-{}-reports-{}/{}-ledger-{}/{}", i, sc, wc, strong[o], weak[o]));
            }
        }
    }
    for (i, h) in w.wroots.iter().enumerate() {
        let o = w.wroot_ids[i];
        if o < n && !w.objs[o].freed {
            let (sc, wc) = (h.strong_count(), h.weak_count());
            if alive(w, o) {
                if sc != strong[o] || wc != weak[o] {
                    fails.push(format!("O5:weak-{}-reports-{}/{}-ledger-{}/{}", i, sc, wc, strong[o], weak[o]));
                }
            } else if sc != 0 || wc != 0 {
                fails.push(format!("O5:weak-{}-to-destroyed-object-{}-reports-{}/{}", i, o, sc, wc));
            }
        }
    }
    // O3: lower bound on what this op had to destroy
    for &o in pre_lower {
        if !w.objs[o].destroyed {
            fails.push(format!("O3:object-{}-should-have-been-destroyed", o));
        }
    }
    for &(a, t) in &w.c14 {
        if a > 0 || t > 0 {
            fails.push(format!("O14:empty-table-call-allocs-{}-traces-{}", a, t));
        }
    }
    if !contract_now && w.contract_ok {
        w.contract_ok = false;
        w.broken_by = w.cur_op.clone();
    }
    let _ = write!(
        out,
        "orc contract={} broken_by={} c14={} fail={}",
        w.contract_ok as u8,
        if w.broken_by.is_empty() { "-" } else { &w.broken_by },
        w.c14.len(),
        fails.join(";")
    );
}

/// C03 lower bound, computed on the ledger *before* the op runs: the objects that the op
/// `drop`-ping a handle to `x` must destroy (group rule at the top-level drop, then the
/// last-handle cascade).
fn lower_bound(w: &World, x: usize) -> (Vec<usize>, bool) {
    let n = w.objs.len();
    let alive = |o: usize| !w.objs[o].destroyed && !w.objs[o].gone;
    let mut ext = vec![0usize; n];
    for &o in w.root_ids.iter().chain(w.raw_ids.iter()) {
        ext[o] += 1;
    }
    for v in &w.val_led {
        for &t in &v.held {
            ext[t] += 1;
        }
    }
    if ext[x] == 0 {
        return (vec![], false);
    }
    ext[x] -= 1;
    let held = |a: usize, b: usize| w.objs[a].val.held.iter().filter(|&&t| t == b).count();
    let mut total = ext.clone();
    for a in 0..n {
        if alive(a) {
            for &t in &w.objs[a].val.held {
                total[t] += 1;
            }
        }
    }
    let mut dead = vec![false; n];
    // group rule
    let mut s = vec![false; n];
    let mut st = vec![x];
    while let Some(o) = st.pop() {
        if s[o] {
            continue;
        }
        s[o] = true;
        for (&(a, b), &c) in &w.adopt {
            if a == o && c > 0 {
                st.push(b);
            }
        }
    }
    let mut ok = true;
    // the drop takes the zero-count path of `Rc::drop` (no trace from `x`) although `x` has adoptions
    let zero_path = total[x] == 0 && w.adopt.iter().any(|(&(a, b), _)| a == x || b == x);
    for m in 0..n {
        if !s[m] {
            continue;
        }
        if !alive(m) || ext[m] > 0 {
            ok = false;
        }
        for a in 0..n {
            if !alive(a) {
                continue;
            }
            let h = held(a, m);
            let f = w.adopt.get(&(a, m)).copied().unwrap_or(0);
            if s[a] {
                if h > f {
                    ok = false;
                }
            } else if h > 0 || f > 0 {
                ok = false;
            }
        }
    }
    let mut work: Vec<usize> = Vec::new();
    if ok {
        for m in 0..n {
            if s[m] {
                dead[m] = true;
                work.push(m);
            }
        }
    } else if total[x] == 0 && alive(x) {
        dead[x] = true;
        work.push(x);
    }
    // cascade: handles owned by destroyed values disappear
    while let Some(d) = work.pop() {
        for &t in &w.objs[d].val.held {
            if total[t] > 0 {
                total[t] -= 1;
            }
            if total[t] == 0 && !dead[t] && alive(t) {
                dead[t] = true;
                work.push(t);
            }
        }
    }
    ((0..n).filter(|&o| dead[o]).collect(), zero_path)
}

pub struct CaseResult {
    pub ops_run: usize,
}

/// Run one case (a list of op lines) and append its transcript to `out`.
pub fn run_case(name: &str, ops: &[(String, Op)], cleanup: bool, out: &mut String) -> CaseResult {
    W.with(|w| *w.borrow_mut() = World::default());
    with(|w| w.contract_ok = true);
    let _ = sh_trace_counters();
    at::drain_events(|_, _| {});
    let _ = writeln!(out, "case {}", name);
    let bytes0 = at::LIVE_BYTES.load(Relaxed);
    let boxes0 = at::LIVE_RCBOX.load(Relaxed);
    let ops_run = run_ops(ops, cleanup, out, boxes0, name);
    // tear the world down without running library code on dangling handles: if the case was
    // stopped the remaining handles are leaked on purpose
    let stopped = with(|w| {
        let dangling = w.root_ids.iter().chain(w.raw_ids.iter()).any(|&o| o >= w.objs.len() || !w.is_live(o))
            || w.val_led.iter().any(|v| v.held.iter().any(|&o| !w.is_live(o)));
        w.stop.is_some() || dangling || !w.contract_ok
    });
    let world = W.with(|w| std::mem::take(&mut *w.borrow_mut()));
    let all_dead = world.objs.iter().all(|o| o.destroyed || o.gone);
    let any_panic = world.any_panic;
    if stopped {
        std::mem::forget(world);
    } else {
        let r = catch_unwind(AssertUnwindSafe(move || drop(world)));
        if r.is_err() {
            let _ = writeln!(out, "note teardown-panic");
        }
    }
    at::drain_events(|_, _| {});
    W.with(|w| *w.borrow_mut() = World::default());
    let leak = at::LIVE_BYTES.load(Relaxed) - bytes0;
    let boxes = at::LIVE_RCBOX.load(Relaxed) - boxes0;
    let _ = writeln!(
        out,
        "end leak_bytes={} live_rcbox={} all_dead={} stopped={} panicked={}",
        leak, boxes, all_dead as u8, stopped as u8, any_panic as u8
    );
    CaseResult { ops_run }
}

struct Perturb {
    state: u64,
    blocks: Vec<*mut u8>,
    layout: std::alloc::Layout,
}

impl Perturb {
    fn new(name: &str) -> Option<Self> {
        let seed: u64 = std::env::var("HEXEC_PERTURB").ok()?.parse().ok()?;
        let mut h = seed ^ 0x9E37_79B9_7F4A_7C15;
        for b in name.bytes() {
            h = (h ^ b as u64).wrapping_mul(0x100_0000_01B3);
        }
        let size = at::RCBOX_SIZE.load(Relaxed).max(64);
        Some(Perturb { state: h | 1, blocks: Vec::with_capacity(4096), layout: std::alloc::Layout::from_size_align(size, 64).unwrap() })
    }
    fn next(&mut self) -> u64 {
        self.state ^= self.state << 13;
        self.state ^= self.state >> 7;
        self.state ^= self.state << 17;
        self.state
    }
    /// shift the addresses the next `RcBox` allocations will get
    fn stir(&mut self) {
        use std::alloc::GlobalAlloc;
        let k = self.next() % 4;
        for _ in 0..k {
            if self.blocks.len() < 4000 {
                let p = unsafe { std::alloc::System.alloc(self.layout) };
                self.blocks.push(p);
            }
        }
        if self.next() % 3 == 0 && !self.blocks.is_empty() {
            let i = (self.next() as usize) % self.blocks.len();
            let p = self.blocks.swap_remove(i);
            unsafe { std::alloc::System.dealloc(p, self.layout) };
        }
    }
}

impl Drop for Perturb {
    fn drop(&mut self) {
        use std::alloc::GlobalAlloc;
        for &p in &self.blocks {
            unsafe { std::alloc::System.dealloc(p, self.layout) };
        }
    }
}

fn run_ops(ops: &[(String, Op)], cleanup: bool, out: &mut String, boxes0: isize, name: &str) -> usize {
    let mut perturb = Perturb::new(name);
    let df0 = at::DOUBLE_FREE.load(Relaxed);
    let mut ops_run = 0;
    let mut queue: Vec<(String, Op)> = ops.to_vec();
    let mut qi = 0;
    let mut cleaning = false;
    loop {
        if qi >= queue.len() {
            if cleanup && !cleaning {
                cleaning = true;
            }
            if cleaning {
                // drop everything the program still holds, one op at a time
                let next = with(|w| {
                    if !w.roots.is_empty() {
                        Some(Act::Drop(0))
                    } else if !w.raws.is_empty() {
                        Some(Act::DecStrong(0))
                    } else if !w.vals.is_empty() {
                        Some(Act::DropValue(0))
                    } else if !w.wroots.is_empty() {
                        Some(Act::DropWeak(0))
                    } else {
                        None
                    }
                });
                match next {
                    Some(a) => queue.push((a.to_text(), Op::Act(a))),
                    None => break,
                }
            } else {
                break;
            }
        }
        let (text, op) = queue[qi].clone();
        qi += 1;
        if let Some(p) = perturb.as_mut() {
            p.stir();
        }
        // C03 lower bound from the ledger before the op
        let (pre_lower, zero_path) = with(|w| match &op {
            Op::Act(Act::Drop(r)) if !w.roots.is_empty() && w.contract_ok && !w.any_panic => {
                let i = r % w.roots.len();
                lower_bound(w, w.root_ids[i])
            }
            Op::Act(Act::DecStrong(r)) if !w.raws.is_empty() && w.contract_ok && !w.any_panic => {
                let i = r % w.raws.len();
                lower_bound(w, w.raw_ids[i])
            }
            // `make_mut` on a shared object releases the program's handle to the original after cloning the value:
            // when the clone holds no handles (shallow `Clone`, or nothing to copy) that release is an ordinary drop
            Op::Act(Act::MakeMut(r)) if !w.roots.is_empty() && w.contract_ok && !w.any_panic => {
                let i = r % w.roots.len();
                let x = w.root_ids[i];
                let h = &w.roots[i];
                if w.is_live(x) && Rc::strong_count(h) != 1 && (h.shallow.get() || (w.objs[x].val.held.is_empty() && w.objs[x].val.weaks.is_empty())) {
                    lower_bound(w, x)
                } else {
                    (vec![], false)
                }
            }
            _ => (vec![], false),
        });
        with(|w| {
            w.cur_op = text.split_whitespace().next().unwrap_or("").to_string();
            w.dseq.clear();
            w.rets.clear();
            w.scripted_panics = 0;
            w.dropped_targets.clear();
            w.c14.clear();
        });
        let a0 = at::ALLOC_CALLS.load(Relaxed);
        let res = catch_unwind(AssertUnwindSafe(|| apply_op(&op)));
        let a1 = at::ALLOC_CALLS.load(Relaxed);
        let mut lib_panic: Option<String> = None;
        let mut scripted = false;
        if let Err(p) = res {
            if p.is::<ScriptedPanic>() {
                scripted = true;
            } else if let Some(s) = p.downcast_ref::<String>() {
                lib_panic = Some(s.clone());
            } else if let Some(s) = p.downcast_ref::<&str>() {
                lib_panic = Some((*s).to_string());
            } else {
                lib_panic = Some("unknown".into());
            }
        }
        if W.with(|w| w.try_borrow_mut().is_err()) {
            // a panic unwound through a `with` closure: cannot continue this case
            let _ = writeln!(out, "op {}", text);
            let _ = writeln!(out, "stop harness-borrow-poisoned {:?}", lib_panic);
            break;
        }
        ops_run += 1;
        let (tc, tp, tv, _ts) = sh_trace_counters();
        with(|w| {
            if scripted || lib_panic.is_some() {
                w.any_panic = true;
            }
            // releases observed by the allocator
            let mut freed: Vec<usize> = Vec::new();
            // a released block of the `RcBox<Node>` layout that was never registered as an object is not an
            // object (e.g. a `Vec<(Node, Links)>` buffer of the library that happens to have the same size and
            // alignment): not part of `F`.  Such a buffer may sit at the address of an object released earlier
            // in the same operation, hence the events are replayed in order: a block allocated during the
            // operation is "fresh" (the harness has not seen a handle to it yet) and its release is foreign.
            let mut fresh: std::collections::HashSet<usize> = std::collections::HashSet::new();
            at::drain_events(|b, is_alloc| {
                if is_alloc {
                    fresh.insert(b);
                } else if fresh.remove(&b) {
                    // foreign buffer, or an object created and released inside one operation (none of the
                    // operations of the alphabet does that)
                } else if let Some(&o) = w.by_block.get(&b) {
                    // (a second release of the same block without an allocation in between never gets here:
                    // the allocator shim refuses it and counts a double free)
                    freed.push(o);
                }
            });
            for &o in &freed {
                if o != usize::MAX {
                    w.objs[o].freed = true;
                    let (p, b) = (w.objs[o].ptr, w.objs[o].block);
                    w.by_ptr.remove(&p);
                    w.by_block.remove(&b);
                }
            }
            let mut e = String::from("-");
            if let Some(m) = &lib_panic {
                e = format!("libpanic:{}", m.replace(' ', "_"));
            } else if !w.errs.is_empty() {
                e = w.errs.join("+");
            } else if at::DOUBLE_FREE.load(Relaxed) > df0 {
                e = "doublefree".into();
            }
            let hint = join(&w.dseq).replace(',', " ");
            let _ = writeln!(out, "op {} | {}", text, hint);
            if let Some(st) = &w.stop {
                let _ = writeln!(out, "stop {}", st);
                return;
            }
            let mut heap = String::new();
            for (o, ob) in w.objs.iter().enumerate() {
                if ob.freed {
                    continue;
                }
                if !heap.is_empty() {
                    heap.push(' ');
                }
                match unsafe { sh_peek(ob.ptr as *const Node) } {
                    Some((s, wk)) => {
                        if s == usize::MAX {
                            let _ = write!(heap, "{}:U:{}:", o, wk);
                        } else {
                            let _ = write!(heap, "{}:{}:{}:", o, s, wk);
                        }
                        if s != 0 && s != usize::MAX {
                            let mut t: Vec<(u8, usize, usize)> = unsafe { sh_links(ob.ptr as *const Node) }
                                .unwrap()
                                .into_iter()
                                .map(|(p, k, c)| (k, w.by_ptr.get(&p).copied().unwrap_or(999_999), c))
                                .collect();
                            t.sort_unstable();
                            heap.push('[');
                            for (i, (k, p, c)) in t.iter().enumerate() {
                                if i > 0 {
                                    heap.push(',');
                                }
                                let _ = write!(heap, "{}{}x{}", ["f", "b", "l"][*k as usize], p, c);
                            }
                            heap.push(']');
                        } else {
                            heap.push('-');
                        }
                    }
                    None => {
                        let _ = write!(heap, "{}:?:?:?", o);
                    }
                }
            }
            let vals: Vec<usize> = w.vals.iter().map(|v| v.vid).collect();
            // the public count API through every handle the program holds
            let mut cs = String::new();
            for (i, h) in w.roots.iter().enumerate() {
                if i > 0 {
                    cs.push(',');
                }
                let o = w.root_ids[i];
                if o < w.objs.len() && w.is_live(o) {
                    let _ = write!(cs, "{}/{}", Rc::strong_count(h), Rc::weak_count(h));
                } else {
                    cs.push('x');
                }
            }
            let mut ws = String::new();
            for (i, h) in w.wroots.iter().enumerate() {
                if i > 0 {
                    ws.push(',');
                }
                let o = w.wroot_ids[i];
                if o < w.objs.len() && !w.objs[o].freed {
                    let _ = write!(ws, "{}/{}", h.strong_count(), h.weak_count());
                } else {
                    ws.push('x');
                }
            }
            let _ = writeln!(
                out,
                "obs D={} Dseq={} F={} R={} P={} T={}/{}/{} Ts=? E={} roots={} wroots={} vals={} raws={} C={} W={} heap={}",
                join(&sorted(&w.dseq)),
                join(&w.dseq),
                join(&sorted(&freed)),
                join(&w.rets),
                scripted as u8,
                tc,
                tv,
                tp,
                e,
                join(&w.root_ids),
                join(&w.wroot_ids),
                join(&vals),
                join(&w.raw_ids),
                cs,
                ws,
                heap
            );
            if HAS_HOOKS {
                oracles(w, &pre_lower, out);
                let _ = writeln!(
                    out,
                    " zx={} allocs={} live_rcbox={}",
                    zero_path as u8,
                    a1 - a0,
                    at::LIVE_RCBOX.load(Relaxed) - boxes0
                );
            }
        });
        crate::emit(out);
        if with(|w| w.stop.is_some()) {
            break;
        }
    }
    ops_run
}
