//! Counting global allocator.
//!
//! * `LIVE_BYTES` / `LIVE_BLOCKS`: everything currently allocated by the process.
//! * Blocks with alignment 64 and size `RCBOX_SIZE` are candidates for `RcBox<Node>` allocations
//!   (the payload type is `#[repr(align(64))]`): they are tracked in a fixed open-addressing table
//!   so that a double free is detected *before* it reaches the system allocator, and every release
//!   is queued for the harness.  The harness decides which candidates are objects (it registers
//!   the block of every `Rc` it gets back from the library); a candidate it never registered —
//!   e.g. a `Vec<(Node, Links)>` buffer inside the library that happens to have the same layout —
//!   is not an object and its release is not part of the observation.
//! The allocator never allocates itself.

use std::alloc::{GlobalAlloc, Layout, System};
use std::sync::atomic::{AtomicBool, AtomicIsize, AtomicUsize, Ordering::Relaxed};

pub static LIVE_BYTES: AtomicIsize = AtomicIsize::new(0);
pub static LIVE_BLOCKS: AtomicIsize = AtomicIsize::new(0);
pub static ALLOC_CALLS: AtomicUsize = AtomicUsize::new(0);
/// allocations made while no user destructor body of the harness payload is running
pub static LIB_ALLOC_CALLS: AtomicUsize = AtomicUsize::new(0);
pub static USER_DEPTH: AtomicUsize = AtomicUsize::new(0);
pub static RCBOX_SIZE: AtomicUsize = AtomicUsize::new(0);
pub static LAST_A64_ADDR: AtomicUsize = AtomicUsize::new(0);
pub static LAST_A64_SIZE: AtomicUsize = AtomicUsize::new(0);
pub static DOUBLE_FREE: AtomicUsize = AtomicUsize::new(0);
pub static TRACK: AtomicBool = AtomicBool::new(true);

const SLOTS: usize = 1 << 21;
const TOMB: usize = 1;
static LIVE_SET: [AtomicUsize; SLOTS] = [const { AtomicUsize::new(0) }; SLOTS];
pub static LIVE_RCBOX: AtomicIsize = AtomicIsize::new(0);

const QCAP: usize = 1 << 21;
static FREED_Q: [AtomicUsize; QCAP] = [const { AtomicUsize::new(0) }; QCAP];
static FREED_HEAD: AtomicUsize = AtomicUsize::new(0);
static FREED_TAIL: AtomicUsize = AtomicUsize::new(0);

fn slot(addr: usize) -> usize {
    (addr >> 6).wrapping_mul(0x9E37_79B9_7F4A_7C15) >> (64 - 21)
}

fn live_insert(addr: usize) {
    let mut i = slot(addr);
    loop {
        let v = LIVE_SET[i].load(Relaxed);
        if v == 0 || v == TOMB {
            LIVE_SET[i].store(addr, Relaxed);
            return;
        }
        i = (i + 1) & (SLOTS - 1);
    }
}

fn live_remove(addr: usize) -> bool {
    let mut i = slot(addr);
    loop {
        let v = LIVE_SET[i].load(Relaxed);
        if v == 0 {
            return false;
        }
        if v == addr {
            LIVE_SET[i].store(TOMB, Relaxed);
            return true;
        }
        i = (i + 1) & (SLOTS - 1);
    }
}

pub fn is_live_rcbox(addr: usize) -> bool {
    let mut i = slot(addr);
    loop {
        let v = LIVE_SET[i].load(Relaxed);
        if v == 0 {
            return false;
        }
        if v == addr {
            return true;
        }
        i = (i + 1) & (SLOTS - 1);
    }
}

/// Drain the queue of candidate-block events in the order they happened: `f(addr, true)` for an
/// allocation, `f(addr, false)` for a release.  (Blocks are 64-aligned, bit 0 tags allocations.)
/// The order matters: a buffer of the library with the `RcBox<Node>` layout may be allocated at the
/// address of an object released earlier in the same operation.
pub fn drain_events(mut f: impl FnMut(usize, bool)) {
    loop {
        let t = FREED_TAIL.load(Relaxed);
        if t == FREED_HEAD.load(Relaxed) {
            return;
        }
        let a = FREED_Q[t & (QCAP - 1)].load(Relaxed);
        FREED_TAIL.store(t + 1, Relaxed);
        f(a & !1, a & 1 == 1);
    }
}

fn push_event(v: usize) {
    let h = FREED_HEAD.load(Relaxed);
    FREED_Q[h & (QCAP - 1)].store(v, Relaxed);
    FREED_HEAD.store(h + 1, Relaxed);
}

pub struct Tracking;

unsafe impl GlobalAlloc for Tracking {
    unsafe fn alloc(&self, layout: Layout) -> *mut u8 {
        let p = System.alloc(layout);
        if !p.is_null() {
            LIVE_BYTES.fetch_add(layout.size() as isize, Relaxed);
            LIVE_BLOCKS.fetch_add(1, Relaxed);
            ALLOC_CALLS.fetch_add(1, Relaxed);
            if USER_DEPTH.load(Relaxed) == 0 {
                LIB_ALLOC_CALLS.fetch_add(1, Relaxed);
            }
            if layout.align() == 64 {
                LAST_A64_ADDR.store(p as usize, Relaxed);
                LAST_A64_SIZE.store(layout.size(), Relaxed);
                if TRACK.load(Relaxed) && layout.size() == RCBOX_SIZE.load(Relaxed) {
                    live_insert(p as usize);
                    LIVE_RCBOX.fetch_add(1, Relaxed);
                    push_event(p as usize | 1);
                }
            }
        }
        p
    }

    unsafe fn dealloc(&self, p: *mut u8, layout: Layout) {
        if layout.align() == 64 && TRACK.load(Relaxed) && layout.size() == RCBOX_SIZE.load(Relaxed) {
            if !live_remove(p as usize) {
                // double free (or free of a block we never saw): do not hand it to the system
                DOUBLE_FREE.fetch_add(1, Relaxed);
                return;
            }
            LIVE_RCBOX.fetch_sub(1, Relaxed);
            push_event(p as usize);
        }
        LIVE_BYTES.fetch_sub(layout.size() as isize, Relaxed);
        LIVE_BLOCKS.fetch_sub(1, Relaxed);
        System.dealloc(p, layout);
    }

    unsafe fn realloc(&self, p: *mut u8, layout: Layout, new_size: usize) -> *mut u8 {
        // a growing/shrinking buffer that passes through the `RcBox<Node>` layout: keep the live set
        // consistent (treated as release of the old block and allocation of the new one)
        let tracked = layout.align() == 64 && TRACK.load(Relaxed);
        if tracked && layout.size() == RCBOX_SIZE.load(Relaxed) && live_remove(p as usize) {
            LIVE_RCBOX.fetch_sub(1, Relaxed);
            push_event(p as usize);
        }
        let q = System.realloc(p, layout, new_size);
        if q.is_null() {
            if tracked && layout.size() == RCBOX_SIZE.load(Relaxed) {
                live_insert(p as usize);
                LIVE_RCBOX.fetch_add(1, Relaxed);
                push_event(p as usize | 1);
            }
        } else if tracked && new_size == RCBOX_SIZE.load(Relaxed) {
            live_insert(q as usize);
            LIVE_RCBOX.fetch_add(1, Relaxed);
            push_event(q as usize | 1);
        }
        if !q.is_null() {
            LIVE_BYTES.fetch_add(new_size as isize - layout.size() as isize, Relaxed);
            ALLOC_CALLS.fetch_add(1, Relaxed);
            if USER_DEPTH.load(Relaxed) == 0 {
                LIB_ALLOC_CALLS.fetch_add(1, Relaxed);
            }
        }
        q
    }
}
