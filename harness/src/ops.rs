//! History alphabet shared with the Lean model (`Cactus.Model.State.Act`, `Cactus.Model.Step.Op`).

#[derive(Clone, Debug, PartialEq)]
pub enum Act {
    New,
    Clone(usize),
    Drop(usize),
    Adopt(usize, usize),
    Unadopt(usize, usize),
    Store(usize, usize),
    Take(usize, usize),
    Link(usize, usize),
    Unlink(usize, usize),
    Downgrade(usize),
    Upgrade(usize),
    CloneWeak(usize),
    DropWeak(usize),
    StoreWeak(usize, usize),
    TryUnwrap(usize),
    DropValue(usize),
    MakeMut(usize),
    /// `Rc::make_mut` in place on the k-th strong handle stored in the value of root q's object
    MakeMutField(usize, usize),
    GetMut(usize),
    IntoRaw(usize),
    FromRaw(usize),
    IncStrong(usize),
    DecStrong(usize),
    PtrEq(usize, usize),
    Counts(usize),
    WCounts(usize),
    /// `Weak::from_raw(Weak::into_raw(w))` on a Weak of the program (identity; no model action)
    WeakRaw(usize),
    SetPanic(usize),
    SetShallow(usize),
    UpgradeField(usize),
    CloneField(usize),
    DowngradeField(usize),
}

#[derive(Clone, Debug, PartialEq)]
pub enum Op {
    Act(Act),
    SetScript(usize, Vec<Act>),
    Shuffle(usize, usize),
    /// harness-only: end of a truncated case, leak everything still held
    LeakWorld,
}

fn n(s: &str) -> Option<usize> {
    s.parse().ok()
}

pub fn parse_act(ws: &[&str]) -> Option<Act> {
    use Act::*;
    Some(match ws {
        ["new"] => New,
        ["clone", a] => Clone(n(a)?),
        ["drop", a] => Drop(n(a)?),
        ["adopt", a, b] => Adopt(n(a)?, n(b)?),
        ["unadopt", a, b] => Unadopt(n(a)?, n(b)?),
        ["store", a, b] => Store(n(a)?, n(b)?),
        ["take", a, b] => Take(n(a)?, n(b)?),
        ["link", a, b] => Link(n(a)?, n(b)?),
        ["unlink", a, b] => Unlink(n(a)?, n(b)?),
        ["downgrade", a] => Downgrade(n(a)?),
        ["upgrade", a] => Upgrade(n(a)?),
        ["cloneWeak", a] => CloneWeak(n(a)?),
        ["dropWeak", a] => DropWeak(n(a)?),
        ["storeWeak", a, b] => StoreWeak(n(a)?, n(b)?),
        ["tryUnwrap", a] => TryUnwrap(n(a)?),
        ["dropValue", a] => DropValue(n(a)?),
        ["makeMut", a] => MakeMut(n(a)?),
        ["makeMutField", a, b] => MakeMutField(n(a)?, n(b)?),
        ["getMut", a] => GetMut(n(a)?),
        ["intoRaw", a] => IntoRaw(n(a)?),
        ["fromRaw", a] => FromRaw(n(a)?),
        ["incStrong", a] => IncStrong(n(a)?),
        ["decStrong", a] => DecStrong(n(a)?),
        ["ptrEq", a, b] => PtrEq(n(a)?, n(b)?),
        ["counts", a] => Counts(n(a)?),
        ["wcounts", a] => WCounts(n(a)?),
        ["weakRaw", a] => WeakRaw(n(a)?),
        ["setPanic", a] => SetPanic(n(a)?),
        ["setShallow", a] => SetShallow(n(a)?),
        ["upgradeField", a] => UpgradeField(n(a)?),
        ["cloneField", a] => CloneField(n(a)?),
        ["downgradeField", a] => DowngradeField(n(a)?),
        _ => return None,
    })
}

impl Act {
    pub fn to_text(&self) -> String {
        use Act::*;
        match self {
            New => "new".into(),
            Clone(a) => format!("clone {}", a),
            Drop(a) => format!("drop {}", a),
            Adopt(a, b) => format!("adopt {} {}", a, b),
            Unadopt(a, b) => format!("unadopt {} {}", a, b),
            Store(a, b) => format!("store {} {}", a, b),
            Take(a, b) => format!("take {} {}", a, b),
            Link(a, b) => format!("link {} {}", a, b),
            Unlink(a, b) => format!("unlink {} {}", a, b),
            Downgrade(a) => format!("downgrade {}", a),
            Upgrade(a) => format!("upgrade {}", a),
            CloneWeak(a) => format!("cloneWeak {}", a),
            DropWeak(a) => format!("dropWeak {}", a),
            StoreWeak(a, b) => format!("storeWeak {} {}", a, b),
            TryUnwrap(a) => format!("tryUnwrap {}", a),
            DropValue(a) => format!("dropValue {}", a),
            MakeMut(a) => format!("makeMut {}", a),
            MakeMutField(a, b) => format!("makeMutField {} {}", a, b),
            GetMut(a) => format!("getMut {}", a),
            IntoRaw(a) => format!("intoRaw {}", a),
            FromRaw(a) => format!("fromRaw {}", a),
            IncStrong(a) => format!("incStrong {}", a),
            DecStrong(a) => format!("decStrong {}", a),
            PtrEq(a, b) => format!("ptrEq {} {}", a, b),
            Counts(a) => format!("counts {}", a),
            WCounts(a) => format!("wcounts {}", a),
            WeakRaw(a) => format!("weakRaw {}", a),
            SetPanic(a) => format!("setPanic {}", a),
            SetShallow(a) => format!("setShallow {}", a),
            UpgradeField(a) => format!("upgradeField {}", a),
            CloneField(a) => format!("cloneField {}", a),
            DowngradeField(a) => format!("downgradeField {}", a),
        }
    }
}

pub fn parse_op(line: &str) -> Option<Op> {
    let ws: Vec<&str> = line.split_whitespace().collect();
    match ws.as_slice() {
        ["setScript", q, rest @ ..] => {
            let body = rest.join(" ");
            let mut acts = Vec::new();
            for part in body.split(';') {
                let p: Vec<&str> = part.split_whitespace().collect();
                if p.is_empty() {
                    continue;
                }
                acts.push(parse_act(&p)?);
            }
            Some(Op::SetScript(n(q)?, acts))
        }
        ["shuffle", a, b] => Some(Op::Shuffle(n(a)?, n(b)?)),
        ["leakworld"] => Some(Op::LeakWorld),
        _ => parse_act(&ws).map(Op::Act),
    }
}
