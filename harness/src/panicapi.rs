//! C11 fault enumeration outside the Lean model: `make_mut` / assignment-through-handle paths whose
//! *internal* drop of the old handle orphans a group in which a destructor panics.  The payload's
//! `Clone` is shallow (copies no handles), so giving up the old handle really orphans the ring.
//! After `catch_unwind` the handle the program still holds must designate a live, intact value,
//! no value may have been destroyed twice, and every later drop must be clean.

use cactusref::{Adopt, Rc, Weak};
use std::cell::{Cell, RefCell};
use std::panic::{catch_unwind, AssertUnwindSafe};

thread_local! {
    static DESTROYED: RefCell<Vec<usize>> = RefCell::new(Vec::new());
}

struct Sh {
    id: usize,
    canary: Cell<u64>,
    boom: Cell<bool>,
    out: RefCell<Vec<Rc<Sh>>>,
}
impl Clone for Sh {
    fn clone(&self) -> Self {
        Sh { id: self.id + 1000, canary: Cell::new(0xC0FFEE), boom: Cell::new(false), out: RefCell::new(Vec::new()) }
    }
}
impl Drop for Sh {
    fn drop(&mut self) {
        DESTROYED.with(|d| d.borrow_mut().push(self.id));
        self.canary.set(0xDEAD);
        if self.boom.get() {
            panic!("boom {}", self.id);
        }
    }
}

fn mk(id: usize) -> Rc<Sh> {
    Rc::new(Sh { id, canary: Cell::new(0xC0FFEE), boom: Cell::new(false), out: RefCell::new(Vec::new()) })
}

fn edge(a: &Rc<Sh>, b: &Rc<Sh>) {
    let h = Rc::clone(b);
    unsafe { Rc::adopt_unchecked(a, &h) };
    a.out.borrow_mut().push(h);
}

fn scenario(n: usize, k: usize, extra_chord: bool) -> Result<(), String> {
    DESTROYED.with(|d| d.borrow_mut().clear());
    let objs: Vec<Rc<Sh>> = (0..n).map(mk).collect();
    for i in 0..n {
        edge(&objs[i], &objs[(i + 1) % n]);
    }
    if extra_chord && n >= 2 {
        edge(&objs[0], &objs[n - 1]);
    }
    objs[k].boom.set(true);
    let weaks: Vec<Weak<Sh>> = objs.iter().map(Rc::downgrade).collect();
    let mut it = objs.into_iter();
    let mut h = it.next().unwrap();
    drop(it); // the program keeps exactly one handle, to member 0
    let r = catch_unwind(AssertUnwindSafe(|| {
        let _ = Rc::make_mut(&mut h);
    }));
    if r.is_ok() {
        return Err(format!("n={} k={}: expected the panic of member {} to propagate out of make_mut", n, k, k));
    }
    // the handle must now designate the private copy
    let sc = Rc::strong_count(&h);
    if sc != 1 {
        return Err(format!("n={} k={}: held handle reports strong_count {} after the panic", n, k, sc));
    }
    if h.canary.get() != 0xC0FFEE || h.id != 1000 {
        return Err(format!("n={} k={}: held handle designates a destroyed or foreign value (id {}, canary {:x})", n, k, h.id, h.canary.get()));
    }
    let d = DESTROYED.with(|d| d.borrow().clone());
    let mut sorted = d.clone();
    sorted.sort_unstable();
    sorted.dedup();
    if sorted.len() != d.len() {
        return Err(format!("n={} k={}: a destructor ran twice: {:?}", n, k, d));
    }
    if sorted != (0..n).collect::<Vec<_>>() {
        return Err(format!("n={} k={}: destroyed set {:?}, expected all {} ring members", n, k, d, n));
    }
    for (i, w) in weaks.iter().enumerate() {
        if w.upgrade().is_some() || w.strong_count() != 0 {
            return Err(format!("n={} k={}: Weak to member {} does not report it dead", n, k, i));
        }
    }
    drop(weaks);
    let r2 = catch_unwind(AssertUnwindSafe(move || drop(h)));
    if r2.is_err() {
        return Err(format!("n={} k={}: dropping the surviving handle panicked", n, k));
    }
    Ok(())
}

/// second family: the payload's `Clone` itself unwinds inside `make_mut`'s clone branch (the program's
/// handle is one of several).  Nothing may have happened: no value destroyed, every count as before, the
/// held handle still designates the live original; dropping it afterwards collects the ring once.
struct Cp {
    id: usize,
    canary: Cell<u64>,
    clone_boom: Cell<bool>,
    out: RefCell<Vec<Rc<Cp>>>,
}
impl Clone for Cp {
    fn clone(&self) -> Self {
        if self.clone_boom.get() {
            panic!("clone boom {}", self.id);
        }
        Cp { id: self.id + 1000, canary: Cell::new(0xC0FFEE), clone_boom: Cell::new(false), out: RefCell::new(Vec::new()) }
    }
}
impl Drop for Cp {
    fn drop(&mut self) {
        DESTROYED.with(|d| d.borrow_mut().push(self.id));
        self.canary.set(0xDEAD);
    }
}

fn clone_panics(n: usize, extra_handles: usize) -> Result<(), String> {
    DESTROYED.with(|d| d.borrow_mut().clear());
    let objs: Vec<Rc<Cp>> = (0..n)
        .map(|id| Rc::new(Cp { id, canary: Cell::new(0xC0FFEE), clone_boom: Cell::new(false), out: RefCell::new(Vec::new()) }))
        .collect();
    for i in 0..n {
        let h = Rc::clone(&objs[(i + 1) % n]);
        unsafe { Rc::adopt_unchecked(&objs[i], &h) };
        objs[i].out.borrow_mut().push(h);
    }
    objs[0].clone_boom.set(true);
    let weaks: Vec<Weak<Cp>> = objs.iter().map(Rc::downgrade).collect();
    let mut it = objs.into_iter();
    let mut h = it.next().unwrap();
    drop(it); // the program keeps one handle to member 0 (+ extras); the ring holds the other
    let extras: Vec<Rc<Cp>> = (0..extra_handles).map(|_| Rc::clone(&h)).collect();
    let (sc0, wc0) = (Rc::strong_count(&h), Rc::weak_count(&h));
    let r = catch_unwind(AssertUnwindSafe(|| {
        let _ = Rc::make_mut(&mut h);
    }));
    if r.is_ok() {
        return Err(format!("clone-panic n={}: expected the panic of Clone to propagate out of make_mut", n));
    }
    let d = DESTROYED.with(|d| d.borrow().clone());
    if !d.is_empty() {
        return Err(format!("clone-panic n={} extra={}: values {:?} were destroyed although the program holds member 0", n, extra_handles, d));
    }
    if (Rc::strong_count(&h), Rc::weak_count(&h)) != (sc0, wc0) {
        return Err(format!(
            "clone-panic n={} extra={}: counts {}/{} before, {}/{} after the unwound make_mut",
            n, extra_handles, sc0, wc0, Rc::strong_count(&h), Rc::weak_count(&h)
        ));
    }
    if h.canary.get() != 0xC0FFEE || h.id != 0 {
        return Err(format!("clone-panic n={}: held handle designates a destroyed or foreign value", n));
    }
    for (i, w) in weaks.iter().enumerate() {
        match w.upgrade() {
            Some(u) => {
                if u.canary.get() != 0xC0FFEE {
                    return Err(format!("clone-panic n={}: member {} destroyed", n, i));
                }
            }
            None => return Err(format!("clone-panic n={}: Weak to live member {} does not upgrade", n, i)),
        }
    }
    drop(extras);
    drop(h);
    let mut d = DESTROYED.with(|d| d.borrow().clone());
    d.sort_unstable();
    if d != (0..n).collect::<Vec<_>>() {
        return Err(format!("clone-panic n={} extra={}: after the last drop the destroyed multiset is {:?}", n, extra_handles, d));
    }
    for w in &weaks {
        if w.upgrade().is_some() {
            return Err(format!("clone-panic n={}: a member survived the collection", n));
        }
    }
    Ok(())
}

pub fn main() -> i32 {
    std::panic::set_hook(Box::new(|_| {}));
    let mut count = 0;
    for n in 1..=4 {
        for k in 0..n {
            for chord in [false, true] {
                count += 1;
                if let Err(e) = scenario(n, k, chord) {
                    println!("FAIL {}", e);
                    return 1;
                }
            }
        }
    }
    for n in 1..=4 {
        for extra in 0..=2 {
            count += 1;
            if let Err(e) = clone_panics(n, extra) {
                println!("FAIL {}", e);
                return 1;
            }
        }
    }
    println!("ok scenarios={}", count);
    0
}
