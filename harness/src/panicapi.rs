//! C11 fault enumeration outside the Lean model: `make_mut` / assignment-through-handle paths whose
//! *internal* drop of the old handle orphans a group in which a destructor panics.  The payload's
//! `Clone` is shallow (copies no handles), so giving up the old handle really orphans the ring.
//! After `catch_unwind` the handle the program still holds must designate a live, intact value,
//! no value may have been destroyed twice, and every later drop must be clean.

use cactusref::{Adopt, Rc, Weak};
use std::cell::{Cell, RefCell};
use std::panic::{catch_unwind, AssertUnwindSafe};

thread_local! {
    static DESTROYED: RefCell<Vec<usize>> = RefCell::new(Vec::new());
}

struct Sh {
    id: usize,
    canary: Cell<u64>,
    boom: Cell<bool>,
    out: RefCell<Vec<Rc<Sh>>>,
}
impl Clone for Sh {
    fn clone(&self) -> Self {
        Sh { id: self.id + 1000, canary: Cell::new(0xC0FFEE), boom: Cell::new(false), out: RefCell::new(Vec::new()) }
    }
}
impl Drop for Sh {
    fn drop(&mut self) {
        DESTROYED.with(|d| d.borrow_mut().push(self.id));
        self.canary.set(0xDEAD);
        if self.boom.get() {
            panic!("boom {}", self.id);
        }
    }
}

fn mk(id: usize) -> Rc<Sh> {
    Rc::new(Sh { id, canary: Cell::new(0xC0FFEE), boom: Cell::new(false), out: RefCell::new(Vec::new()) })
}

fn edge(a: &Rc<Sh>, b: &Rc<Sh>) {
    let h = Rc::clone(b);
    unsafe { Rc::adopt_unchecked(a, &h) };
    a.out.borrow_mut().push(h);
}

fn scenario(n: usize, k: usize, extra_chord: bool) -> Result<(), String> {
    DESTROYED.with(|d| d.borrow_mut().clear());
    let objs: Vec<Rc<Sh>> = (0..n).map(mk).collect();
    for i in 0..n {
        edge(&objs[i], &objs[(i + 1) % n]);
    }
    if extra_chord && n >= 2 {
        edge(&objs[0], &objs[n - 1]);
    }
    objs[k].boom.set(true);
    let weaks: Vec<Weak<Sh>> = objs.iter().map(Rc::downgrade).collect();
    let mut it = objs.into_iter();
    let mut h = it.next().unwrap();
    drop(it); // the program keeps exactly one handle, to member 0
    let r = catch_unwind(AssertUnwindSafe(|| {
        let _ = Rc::make_mut(&mut h);
    }));
    if r.is_ok() {
        return Err(format!("n={} k={}: expected the panic of member {} to propagate out of make_mut", n, k, k));
    }
    // the handle must now designate the private copy
    let sc = Rc::strong_count(&h);
    if sc != 1 {
        return Err(format!("n={} k={}: held handle reports strong_count {} after the panic", n, k, sc));
    }
    if h.canary.get() != 0xC0FFEE || h.id != 1000 {
        return Err(format!("n={} k={}: held handle designates a destroyed or foreign value (id {}, canary {:x})", n, k, h.id, h.canary.get()));
    }
    let d = DESTROYED.with(|d| d.borrow().clone());
    let mut sorted = d.clone();
    sorted.sort_unstable();
    sorted.dedup();
    if sorted.len() != d.len() {
        return Err(format!("n={} k={}: a destructor ran twice: {:?}", n, k, d));
    }
    if sorted != (0..n).collect::<Vec<_>>() {
        return Err(format!("n={} k={}: destroyed set {:?}, expected all {} ring members", n, k, d, n));
    }
    for (i, w) in weaks.iter().enumerate() {
        if w.upgrade().is_some() || w.strong_count() != 0 {
            return Err(format!("n={} k={}: Weak to member {} does not report it dead", n, k, i));
        }
    }
    drop(weaks);
    let r2 = catch_unwind(AssertUnwindSafe(move || drop(h)));
    if r2.is_err() {
        return Err(format!("n={} k={}: dropping the surviving handle panicked", n, k));
    }
    Ok(())
}

pub fn main() -> i32 {
    std::panic::set_hook(Box::new(|_| {}));
    let mut count = 0;
    for n in 1..=4 {
        for k in 0..n {
            for chord in [false, true] {
                count += 1;
                if let Err(e) = scenario(n, k, chord) {
                    println!("FAIL {}", e);
                    return 1;
                }
            }
        }
    }
    println!("ok scenarios={}", count);
    0
}
