//! Scenario families far outside the sizes the model-driven streams reach (tens of thousands of handles,
//! every position of rings of hundreds of objects, multi-kilobyte payloads), judged by simple
//! implementation-only oracles that need no model: a reachable object is not destroyed (C01), an orphaned ring
//! is destroyed in full by the orphaning drop (C03), the count API is exact (C06), no destructor of a collected
//! group can upgrade a Weak to a peer (C05/C10), the allocation goes when the last Weak goes (C04).
//! Each family prints one FAIL line and returns on the first violation.

use crate::alloc_track as at;
use cactusref::{Adopt, Rc, Weak};
use std::cell::{Cell, RefCell};
use std::sync::atomic::Ordering::Relaxed;

thread_local! {
    static DROPS: Cell<usize> = Cell::new(0);
    static PEER_UPGRADES: Cell<usize> = Cell::new(0);
}

struct N<const P: usize> {
    out: RefCell<Vec<Rc<N<P>>>>,
    peers: RefCell<Vec<Weak<N<P>>>>,
    _page: [u8; P],
}

impl<const P: usize> Drop for N<P> {
    fn drop(&mut self) {
        DROPS.with(|d| d.set(d.get() + 1));
        for w in self.peers.borrow().iter() {
            if w.upgrade().is_some() {
                PEER_UPGRADES.with(|d| d.set(d.get() + 1));
            }
        }
    }
}

fn mk<const P: usize>() -> Rc<N<P>> {
    Rc::new(N { out: RefCell::new(Vec::new()), peers: RefCell::new(Vec::new()), _page: [7; P] })
}

fn edge<const P: usize>(a: &Rc<N<P>>, b: &Rc<N<P>>) {
    let h = Rc::clone(b);
    unsafe { Rc::adopt_unchecked(a, &h) };
    a.out.borrow_mut().push(h);
}

fn ring<const P: usize>(n: usize) -> Vec<Rc<N<P>>> {
    let v: Vec<Rc<N<P>>> = (0..n).map(|_| mk::<P>()).collect();
    for i in 0..n {
        edge(&v[i], &v[(i + 1) % n]);
    }
    v
}

fn drops() -> usize {
    DROPS.with(|d| d.get())
}

/// C01/C03 for every position: ring of `n`, the program keeps node 0 and node `p`; dropping node 0's handle
/// must destroy nothing; dropping node `p`'s handle then destroys all `n`.
fn held_positions(n: usize) -> Result<(), String> {
    for p in 1..n {
        DROPS.with(|d| d.set(0));
        let mut v = ring::<8>(n);
        let keep_p = v.swap_remove(p);
        let keep_0 = v.swap_remove(0);
        drop(v);
        if drops() != 0 {
            return Err(format!("ring {}: {} values destroyed while nodes 0 and {} are held", n, drops(), p));
        }
        let w0 = Rc::downgrade(&keep_0);
        drop(keep_0);
        if drops() != 0 || w0.upgrade().is_none() {
            return Err(format!("ring {}: dropping node 0 destroyed {} values although node {} is held", n, drops(), p));
        }
        drop(keep_p);
        if drops() != n || w0.upgrade().is_some() {
            return Err(format!("ring {} held at {}: {} of {} values destroyed by the orphaning drop", n, p, drops(), n));
        }
    }
    Ok(())
}

/// C06/C01 with tens of thousands of strong handles: counts exact at checkpoints; with exactly `m` outside
/// handles to `a` (m around the 8- and 16-bit boundaries) dropping `b`'s only outside handle destroys nothing.
fn many_strong() -> Result<(), String> {
    for &m in &[255usize, 256, 257, 65_535, 65_536, 65_537, 70_000] {
        DROPS.with(|d| d.set(0));
        let a = mk::<8>();
        let b = mk::<8>();
        edge(&a, &b);
        edge(&b, &a);
        let wb = Rc::downgrade(&b);
        let extra: Vec<Rc<N<8>>> = (0..m - 1).map(|_| Rc::clone(&a)).collect();
        // a: m outside handles (extra + a) + 1 held by b
        if Rc::strong_count(&a) != m + 1 {
            return Err(format!("strong_count {} with {} handles", Rc::strong_count(&a), m + 1));
        }
        drop(b);
        if drops() != 0 || wb.upgrade().is_none() {
            return Err(format!("{} outside handles to a: dropping b's outside handle destroyed {} values", m, drops()));
        }
        // 1100 clone/drop pairs of the same handle in a row (each a fruitless trace), then the rest
        for _ in 0..1100 {
            drop(Rc::clone(&a));
        }
        if Rc::strong_count(&a) != m + 1 || drops() != 0 {
            return Err(format!("after 1100 clone/drop pairs: strong_count {} drops {}", Rc::strong_count(&a), drops()));
        }
        drop(extra);
        if Rc::strong_count(&a) != 2 || drops() != 0 {
            return Err(format!("after dropping {} clones: strong_count {} drops {}", m - 1, Rc::strong_count(&a), drops()));
        }
        drop(a);
        if drops() != 2 || wb.upgrade().is_some() {
            return Err(format!("2-ring not collected after {} handles came and went: drops {}", m, drops()));
        }
    }
    Ok(())
}

/// the same with parallel adoptions and a long run of fruitless traces from one object (1024+), then the
/// orphaning drop on that same object
fn long_fruitless_run() -> Result<(), String> {
    for &par in &[1usize, 2, 3] {
        DROPS.with(|d| d.set(0));
        let hub = mk::<8>();
        let b = mk::<8>();
        for _ in 0..par {
            edge(&b, &hub);
        }
        edge(&hub, &b);
        drop(b);
        let clones: Vec<Rc<N<8>>> = (0..2500).map(|_| Rc::clone(&hub)).collect();
        for c in clones {
            drop(c);
        }
        for _ in 0..2500 {
            drop(Rc::clone(&hub));
        }
        if drops() != 0 {
            return Err(format!("fruitless run destroyed {} values", drops()));
        }
        drop(hub);
        if drops() != 2 {
            return Err(format!("{} parallel adoptions: group not collected after 5000 fruitless traces from its member (drops {})", par, drops()));
        }
    }
    Ok(())
}

/// C06/C04 with tens of thousands of Weak handles
fn many_weak() -> Result<(), String> {
    DROPS.with(|d| d.set(0));
    let a = mk::<8>();
    let b = mk::<8>();
    edge(&a, &b);
    edge(&b, &a);
    let mut ws: Vec<Weak<N<8>>> = Vec::new();
    for i in 0..70_000usize {
        if i % 2 == 0 {
            ws.push(Rc::downgrade(&a));
        } else {
            let c = ws[i - 1].clone();
            ws.push(c);
        }
        let n = ws.len();
        if (n % 5000 == 0 || (254..=258).contains(&n) || (65_533..=65_538).contains(&n)) && Rc::weak_count(&a) != n {
            return Err(format!("weak_count {} with {} Weak handles", Rc::weak_count(&a), n));
        }
    }
    // drop all but 3, collect the ring, the 3 survivors must see a dead object and keep the allocation
    let keep: Vec<Weak<N<8>>> = ws.split_off(ws.len() - 3);
    drop(ws);
    if Rc::weak_count(&a) != 3 {
        return Err(format!("weak_count {} after dropping all but 3 of 70000", Rc::weak_count(&a)));
    }
    let bytes_before = at::LIVE_BYTES.load(Relaxed);
    drop(b);
    drop(a);
    if drops() != 2 {
        return Err(format!("ring with many Weak handles not collected: drops {}", drops()));
    }
    for w in &keep {
        if w.upgrade().is_some() || w.strong_count() != 0 || w.weak_count() != 0 {
            return Err("surviving Weak does not report the object dead".into());
        }
    }
    let mid = at::LIVE_BYTES.load(Relaxed);
    drop(keep);
    let after = at::LIVE_BYTES.load(Relaxed);
    if !(after < mid && mid < bytes_before) {
        return Err(format!("allocation kept by the last Weak handles not released when they went ({} {} {})", bytes_before, mid, after));
    }
    Ok(())
}

/// C03/C05/C10 with a multi-kilobyte payload: ring of `n` objects of 16 KiB each, every member holds Weak
/// handles to a few peers; during the teardown no destructor may see a live peer
fn big_payload(n: usize) -> Result<(), String> {
    DROPS.with(|d| d.set(0));
    PEER_UPGRADES.with(|d| d.set(0));
    let v = ring::<16384>(n);
    for i in 0..n {
        for d in [1usize, 7, n / 2] {
            v[i].peers.borrow_mut().push(Rc::downgrade(&v[(i + d) % n]));
        }
    }
    let bytes0 = at::LIVE_BYTES.load(Relaxed);
    let mut it = v.into_iter();
    let last = it.next().unwrap();
    drop(it);
    if drops() != 0 {
        return Err(format!("big payload ring {}: {} values destroyed while a member is held", n, drops()));
    }
    drop(last);
    if drops() != n {
        return Err(format!("big payload ring {}: {} of {} values destroyed by the orphaning drop", n, drops(), n));
    }
    let up = PEER_UPGRADES.with(|d| d.get());
    if up != 0 {
        return Err(format!("big payload ring {}: {} destructors upgraded a Weak to a peer of the same group", n, up));
    }
    let freed = bytes0 - at::LIVE_BYTES.load(Relaxed);
    if freed < (n * 16384) as isize {
        return Err(format!("big payload ring {}: only {} bytes released", n, freed));
    }
    Ok(())
}

pub fn main(only: Option<&str>) -> i32 {
    // family, the properties whose statement it checks, the check
    let fams: Vec<(&str, &str, Box<dyn Fn() -> Result<(), String>>)> = vec![
        ("held-positions-97", "C01 C03", Box::new(|| held_positions(97))),
        ("held-positions-300", "C01 C03", Box::new(|| held_positions(300))),
        ("many-strong", "C01 C06", Box::new(many_strong)),
        ("long-fruitless-run", "C03", Box::new(long_fruitless_run)),
        ("many-weak", "C05 C06 C04", Box::new(many_weak)),
        ("big-payload-700", "C03 C05 C10", Box::new(|| big_payload(700))),
    ];
    let mut n = 0;
    for (name, props, f) in fams {
        if let Some(p) = only {
            if !props.split(' ').any(|q| q == p) {
                continue;
            }
        }
        n += 1;
        if let Err(m) = f() {
            println!("FAIL {}: {}", name, m);
            return 1;
        }
    }
    println!("ok families={}", n);
    0
}
