//! C04 scenario outside the Lean model: allocations kept alive only by Weak handles must be
//! released when the last Weak goes, also when the Weak travels through `into_raw`/`from_raw`
//! after the object died — for every path by which the object died.

use crate::alloc_track as at;
use cactusref::{Adopt, Rc, Weak};
use std::cell::RefCell;
use std::sync::atomic::Ordering::Relaxed;

struct N {
    out: RefCell<Vec<Rc<N>>>,
    _pad: [u64; 5],
}

fn mk() -> Rc<N> {
    Rc::new(N { out: RefCell::new(Vec::new()), _pad: [7; 5] })
}

fn edge(a: &Rc<N>, b: &Rc<N>) {
    let h = Rc::clone(b);
    unsafe { Rc::adopt_unchecked(a, &h) };
    a.out.borrow_mut().push(h);
}

fn scenario(round_trip_after_death: bool) -> (isize, isize) {
    let bytes0 = at::LIVE_BYTES.load(Relaxed);
    let blocks0 = at::LIVE_BLOCKS.load(Relaxed);
    {
        // ring a<->b with tail b->t (group path), chain c->d (zero count with adoptions, then plain), plain p
        let (a, b, t, c, d, p) = (mk(), mk(), mk(), mk(), mk(), mk());
        edge(&a, &b);
        edge(&b, &a);
        edge(&b, &t);
        edge(&c, &d);
        let mut weaks: Vec<Weak<N>> = [&a, &b, &t, &c, &d, &p].iter().map(|r| Rc::downgrade(r)).collect();
        if !round_trip_after_death {
            weaks = weaks.into_iter().map(|w| unsafe { Weak::from_raw(w.into_raw()) }).collect();
        }
        drop((b, t, d, p));
        drop(c);
        drop(a);
        for w in &weaks {
            assert!(w.upgrade().is_none());
        }
        if round_trip_after_death {
            weaks = weaks.into_iter().map(|w| unsafe { Weak::from_raw(w.into_raw()) }).collect();
        }
        // a second generation of Weaks made from the round-tripped ones
        let more: Vec<Weak<N>> = weaks.iter().map(Weak::clone).collect();
        drop(weaks);
        drop(more);
    }
    (at::LIVE_BYTES.load(Relaxed) - bytes0, at::LIVE_BLOCKS.load(Relaxed) - blocks0)
}

/// the sentinel of `Weak::new()` owns no allocation: a raw round trip must give back the sentinel, and
/// nothing may be read or written through it (C02, C05)
fn dangling_round_trip() -> Result<(), String> {
    let bytes0 = at::LIVE_BYTES.load(Relaxed);
    for _ in 0..4 {
        let w: Weak<N> = unsafe { Weak::from_raw(Weak::<N>::new().into_raw()) };
        if w.upgrade().is_some() || w.strong_count() != 0 || w.weak_count() != 0 || !w.ptr_eq(&Weak::new()) {
            return Err(format!(
                "dangling Weak after a raw round trip: upgrade={} strong={} weak={} ptr_eq(new)={}",
                w.upgrade().is_some(),
                w.strong_count(),
                w.weak_count(),
                w.ptr_eq(&Weak::new())
            ));
        }
        let c = w.clone();
        drop(w);
        if c.upgrade().is_some() {
            return Err("clone of a round-tripped dangling Weak upgrades".into());
        }
        let c2 = unsafe { Weak::from_raw(c.into_raw()) };
        drop(c2);
    }
    if at::LIVE_BYTES.load(Relaxed) != bytes0 {
        return Err("dangling Weak round trip changed the heap".into());
    }
    Ok(())
}

pub fn main() -> i32 {
    if let Err(m) = dangling_round_trip() {
        println!("FAIL {}", m);
        return 1;
    }
    let _ = scenario(false); // warm-up
    for after in [false, true] {
        let (bytes, blocks) = scenario(after);
        if bytes != 0 || blocks != 0 {
            println!(
                "FAIL weak raw round trip {} the deaths leaks {} bytes in {} blocks",
                if after { "after" } else { "before" },
                bytes,
                blocks
            );
            return 1;
        }
    }
    println!("ok scenarios=3");
    0
}
