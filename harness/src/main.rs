#![feature(get_mut_unchecked)]
//! `hexec`: run histories on the real `cactusref::Rc` (and on `std::rc::Rc`) and print a
//! canonical transcript for comparison with the Lean model driver.

mod alloc_track;
mod apidiff;
mod bigscen;
mod ops;
mod panicapi;
mod weakraw;

use std::io::{Read, Write};
use std::sync::atomic::Ordering::Relaxed;

#[global_allocator]
static GLOBAL: alloc_track::Tracking = alloc_track::Tracking;

static mut VALUE_OFFSET: usize = 0;
pub fn value_offset() -> usize {
    unsafe { VALUE_OFFSET }
}

pub fn flush_out() {
    let _ = std::io::stdout().flush();
}

/// write the transcript collected so far straight to fd 1 (no buffering: a crash must not lose it)
pub fn emit(out: &mut String) {
    let mut so = std::io::stdout().lock();
    let _ = so.write_all(out.as_bytes());
    let _ = so.flush();
    out.clear();
}

mod cactus {
    use cactusref::{Adopt, Rc, Weak};
    pub const HAS_HOOKS: bool = true;
    fn sh_adopt(a: &Rc<Node>, b: &Rc<Node>) {
        unsafe { Rc::adopt_unchecked(a, b) }
    }
    fn sh_unadopt(a: &Rc<Node>, b: &Rc<Node>) {
        Rc::unadopt(a, b)
    }
    unsafe fn sh_peek(p: *const Node) -> Option<(usize, usize)> {
        Some(Rc::__verif_peek(p))
    }
    unsafe fn sh_links(p: *const Node) -> Option<Vec<(usize, u8, usize)>> {
        Some(Rc::__verif_links(p))
    }
    fn sh_trace_counters() -> (usize, usize, usize, usize) {
        cactusref::verif::take_trace_counters()
    }
    fn sh_trace_calls_now() -> usize {
        cactusref::verif::TRACE_CALLS.load(std::sync::atomic::Ordering::Relaxed)
    }
    include!("core.rs");
    pub fn probe() -> (usize, usize) {
        let h = Rc::new(Node::new(0));
        let p = Rc::as_ptr(&h) as usize;
        let r = (p, std::mem::size_of::<Node>());
        std::mem::forget(h);
        r
    }
}

mod big {
    //! C15: group teardown of any size on a small fixed stack, with linear trace counters.
    use cactusref::{Adopt, Rc};
    use std::cell::RefCell;
    use std::sync::atomic::{AtomicUsize, Ordering::Relaxed};

    static DESTROYED: AtomicUsize = AtomicUsize::new(0);

    struct Big {
        out: RefCell<Vec<Rc<Big>>>,
    }
    impl Drop for Big {
        fn drop(&mut self) {
            DESTROYED.fetch_add(1, Relaxed);
        }
    }

    /// `hs[i]` points at a handle to object `i` that lives inside its owner's `out` vector (or at
    /// the single outside handle for object 0); the vectors are pre-sized so they never move.
    unsafe fn edge(hs: &[*const Rc<Big>], a: usize, b: usize) {
        let h = Rc::clone(&*hs[b]);
        Rc::adopt_unchecked(&*hs[a], &h);
        (&(*hs[a])).out.borrow_mut().push(h);
    }

    pub fn run(shape: &str, n: usize) -> String {
        let cap = if shape == "clique" { n + 2 } else { 8 };
        let mk = || Rc::new(Big { out: RefCell::new(Vec::with_capacity(cap)) });
        // the program holds exactly one outside handle (to object 0); object i+1 is created and
        // moved straight into object i, so no handle is ever dropped while building
        let first = mk();
        let mut hs: Vec<*const Rc<Big>> = Vec::with_capacity(n);
        hs.push(&first as *const Rc<Big>);
        let mut adoptions = 0usize;
        if shape == "hub" {
            // wide frontier: the hub adopts every spoke and every spoke adopts the hub back
            let hubcap = n + 2;
            let hub = Rc::new(Big { out: RefCell::new(Vec::with_capacity(hubcap)) });
            let mut adoptions = 0usize;
            for _ in 1..n {
                let spoke = mk();
                let back = Rc::clone(&hub);
                unsafe { Rc::adopt_unchecked(&spoke, &back) };
                spoke.out.borrow_mut().push(back);
                unsafe { Rc::adopt_unchecked(&hub, &spoke) };
                hub.out.borrow_mut().push(spoke);
                adoptions += 2;
            }
            let _ = cactusref::verif::take_trace_counters();
            DESTROYED.store(0, Relaxed);
            let t0 = std::time::Instant::now();
            drop(hub);
            let (calls, popped, visited, scanned) = cactusref::verif::take_trace_counters();
            let secs = t0.elapsed().as_secs_f64();
            let d = DESTROYED.load(Relaxed);
            let ok = d == n && calls == 1 && visited == n && popped <= 1 + adoptions && scanned <= 2 * adoptions + n;
            return format!(
                "{} destroyed={} of {} before_last=0 calls={} visited={} popped={} scanned={} adoptions={} secs={:.3}",
                if ok { "ok" } else { "FAIL" }, d, n, calls, visited, popped, scanned, adoptions, secs
            );
        }
        unsafe {
            for i in 1..n {
                let h = mk();
                Rc::adopt_unchecked(&*hs[i - 1], &h);
                let mut out = (&(*hs[i - 1])).out.borrow_mut();
                out.push(h);
                let p: *const Rc<Big> = out.last().unwrap();
                drop(out);
                hs.push(p);
                adoptions += 1;
            }
            edge(&hs, n - 1, 0);
            adoptions += 1;
            match shape {
                "ring" => {}
                "chords" => {
                    for i in 0..n {
                        edge(&hs, i, (i + 7) % n);
                        edge(&hs, i, (i * 31 + 5) % n);
                        adoptions += 2;
                    }
                }
                "selfmix" => {
                    for i in 0..n {
                        if i % 3 == 0 {
                            edge(&hs, i, i);
                            adoptions += 1;
                        }
                        if i % 5 == 0 {
                            Rc::adopt_unchecked(&*hs[i], &*hs[i]);
                        }
                    }
                }
                "hub" => {}
                "clique" => {
                    for i in 0..n {
                        for j in 0..n {
                            if i != j && !(j == i + 1) && !(i == n - 1 && j == 0) {
                                edge(&hs, i, j);
                                adoptions += 1;
                            }
                        }
                    }
                }
                _ => return format!("bad shape {}", shape),
            }
        }
        let _ = cactusref::verif::take_trace_counters();
        DESTROYED.store(0, Relaxed);
        let t0 = std::time::Instant::now();
        // dropping the only outside handle orphans the group
        let (calls0, popped0, visited0, scanned0) = cactusref::verif::take_trace_counters();
        let before_last = DESTROYED.load(Relaxed);
        drop(first);
        let (calls, popped, visited, scanned) = cactusref::verif::take_trace_counters();
        let secs = t0.elapsed().as_secs_f64();
        let d = DESTROYED.load(Relaxed);
        let _ = (calls0, popped0, visited0, scanned0);
        let ok = d == n
            && before_last == 0
            && calls == 1
            && visited == n
            && popped <= 1 + adoptions
            && scanned <= 2 * adoptions + n;
        format!(
            "{} destroyed={} of {} before_last={} calls={} visited={} popped={} scanned={} adoptions={} secs={:.3}",
            if ok { "ok" } else { "FAIL" },
            d, n, before_last, calls, visited, popped, scanned, adoptions, secs
        )
    }
}

mod stdrc {
    use std::rc::{Rc, Weak};
    pub const HAS_HOOKS: bool = false;
    fn sh_adopt(_a: &Rc<Node>, _b: &Rc<Node>) {}
    fn sh_unadopt(_a: &Rc<Node>, _b: &Rc<Node>) {}
    unsafe fn sh_peek(_p: *const Node) -> Option<(usize, usize)> {
        None
    }
    unsafe fn sh_links(_p: *const Node) -> Option<Vec<(usize, u8, usize)>> {
        None
    }
    fn sh_trace_counters() -> (usize, usize, usize, usize) {
        (0, 0, 0, 0)
    }
    fn sh_trace_calls_now() -> usize {
        0
    }
    include!("core.rs");
    pub fn probe() -> (usize, usize) {
        let h = Rc::new(Node::new(0));
        let p = Rc::as_ptr(&h) as usize;
        let r = (p, std::mem::size_of::<Node>());
        std::mem::forget(h);
        r
    }
}

fn main() {
    let args: Vec<String> = std::env::args().collect();
    let mode = args.get(1).map(String::as_str).unwrap_or("cactus");
    if mode == "weakraw" {
        alloc_track::TRACK.store(false, Relaxed);
        std::process::exit(weakraw::main());
    }
    if mode == "bigscen" {
        alloc_track::TRACK.store(false, Relaxed);
        std::process::exit(bigscen::main(args.get(2).map(String::as_str)));
    }
    if mode == "panicapi" {
        alloc_track::TRACK.store(false, Relaxed);
        std::process::exit(panicapi::main());
    }
    if mode == "apidiff" {
        alloc_track::TRACK.store(false, Relaxed);
        let seeds: u64 = args.get(2).and_then(|x| x.parse().ok()).unwrap_or(20);
        std::process::exit(apidiff::main(seeds));
    }
    if mode == "bigring" {
        let shape = args.get(2).cloned().unwrap_or_else(|| "ring".into());
        let n: usize = args.get(3).and_then(|x| x.parse().ok()).unwrap_or(1000);
        alloc_track::TRACK.store(false, Relaxed);
        let th = std::thread::Builder::new()
            .stack_size(128 * 1024)
            .spawn(move || big::run(&shape, n))
            .unwrap();
        match th.join() {
            Ok(line) => {
                println!("{}", line);
                std::process::exit(if line.starts_with("ok") { 0 } else { 1 });
            }
            Err(_) => {
                println!("FAIL thread panicked");
                std::process::exit(1);
            }
        }
    }
    if mode != "cactus" && mode != "std" && mode != "bigring" && mode != "apidiff" && mode != "panicapi" && mode != "weakraw" && mode != "bigscen" {
        eprintln!("unknown mode {}", mode);
        std::process::exit(2);
    }
    let cleanup = !args.iter().any(|a| a == "--no-cleanup");
    std::panic::set_hook(Box::new(|_| {}));
    // learn the RcBox block geometry from one probe allocation
    alloc_track::TRACK.store(false, Relaxed);
    let (p, _sz) = if mode == "std" { stdrc::probe() } else { cactus::probe() };
    let block = alloc_track::LAST_A64_ADDR.load(Relaxed);
    let size = alloc_track::LAST_A64_SIZE.load(Relaxed);
    unsafe { VALUE_OFFSET = p - block };
    alloc_track::RCBOX_SIZE.store(size, Relaxed);
    alloc_track::TRACK.store(true, Relaxed);

    let mut input = String::new();
    std::io::stdin().read_to_string(&mut input).unwrap();
    let mut cases: Vec<(String, Vec<(String, ops::Op)>)> = Vec::new();
    for line in input.lines() {
        let l = line.split('|').next().unwrap().trim();
        if l.is_empty() || l.starts_with('#') {
            continue;
        }
        if let Some(name) = l.strip_prefix("case") {
            cases.push((name.trim().to_string(), Vec::new()));
        } else if l == "end" {
        } else if let Some(op) = ops::parse_op(l) {
            if let Some(c) = cases.last_mut() {
                c.1.push((l.to_string(), op));
            }
        } else {
            eprintln!("bad-op: {}", l);
            std::process::exit(2);
        }
    }
    let mut out = String::with_capacity(1 << 24);
    let stdout = std::io::stdout();
    // warm-up (thread-locals, lazily initialised runtime state)
    {
        let warm = vec![("new".to_string(), ops::Op::Act(ops::Act::New))];
        if mode == "std" {
            stdrc::run_case("warmup", &warm, true, &mut out);
        } else {
            cactus::run_case("warmup", &warm, true, &mut out);
        }
        out.clear();
    }
    for (name, ops) in &cases {
        if mode == "std" {
            stdrc::run_case(name, ops, cleanup, &mut out);
        } else {
            cactus::run_case(name, ops, cleanup, &mut out);
        }
        let mut so = stdout.lock();
        so.write_all(out.as_bytes()).unwrap();
        so.flush().unwrap();
        out.clear();
    }
}
