//! `hexec`: run histories on the real `cactusref::Rc` (and on `std::rc::Rc`) and print a
//! canonical transcript for comparison with the Lean model driver.

mod alloc_track;
mod ops;

use std::io::{Read, Write};
use std::sync::atomic::Ordering::Relaxed;

#[global_allocator]
static GLOBAL: alloc_track::Tracking = alloc_track::Tracking;

static mut VALUE_OFFSET: usize = 0;
pub fn value_offset() -> usize {
    unsafe { VALUE_OFFSET }
}

pub fn flush_out() {
    let _ = std::io::stdout().flush();
}

/// write the transcript collected so far straight to fd 1 (no buffering: a crash must not lose it)
pub fn emit(out: &mut String) {
    let mut so = std::io::stdout().lock();
    let _ = so.write_all(out.as_bytes());
    let _ = so.flush();
    out.clear();
}

mod cactus {
    use cactusref::{Adopt, Rc, Weak};
    pub const HAS_HOOKS: bool = true;
    fn sh_adopt(a: &Rc<Node>, b: &Rc<Node>) {
        unsafe { Rc::adopt_unchecked(a, b) }
    }
    fn sh_unadopt(a: &Rc<Node>, b: &Rc<Node>) {
        Rc::unadopt(a, b)
    }
    unsafe fn sh_peek(p: *const Node) -> Option<(usize, usize)> {
        Some(Rc::__verif_peek(p))
    }
    unsafe fn sh_links(p: *const Node) -> Option<Vec<(usize, u8, usize)>> {
        Some(Rc::__verif_links(p))
    }
    fn sh_trace_counters() -> (usize, usize, usize, usize) {
        cactusref::verif::take_trace_counters()
    }
    fn sh_trace_calls_now() -> usize {
        cactusref::verif::TRACE_CALLS.load(std::sync::atomic::Ordering::Relaxed)
    }
    include!("core.rs");
    pub fn probe() -> (usize, usize) {
        let h = Rc::new(Node::new(0));
        let p = Rc::as_ptr(&h) as usize;
        let r = (p, std::mem::size_of::<Node>());
        std::mem::forget(h);
        r
    }
}

mod stdrc {
    use std::rc::{Rc, Weak};
    pub const HAS_HOOKS: bool = false;
    fn sh_adopt(_a: &Rc<Node>, _b: &Rc<Node>) {}
    fn sh_unadopt(_a: &Rc<Node>, _b: &Rc<Node>) {}
    unsafe fn sh_peek(_p: *const Node) -> Option<(usize, usize)> {
        None
    }
    unsafe fn sh_links(_p: *const Node) -> Option<Vec<(usize, u8, usize)>> {
        None
    }
    fn sh_trace_counters() -> (usize, usize, usize, usize) {
        (0, 0, 0, 0)
    }
    fn sh_trace_calls_now() -> usize {
        0
    }
    include!("core.rs");
    pub fn probe() -> (usize, usize) {
        let h = Rc::new(Node::new(0));
        let p = Rc::as_ptr(&h) as usize;
        let r = (p, std::mem::size_of::<Node>());
        std::mem::forget(h);
        r
    }
}

fn main() {
    let args: Vec<String> = std::env::args().collect();
    let mode = args.get(1).map(String::as_str).unwrap_or("cactus");
    let cleanup = !args.iter().any(|a| a == "--no-cleanup");
    std::panic::set_hook(Box::new(|_| {}));
    // learn the RcBox block geometry from one probe allocation
    alloc_track::TRACK.store(false, Relaxed);
    let (p, _sz) = if mode == "std" { stdrc::probe() } else { cactus::probe() };
    let block = alloc_track::LAST_A64_ADDR.load(Relaxed);
    let size = alloc_track::LAST_A64_SIZE.load(Relaxed);
    unsafe { VALUE_OFFSET = p - block };
    alloc_track::RCBOX_SIZE.store(size, Relaxed);
    alloc_track::TRACK.store(true, Relaxed);

    let mut input = String::new();
    std::io::stdin().read_to_string(&mut input).unwrap();
    let mut cases: Vec<(String, Vec<(String, ops::Op)>)> = Vec::new();
    for line in input.lines() {
        let l = line.split('|').next().unwrap().trim();
        if l.is_empty() || l.starts_with('#') {
            continue;
        }
        if let Some(name) = l.strip_prefix("case") {
            cases.push((name.trim().to_string(), Vec::new()));
        } else if l == "end" {
        } else if let Some(op) = ops::parse_op(l) {
            if let Some(c) = cases.last_mut() {
                c.1.push((l.to_string(), op));
            }
        } else {
            eprintln!("bad-op: {}", l);
            std::process::exit(2);
        }
    }
    let mut out = String::with_capacity(1 << 24);
    let stdout = std::io::stdout();
    // warm-up (thread-locals, lazily initialised runtime state)
    {
        let warm = vec![("new".to_string(), ops::Op::Act(ops::Act::New))];
        if mode == "std" {
            stdrc::run_case("warmup", &warm, true, &mut out);
        } else {
            cactus::run_case("warmup", &warm, true, &mut out);
        }
        out.clear();
    }
    for (name, ops) in &cases {
        if mode == "std" {
            stdrc::run_case(name, ops, cleanup, &mut out);
        } else {
            cactus::run_case(name, ops, cleanup, &mut out);
        }
        let mut so = stdout.lock();
        so.write_all(out.as_bytes()).unwrap();
        so.flush().unwrap();
        out.clear();
    }
}
