import Cactus.Model.Step
import Cactus.Spec.Defs
/-!
# Invariants of the machine (definitions only; decidable, so they are also *tested* on every
machine step of generated histories by `invcheck` before and besides being proved)

`Inv` is unconditional: it holds in every reachable state of every history, contract-abiding or
not.  `InvS` additionally needs the adoption contract `P`.
-/
namespace Cactus
namespace State

/-- recorded adoptions `a → b` as seen from `a` / from `b` / self-records through the same handle -/
def F (s : State) (a b : Nat) : Nat := (s.tbl a).get ⟨b, .fwd⟩
def B (s : State) (b a : Nat) : Nat := (s.tbl b).get ⟨a, .bwd⟩

/-- strong / Weak handles owned by the value currently stored in `a` -/
def heldOf (s : State) (a : Nat) : List Nat :=
  match s.heap[a]? with
  | some ob => match ob.value with | some v => v.held | none => []
  | none => []
def weaksOf (s : State) (a : Nat) : List Nat :=
  match s.heap[a]? with
  | some ob => match ob.value with | some v => v.weaks | none => []
  | none => []

/-- number of strong handles to `b` inside the value of `a` -/
def H (s : State) (a b : Nat) : Nat := (s.heldOf a).count b

end State

/-- strong handles to `o` owned by a control-stack frame -/
def Frame.strongTo (o : Nat) : Frame → Nat
  | .rcDrop t => if t = o then 1 else 0
  | .dropVal v => v.held.count o
  | .dropFields h _ => h.count o
  | _ => 0

/-- Weak handles to `o` owned by a control-stack frame -/
def Frame.weakTo (o : Nat) : Frame → Nat
  | .weakDrop t => if t = o then 1 else 0
  | .dropVal v => v.weaks.count o
  | .dropFields _ w => w.count o
  | _ => 0

/-- implicit weak references to `o` that a pending frame still has to release -/
def Frame.owes (o : Nat) : Frame → Nat
  | .finishSingle t => if t = o then 1 else 0
  | .phase3 ks => ks.count o
  | _ => 0

namespace State

def sumList (l : List Nat) : Nat := l.foldr (· + ·) 0

/-- handles held directly by the program -/
def ext (s : State) (o : Nat) : Nat :=
  s.roots.count o + s.raws.count o + sumList (s.vals.map (fun v => v.held.count o))
def extW (s : State) (o : Nat) : Nat :=
  s.wroots.count o + sumList (s.vals.map (fun v => v.weaks.count o))
/-- handles owned by pending teardown frames -/
def pend (s : State) (o : Nat) : Nat := sumList (s.stack.map (Frame.strongTo o))
def pendW (s : State) (o : Nat) : Nat := sumList (s.stack.map (Frame.weakTo o))
def owed (s : State) (o : Nat) : Nat := sumList (s.stack.map (Frame.owes o))
/-- handles stored inside values that are still in the heap -/
def inHeap (s : State) (o : Nat) : Nat :=
  sumList ((List.range s.heap.length).map (fun a => (s.heldOf a).count o))
def inHeapW (s : State) (o : Nat) : Nat :=
  sumList ((List.range s.heap.length).map (fun a => (s.weaksOf a).count o))

def strongNat (s : State) (o : Nat) : Nat :=
  match s.heap[o]? with
  | some ob => match ob.strong with | .cnt n => n | .uninit => 0
  | none => 0
def weakNat (s : State) (o : Nat) : Nat :=
  match s.heap[o]? with
  | some ob => ob.weak
  | none => 0

/-- object states -/
def InvO (s : State) : Prop :=
  ∀ (o : Nat) (ob : Obj), s.heap[o]? = some ob →
    (∀ n, ob.strong = .cnt (n + 1) → ob.value.isSome = true ∧ ob.links.isSome = true ∧ ob.freed = false
        ∧ ob.implicit = true)
    ∧ (ob.strong = .cnt 0 → ob.value = none ∧ ob.links = none)
    ∧ (ob.strong = .uninit → ob.value = none ∧ (ob.links = none ∨ (ob.links = some [] ∧ ob.implicit = true)))
    ∧ (ob.freed = true ↔ ob.weak = 0)

/-- bookkeeping: well-formed tables, entries name live objects only, both ends agree -/
def InvB (s : State) : Prop :=
  (∀ (o : Nat) (t : Table), s.tableOf o = some t →
      t.WF ∧ ∀ e, e ∈ t → (e.1.kind = .loop → e.1.ptr = o) ∧ (e.1.kind ≠ .loop → s.isLive e.1.ptr = true))
  ∧ (∀ a b, s.isLive a = true → s.isLive b = true → s.F a b = s.B b a)

/-- strong counts are exact for live objects -/
def InvC (s : State) : Prop :=
  ∀ t, s.isLive t = true → s.strongNat t = s.ext t + s.inHeap t + s.pend t

def implicitNat (s : State) (o : Nat) : Nat :=
  match s.heap[o]? with
  | some ob => if ob.implicit then 1 else 0
  | none => 0

/-- weak counts are exact: Weak handles plus the implicit weak reference while it is still owned -/
def InvW (s : State) : Prop :=
  ∀ t, t < s.heap.length →
    s.weakNat t = s.extW t + s.inHeapW t + s.pendW t + s.implicitNat t

/-- pending continuation frames refer to objects in the matching transient state and each owes
the implicit weak reference of its objects exactly once -/
def InvK (s : State) : Prop :=
  (∀ o, Frame.finishSingle o ∈ s.stack →
      ∃ ob, s.heap[o]? = some ob ∧ ob.strong = .uninit ∧ ob.links = some [] ∧ ob.implicit = true)
  ∧ (∀ ks, Frame.phase3 ks ∈ s.stack → ∀ k, k ∈ ks →
      ∃ ob, s.heap[k]? = some ob ∧ ob.strong = .uninit ∧ ob.links = none ∧ ob.implicit = true)
  ∧ (∀ o, s.owed o ≤ 1)

def InvCore (s : State) : Prop := InvO s ∧ InvB s ∧ InvC s ∧ InvW s ∧ InvK s

/-- no handle designates an unallocated index (needed by `new`: the fresh index is unused) -/
def InvR (s : State) : Prop :=
  ∀ t, s.heap.length ≤ t →
    s.ext t + s.inHeap t + s.pend t = 0 ∧ s.extW t + s.inHeapW t + s.pendW t = 0

/-- the unconditional invariant: holds in every reachable state of every history (states in which
the machine has stopped with an error are exempt: the process is gone) -/
def Inv (s : State) : Prop := s.err = none → InvCore s

/-- everything unconditional together -/
def InvAll (s : State) : Prop := s.err = none → InvCore s ∧ InvR s

/-- the adoption contract: recorded adoptions never exceed the handles actually held -/
def P (s : State) : Prop :=
  ∀ a b, s.isLive a = true → s.F a b ≤ s.H a b

/-- every stored handle is recorded (C09) -/
def Full (s : State) : Prop :=
  ∀ a b, s.isLive a = true → s.F a b = s.H a b

/-- strong handles to `o` owned by the frames *below* the first `phase3` frame that lists `o` -/
def belowPhase3 (o : Nat) : List Frame → Nat
  | [] => 0
  | .phase3 ks :: rest => if o ∈ ks then sumList (rest.map (Frame.strongTo o)) else belowPhase3 o rest
  | _ :: rest => belowPhase3 o rest

/-- safety (needs the contract): handles of the program and of live values target live objects;
handles owned by pending frames target live objects or group members whose allocation is still
owned by the teardown that is destroying them -/
def InvSCore (s : State) : Prop :=
  (∀ o, 0 < s.ext o + s.inHeap o → s.isLive o = true)
  ∧ (∀ o, 0 < s.pend o → s.isLive o = false →
      ∃ ob, s.heap[o]? = some ob ∧ ob.strong = .uninit ∧ ob.links = none ∧ ob.implicit = true)
  ∧ (∀ o, belowPhase3 o s.stack = 0)

def InvS (s : State) : Prop := s.err = none → InvSCore s

/-- reachability from the program's handles through handles stored in live values -/
inductive Reach (s : State) : Nat → Prop
  | root {o : Nat} : 0 < s.ext o → Reach s o
  | step {a o : Nat} : Reach s a → s.isLive a = true → 0 < s.H a o → Reach s o

end State
end Cactus
