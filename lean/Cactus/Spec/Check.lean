import Cactus.Spec.Inv
/-!
Executable (Bool) renderings of the invariants of `Cactus.Spec.Inv`, used by `invcheck` to *test*
the invariants at every machine step of generated histories.  Testing only: the theorems are
about the `Prop` versions.
-/
namespace Cactus
namespace State

def allIdx (s : State) (p : Nat → Obj → Bool) : Bool :=
  (List.range s.heap.length).all (fun o => match s.heap[o]? with | some ob => p o ob | none => true)

def chkO (s : State) : Bool :=
  s.allIdx fun _ ob =>
    (match ob.strong with
      | .cnt (_ + 1) => ob.value.isSome && ob.links.isSome && !ob.freed && ob.implicit
      | .cnt 0 => ob.value.isNone && ob.links.isNone
      | .uninit => ob.value.isNone && (ob.links.isNone || (ob.links == some [] && ob.implicit)))
    && (ob.freed == (ob.weak == 0))

def tableWF (t : Table) : Bool :=
  (t.map (·.1)).eraseDups.length == t.length && t.all (fun e => 0 < e.2)

def chkB (s : State) : Bool :=
  (s.allIdx fun o _ =>
    match s.tableOf o with
    | some t => tableWF t && t.all (fun e =>
        if e.1.kind == .loop then e.1.ptr == o else s.isLive e.1.ptr)
    | none => true)
  && (List.range s.heap.length).all (fun a => (List.range s.heap.length).all (fun b =>
        !(s.isLive a && s.isLive b) || s.F a b == s.B b a))

def chkC (s : State) : Bool :=
  (List.range s.heap.length).all (fun t =>
    !s.isLive t || s.strongNat t == s.ext t + s.inHeap t + s.pend t)

def chkW (s : State) : Bool :=
  (List.range s.heap.length).all (fun t =>
    s.weakNat t == s.extW t + s.inHeapW t + s.pendW t + s.implicitNat t)

def chkK (s : State) : Bool :=
  (s.stack.all fun f =>
    match f with
    | .finishSingle o =>
      (match s.heap[o]? with
        | some ob => ob.strong == .uninit && ob.links == some [] && ob.implicit
        | none => false)
    | .phase3 ks => ks.all (fun k =>
        match s.heap[k]? with
        | some ob => ob.strong == .uninit && ob.links.isNone && ob.implicit
        | none => false)
    | _ => true)
  && (List.range s.heap.length).all (fun o => decide (s.owed o ≤ 1))

def chkR (s : State) : Bool :=
  let big := s.roots ++ s.raws ++ s.wroots ++ (s.vals.map (fun v => v.held ++ v.weaks)).flatten
      ++ ((List.range s.heap.length).map (fun a => s.heldOf a ++ s.weaksOf a)).flatten
      ++ (s.stack.map (fun f => match f with
          | .rcDrop t => [t] | .weakDrop t => [t] | .dropVal v => v.held ++ v.weaks
          | .dropFields h w => h ++ w | _ => [])).flatten
  big.all (fun t => t < s.heap.length)

def chkP (s : State) : Bool :=
  (List.range s.heap.length).all (fun a => (List.range s.heap.length).all (fun b =>
    !s.isLive a || decide (s.F a b ≤ s.H a b)))

def chkS (s : State) : Bool :=
  (List.range s.heap.length).all (fun o =>
    (!(0 < s.ext o + s.inHeap o) || s.isLive o)
    && (!(0 < s.pend o && !s.isLive o) ||
        (match s.heap[o]? with
          | some ob => ob.strong == .uninit && ob.links.isNone && ob.implicit
          | none => false))
    && belowPhase3 o s.stack == 0)

def libErr (s : State) : Bool :=
  match s.err with
  | some (.uaf _) | some (.movedLinks _) | some (.movedValue _) | some (.doubleFree _)
  | some (.underflow _) | some (.corrupt _) => true
  | _ => false

/-- names of the violated invariants -/
def violations (s : State) (pSoFar : Bool) : List String :=
  if s.err.isSome then (if pSoFar && s.libErr then ["LibErr"] else []) else
  (if s.chkO then [] else ["InvO"]) ++ (if s.chkB then [] else ["InvB"]) ++
  (if s.chkC then [] else ["InvC"]) ++ (if s.chkW then [] else ["InvW"]) ++
  (if s.chkK then [] else ["InvK"]) ++ (if s.chkR then [] else ["InvR"]) ++
  (if pSoFar && !s.chkS then ["InvS"] else []) ++
  (if pSoFar && s.libErr then ["LibErr"] else [])

end State
end Cactus
