import Cactus.Model.Trace
namespace Cactus
/-- readable table of `n`, `[]` if there is none -/
def State.tbl (s : State) (n : Nat) : Table := (s.tableOf n).getD []
end Cactus
