import Cactus.Model.Step
/-!
# Reference model of `std::rc::Rc` / `std::rc::Weak`

The same small-step machine as `Cactus.Model.Step` with everything about link tables deleted: an
`RcBox` is `strong`, `weak` (including the implicit weak reference owned by the strong side), the
value (present until the last strong handle goes) and the allocation.  Handles, selectors
(`nthMod`, `idxMod`, the liveness guard `dangling`), destructor semantics (`dropVal`, `script`,
`panic`, `dropFields`) and the event log are those of the model, so that the two machines can be
compared line by line (`Cactus.Lemmas.StdSim`).

The frame `finishSingle o` is "the rest of `Rc::drop` after `drop_in_place(value)`: release the
implicit weak reference, free the allocation if that was the last one".  `phase3` is never pushed.
-/
namespace Cactus

/-- std's `RcBox` -/
structure SObj where
  strong : Nat
  weak : Nat
  value : Option Val
  freed : Bool
  deriving DecidableEq, Repr, Inhabited

structure SState where
  heap : List SObj := []
  roots : List Nat := []
  wroots : List Nat := []
  vals : List Val := []
  raws : List Nat := []
  stack : List Frame := []
  log : List Ev := []
  err : Option Err := none
  unwinding : Bool := false
  hint : List Nat := []
  nextVid : Nat := 0
  deriving Repr, Inhabited

namespace SState

def fail (s : SState) (e : Err) : SState :=
  match s.err with
  | some _ => s
  | none => { s with err := some e }

def emit (s : SState) (e : Ev) : SState := { s with log := s.log ++ [e] }

def push (s : SState) (fs : List Frame) : SState := { s with stack := fs ++ s.stack }

def setObj (s : SState) (o : Nat) (ob : SObj) : SState := { s with heap := s.heap.set o ob }

def cell (s : SState) (o : Nat) : Option SObj :=
  match s.heap[o]? with
  | some ob => if ob.freed then none else some ob
  | none => none

def isLive (s : SState) (o : Nat) : Bool :=
  match s.heap[o]? with
  | some ob => !ob.freed && !(ob.strong == 0)
  | none => false

/-- `inc_strong`: aborts on 0 (unreachable in safe code) -/
def incStrong (s : SState) (o : Nat) : SState :=
  match s.cell o with
  | some ob => if ob.strong = 0 then s.fail .abort else s.setObj o { ob with strong := ob.strong + 1 }
  | none => s.fail (.uaf o)

/-- `inc_weak`: aborts on 0 -/
def incWeak (s : SState) (o : Nat) : SState :=
  match s.cell o with
  | some ob => if ob.weak = 0 then s.fail .abort else s.setObj o { ob with weak := ob.weak + 1 }
  | none => s.fail (.uaf o)

/-- `dec_weak(); if weak() == 0 { deallocate }` -/
def decWeakFree (s : SState) (o : Nat) : SState :=
  match s.cell o with
  | some ob =>
    match ob.weak with
    | 0 => s.fail (.underflow o)
    | 1 => (s.setObj o { ob with weak := 0, freed := true }).emit (.freed o)
    | w + 2 => s.setObj o { ob with weak := w + 1 }
  | none => s.fail (.uaf o)

/-- `<Rc as Drop>::drop`: `strong -= 1; if strong == 0 { drop_in_place(value); … }` -/
def rcDrop (s : SState) (o : Nat) : SState :=
  match s.cell o with
  | none => s.fail (.uaf o)
  | some ob =>
    match ob.strong with
    | 0 => s.fail (.underflow o)
    | n + 1 =>
      if n = 0 then
        match ob.value with
        | some v => (s.setObj o { ob with strong := 0, value := none }).push [.dropVal v, .finishSingle o]
        | none => (s.setObj o { ob with strong := 0 }).fail (.movedValue o)
      else s.setObj o { ob with strong := n }

/-- rest of `Rc::drop`: `dec_weak(); if weak() == 0 { deallocate }` -/
def finishSingle (s : SState) (o : Nat) : SState := s.decWeakFree o

def dropVal (s : SState) (v : Val) : SState :=
  (s.emit (.destroyed v.vid)).push
    ([.script v.held v.weaks v.script] ++ (if v.panics then [.panic] else []) ++ [.dropFields v.held v.weaks])

def panic (s : SState) : SState :=
  if s.unwinding then s.fail .abort
  else { s with unwinding := true, stack := s.stack.filter Frame.isCleanup }

def dropFields (s : SState) : List Nat → List Nat → SState
  | h :: hs, ws => s.push [.rcDrop h, .dropFields hs ws]
  | [], w :: ws => s.push [.weakDrop w, .dropFields [] ws]
  | [], [] => s

/-- `Weak::drop` -/
def weakDrop (s : SState) (o : Nat) : SState := s.decWeakFree o

def modVal (s : SState) (o : Nat) (f : Val → Val) : SState :=
  match s.cell o with
  | some ob =>
    match ob.value with
    | some v => s.setObj o { ob with value := some (f v) }
    | none => s.fail (.movedValue o)
  | none => s.fail (.uaf o)

def valOf (s : SState) (o : Nat) : Option Val :=
  match s.cell o with
  | some ob => ob.value
  | none => none

/-- `Rc::new` -/
def alloc (s : SState) (v : Val) : SState :=
  { s with heap := s.heap ++ [{ strong := 1, weak := 1, value := some v, freed := false }] }

def cloneHandles (s : SState) (v : Val) : SState :=
  v.weaks.foldl incWeak (v.held.foldl incStrong s)

/-- the value of `o` has been moved out by `try_unwrap` / `make_mut`: `strong = 0`, release the
implicit weak -/
def giveUp (s : SState) (o : Nat) : SState :=
  match s.cell o with
  | some ob => (s.setObj o { ob with strong := 0, value := none }).decWeakFree o
  | none => s.fail (.uaf o)

def useRoot (s : SState) (r : Nat) : Option Nat :=
  match nthMod s.roots r with
  | some o => if s.isLive o then some o else none
  | none => none

def badRoot (s : SState) (r : Nat) : SState :=
  match nthMod s.roots r with
  | some o => if s.isLive o then s else s.fail (.dangling o)
  | none => s

end SState

/-- one user-level action on std's `Rc` / `Weak`; the adoption API does not exist (no-ops) -/
def stdApplyAct (s : SState) (fh fw : List Nat) : Act → SState
  | .new =>
    let v : Val := { vid := s.nextVid, held := [], weaks := [], script := [], panics := false }
    let s1 := s.alloc v
    { s1 with roots := s1.roots ++ [s.heap.length], nextVid := s.nextVid + 1 }
  | .clone r =>
    match s.useRoot r with
    | some o => let s1 := s.incStrong o; { s1 with roots := s1.roots ++ [o] }
    | none => s.badRoot r
  | .drop r =>
    match s.useRoot r with
    | some o => { s with roots := s.roots.eraseIdx (idxMod s.roots r) }.push [.rcDrop o]
    | none => s.badRoot r
  | .adopt _ _ => s
  | .unadopt _ _ => s
  | .link _ _ => s
  | .unlink _ _ => s
  | .store r q =>
    match s.useRoot r, s.useRoot q with
    | some t, some o =>
      if idxMod s.roots r = idxMod s.roots q then s
      else { s with roots := s.roots.eraseIdx (idxMod s.roots r) }.modVal o (fun v => { v with held := v.held ++ [t] })
    | _, _ => (s.badRoot r).badRoot q
  | .take q k =>
    match s.useRoot q with
    | some o =>
      match s.valOf o with
      | some v =>
        match nthMod v.held k with
        | some t =>
          let s1 := s.modVal o (fun v => { v with held := v.held.eraseIdx (idxMod v.held k) })
          { s1 with roots := s1.roots ++ [t] }
        | none => s
      | none => s.fail (.movedValue o)
    | none => s.badRoot q
  | .downgrade r =>
    match s.useRoot r with
    | some o => let s1 := s.incWeak o; { s1 with wroots := s1.wroots ++ [o] }
    | none => s.badRoot r
  | .upgrade w =>
    match nthMod s.wroots w with
    | some o =>
      match s.cell o with
      | some ob =>
        if ob.strong = 0 then s.emit (retBool false)
        else let s1 := (s.incStrong o).emit (retBool true); { s1 with roots := s1.roots ++ [o] }
      | none => s.fail (.uaf o)
    | none => s
  | .cloneWeak w =>
    match nthMod s.wroots w with
    | some o => let s1 := s.incWeak o; { s1 with wroots := s1.wroots ++ [o] }
    | none => s
  | .dropWeak w =>
    match nthMod s.wroots w with
    | some o => { s with wroots := s.wroots.eraseIdx (idxMod s.wroots w) }.push [.weakDrop o]
    | none => s
  | .storeWeak w q =>
    match nthMod s.wroots w, s.useRoot q with
    | some t, some o =>
      { s with wroots := s.wroots.eraseIdx (idxMod s.wroots w) }.modVal o (fun v => { v with weaks := v.weaks ++ [t] })
    | some _, none => s.badRoot q
    | none, _ => s
  | .tryUnwrap r =>
    match s.useRoot r with
    | some o =>
      match s.cell o with
      | some ob =>
        match ob.strong, ob.value with
        | 1, some v =>
          let s1 := ({ s with roots := s.roots.eraseIdx (idxMod s.roots r), vals := s.vals ++ [v] }).giveUp o
          s1.emit (retBool true)
        | 1, none => s.fail (.movedValue o)
        | _, _ => s.emit (retBool false)
      | none => s.fail (.uaf o)
    | none => s.badRoot r
  | .dropValue i =>
    match nthMod s.vals i with
    | some v => { s with vals := s.vals.eraseIdx (idxMod s.vals i) }.push [.dropVal v]
    | none => s
  | .makeMut r =>
    match s.useRoot r with
    | some o =>
      match s.cell o with
      | some ob =>
        match ob.value with
        | some v =>
          if ob.strong ≠ 1 then
            let v' : Val := if v.shallow then { v with vid := s.nextVid, held := [], weaks := [] }
                            else { v with vid := s.nextVid }
            let s1 := (if v.shallow then s else s.cloneHandles v).alloc v'
            ({ s1 with roots := s1.roots.set (idxMod s.roots r) s.heap.length, nextVid := s.nextVid + 1 }.emit (.ret 2)).push [.rcDrop o]
          else if ob.weak ≠ 1 then
            let s1 := (s.alloc v)
            ({ s1 with roots := s1.roots.set (idxMod s.roots r) s.heap.length }.giveUp o).emit (.ret 1)
          else s.emit (.ret 0)
        | none => s.fail (.movedValue o)
      | none => s.fail (.uaf o)
    | none => s.badRoot r
  | .getMut r =>
    match s.useRoot r with
    | some o =>
      match s.cell o with
      | some ob => s.emit (retBool (ob.strong = 1 && ob.weak = 1))
      | none => s.fail (.uaf o)
    | none => s.badRoot r
  | .intoRaw r =>
    match s.useRoot r with
    | some o => { s with roots := s.roots.eraseIdx (idxMod s.roots r), raws := s.raws ++ [o] }
    | none => s.badRoot r
  | .fromRaw i =>
    match nthMod s.raws i with
    | some o => { s with raws := s.raws.eraseIdx (idxMod s.raws i), roots := s.roots ++ [o] }
    | none => s
  | .incStrong i =>
    match nthMod s.raws i with
    | some o => if s.isLive o then let s1 := s.incStrong o; { s1 with raws := s1.raws ++ [o] } else s.fail (.dangling o)
    | none => s
  | .decStrong i =>
    match nthMod s.raws i with
    | some o =>
      if s.isLive o then { s with raws := s.raws.eraseIdx (idxMod s.raws i) }.push [.rcDrop o]
      else s.fail (.dangling o)
    | none => s
  | .ptrEq r1 r2 =>
    match s.useRoot r1, s.useRoot r2 with
    | some a, some b => s.emit (retBool (a = b))
    | _, _ => (s.badRoot r1).badRoot r2
  | .counts r =>
    match s.useRoot r with
    | some o =>
      match s.cell o with
      | some ob => (s.emit (.ret ob.strong)).emit (.ret (ob.weak - 1))
      | none => s.fail (.uaf o)
    | none => s.badRoot r
  | .wcounts w =>
    match nthMod s.wroots w with
    | some o =>
      match s.cell o with
      | some ob => (s.emit (.ret ob.strong)).emit (.ret (if 0 < ob.strong then ob.weak - 1 else 0))
      | none => s.fail (.uaf o)
    | none => s
  | .setPanic q =>
    match s.useRoot q with
    | some o => s.modVal o (fun v => { v with panics := true })
    | none => s.badRoot q
  | .setShallow q =>
    match s.useRoot q with
    | some o => s.modVal o (fun v => { v with shallow := true })
    | none => s.badRoot q
  | .upgradeField k =>
    match nthMod fw k with
    | some o =>
      match s.cell o with
      | some ob =>
        if ob.strong = 0 then s.emit (retBool false)
        else let s1 := (s.incStrong o).emit (retBool true); { s1 with roots := s1.roots ++ [o] }
      | none => s.fail (.uaf o)
    | none => s
  | .cloneField k =>
    match nthMod fh k with
    | some o => let s1 := s.incStrong o; { s1 with roots := s1.roots ++ [o] }
    | none => s
  | .downgradeField k =>
    match nthMod fh k with
    | some o => let s1 := s.incWeak o; { s1 with wroots := s1.wroots ++ [o] }
    | none => s

/-- one machine step -/
def stdStep (s : SState) : SState :=
  match s.err with
  | some _ => s
  | none =>
    match s.stack with
    | [] => s
    | f :: rest =>
      let s0 := { s with stack := rest }
      match f with
      | .rcDrop o => s0.rcDrop o
      | .weakDrop o => s0.weakDrop o
      | .dropVal v => s0.dropVal v
      | .script _ _ [] => s0
      | .script h w (a :: as) => stdApplyAct (s0.push [.script h w as]) h w a
      | .panic => s0.panic
      | .dropFields h w => s0.dropFields h w
      | .finishSingle o => s0.finishSingle o
      | .phase3 _ => s0

def stdDrain : Nat → SState → SState
  | 0, s => match s.stack with | [] => s | _ :: _ => s.fail .fuel
  | f + 1, s =>
    match s.err, s.stack with
    | none, _ :: _ => stdDrain f (stdStep s)
    | _, _ => s

/-- top-level operation; `shuffle` has nothing to permute -/
def stdApplyOp (s : SState) : Op → SState
  | .act a => stdApplyAct s [] [] a
  | .setScript q acts =>
    match s.useRoot q with
    | some o => s.modVal o (fun v => { v with script := acts })
    | none => s.badRoot q
  | .shuffle q _ =>
    match s.useRoot q with
    | some _ => s
    | none => s.badRoot q

def stdEndOp (s : SState) : SState :=
  if s.unwinding then { s with unwinding := false }.emit .panicked else s

def stdExecOp (fuel : Nat) (s : SState) (op : Op) (hint : List Nat) : SState :=
  match s.err with
  | some _ => s
  | none => stdEndOp (stdDrain fuel (stdApplyOp { s with hint := hint } op))

def stdRun (ops : List (Op × List Nat)) : SState :=
  ops.foldl (fun s oh => stdExecOp defaultFuel s oh.1 oh.2) {}

end Cactus
