import Cactus.Spec.Inv
/-!
# Reachable machine states

`Reachable s`: `s` occurs in some execution of some history, at an operation boundary or in the
middle of a teardown (so statements about reachable states also speak about every point at which
a user destructor runs).  `ReachableP` additionally requires the adoption contract `P` in every
state passed through: it is the hypothesis of the properties that the crate documents as
requiring correct use of `adopt_unchecked`.
-/
namespace Cactus

/-- start of an operation: the layout hint is installed (no other effect) -/
def State.begin (s : State) (hint : List Nat) : State := { s with hint := hint }

inductive Reachable : State → Prop
  | init : Reachable {}
  | op {s : State} (o : Op) (hint : List Nat) : Reachable s → s.stack = [] → Reachable (applyOp (s.begin hint) o)
  | step {s : State} : Reachable s → Reachable (step s)
  | endOp {s : State} : Reachable s → Reachable (endOp s)
  | outOfFuel {s : State} : Reachable s → Reachable (s.fail .fuel)

inductive ReachableP : State → Prop
  | init : ReachableP {}
  | op {s : State} (o : Op) (hint : List Nat) : ReachableP s → s.stack = [] →
      (applyOp (s.begin hint) o).P → ReachableP (applyOp (s.begin hint) o)
  | step {s : State} : ReachableP s → (step s).P → ReachableP (step s)
  | endOp {s : State} : ReachableP s → ReachableP (endOp s)
  | outOfFuel {s : State} : ReachableP s → ReachableP (s.fail .fuel)

theorem ReachableP.reachable {s : State} (h : ReachableP s) : Reachable s := by
  induction h with
  | init => exact .init
  | op o hint _ hq _ ih => exact .op o hint ih hq
  | step _ _ ih => exact .step ih
  | endOp _ ih => exact .endOp ih
  | outOfFuel _ ih => exact .outOfFuel ih

theorem drain_reachable (f : Nat) (s : State) (h : Reachable s) : Reachable (drain f s) := by
  induction f generalizing s with
  | zero =>
    unfold drain
    split
    · exact h
    · exact .outOfFuel h
  | succ f ih =>
    unfold drain
    split
    · exact ih _ (.step h)
    · exact h

/-- every state produced by running a history is reachable -/
theorem execOp_reachable (fuel : Nat) (s : State) (o : Op) (hint : List Nat) (h : Reachable s)
    (hq : s.stack = []) : Reachable (execOp fuel s o hint) := by
  unfold execOp
  split
  · exact h
  · exact .endOp (drain_reachable fuel _ (.op o hint h hq))

end Cactus
