import Cactus.Lemmas.StdSim
import Cactus.Lemmas.Basic
import Cactus.Props.C03
import Cactus.Props.C14
/-!
# C07 — without adoptions, behaves exactly like `std::rc::Rc` / `Weak` (first layer)

An object whose link table is empty is dropped by the `std` algorithm: decrement; at zero destroy
the value, then release the implicit weak reference; the allocation is freed when the weak count
reaches zero.  No trace, no purge, no table access beyond the emptiness test.  The simulation of
the whole machine by a reference model of `std` is `Cactus.Lemmas.StdSim`; the parts of the shared
API that are not modelled (formatting, comparison, hashing, `From`, `Default`, `pin`) are covered
by the direct differential run against `std::rc` in the harness.
-/
namespace Cactus
open State

/-- `drop` of a shared handle: only the strong count changes, by exactly one -/
theorem C07_drop_shared (s : State) (o : Nat) (ob : Obj) (n : Nat)
    (hc : s.cell o = some ob) (hs : ob.strong = .cnt (n + 2)) (hl : ob.links = some []) :
    s.rcDrop o = s.setObj o { ob with strong := .cnt (n + 1) } := by
  unfold State.rcDrop
  simp [hc, hs, hl]

/-- `drop` of the last handle: value moved out and destroyed first, then the implicit weak goes -/
theorem C07_drop_last (s : State) (o : Nat) (ob : Obj) (v : Val)
    (hc : s.cell o = some ob) (hs : ob.strong = .cnt 1) (hl : ob.links = some []) (hv : ob.value = some v) :
    (s.rcDrop o).stack = .dropVal v :: .finishSingle o :: s.stack :=
  (C03_last_handle s o ob v hc hs hl hv).1

/-- no reachability machinery runs for such an object -/
theorem C07_no_trace (s : State) (o : Nat) (ob : Obj) (hc : s.cell o = some ob) (hl : ob.links = some []) :
    (s.rcDrop o).log = s.log := C14_drop_no_trace s o ob hc hl

/-- `new` creates an object with an empty table, and no operation other than `adopt`/`link` ever
inserts into a table -/
theorem C07_new_table_empty (s : State) (v : Val) : (s.alloc v).tableOf s.heap.length = some [] := by
  simp [State.alloc, State.tableOf, State.cell]


/-! ## The simulation (`Cactus.Lemmas.StdSim`, reference model `Cactus.Spec.Std`)

`stdRun` executes a history on a reference model of `std::rc::{Rc, Weak}` (strong count, weak count
with the implicit weak, value dropped by the last strong handle, allocation freed at weak zero;
no link tables, no sentinel).  For every history whose operations are all shared-API operations
(everything except `adopt`/`unadopt`/`link`/`unlink`, also inside destructor scripts) the two
machines produce the same state up to erasure of the link tables and of the `uninit` sentinel —
in particular the same event log: the same sequence of value destructions, releases, return
values (`upgrade`, `try_unwrap`, `get_mut`, `make_mut` branch, `ptr_eq`, all four count queries)
and panics. -/

theorem C07_same_observations_as_std (ops : List (Op × List Nat)) (hops : ∀ oh ∈ ops, oh.1.shared) :
    (run ops).log = (stdRun ops).log ∧ (run ops).err = (stdRun ops).err
    ∧ (run ops).erase = stdRun ops :=
  ⟨run_log ops hops, run_err ops hops, run_erase ops hops⟩

/-- one step of the cycle-aware machine is one step of the `std` machine -/
theorem C07_step_simulation (s : State) (h : s.Std) (hI : s.Inv) (hS : s.InvS) :
    (step s).erase = stdStep s.erase := step_erase s h hI hS

end Cactus
