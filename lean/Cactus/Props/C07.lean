import Cactus.Lemmas.StdSim
import Cactus.Lemmas.Basic
import Cactus.Lemmas.PayAsYouGo        -- `run_noAdopt_no_trace` (last example)
import Cactus.Lemmas.Shared.OneStep   -- `Shared.rcDrop_last_handle`, `Shared.rcDrop_emptyTable_log`
/-!
# C07 — without adoptions, behaves exactly like `std::rc::Rc` / `Weak`

An object whose link table is empty is dropped by the `std` algorithm: decrement; at zero destroy
the value, then release the implicit weak reference; the allocation is freed when the weak count
reaches zero.  No trace, no purge, no table access beyond the emptiness test.  What is proved here:
* one-step lemmas: `C07_drop_shared`, `C07_drop_last`, `C07_no_trace`, `C07_new_table_empty`;
* whole histories of shared-API operations: `C07_same_observations_as_std` (the machine and the
  reference model `Cactus.Spec.Std` end in the same state up to erasure of tables and sentinel, with
  the same log), `C07_step_simulation`;
* example: a 26-operation shared-API history, the theorem instantiated and the common log shown.
Not proved: the parts of the shared API that are not modelled (formatting, comparison, hashing,
`From`, `Default`, `pin`) are covered by the direct differential run against `std::rc` in the harness.
-/
namespace Cactus
open State

/-- `drop` of a shared handle: only the strong count changes, by exactly one -/
theorem C07_drop_shared (s : State) (o : Nat) (ob : Obj) (n : Nat)
    (hc : s.cell o = some ob) (hs : ob.strong = .cnt (n + 2)) (hl : ob.links = some []) :
    s.rcDrop o = s.setObj o { ob with strong := .cnt (n + 1) } := by
  unfold State.rcDrop
  simp [hc, hs, hl]

/-- `drop` of the last handle: value moved out and destroyed first, then the implicit weak goes -/
theorem C07_drop_last (s : State) (o : Nat) (ob : Obj) (v : Val)
    (hc : s.cell o = some ob) (hs : ob.strong = .cnt 1) (hl : ob.links = some []) (hv : ob.value = some v) :
    (s.rcDrop o).stack = .dropVal v :: .finishSingle o :: s.stack :=
  (Shared.rcDrop_last_handle s o ob v hc hs hl hv).1

/-- no reachability machinery runs for such an object -/
theorem C07_no_trace (s : State) (o : Nat) (ob : Obj) (hc : s.cell o = some ob) (hl : ob.links = some []) :
    (s.rcDrop o).log = s.log := Shared.rcDrop_emptyTable_log s o ob hc hl

/-- `new` creates an object with an empty table, and no operation other than `adopt`/`link` ever
inserts into a table -/
theorem C07_new_table_empty (s : State) (v : Val) : (s.alloc v).tableOf s.heap.length = some [] := by
  simp [State.alloc, State.tableOf, State.cell]


/-! ## The simulation (`Cactus.Lemmas.StdSim`, reference model `Cactus.Spec.Std`)

`stdRun` executes a history on a reference model of `std::rc::{Rc, Weak}` (strong count, weak count
with the implicit weak, value dropped by the last strong handle, allocation freed at weak zero;
no link tables, no sentinel).  For every history whose operations are all shared-API operations
(everything except `adopt`/`unadopt`/`link`/`unlink`, also inside destructor scripts) the two
machines produce the same state up to erasure of the link tables and of the `uninit` sentinel —
in particular the same event log: the same sequence of value destructions, releases, return
values (`upgrade`, `try_unwrap`, `get_mut`, `make_mut` branch, `ptr_eq`, all four count queries)
and panics. -/

theorem C07_same_observations_as_std (ops : List (Op × List Nat)) (hops : ∀ oh ∈ ops, oh.1.shared) :
    (run ops).log = (stdRun ops).log ∧ (run ops).err = (stdRun ops).err
    ∧ (run ops).erase = stdRun ops :=
  ⟨run_log ops hops, run_err ops hops, run_erase ops hops⟩

/-- one step of the cycle-aware machine is one step of the `std` machine -/
theorem C07_step_simulation (s : State) (h : s.Std) (hI : s.Inv) (hS : s.InvS) :
    (step s).erase = stdStep s.erase := step_erase s h hI hS

/-! ## Non-vacuity: a shared-API history and its common observations

Values holding a strong handle and a Weak handle, a destructor script that upgrades its Weak field,
`try_unwrap` (failing and succeeding), `get_mut`, `make_mut` (clone branch), a raw round trip with
`increment/decrement_strong_count`, `ptr_eq`, both count queries, a cascading `drop`, `upgrade` of a
Weak to a destroyed object. -/

instance : DecidablePred Op.shared := fun o => by
  cases o <;> simp only [Op.shared] <;> infer_instance

def sharedApiHistory : List (Op × List Nat) :=
  [(.act .new, []), (.act .new, []), (.act .new, []),       -- objects 0, 1, 2; handles [0, 1, 2]
   (.act (.clone 1), []), (.act (.store 3 0), []),          -- 0's value holds a strong handle to 1
   (.act (.downgrade 2), []), (.act (.storeWeak 0 0), []),  -- … and a Weak to 2
   (.setScript 0 [.upgradeField 0, .drop 3], []),           -- 0's destructor upgrades it, drops the result
   (.act (.downgrade 1), []),                               -- program: Weak to 1
   (.act (.tryUnwrap 1), []),                               -- 1 is shared: Err              (ret 0)
   (.act (.getMut 2), []),                                  -- 2 has a Weak: None            (ret 0)
   (.act (.clone 2), []), (.act (.makeMut 3), []),          -- 2 shared: clones into object 3 (ret 2)
   (.act (.intoRaw 2), []), (.act (.incStrong 0), []),      -- raw round trip on object 2
   (.act (.decStrong 0), []), (.act (.fromRaw 0), []),
   (.act (.ptrEq 2 3), []), (.act (.counts 1), []),         -- 3 ≠ 2 (ret 0); object 1: 2 strong, 1 Weak
   (.act (.drop 0), []),                                    -- last handle to 0: destructor runs, fields dropped
   (.act (.wcounts 0), []),                                 -- object 1 through its Weak: 1 strong, 1 Weak
   (.act (.drop 0), []),                                    -- last strong handle to 1: destroyed, not released
   (.act (.upgrade 0), []),                                 -- Weak to dead 1: None           (ret 0)
   (.act (.tryUnwrap 0), []), (.act (.dropValue 0), []),    -- 3 is unique: Ok (ret 1); drop the value
   (.act (.dropWeak 0), [])]                                -- last Weak to 1: allocation released

/-- the hypothesis of `C07_same_observations_as_std` holds (script included) -/
theorem sharedApiHistory_shared : ∀ oh ∈ sharedApiHistory, oh.1.shared := by decide

/-- the theorem instantiated: same final state up to erasure, same log, same error status -/
example : (run sharedApiHistory).erase = stdRun sharedApiHistory :=
  (C07_same_observations_as_std sharedApiHistory sharedApiHistory_shared).2.2

example : (run sharedApiHistory).log = (stdRun sharedApiHistory).log :=
  (C07_same_observations_as_std sharedApiHistory sharedApiHistory_shared).1

/-- the common log, by evaluation on each machine separately -/
example : (run sharedApiHistory).err = none ∧ (stdRun sharedApiHistory).err = none
    ∧ (run sharedApiHistory).log =
      [.ret 0, .ret 0, .ret 2, .ret 0, .ret 2, .ret 1, .destroyed 0, .ret 1, .freed 0, .ret 1, .ret 1,
       .destroyed 1, .ret 0, .freed 3, .ret 1, .destroyed 3, .freed 1]
    ∧ (stdRun sharedApiHistory).log =
      [.ret 0, .ret 0, .ret 2, .ret 0, .ret 2, .ret 1, .destroyed 0, .ret 1, .freed 0, .ret 1, .ret 1,
       .destroyed 1, .ret 0, .freed 3, .ret 1, .destroyed 3, .freed 1] := by
  decide +kernel

/-- and no link table was ever touched, no trace ran (`run_noAdopt_no_trace` of
`Cactus.Lemmas.PayAsYouGo.NoAdopt`, the lemma behind `C14_program_without_adoptions_never_traces`,
applies too: the shared API contains no `adopt`/`link`) -/
example : ∀ e ∈ (run sharedApiHistory).log, ∀ o v p, e ≠ Ev.traced o v p :=
  run_noAdopt_no_trace sharedApiHistory (by decide)

end Cactus
