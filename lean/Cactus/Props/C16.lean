import Cactus.Lemmas.Basic
/-!
# C16 — cloning a handle to a destroyed object aborts; dropping it has no effect
-/
namespace Cactus
open State

/-- `inc_strong` on a dead object (count 0 or the uninit sentinel) terminates the process:
the machine enters the sticky `abort` state and the heap is untouched (rc.rs:1782-1799). -/
theorem C16_clone_dead_aborts (s : State) (o : Nat) (ob : Obj)
    (hc : s.cell o = some ob) (hd : ob.strong.isDead = true) (he : s.err = none) :
    (s.incStrong o).err = some .abort ∧ (s.incStrong o).heap = s.heap
      ∧ (s.incStrong o).roots = s.roots := by
  unfold State.incStrong
  simp only [hc]
  cases hs : ob.strong with
  | uninit => simp [fail_err_of_none _ _ he]
  | cnt n =>
    cases n with
    | zero => simp [fail_err_of_none _ _ he]
    | succ n => simp [hs, Strong.isDead] at hd

/-- the only way safe code can clone such a handle: a destructor cloning one of its own fields -/
theorem C16_cloneField_dead_aborts (s : State) (fh fw : List Nat) (k o : Nat) (ob : Obj)
    (hk : nthMod fh k = some o) (hc : s.cell o = some ob) (hd : ob.strong.isDead = true)
    (he : s.err = none) :
    (applyAct s fh fw (.cloneField k)).err = some .abort := by
  simp only [applyAct, hk]
  exact (C16_clone_dead_aborts s o ob hc hd he).1

/-- once aborted the machine never moves again -/
theorem C16_abort_is_final (s : State) (e : Err) (h : s.err = some e) : step s = s := by
  unfold step; simp [h]

/-- dropping a handle to a dead object returns before touching anything (drop.rs:121-123) -/
theorem C16_drop_dead_noop (s : State) (o : Nat) (ob : Obj)
    (hc : s.cell o = some ob) (hd : ob.strong.isDead = true) : s.rcDrop o = s := by
  unfold State.rcDrop
  simp only [hc]
  cases hs : ob.strong with
  | uninit => rfl
  | cnt n =>
    cases n with
    | zero => rfl
    | succ n => simp [hs, Strong.isDead] at hd

/-- non-vacuity: a dead, not yet released object -/
example : ({ heap := [{ strong := .uninit, weak := 1, links := none, value := none, freed := false }] } : State).cell 0
    = some { strong := .uninit, weak := 1, links := none, value := none, freed := false } := by decide

end Cactus
