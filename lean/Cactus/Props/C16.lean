import Cactus.Lemmas.Basic
import Cactus.Lemmas.NoRevive
import Cactus.Lemmas.Shared.OneStep   -- `Shared.rcDrop_dead_noop` (also used by `Props/C02.lean`, `Props/C15.lean`)
/-!
# C16 — cloning a handle to a destroyed object aborts; dropping it has no effect; the object's
count is never revived

What is proved here:
* about single calls, in an arbitrary state: `C16_clone_dead_aborts`, `C16_cloneField_dead_aborts`
  (the only way safe code can clone such a handle: a destructor cloning one of its own fields),
  `C16_abort_is_final`, `C16_drop_dead_noop`;
* example: both situations inside a real group teardown (a destructor that clones its handle to an
  already dead peer; the drop glue dropping a handle to an already dead peer);
* about whole histories (last section, "Whole histories: no resurrection"; lemmas in
  `Lemmas/NoRevive.lean`): no transition of the machine — machine step, user-level action at top
  level or inside a destructor, operation start, operation boundary, failure — makes a dead
  (destroyed or released) object live again, from an *arbitrary* state (no invariant, no contract,
  whatever the error field): `C16_dead_stays_dead_step`, `C16_dead_stays_dead_action`; hence along
  any execution (`Later`, the reflexive-transitive closure of the transitions that generate
  `Reachable`) and for `run`: `C16_dead_stays_dead_later`, `C16_dead_stays_dead`; a released
  allocation stays released and its index is never reused: `C16_released_stays_released`,
  `C16_new_is_fresh`; a moved-out value is never put back: `C16_destroyed_value_stays_out`; the
  event log only grows, so a `destroyed` event stays: `C16_log_only_grows`; a `Weak` to an object
  that was dead at some earlier point of the history never upgrades (C05 over whole histories):
  `C16_upgrade_after_death`;
* example: a ring is collected, six more operations run (`new`, `clone`, `upgrade` of a Weak to a
  dead member, `new`, `link`, `upgrade`), by evaluation and by the theorems.
Not proved: that `abort` is what the real process does is observed by the harness (subprocess exit
status).
-/
namespace Cactus
open State

/-- `inc_strong` on a dead object (count 0 or the uninit sentinel) terminates the process:
the machine enters the sticky `abort` state and the heap is untouched (rc.rs:1782-1799). -/
theorem C16_clone_dead_aborts (s : State) (o : Nat) (ob : Obj)
    (hc : s.cell o = some ob) (hd : ob.strong.isDead = true) (he : s.err = none) :
    (s.incStrong o).err = some .abort ∧ (s.incStrong o).heap = s.heap
      ∧ (s.incStrong o).roots = s.roots := by
  unfold State.incStrong
  simp only [hc]
  cases hs : ob.strong with
  | uninit => simp [fail_err_of_none _ _ he]
  | cnt n =>
    cases n with
    | zero => simp [fail_err_of_none _ _ he]
    | succ n => simp [hs, Strong.isDead] at hd

/-- the only way safe code can clone such a handle: a destructor cloning one of its own fields -/
theorem C16_cloneField_dead_aborts (s : State) (fh fw : List Nat) (k o : Nat) (ob : Obj)
    (hk : nthMod fh k = some o) (hc : s.cell o = some ob) (hd : ob.strong.isDead = true)
    (he : s.err = none) :
    (applyAct s fh fw (.cloneField k)).err = some .abort := by
  simp only [applyAct, hk]
  exact (C16_clone_dead_aborts s o ob hc hd he).1

/-- once aborted the machine never moves again -/
theorem C16_abort_is_final (s : State) (e : Err) (h : s.err = some e) : step s = s := by
  unfold step; simp [h]

/-- dropping a handle to a dead object returns before touching anything (drop.rs:121-123) -/
theorem C16_drop_dead_noop (s : State) (o : Nat) (ob : Obj)
    (hc : s.cell o = some ob) (hd : ob.strong.isDead = true) : s.rcDrop o = s :=
  Shared.rcDrop_dead_noop s o ob hc hd

/-- non-vacuity: a dead, not yet released object -/
example : ({ heap := [{ strong := .uninit, weak := 1, links := none, value := none, freed := false }] } : State).cell 0
    = some { strong := .uninit, weak := 1, links := none, value := none, freed := false } := by decide

/-! ## Non-vacuity, inside a real teardown

A two-cycle `0 ↔ 1` built with `link`; object 0's destructor clones its own strong field (its handle
to 1).  The last `drop` collects the group, destroying value 1 first (hint `[1, 0]`):
* while value 1's fields are dropped, the `Rc::drop` of its handle to the already dead member 0 is
  the no-op of `C16_drop_dead_noop`;
* when value 0's destructor then clones its handle to the already dead member 1, the machine aborts
  as in `C16_cloneField_dead_aborts`. -/

def cloneDeadBuild : List (Op × List Nat) :=
  [(.act .new, []), (.act .new, []),
   (.act (.clone 1), []), (.act (.link 2 0), []),       -- 0 → 1
   (.act (.clone 0), []), (.act (.link 2 1), []),       -- 1 → 0
   (.setScript 0 [.cloneField 0], []),                  -- 0's destructor clones its handle to 1
   (.act (.drop 1), [])]                                -- program's handle to 1

/-- the state in which the collecting `drop 0` has pushed its `rcDrop 0` frame -/
def cloneDeadStart : State := applyOp { run cloneDeadBuild with hint := [1, 0] } (.act (.drop 0))

/-- four steps later: value 1's drop glue is about to drop its handle to member 0 -/
def cloneDeadMid4 : State := step (step (step (step cloneDeadStart)))

/-- both members are already marked dead there, and the frame on top is `rcDrop 0` -/
example : cloneDeadMid4.err = none
    ∧ cloneDeadMid4.stack = [.rcDrop 0, .dropFields [] [],
        .dropVal { vid := 0, held := [1], weaks := [], script := [.cloneField 0], panics := false },
        .phase3 [1, 0]]
    ∧ cloneDeadMid4.heap.map (·.strong) = [.uninit, .uninit] := by decide +kernel

/-- `C16_drop_dead_noop` instantiated: running that frame changes nothing -/
example : ({ cloneDeadMid4 with stack := cloneDeadMid4.stack.tail } : State).rcDrop 0
    = { cloneDeadMid4 with stack := cloneDeadMid4.stack.tail } :=
  C16_drop_dead_noop _ 0
    { strong := .uninit, weak := 1, links := none, value := none, freed := false }
    (by decide +kernel) rfl

/-- three more steps: value 0's destructor body is about to run `cloneField 0` -/
def cloneDeadMid7 : State := step (step (step cloneDeadMid4))

example : cloneDeadMid7.err = none
    ∧ cloneDeadMid7.stack = [.script [1] [] [.cloneField 0], .dropFields [1] [], .phase3 [1, 0]] := by
  decide +kernel

/-- `C16_cloneField_dead_aborts` instantiated at the state in which the script action runs (the
`script` frame popped, its remainder pushed back: `C10_script_uses_applyAct`) -/
example : (applyAct (({ cloneDeadMid7 with stack := [.dropFields [1] [], .phase3 [1, 0]] } : State).push
      [.script [1] [] []]) [1] [] (.cloneField 0)).err = some .abort :=
  C16_cloneField_dead_aborts _ [1] [] 0 1
    { strong := .uninit, weak := 1, links := none, value := none, freed := false }
    (by decide) (by decide +kernel) rfl (by decide +kernel)

/-- by evaluation: that is the next machine step, the whole history ends in the sticky `abort` state
(`C16_abort_is_final`), and value 0's destructor had started but nothing was released -/
example : (step cloneDeadMid7).err = some .abort
    ∧ (run (cloneDeadBuild ++ [(.act (.drop 0), [1, 0])])).err = some .abort
    ∧ (run (cloneDeadBuild ++ [(.act (.drop 0), [1, 0]), (.act .new, [])])).err = some .abort
    ∧ (run (cloneDeadBuild ++ [(.act (.drop 0), [1, 0])])).log
        = [.traced 1 2 3, .traced 0 2 3, .destroyed 1, .destroyed 0] := by
  decide +kernel

/-! ## Whole histories: no resurrection

`s.isLive o = false` with `o < s.heap.length` says: allocation `o` exists and is dead (its strong
cell is `0` or the `uninit` sentinel: its value has been or is being destroyed) or already released.
The statements below need no hypothesis on the state: no invariant, no adoption contract, and the
error field may be anything. -/

/-- one machine step (library code, or one action of a running destructor) revives nothing, and
the index stays allocated -/
theorem C16_dead_stays_dead_step (s : State) (o : Nat) (ho : o < s.heap.length)
    (hd : s.isLive o = false) :
    o < (step s).heap.length ∧ (step s).isLive o = false :=
  ⟨Nat.lt_of_lt_of_le ho (step_heap_length s), step_isLive_false s o ho hd⟩

/-- no user-level action, at top level or inside a destructor with fields `fh`/`fw`, revives
anything (`clone`, `upgrade`, `fromRaw`, `incStrong`, `cloneField`, `upgradeField`, `makeMut`, …) -/
theorem C16_dead_stays_dead_action (s : State) (fh fw : List Nat) (a : Act) (o : Nat)
    (ho : o < s.heap.length) (hd : s.isLive o = false) :
    o < (applyAct s fh fw a).heap.length ∧ (applyAct s fh fw a).isLive o = false :=
  ⟨Nat.lt_of_lt_of_le ho (applyAct_heap_length s fh fw a), applyAct_isLive_false s fh fw a o ho hd⟩

/-- the remaining transitions: start of an operation (any operation, any layout hint), the
operation boundary, any failure -/
theorem C16_dead_stays_dead_op (s : State) (op : Op) (hint : List Nat) (e : Err) (o : Nat)
    (ho : o < s.heap.length) (hd : s.isLive o = false) :
    (o < (applyOp (s.begin hint) op).heap.length ∧ (applyOp (s.begin hint) op).isLive o = false)
      ∧ (o < (endOp s).heap.length ∧ (endOp s).isLive o = false)
      ∧ (o < (s.fail e).heap.length ∧ (s.fail e).isLive o = false) :=
  ⟨⟨Nat.lt_of_lt_of_le ho (applyOp_heap_length (s.begin hint) op),
      applyOp_isLive_false (s.begin hint) op o ho (hint_isLive_false s hint o hd)⟩,
    ⟨Nat.lt_of_lt_of_le ho (endOp_heap_length s), endOp_isLive_false s o ho hd⟩,
    ⟨Nat.lt_of_lt_of_le ho (fail_heap_length s e), fail_isLive_false s e o hd⟩⟩

/-- along any execution: if `t` is later than `s` (`Later`: any sequence of operation starts,
machine steps, operation boundaries and out-of-fuel failures leads from `s` to `t`) then an object
that is dead in `s` is dead in `t` -/
theorem C16_dead_stays_dead_later {s t : State} (h : Later s t) (o : Nat) (ho : o < s.heap.length)
    (hd : s.isLive o = false) :
    o < t.heap.length ∧ t.isLive o = false :=
  later_isLive_false h ho hd

/-- every reachable state is later than the initial state, and the state after a history is later
than the state after any prefix of it: `Later` covers all executions -/
theorem C16_later_covers (s : State) (hr : Reachable s) (ops1 ops2 : List (Op × List Nat)) :
    Later {} s ∧ Later (run ops1) (run (ops1 ++ ops2)) :=
  ⟨Later.of_reachable hr, later_run_append ops1 ops2⟩

/-- histories: an object dead after `ops1` is dead after `ops1 ++ ops2`, whatever `ops2` is -/
theorem C16_dead_stays_dead (ops1 ops2 : List (Op × List Nat)) (o : Nat)
    (ho : o < (run ops1).heap.length) (hd : (run ops1).isLive o = false) :
    (run (ops1 ++ ops2)).isLive o = false :=
  run_isLive_false ops1 ops2 o ho hd

/-- a released allocation stays released along any execution (the `freed` flag is never cleared) -/
theorem C16_released_stays_released {s t : State} (h : Later s t) (o : Nat) (ob : Obj)
    (hg : s.heap[o]? = some ob) (hf : ob.freed = true) :
    ∃ ob', t.heap[o]? = some ob' ∧ ob'.freed = true :=
  later_freed h hg hf

/-- … and its index is never handed out again: `Rc::new` returns the first index past the heap and
leaves every existing allocation as it is -/
theorem C16_new_is_fresh (s : State) (fh fw : List Nat) :
    (applyAct s fh fw .new).roots = s.roots ++ [s.heap.length]
      ∧ (applyAct s fh fw .new).heap.length = s.heap.length + 1
      ∧ ∀ o, o < s.heap.length → (applyAct s fh fw .new).heap[o]? = s.heap[o]? := by
  refine ⟨rfl, by simp [applyAct, State.alloc], ?_⟩
  intro o ho
  simp [applyAct, State.alloc, List.getElem?_append_left ho]

/-- the value of a destroyed object, once moved out, is never put back; the dead strong cell stays
dead also while Weak handles keep the allocation -/
theorem C16_destroyed_value_stays_out {s t : State} (h : Later s t) (o : Nat) (ob : Obj)
    (hg : s.heap[o]? = some ob) :
    (ob.value = none → ∃ ob', t.heap[o]? = some ob' ∧ ob'.value = none)
      ∧ (ob.strong.isDead = true → ∃ ob', t.heap[o]? = some ob' ∧ ob'.strong.isDead = true) :=
  ⟨later_value_none h hg, later_dead h hg⟩

/-- the event log only grows: the log after `ops1` is a prefix of the log after `ops1 ++ ops2`, so a
`destroyed v` (or `freed o`) event, once there, stays, in place -/
theorem C16_log_only_grows (ops1 ops2 : List (Op × List Nat)) :
    (run ops1).log <+: (run (ops1 ++ ops2)).log
      ∧ (run ops1).destroyedVids <+: (run (ops1 ++ ops2)).destroyedVids
      ∧ (run ops1).freedIds <+: (run (ops1 ++ ops2)).freedIds :=
  ⟨run_log_prefix ops1 ops2, run_destroyedVids_prefix ops1 ops2,
    later_freedIds_prefix (later_run_append ops1 ops2)⟩

/-- C05 over whole histories: if `o` was dead at some point `s` of an execution then at every
later point `t` upgrading a Weak to `o` (the allocation still being held by that Weak) returns
`None` and changes nothing but the log -/
theorem C16_upgrade_after_death {s t : State} (h : Later s t) (o : Nat) (ho : o < s.heap.length)
    (hd : s.isLive o = false) (fh fw : List Nat) (w : Nat) (ob' : Obj)
    (hw : nthMod t.wroots w = some o) (hc : t.cell o = some ob') :
    applyAct t fh fw (.upgrade w) = t.emit (retBool false) := by
  have hdead : ob'.strong.isDead = true := State.Grow.cell_dead h.grow ho hd hc
  simp only [applyAct, hw, hc, hdead, if_true]

/-! ### Non-vacuity: a collected ring, then six more operations

`0 ↔ 1` built with `link`, a Weak to member 0 kept by the program; the last `drop` collects the
ring: both values destroyed, allocation 1 released, allocation 0 kept by the Weak. -/

def ringThenDead : List (Op × List Nat) :=
  [(.act .new, []), (.act .new, []),
   (.act (.clone 1), []), (.act (.link 2 0), []),       -- 0 → 1
   (.act (.clone 0), []), (.act (.link 2 1), []),       -- 1 → 0
   (.act (.downgrade 0), []),                           -- Weak to 0
   (.act (.drop 1), []), (.act (.drop 0), [])]          -- the second drop collects the ring

/-- six further operations, among them `upgrade` of the Weak to the dead member 0 (twice) -/
def afterDeath : List (Op × List Nat) :=
  [(.act .new, []), (.act (.clone 0), []), (.act (.upgrade 0), []),
   (.act .new, []), (.act (.link 2 0), []), (.act (.upgrade 0), [])]

/-- by evaluation: after the collection both members are dead (0 still allocated, 1 released) -/
example : (run ringThenDead).err = none
    ∧ (run ringThenDead).heap.length = 2
    ∧ (run ringThenDead).isLive 0 = false ∧ (run ringThenDead).isLive 1 = false
    ∧ (run ringThenDead).heap.map (·.strong) = [.uninit, .uninit]
    ∧ (run ringThenDead).heap.map (·.freed) = [false, true]
    ∧ (run ringThenDead).wroots = [0]
    ∧ (run ringThenDead).log
        = [.traced 1 2 3, .traced 0 2 3, .destroyed 1, .destroyed 0, .freed 1] := by
  decide +kernel

/-- by evaluation: after the six further operations the history is still inside the contract, the
members are still dead, both `upgrade`s returned `None` (`ret 0`), the two new objects got the fresh
indices 2 and 3, and the old log is a prefix of the new one -/
example : (run (ringThenDead ++ afterDeath)).err = none
    ∧ (run (ringThenDead ++ afterDeath)).isLive 0 = false
    ∧ (run (ringThenDead ++ afterDeath)).isLive 1 = false
    ∧ (run (ringThenDead ++ afterDeath)).heap.map (·.strong) = [.uninit, .uninit, .cnt 2, .cnt 1]
    ∧ (run (ringThenDead ++ afterDeath)).heap.map (·.freed) = [false, true, false, false]
    ∧ (run (ringThenDead ++ afterDeath)).roots = [2, 2]
    ∧ (run (ringThenDead ++ afterDeath)).log
        = [.traced 1 2 3, .traced 0 2 3, .destroyed 1, .destroyed 0, .freed 1, .ret 0, .ret 0] := by
  decide +kernel

/-- the same by the theorems: the hypotheses of `C16_dead_stays_dead` hold for both members -/
example : (run (ringThenDead ++ afterDeath)).isLive 0 = false
    ∧ (run (ringThenDead ++ afterDeath)).isLive 1 = false :=
  ⟨C16_dead_stays_dead ringThenDead afterDeath 0 (by decide +kernel) (by decide +kernel),
   C16_dead_stays_dead ringThenDead afterDeath 1 (by decide +kernel) (by decide +kernel)⟩

/-- … for *any* continuation, not only this one -/
example (ops2 : List (Op × List Nat)) :
    (run (ringThenDead ++ ops2)).isLive 0 = false ∧ (run (ringThenDead ++ ops2)).isLive 1 = false
      ∧ [Ev.traced 1 2 3, .traced 0 2 3, .destroyed 1, .destroyed 0, .freed 1]
          <+: (run (ringThenDead ++ ops2)).log
      ∧ ∃ ob', (run (ringThenDead ++ ops2)).heap[1]? = some ob' ∧ ob'.freed = true := by
  refine ⟨C16_dead_stays_dead ringThenDead ops2 0 (by decide +kernel) (by decide +kernel),
    C16_dead_stays_dead ringThenDead ops2 1 (by decide +kernel) (by decide +kernel), ?_, ?_⟩
  · have h := (C16_log_only_grows ringThenDead ops2).1
    have e : (run ringThenDead).log
        = [.traced 1 2 3, .traced 0 2 3, .destroyed 1, .destroyed 0, .freed 1] := by decide +kernel
    rw [e] at h; exact h
  · exact C16_released_stays_released (later_run_append ringThenDead ops2) 1
      { strong := .uninit, weak := 0, links := none, value := none, freed := true, implicit := false }
      (by decide +kernel) rfl

/-- `C16_upgrade_after_death` instantiated at the third of the six operations: the state before it
is later than the state after the collection, so the `upgrade` returns `None` -/
example :
    applyAct (run (ringThenDead ++ afterDeath.take 2)) [] [] (.upgrade 0)
      = (run (ringThenDead ++ afterDeath.take 2)).emit (retBool false) :=
  C16_upgrade_after_death (later_run_append ringThenDead (afterDeath.take 2)) 0
    (by decide +kernel) (by decide +kernel) [] [] 0
    { strong := .uninit, weak := 1, links := none, value := none, freed := false, implicit := false }
    (by decide +kernel) (by decide +kernel)

/-- `C16_new_is_fresh` instantiated at the first of the six operations: the new handle designates
index 2, the first one past the two dead members -/
example : (applyAct (run ringThenDead) [] [] .new).roots = [2] := by
  have h := (C16_new_is_fresh (run ringThenDead) [] []).1
  have e1 : (run ringThenDead).roots = [] := by decide +kernel
  have e2 : (run ringThenDead).heap.length = 2 := by decide +kernel
  rw [e1, e2] at h; exact h

end Cactus
