import Cactus.Lemmas.Basic
/-!
# C16 — cloning a handle to a destroyed object aborts; dropping it has no effect

What is proved here (the property is about single calls, so these are statements about one call in
an arbitrary state):
* `C16_clone_dead_aborts`, `C16_cloneField_dead_aborts` (the only way safe code can clone such a
  handle: a destructor cloning one of its own fields), `C16_abort_is_final`, `C16_drop_dead_noop`;
* example: both situations inside a real group teardown (a destructor that clones its handle to an
  already dead peer; the drop glue dropping a handle to an already dead peer).
Not proved: that `abort` is what the real process does is observed by the harness (subprocess exit
status).
-/
namespace Cactus
open State

/-- `inc_strong` on a dead object (count 0 or the uninit sentinel) terminates the process:
the machine enters the sticky `abort` state and the heap is untouched (rc.rs:1782-1799). -/
theorem C16_clone_dead_aborts (s : State) (o : Nat) (ob : Obj)
    (hc : s.cell o = some ob) (hd : ob.strong.isDead = true) (he : s.err = none) :
    (s.incStrong o).err = some .abort ∧ (s.incStrong o).heap = s.heap
      ∧ (s.incStrong o).roots = s.roots := by
  unfold State.incStrong
  simp only [hc]
  cases hs : ob.strong with
  | uninit => simp [fail_err_of_none _ _ he]
  | cnt n =>
    cases n with
    | zero => simp [fail_err_of_none _ _ he]
    | succ n => simp [hs, Strong.isDead] at hd

/-- the only way safe code can clone such a handle: a destructor cloning one of its own fields -/
theorem C16_cloneField_dead_aborts (s : State) (fh fw : List Nat) (k o : Nat) (ob : Obj)
    (hk : nthMod fh k = some o) (hc : s.cell o = some ob) (hd : ob.strong.isDead = true)
    (he : s.err = none) :
    (applyAct s fh fw (.cloneField k)).err = some .abort := by
  simp only [applyAct, hk]
  exact (C16_clone_dead_aborts s o ob hc hd he).1

/-- once aborted the machine never moves again -/
theorem C16_abort_is_final (s : State) (e : Err) (h : s.err = some e) : step s = s := by
  unfold step; simp [h]

/-- dropping a handle to a dead object returns before touching anything (drop.rs:121-123) -/
theorem C16_drop_dead_noop (s : State) (o : Nat) (ob : Obj)
    (hc : s.cell o = some ob) (hd : ob.strong.isDead = true) : s.rcDrop o = s := by
  unfold State.rcDrop
  simp only [hc]
  cases hs : ob.strong with
  | uninit => rfl
  | cnt n =>
    cases n with
    | zero => rfl
    | succ n => simp [hs, Strong.isDead] at hd

/-- non-vacuity: a dead, not yet released object -/
example : ({ heap := [{ strong := .uninit, weak := 1, links := none, value := none, freed := false }] } : State).cell 0
    = some { strong := .uninit, weak := 1, links := none, value := none, freed := false } := by decide

/-! ## Non-vacuity, inside a real teardown

A two-cycle `0 ↔ 1` built with `link`; object 0's destructor clones its own strong field (its handle
to 1).  The last `drop` collects the group, destroying value 1 first (hint `[1, 0]`):
* while value 1's fields are dropped, the `Rc::drop` of its handle to the already dead member 0 is
  the no-op of `C16_drop_dead_noop`;
* when value 0's destructor then clones its handle to the already dead member 1, the machine aborts
  as in `C16_cloneField_dead_aborts`. -/

def cloneDeadBuild : List (Op × List Nat) :=
  [(.act .new, []), (.act .new, []),
   (.act (.clone 1), []), (.act (.link 2 0), []),       -- 0 → 1
   (.act (.clone 0), []), (.act (.link 2 1), []),       -- 1 → 0
   (.setScript 0 [.cloneField 0], []),                  -- 0's destructor clones its handle to 1
   (.act (.drop 1), [])]                                -- program's handle to 1

/-- the state in which the collecting `drop 0` has pushed its `rcDrop 0` frame -/
def cloneDeadStart : State := applyOp { run cloneDeadBuild with hint := [1, 0] } (.act (.drop 0))

/-- four steps later: value 1's drop glue is about to drop its handle to member 0 -/
def cloneDeadMid4 : State := step (step (step (step cloneDeadStart)))

/-- both members are already marked dead there, and the frame on top is `rcDrop 0` -/
example : cloneDeadMid4.err = none
    ∧ cloneDeadMid4.stack = [.rcDrop 0, .dropFields [] [],
        .dropVal { vid := 0, held := [1], weaks := [], script := [.cloneField 0], panics := false },
        .phase3 [1, 0]]
    ∧ cloneDeadMid4.heap.map (·.strong) = [.uninit, .uninit] := by decide +kernel

/-- `C16_drop_dead_noop` instantiated: running that frame changes nothing -/
example : ({ cloneDeadMid4 with stack := cloneDeadMid4.stack.tail } : State).rcDrop 0
    = { cloneDeadMid4 with stack := cloneDeadMid4.stack.tail } :=
  C16_drop_dead_noop _ 0
    { strong := .uninit, weak := 1, links := none, value := none, freed := false }
    (by decide +kernel) rfl

/-- three more steps: value 0's destructor body is about to run `cloneField 0` -/
def cloneDeadMid7 : State := step (step (step cloneDeadMid4))

example : cloneDeadMid7.err = none
    ∧ cloneDeadMid7.stack = [.script [1] [] [.cloneField 0], .dropFields [1] [], .phase3 [1, 0]] := by
  decide +kernel

/-- `C16_cloneField_dead_aborts` instantiated at the state in which the script action runs (the
`script` frame popped, its remainder pushed back: `C10_script_uses_applyAct`) -/
example : (applyAct (({ cloneDeadMid7 with stack := [.dropFields [1] [], .phase3 [1, 0]] } : State).push
      [.script [1] [] []]) [1] [] (.cloneField 0)).err = some .abort :=
  C16_cloneField_dead_aborts _ [1] [] 0 1
    { strong := .uninit, weak := 1, links := none, value := none, freed := false }
    (by decide) (by decide +kernel) rfl (by decide +kernel)

/-- by evaluation: that is the next machine step, the whole history ends in the sticky `abort` state
(`C16_abort_is_final`), and value 0's destructor had started but nothing was released -/
example : (step cloneDeadMid7).err = some .abort
    ∧ (run (cloneDeadBuild ++ [(.act (.drop 0), [1, 0])])).err = some .abort
    ∧ (run (cloneDeadBuild ++ [(.act (.drop 0), [1, 0]), (.act .new, [])])).err = some .abort
    ∧ (run (cloneDeadBuild ++ [(.act (.drop 0), [1, 0])])).log
        = [.traced 1 2 3, .traced 0 2 3, .destroyed 1, .destroyed 0] := by
  decide +kernel

end Cactus
