import Cactus.Lemmas.CollectLayout
import Cactus.Lemmas.History.Main
import Cactus.Lemmas.History.Hints
import Cactus.Lemmas.History.Example
import Cactus.Lemmas.GroupOrder
import Cactus.Lemmas.Layout
import Cactus.Lemmas.Basic
import Cactus.Lemmas.Table
/-!
# C09 — what an operation destroys does not depend on addresses or table order (first layer)

Layout enters the model in two places only: the order of entries inside a table (`shuffle`) and the
order in which the values of a collected group are destroyed (`hint`).  First layer: the hint
only permutes the group, and a shuffle changes no count of any table.
-/
namespace Cactus
open State

theorem eraseIdx_perm_cons {α : Type} (l : List α) (i : Nat) (a : α) (h : l[i]? = some a) :
    (a :: l.eraseIdx i).Perm l := by
  induction l generalizing i with
  | nil => simp at h
  | cons x r ih =>
    cases i with
    | zero => simp at h; subst h; simp
    | succ i =>
      simp at h
      simp only [List.eraseIdx_cons_succ]
      exact (List.Perm.swap x a _).trans ((ih i h).cons x)

/-- whatever the hint, the values destroyed by a group teardown are the group's values: the hint
only chooses their order -/
theorem C09_reorder_perm (hint : List Nat) (vs : List Val) : (reorder hint vs).Perm vs := by
  induction hint generalizing vs with
  | nil => simp [reorder]
  | cons h hs ih =>
    unfold reorder
    split
    · rename_i i hi
      split
      · rename_i v hv
        exact ((ih (vs.eraseIdx i)).cons v).trans (eraseIdx_perm_cons vs i v hv)
      · exact ih vs
    · exact ih vs

/-- consequently the *set* of `vid`s scheduled for destruction by `dropCycle` is independent of
the hint -/
theorem C09_dropCycle_set (hint hint' : List Nat) (vs : List Val) :
    ((reorder hint vs).map (·.vid)).Perm ((reorder hint' vs).map (·.vid)) :=
  ((C09_reorder_perm hint vs).trans (C09_reorder_perm hint' vs).symm).map _

/-- a layout perturbation of a table changes no recorded count -/
theorem C09_shuffle_counts (t : Table) (hw : t.WF) (i : Nat) (l : Link) :
    (t.swapAt i).get l = t.get l ∧ (t.swapAt i).WF :=
  ⟨Table.get_swapAt t hw i l, Table.WF_swapAt t hw i⟩

example : reorder [7, 5] [{ vid := 5, held := [], weaks := [], script := [], panics := false },
                         { vid := 7, held := [], weaks := [], script := [], panics := false }]
    = [{ vid := 7, held := [], weaks := [], script := [], panics := false },
       { vid := 5, held := [], weaks := [], script := [], panics := false }] := by decide


/-! ## Decision-level layout independence (`Cactus.Lemmas.Layout`)

Two states that differ only by a permutation of the entries inside link tables (and by the hint)
take the same orphan decision at every drop, with the same member *set*; and for programs that
record every stored handle (`Full`) the values of a collected group hold strong handles only to
members of the group, so the one remaining layout dependence — the order in which the group's
values are destroyed — only ever drops inert handles (C16).  The lift to whole histories is
`C09_whole_histories` at the end of this file. -/

theorem C09_same_decision_under_every_layout : type_of% @cycleRefs_layout := @cycleRefs_layout
theorem C09_same_members_under_every_layout : type_of% @group_members_layout := @group_members_layout
theorem C09_full_group_holds_only_members : type_of% @full_group_closed := @full_group_closed


/-! ## The remaining layout dependence is unobservable (`Cactus.Lemmas.GroupOrder`)

The order in which the values of a collected group are destroyed is the only thing a layout can
still change.  `C09_group_order_irrelevant`: running the block of destructors of quiet values
(no destructor script, no panic) whose strong handles all designate dead objects — what a
collected group looks like under `Full` — ends, for **every** order of the block, in the same
heap, the same handle tables and the same control stack, and the two logs are permutations of
each other: the same values are destroyed and the same allocations released, only the order
inside the group differs.  `C09_group_block_ready` derives the side conditions from the
invariants.  (Strictness matters: the proof needs that the implicit weak reference of every
member survives until `phase3`; the lemma file contains a machine-checked 9-step example where a
non-group block without that property ends in `uaf` in one order and not in the other.) -/

theorem C09_group_order_irrelevant : type_of% @group_order_irrelevant_reorder := @group_order_irrelevant_reorder
theorem C09_group_block_ready : type_of% @ready_of_inv := @ready_of_inv
theorem C09_release_order_irrelevant : type_of% @releaseWeaks_perm := @releaseWeaks_perm


/-! ## A whole collection is layout independent (`Cactus.Lemmas.CollectLayout`)

`C09_collection_layout_independent`: in any state satisfying the invariants in which every stored
handle is recorded (`Full`) and the orphan test passes for the group of `o`, whatever the two
layouts (hints) `h1`, `h2`: running the group teardown to the end — phase 1, phase 2, every
member's destructor (quiet values: no script, no panic), phase 3 — ends with the control stack back
where it was, in **equal heaps** (so every count observable afterwards is equal), equal handle
tables of the program, no error, and event logs that are permutations of each other (the same
objects destroyed and released; only the order inside the group differs).  Together with
`C09_same_decision_under_every_layout` (table order changes neither the decision nor the member
set) this is the property for one collecting operation; the lift to whole histories follows below. -/

theorem C09_collection_layout_independent : type_of% @collection_layout_independent :=
  @collection_layout_independent
theorem C09_collected_values_hold_only_dead_handles : type_of% @collected_values_hold_dead_handles :=
  @collected_values_hold_dead_handles
theorem C09_full_implies_contract : type_of% @full_contract := @full_contract


/-! ## Whole histories (`Cactus.Lemmas.History.*`)

The property at full strength for the programs it is about.  Two histories are the *same program
under two layouts* (`SameProgram`) when they are equal after deleting every `shuffle`
pseudo-operation (a `shuffle` permutes the entries of one link table, i.e. changes hash-map
iteration order) — the hints (which order the members of a collected group are destroyed in, i.e.
what allocation addresses decide in the implementation) are arbitrary on both sides.  For every
program whose operations are `fullQuiet` — stored strong handles are created and removed through
`link` (adopt + store) and `unlink` (take + unadopt), so every handle stored in a live value is
recorded; no destructor scripts, no panicking destructors; 20 of the 30 actions — and whose run
under the first layout ends without error:

* the run under the second layout ends without error too (with the same step budget: both runs
  take exactly the same number of machine steps), and
* the final states are equal up to the order of entries inside link tables and up to a permutation
  of the event log (`LayoutEqL`): every strong and weak count, which objects are live, destroyed or
  released, every value, the contents of every link table as a map, and all handle tables of the
  program are **equal**; the same values were destroyed and the same allocations released
  (`destroyedVids`, `freedIds` are permutations of each other).

`C09_whole_histories_example`: a machine-checked pair of histories to which the theorem applies and
whose logs and heaps really differ as lists (the group is destroyed as `[2,1,0,3]` under one layout
and `[3,1,2,0]` under the other).  Not covered (hence outside `fullQuiet`): `makeMut` (its clone
branch breaks `Full`: machine-checked counterexample in `Cactus.Lemmas.History.Example`), bare
`adopt/unadopt/store/take`, destructor scripts and panics — for those the one-collection theorems
above are what is proved. -/

theorem C09_whole_histories : type_of% @history_layout_independent := @history_layout_independent
theorem C09_whole_histories_any_step_budget : type_of% @history_layout_independent_fuel :=
  @history_layout_independent_fuel
theorem C09_hints_only : type_of% @history_hint_independent := @history_hint_independent
theorem C09_same_strong_counts : type_of% @history_strong_counts := @history_strong_counts
theorem C09_same_weak_counts : type_of% @history_weak_counts := @history_weak_counts
theorem C09_same_live_objects : type_of% @history_live := @history_live
theorem C09_same_released_and_values : type_of% @history_freed_value := @history_freed_value
theorem C09_same_tables_as_maps : type_of% @history_tables := @history_tables
theorem C09_same_program_handles : type_of% @history_handles := @history_handles
theorem C09_same_values_destroyed : type_of% @history_destroyed := @history_destroyed
theorem C09_same_allocations_released : type_of% @history_freedIds := @history_freedIds
theorem C09_whole_histories_example : type_of% @HistoryExample.applies := @HistoryExample.applies
theorem C09_example_orders_differ : type_of% @HistoryExample.logs_differ := @HistoryExample.logs_differ

end Cactus
