import Cactus.Lemmas.CollectLayout
import Cactus.Lemmas.History.Main
import Cactus.Lemmas.History.Hints
import Cactus.Lemmas.History.Example
import Cactus.Lemmas.GroupOrder
import Cactus.Lemmas.Layout
import Cactus.Lemmas.Basic
import Cactus.Lemmas.Table
/-!
# C09 — what an operation destroys does not depend on addresses or table order

Layout enters the model in two places only: the order of entries inside a table (`shuffle`) and the
order in which the values of a collected group are destroyed (`hint`).  What is proved here:
* one-step lemmas: `C09_reorder_perm`, `C09_dropCycle_set`, `C09_shuffle_counts`;
* decision level: `C09_same_decision_under_every_layout`, `C09_same_members_under_every_layout`,
  `C09_full_group_holds_only_members`;
* one collection: `C09_group_order_irrelevant`, `C09_group_block_ready`,
  `C09_release_order_irrelevant`, `C09_collection_layout_independent`,
  `C09_collected_values_hold_only_dead_handles`, `C09_full_implies_contract`;
* whole histories of `fullQuiet` operations: `C09_whole_histories` (+ `_any_step_budget`,
  `C09_hints_only`) and its content spelled out (`C09_same_strong_counts` … 
  `C09_same_allocations_released`);
* example: a pair of histories (19 / 21 operations) to which the theorem applies and whose logs and
  heaps really differ as lists.
Not proved for whole histories (outside `fullQuiet`): `makeMut` (its clone branch breaks `Full`),
bare `adopt/unadopt/store/take`, destructor scripts and panics — for those the one-collection
theorems are what is proved.
-/
namespace Cactus
open State

theorem eraseIdx_perm_cons {α : Type} (l : List α) (i : Nat) (a : α) (h : l[i]? = some a) :
    (a :: l.eraseIdx i).Perm l := by
  induction l generalizing i with
  | nil => simp at h
  | cons x r ih =>
    cases i with
    | zero => simp at h; subst h; simp
    | succ i =>
      simp at h
      simp only [List.eraseIdx_cons_succ]
      exact (List.Perm.swap x a _).trans ((ih i h).cons x)

/-- whatever the hint, the values destroyed by a group teardown are the group's values: the hint
only chooses their order -/
theorem C09_reorder_perm (hint : List Nat) (vs : List Val) : (reorder hint vs).Perm vs := by
  induction hint generalizing vs with
  | nil => simp [reorder]
  | cons h hs ih =>
    unfold reorder
    split
    · rename_i i hi
      split
      · rename_i v hv
        exact ((ih (vs.eraseIdx i)).cons v).trans (eraseIdx_perm_cons vs i v hv)
      · exact ih vs
    · exact ih vs

/-- consequently the *set* of `vid`s scheduled for destruction by `dropCycle` is independent of
the hint -/
theorem C09_dropCycle_set (hint hint' : List Nat) (vs : List Val) :
    ((reorder hint vs).map (·.vid)).Perm ((reorder hint' vs).map (·.vid)) :=
  ((C09_reorder_perm hint vs).trans (C09_reorder_perm hint' vs).symm).map _

/-- a layout perturbation of a table changes no recorded count -/
theorem C09_shuffle_counts (t : Table) (hw : t.WF) (i : Nat) (l : Link) :
    (t.swapAt i).get l = t.get l ∧ (t.swapAt i).WF :=
  ⟨Table.get_swapAt t hw i l, Table.WF_swapAt t hw i⟩

example : reorder [7, 5] [{ vid := 5, held := [], weaks := [], script := [], panics := false },
                         { vid := 7, held := [], weaks := [], script := [], panics := false }]
    = [{ vid := 7, held := [], weaks := [], script := [], panics := false },
       { vid := 5, held := [], weaks := [], script := [], panics := false }] := by decide


/-! ## Decision-level layout independence (`Cactus.Lemmas.Layout`)

Two states that differ only by a permutation of the entries inside link tables (and by the hint)
take the same orphan decision at every drop, with the same member *set*; and for programs that
record every stored handle (`Full`) the values of a collected group hold strong handles only to
members of the group, so the one remaining layout dependence — the order in which the group's
values are destroyed — only ever drops inert handles (C16).  The lift to whole histories is
`C09_whole_histories` at the end of this file. -/

/-- **decision level.**  On two states that differ only in the order of table entries (and in the
hint) the trace from a live object visits the same set of objects, builds a map with the same key
set and the same counts, and the orphan test takes the same decision
(`cycleRefs_layout` in `Cactus.Lemmas.Layout`) -/
theorem C09_same_decision_under_every_layout (s s' : State) (x : Nat) (h : s.LayoutEq s')
    (hO : s.InvO) (hB : s.InvB) (hx : s.isLive x = true) :
    (∀ k, k ∈ (cycleRefs s x).visited ↔ k ∈ (cycleRefs s' x).visited)
    ∧ (∀ k, k ∈ (cycleRefs s x).cmap.keys ↔ k ∈ (cycleRefs s' x).cmap.keys)
    ∧ (∀ k, (cycleRefs s x).cmap.get k = (cycleRefs s' x).cmap.get k)
    ∧ (cycleRefs s x).cmap.isEmpty = (cycleRefs s' x).cmap.isEmpty
    ∧ hasExternalOwners s (cycleRefs s x).cmap = hasExternalOwners s' (cycleRefs s' x).cmap :=
  cycleRefs_layout s s' x h hO hB hx

/-- if the orphan test passes in `s` it passes in every layout variant `s'`, and the set of objects
torn down (`cmap.keys`, which is the visited set) is the same (`group_members_layout`) -/
theorem C09_same_members_under_every_layout (s s' : State) (x : Nat) (h : s.LayoutEq s')
    (hO : s.InvO) (hB : s.InvB) (hx : s.isLive x = true)
    (hne : (cycleRefs s x).cmap.isEmpty = false)
    (hext : hasExternalOwners s (cycleRefs s x).cmap = false) :
    (cycleRefs s' x).cmap.isEmpty = false
    ∧ hasExternalOwners s' (cycleRefs s' x).cmap = false
    ∧ (∀ k, k ∈ (cycleRefs s x).cmap.keys ↔ k ∈ (cycleRefs s' x).cmap.keys)
    ∧ (cycleRefs s x).cmap.keys.Perm (cycleRefs s' x).cmap.keys
    ∧ (∀ k, k ∈ (cycleRefs s' x).cmap.keys ↔ k ∈ (cycleRefs s x).visited) :=
  group_members_layout s s' x h hO hB hx hne hext

/-- under `Full`, after a passed orphan test, the values of the collected group hold strong handles
to members of the group only (`full_group_closed`) -/
theorem C09_full_group_holds_only_members (s : State) (x : Nat) (hO : s.InvO) (hB : s.InvB)
    (hF : s.Full) (hx : s.isLive x = true)
    (hne : (cycleRefs s x).cmap.isEmpty = false)
    (hext : hasExternalOwners s (cycleRefs s x).cmap = false)
    (m t : Nat) (hm : m ∈ (cycleRefs s x).visited) (hH : 0 < s.H m t) :
    t ∈ (cycleRefs s x).visited ∧ t ∈ (cycleRefs s x).cmap.keys :=
  full_group_closed s x hO hB hF hx hne hext m t hm hH


/-! ## The remaining layout dependence is unobservable (`Cactus.Lemmas.GroupOrder`)

The order in which the values of a collected group are destroyed is the only thing a layout can
still change.  `C09_group_order_irrelevant`: running the block of destructors of quiet values
(no destructor script, no panic) whose strong handles all designate dead objects — what a
collected group looks like under `Full` — ends, for **every** order of the block, in the same
heap, the same handle tables and the same control stack, and the two logs are permutations of
each other: the same values are destroyed and the same allocations released, only the order
inside the group differs.  `C09_group_block_ready` derives the side conditions from the
invariants.  (Strictness matters: the proof needs that the implicit weak reference of every
member survives until `phase3`; the lemma file contains a machine-checked 9-step example where a
non-group block without that property ends in `uaf` in one order and not in the other.) -/

/-- the block of destructors of a collected group, run in the order chosen by two different
hints: same heap, same handle tables, same stack, no error, logs permutations of each other
(`group_order_irrelevant_reorder` in `Cactus.Lemmas.GroupOrder`; `runSteps n` is `n` machine steps,
`Ready` the side conditions that `C09_group_block_ready` derives from the invariants) -/
theorem C09_group_order_irrelevant (s : State) (hint hint' : List Nat) (xs : List Val)
    (rest : List Frame) (herr : s.err = none)
    (hstack : s.stack = (reorder hint xs).map Frame.dropVal ++ rest)
    (hq : ∀ v ∈ xs, v.quiet) (hr : Ready s.heap (blockHeld xs) (blockWeaks xs)) :
    ∃ n n' s1 s2, runSteps n s = s1
      ∧ runSteps n' { s with stack := (reorder hint' xs).map Frame.dropVal ++ rest } = s2
      ∧ s1.heap = s2.heap ∧ s1.roots = s2.roots ∧ s1.wroots = s2.wroots ∧ s1.vals = s2.vals
      ∧ s1.raws = s2.raws ∧ s1.stack = rest ∧ s2.stack = rest ∧ s1.err = none ∧ s2.err = none
      ∧ s2 = { s1 with log := s2.log }
      ∧ s1.log.Perm s2.log :=
  group_order_irrelevant_reorder s hint hint' xs rest herr hstack hq hr

/-- in a state satisfying the invariants, a block of `dropVal` frames on top of the stack whose
strong handles all designate non-live objects satisfies `Ready` (`ready_of_inv`) -/
theorem C09_group_block_ready (s : State) (vs : List Val) (rest : List Frame)
    (hcore : s.InvCore) (hR : s.InvR) (hS : s.InvSCore)
    (hst : s.stack = vs.map Frame.dropVal ++ rest)
    (hdead : ∀ t ∈ blockHeld vs, s.isLive t = false) :
    Ready s.heap (blockHeld vs) (blockWeaks vs) :=
  ready_of_inv s vs rest hcore hR hS hst hdead

/-- releasing a list of weak references is invariant under permutation of the list, on the heap and
on the multiset of log events; all other components are equal too (`releaseWeaks_perm`) -/
theorem C09_release_order_irrelevant (s : State) (ws ws' : List Nat) (hgood : GoodW s.heap ws)
    (hp : ws.Perm ws') :
    (releaseWeaks s ws').heap = (releaseWeaks s ws).heap
    ∧ releaseWeaks s ws' = { releaseWeaks s ws with log := (releaseWeaks s ws').log }
    ∧ (releaseWeaks s ws').log.Perm (releaseWeaks s ws).log :=
  releaseWeaks_perm s ws ws' hgood hp


/-! ## A whole collection is layout independent (`Cactus.Lemmas.CollectLayout`)

`C09_collection_layout_independent`: in any state satisfying the invariants in which every stored
handle is recorded (`Full`) and the orphan test passes for the group of `o`, whatever the two
layouts (hints) `h1`, `h2`: running the group teardown to the end — phase 1, phase 2, every
member's destructor (quiet values: no script, no panic), phase 3 — ends with the control stack back
where it was, in **equal heaps** (so every count observable afterwards is equal), equal handle
tables of the program, no error, and event logs that are permutations of each other (the same
objects destroyed and released; only the order inside the group differs).  Together with
`C09_same_decision_under_every_layout` (table order changes neither the decision nor the member
set) this is the property for one collecting operation; the lift to whole histories follows below. -/

theorem C09_collection_layout_independent (s2 : State) (o : Nat) (h1 h2 : List Nat)
    (hI : s2.InvCore) (hR : s2.InvR) (hS : s2.InvSCore) (herr : s2.err = none) (hF : s2.Full)
    (ho : s2.isLive o = true)
    (hne : (cycleRefs s2 o).cmap.isEmpty = false)
    (hext : hasExternalOwners s2 (cycleRefs s2 o).cmap = false)
    (hq : ∀ v ∈ (s2.cyc2 (cycleRefs s2 o).cmap).2, v.quiet) :
    ∃ n1 n2,
      let r1 := runSteps n1 (({ s2 with hint := h1 } : State).dropCycle (cycleRefs s2 o).cmap)
      let r2 := runSteps n2 (({ s2 with hint := h2 } : State).dropCycle (cycleRefs s2 o).cmap)
      r1.stack = s2.stack ∧ r2.stack = s2.stack ∧ r1.heap = r2.heap ∧ r1.roots = r2.roots
      ∧ r1.wroots = r2.wroots ∧ r1.vals = r2.vals ∧ r1.raws = r2.raws
      ∧ r1.err = none ∧ r2.err = none ∧ r1.log.Perm r2.log :=
  collection_layout_independent s2 o h1 h2 hI hR hS herr hF ho hne hext hq

/-- under `Full`, after a passed orphan test, every strong handle stored in a collected value
(`(s2.cyc2 c).2` are the values moved out by phases 1–2 of `dropCycle`) designates a member of the
group, which is not live after `dropCycle` (`collected_values_hold_dead_handles`) -/
theorem C09_collected_values_hold_only_dead_handles (s2 : State) (o : Nat)
    (hI : s2.InvCore) (herr : s2.err = none) (hF : s2.Full) (ho : s2.isLive o = true)
    (hne : (cycleRefs s2 o).cmap.isEmpty = false)
    (hext : hasExternalOwners s2 (cycleRefs s2 o).cmap = false) :
    ∀ t ∈ blockHeld (s2.cyc2 (cycleRefs s2 o).cmap).2,
      t ∈ (cycleRefs s2 o).cmap.keys
      ∧ (s2.dropCycle (cycleRefs s2 o).cmap).isLive t = false :=
  collected_values_hold_dead_handles s2 o hI herr hF ho hne hext

/-- recording every stored handle (`Full`) implies the adoption contract `P` -/
theorem C09_full_implies_contract {s : State} (hF : s.Full) : s.P := full_contract hF


/-! ## Whole histories (`Cactus.Lemmas.History.*`)

The property at full strength for the programs it is about.  Two histories are the *same program
under two layouts* (`SameProgram`) when they are equal after deleting every `shuffle`
pseudo-operation (a `shuffle` permutes the entries of one link table, i.e. changes hash-map
iteration order) — the hints (which order the members of a collected group are destroyed in, i.e.
what allocation addresses decide in the implementation) are arbitrary on both sides.  For every
program whose operations are `fullQuiet` — stored strong handles are created and removed through
`link` (adopt + store) and `unlink` (take + unadopt), so every handle stored in a live value is
recorded; no destructor scripts, no panicking destructors; 20 of the 30 actions — and whose run
under the first layout ends without error:

* the run under the second layout ends without error too (with the same step budget: both runs
  take exactly the same number of machine steps), and
* the final states are equal up to the order of entries inside link tables and up to a permutation
  of the event log (`LayoutEqL`): every strong and weak count, which objects are live, destroyed or
  released, every value, the contents of every link table as a map, and all handle tables of the
  program are **equal**; the same values were destroyed and the same allocations released
  (`destroyedVids`, `freedIds` are permutations of each other).

`C09_whole_histories_example`: a machine-checked pair of histories to which the theorem applies and
whose logs and heaps really differ as lists (the group is destroyed as `[2,1,0,3]` under one layout
and `[3,1,2,0]` under the other).  Not covered (hence outside `fullQuiet`): `makeMut` (its clone
branch breaks `Full`: machine-checked counterexample in `Cactus.Lemmas.History.Example`), bare
`adopt/unadopt/store/take`, destructor scripts and panics — for those the one-collection theorems
above are what is proved. -/

/-- **C09 for whole histories** (`history_layout_independent` in `Cactus.Lemmas.History.Main`) -/
theorem C09_whole_histories (ops1 ops2 : List (Op × List Nat))
    (hsame : SameProgram ops1 ops2)
    (hfq : ∀ oh ∈ ops1, oh.1.fullQuiet)
    (he1 : (run ops1).err = none) :
    (run ops2).err = none ∧ (run ops1).LayoutEqL (run ops2) :=
  history_layout_independent ops1 ops2 hsame hfq he1

/-- the same for every step budget per operation (`runFrom fuel {}` is `run` with `fuel` instead of
`defaultFuel`) -/
theorem C09_whole_histories_any_step_budget (fuel : Nat) (ops1 ops2 : List (Op × List Nat))
    (hsame : SameProgram ops1 ops2)
    (hfq : ∀ oh ∈ ops1, oh.1.fullQuiet)
    (he1 : (runFrom fuel {} ops1).err = none) :
    (runFrom fuel {} ops2).err = none ∧ (runFrom fuel {} ops1).LayoutEqL (runFrom fuel {} ops2) :=
  history_layout_independent_fuel fuel ops1 ops2 hsame hfq he1

/-- replacing the hints of a history without `shuffle` by any others (the first `hints.length`
operations get the new hints) changes nothing but the order of log events inside collected groups -/
theorem C09_hints_only (ops : List (Op × List Nat)) (hints : List (List Nat))
    (hns : ∀ oh ∈ ops, ∀ q i, oh.1 ≠ .shuffle q i)
    (hfq : ∀ oh ∈ ops, oh.1.fullQuiet)
    (he1 : (run ops).err = none) :
    let ops2 := ops.zipWith (fun oh h => (oh.1, h)) hints ++ ops.drop hints.length
    (run ops2).err = none ∧ (run ops).LayoutEqL (run ops2) :=
  history_hint_independent ops hints hns hfq he1

/-! the content of `LayoutEqL`, made explicit (all under the hypotheses of `C09_whole_histories`) -/

/-- every strong count observable afterwards is the same -/
theorem C09_same_strong_counts (ops1 ops2 : List (Op × List Nat)) (hsame : SameProgram ops1 ops2)
    (hfq : ∀ oh ∈ ops1, oh.1.fullQuiet) (he1 : (run ops1).err = none) (o : Nat) :
    (run ops1).strongNat o = (run ops2).strongNat o :=
  history_strong_counts ops1 ops2 hsame hfq he1 o

/-- every weak count observable afterwards is the same -/
theorem C09_same_weak_counts (ops1 ops2 : List (Op × List Nat)) (hsame : SameProgram ops1 ops2)
    (hfq : ∀ oh ∈ ops1, oh.1.fullQuiet) (he1 : (run ops1).err = none) (o : Nat) :
    (run ops1).weakNat o = (run ops2).weakNat o :=
  history_weak_counts ops1 ops2 hsame hfq he1 o

/-- the same objects are live -/
theorem C09_same_live_objects (ops1 ops2 : List (Op × List Nat)) (hsame : SameProgram ops1 ops2)
    (hfq : ∀ oh ∈ ops1, oh.1.fullQuiet) (he1 : (run ops1).err = none) (o : Nat) :
    (run ops1).isLive o = (run ops2).isLive o :=
  history_live ops1 ops2 hsame hfq he1 o

/-- the same allocations have been released, and the same values are still stored -/
theorem C09_same_released_and_values (ops1 ops2 : List (Op × List Nat))
    (hsame : SameProgram ops1 ops2) (hfq : ∀ oh ∈ ops1, oh.1.fullQuiet)
    (he1 : (run ops1).err = none) (o : Nat) :
    ((run ops1).heap[o]?).map (·.freed) = ((run ops2).heap[o]?).map (·.freed)
    ∧ ((run ops1).heap[o]?).map (·.value) = ((run ops2).heap[o]?).map (·.value) :=
  history_freed_value ops1 ops2 hsame hfq he1 o

/-- every recorded adoption count is the same (the tables agree as maps) -/
theorem C09_same_tables_as_maps (ops1 ops2 : List (Op × List Nat)) (hsame : SameProgram ops1 ops2)
    (hfq : ∀ oh ∈ ops1, oh.1.fullQuiet) (he1 : (run ops1).err = none) (a : Nat) (l : Link) :
    ((run ops1).tbl a).get l = ((run ops2).tbl a).get l :=
  history_tables ops1 ops2 hsame hfq he1 a l

/-- the program's handle tables are equal -/
theorem C09_same_program_handles (ops1 ops2 : List (Op × List Nat)) (hsame : SameProgram ops1 ops2)
    (hfq : ∀ oh ∈ ops1, oh.1.fullQuiet) (he1 : (run ops1).err = none) :
    (run ops1).roots = (run ops2).roots ∧ (run ops1).wroots = (run ops2).wroots
    ∧ (run ops1).vals = (run ops2).vals ∧ (run ops1).raws = (run ops2).raws :=
  history_handles ops1 ops2 hsame hfq he1

/-- the same values are destroyed (as a multiset; the order inside one collected group is the one
thing a layout may change) -/
theorem C09_same_values_destroyed (ops1 ops2 : List (Op × List Nat)) (hsame : SameProgram ops1 ops2)
    (hfq : ∀ oh ∈ ops1, oh.1.fullQuiet) (he1 : (run ops1).err = none) :
    (run ops1).destroyedVids.Perm (run ops2).destroyedVids :=
  history_destroyed ops1 ops2 hsame hfq he1

/-- the same allocations are released -/
theorem C09_same_allocations_released (ops1 ops2 : List (Op × List Nat))
    (hsame : SameProgram ops1 ops2) (hfq : ∀ oh ∈ ops1, oh.1.fullQuiet)
    (he1 : (run ops1).err = none) :
    (run ops1).freedIds.Perm (run ops2).freedIds :=
  history_freedIds ops1 ops2 hsame hfq he1


/-! ## Non-vacuity: a pair of histories to which `C09_whole_histories` applies

`HistoryExample.hA` / `hB` (19 and 21 operations over 7 objects): a 3-ring `0 → 1 → 2 → 0` with a
tail `2 → 3`, all built with `link`; a survivor (object 4) adopting two further objects; the three
program handles of the ring are dropped and the last `drop` collects the group `{0, 1, 2, 3}`.
`hB` is `hA` with two `shuffle`s inserted and other hints. -/

/-- the two histories, written out -/
example : HistoryExample.hA =
    [(.act .new, []), (.act .new, []), (.act .new, []), (.act .new, []),
     (.act (.clone 0), []), (.act (.link 4 2), []),       -- 2 → 0
     (.act (.clone 2), []), (.act (.link 4 1), []),       -- 1 → 2
     (.act (.clone 1), []), (.act (.link 4 0), []),       -- 0 → 1
     (.act (.link 3 2), []),                              -- 2 → 3 (tail)
     (.act .new, []), (.act .new, []), (.act .new, []),
     (.act (.link 5 3), []), (.act (.link 4 3), []),      -- survivor 4 → 6, 4 → 5
     (.act (.drop 2), []), (.act (.drop 1), []), (.act (.drop 0), [])] := rfl

example : HistoryExample.hB =
    [(.act .new, []), (.act .new, []), (.act .new, []), (.act .new, []),
     (.act (.clone 0), []), (.act (.link 4 2), []),
     (.act (.clone 2), []), (.act (.link 4 1), []),
     (.act (.clone 1), []), (.act (.link 4 0), []),
     (.act (.link 3 2), []),
     (.act .new, []), (.act .new, []), (.act .new, []),
     (.act (.link 5 3), []), (.act (.link 4 3), []),
     (.shuffle 2 0, [7]), (.shuffle 3 0, []),             -- tables of objects 2 and 4 permuted
     (.act (.drop 2), [3, 1]), (.act (.drop 1), [3, 1]), (.act (.drop 0), [3, 1])] := rfl

/-- the hypotheses of `C09_whole_histories` hold for the pair -/
example : SameProgram HistoryExample.hA HistoryExample.hB
    ∧ (∀ oh ∈ HistoryExample.hA, oh.1.fullQuiet) ∧ (run HistoryExample.hA).err = none :=
  ⟨HistoryExample.same, HistoryExample.fullQuiet, HistoryExample.noErr⟩

/-- … so the theorem applies -/
theorem C09_whole_histories_example :
    (run HistoryExample.hB).err = none
    ∧ (run HistoryExample.hA).LayoutEqL (run HistoryExample.hB) :=
  C09_whole_histories HistoryExample.hA HistoryExample.hB HistoryExample.same
    HistoryExample.fullQuiet HistoryExample.noErr

/-- … and it is not an equality: the event logs differ as lists -/
theorem C09_example_orders_differ : (run HistoryExample.hA).log ≠ (run HistoryExample.hB).log :=
  HistoryExample.logs_differ

/-- concretely: the group `{0, 1, 2, 3}` is destroyed in two different orders, the same four
allocations are released, the survivor and its two objects stay live in both runs -/
example : (run HistoryExample.hA).destroyedVids = [2, 1, 0, 3]
    ∧ (run HistoryExample.hB).destroyedVids = [3, 1, 2, 0] :=
  ⟨HistoryExample.destroyed_A, HistoryExample.destroyed_B⟩

example : (run HistoryExample.hA).roots = [4] ∧ (run HistoryExample.hB).roots = [4]
    ∧ (∀ o, o < 4 → (run HistoryExample.hA).isLive o = false ∧ (run HistoryExample.hB).isLive o = false)
    ∧ (∀ o, o < 7 → 4 ≤ o →
        (run HistoryExample.hA).isLive o = true ∧ (run HistoryExample.hB).isLive o = true)
    ∧ (run HistoryExample.hA).freedIds.Perm [0, 1, 2, 3]
    ∧ (run HistoryExample.hB).freedIds.Perm [0, 1, 2, 3] := by
  decide +kernel

end Cactus
