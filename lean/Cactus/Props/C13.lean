import Cactus.Lemmas.LocalContract
import Cactus.Lemmas.Basic
import Cactus.Lemmas.Table
import Cactus.Lemmas.Shared.RunWith   -- `runWith` (`run` with an explicit step budget)
/-!
# C13 — forgetting `unadopt` (KNOWN FINDING D4: the property is false of the code)

The documentation says that removing an adopted handle without calling `unadopt` is safe and can
only leak.  It is not: the orphan test trusts the recorded counts, so a stale record explains away
a handle the program still holds and a reachable object is destroyed.  This file contains:
* `C13_counterexample` — the machine-checked witness on the model (a 9-call history); the harness
  replays the same history on the real code on every run (corpus `d4_elided_unadopt.ops`);
* what remains true: `C13_partial_purge_removes_target` (one-step), `C13_partial` (a stale record is
  dangerous only if owner and target both lie inside a group that passes the orphan test),
  `C13_partial_actions_need_no_contract`, `C13_partial_other_frames_need_no_contract`,
  `C13_contract_is_absence_of_stale_records`;
* a positive instance of `C13_partial`: a forgotten `unadopt` outside the collected group, nothing
  destroyed prematurely.
Not proved (false): safety of arbitrary histories with elided `unadopt`.
`runWith` (`run` with an explicit step budget), used by the counterexample, is defined in
`Lemmas/Shared/RunWith.lean`; this file imports no other property file.
-/
namespace Cactus
open State

/-- a↔b adopted both ways; the program takes b's handle out of a *without* `unadopt` and keeps
it; then drops its last other handle to a. -/
def elidedHistory : List (Op × List Nat) :=
  [(.act .new, []), (.act .new, []),
   (.act (.clone 1), []), (.act (.link 2 0), []),     -- a holds and adopts b
   (.act (.clone 0), []), (.act (.link 2 1), []),     -- b holds and adopts a
   (.act (.drop 1), []),                              -- program drops its own handle to b
   (.act (.take 0 0), []),                            -- …takes b's handle out of a, no unadopt
   (.act (.drop 0), [])]                              -- …and drops its handle to a

/-- the program still holds a handle to object 1, yet its value has been destroyed and its
allocation released: the negation of C13 on a 9-call history -/
theorem C13_counterexample :
    let s := runWith 64 elidedHistory
    s.err = none ∧ s.roots = [1] ∧ Ev.destroyed 1 ∈ s.log ∧ Ev.freed 1 ∈ s.log := by
  decide

/-- what the mechanism the property anchors does guarantee: a dying object purges every record
of itself from the peers named in its own table, so a stale record never survives its target
(this is the shape of the repository's `leak_with_elided_unadopt` test). -/
theorem C13_partial_purge_removes_target (x : Nat) (t : Table) (hw : t.WF) (n : Nat) :
    ((t.remove ⟨x, .fwd⟩ n).remove ⟨x, .bwd⟩ n).get ⟨x, .fwd⟩ = t.get ⟨x, .fwd⟩ - n
    ∧ ((t.remove ⟨x, .fwd⟩ n).remove ⟨x, .bwd⟩ n).get ⟨x, .bwd⟩ = t.get ⟨x, .bwd⟩ - n := by
  have hw1 := Table.WF_remove t hw ⟨x, .fwd⟩ n
  constructor
  · rw [Table.get_remove _ hw1]; simp [Table.get_remove _ hw]
  · rw [Table.get_remove _ hw1]; simp [Table.get_remove _ hw]


/-! ## What remains true: a stale record is dangerous only inside a collected group

`State.Stale s a b`: owner `a` is live and records more adoptions of `b` than its value holds
handles to `b` — exactly what an elided `unadopt` leaves behind.  `C13_partial`: every user-level
action and every machine step other than a *passing group teardown* preserves the safety invariant
with no contract at all, and a group teardown preserves it as soon as no stale pair has **both**
its owner and its target inside the group being collected.  So forgetting `unadopt` can endanger a
live object only through a record whose owner and target are both members of a group that passes
the orphan test (the D4 witness above is the smallest such case: a↔b); a stale record whose owner
or target stays outside every collected group can at most keep garbage alive — the documented
"may leak".  In particular the repository's own `leak_with_elided_unadopt` shape (the removed handle
was the target's last one, so the target dies and purges the record) is covered. -/

/-- **C13, the part that remains true** (`stale_record_harmless_outside_group` in
`Cactus.Lemmas.LocalContract`): `s` is about to run `<Rc as Drop>::drop` of a handle to `o`; if no
stale pair `(a, b)` has both `a` and `b` in the group traced from `o` whenever that group passes the
orphan test (`s1` is the state in which the trace runs: frame popped, count decremented), the step
keeps the safety invariant `InvS` — no contract assumed anywhere else -/
theorem C13_partial (s : State) (hI : s.Inv) (hS : s.InvS)
    (herr : s.err = none) (o : Nat) (rest : List Frame) (hst : s.stack = Frame.rcDrop o :: rest)
    (hstale : ∀ ob n, s.cell o = some ob → ob.strong = .cnt (n + 2) →
      let s1 := ({ s with stack := rest } : State).setObj o { ob with strong := .cnt (n + 1) }
      (cycleRefs s1 o).cmap.isEmpty = false →
      hasExternalOwners s1 (cycleRefs s1 o).cmap = false →
      ∀ a b, s.Stale a b →
        ¬ (a ∈ (cycleRefs s1 o).visited ∧ b ∈ (cycleRefs s1 o).visited)) :
    (step s).InvS :=
  stale_record_harmless_outside_group s hI hS herr o rest hst hstale

/-- every user-level action (top level or inside a destructor) preserves `InvS` without any
contract (`applyAct_invS`) -/
theorem C13_partial_actions_need_no_contract (s : State) (fh fw : List Nat) (a : Act)
    (hI : s.Inv) (hS : s.InvS) : (applyAct s fh fw a).InvS := applyAct_invS s fh fw a hI hS

/-- so does every machine step whose top frame is not an `rcDrop` (`frames_need_no_contract`) -/
theorem C13_partial_other_frames_need_no_contract (s : State) (hI : s.Inv) (hS : s.InvS)
    (hf : ∀ o rest, s.stack ≠ .rcDrop o :: rest) : (step s).InvS :=
  frames_need_no_contract s hI hS hf
theorem C13_contract_is_absence_of_stale_records (s : State) : s.P ↔ ∀ a b, ¬ s.Stale a b :=
  P_iff_no_stale s


/-! ## A positive instance of `C13_partial`: a forgotten `unadopt` outside the collected group

`a` (object 0) adopts and holds `b` (object 1); x ↔ y (objects 2, 3) is a separate two-cycle.  The
program takes `b`'s handle out of `a` without `unadopt` — leaving the stale record `a → b` — keeps it,
drops its handle to y and then its handle to x, which collects the group {x, y}.
`elidedOutsideStart` is the state in which that last `drop` has pushed its `rcDrop 2` frame. -/

def elidedOutsideBuild : List (Op × List Nat) :=
  [(.act .new, []), (.act .new, []),
   (.act (.clone 1), []), (.act (.link 2 0), []),     -- a holds and adopts b
   (.act .new, []), (.act .new, []),
   (.act (.clone 3), []), (.act (.link 4 2), []),     -- x holds and adopts y
   (.act (.clone 2), []), (.act (.link 4 3), []),     -- y holds and adopts x
   (.act (.take 0 0), []),                            -- b's handle taken out of a, no unadopt
   (.act (.drop 3), [])]                              -- program drops its handle to y

def elidedOutsideStart : State :=
  applyOp ((run elidedOutsideBuild).begin []) (.act (.drop 2))


theorem elidedOutsideStart_reachable : Reachable elidedOutsideStart :=
  .op (.act (.drop 2)) [] (run_reachable elidedOutsideBuild) (by decide +kernel)

/-- the state: the stale record `a → b` (`F a b = 1` but `a`'s value holds no handle to `b`), two
program handles to `b` -/
example : elidedOutsideStart.err = none ∧ elidedOutsideStart.stack = [.rcDrop 2]
    ∧ elidedOutsideStart.roots = [0, 1, 1]
    ∧ elidedOutsideStart.F 0 1 = 1 ∧ elidedOutsideStart.H 0 1 = 0 := by decide +kernel

theorem elidedOutsideStart_stale : elidedOutsideStart.Stale 0 1 := by
  unfold State.Stale; decide +kernel

/-- the safety invariant holds in that state (not via the contract, which is broken: directly, the
quantifiers bounded by the heap length through `InvR`) -/
theorem elidedOutsideStart_invS : elidedOutsideStart.InvS := by
  intro he
  have hR := reachable_InvR elidedOutsideStart_reachable he
  have hlen : elidedOutsideStart.heap.length = 4 := by decide +kernel
  have hst : elidedOutsideStart.stack = [.rcDrop 2] := by decide +kernel
  refine ⟨fun o ho => ?_, fun o hp hl => ?_, fun o => ?_⟩
  · have key : ∀ o, o < 4 → 0 < elidedOutsideStart.ext o + elidedOutsideStart.inHeap o →
        elidedOutsideStart.isLive o = true := by decide +kernel
    by_cases hlt : o < 4
    · exact key o hlt ho
    · have := (hR o (by omega)).1; omega
  · have key : ∀ o, o < 4 → 0 < elidedOutsideStart.pend o →
        elidedOutsideStart.isLive o = true := by decide +kernel
    by_cases hlt : o < 4
    · rw [key o hlt hp] at hl; cases hl
    · have := (hR o (by omega)).1; omega
  · rw [hst]; rfl

/-- `C13_partial` applies to the collecting step although the state contains a stale record: its
hypothesis only asks that no stale pair lies inside the traced group `[3, 2]` -/
theorem C13_partial_instance : (step elidedOutsideStart).InvS := by
  apply C13_partial elidedOutsideStart (reachable_Inv elidedOutsideStart_reachable)
    elidedOutsideStart_invS (by decide +kernel) 2 [] (by decide +kernel)
  intro ob n hc hs
  have hc' : elidedOutsideStart.cell 2 = some
      { strong := .cnt 2, weak := 1, links := some [(⟨3, .fwd⟩, 1), (⟨3, .bwd⟩, 1)],
        value := some { vid := 2, held := [3], weaks := [], script := [], panics := false },
        freed := false } := by decide +kernel
  rw [hc'] at hc
  cases hc
  cases hs
  intro s1 _ _ a b hab ⟨ha, hb⟩
  have hv : (cycleRefs s1 2).visited = [3, 2] := by decide +kernel
  rw [hv] at ha hb
  have key : ∀ a ∈ [3, 2], ∀ b ∈ [3, 2],
      ¬ (elidedOutsideStart.isLive a = true ∧ elidedOutsideStart.H a b < elidedOutsideStart.F a b) := by
    decide +kernel
  exact key a ha b hb hab

/-- the contract does not hold in that state, so `C01`/`C02` say nothing about it -/
example : ¬ elidedOutsideStart.P :=
  fun h => (C13_contract_is_absence_of_stale_records _).mp h 0 1 elidedOutsideStart_stale

/-- what it yields: after the step that tears down {x, y}, every handle the program holds — in
particular its two handles to `b`, the target of the stale record — designates a live object -/
example : ∀ o ∈ (step elidedOutsideStart).roots, (step elidedOutsideStart).isLive o = true := by
  have h := (C13_partial_instance (by decide +kernel)).1
  intro o ho
  apply h o
  have : 0 < (step elidedOutsideStart).roots.count o := List.count_pos_iff.mpr ho
  unfold State.ext
  omega

/-- the whole history by evaluation: only x and y are destroyed; a and b survive, the stale record
merely stays in a's table (the documented "may leak", nothing worse) -/
example : let s := run (elidedOutsideBuild ++ [(.act (.drop 2), [])])
    s.err = none ∧ s.roots = [0, 1, 1]
    ∧ s.log = [.traced 3 2 3, .traced 2 2 3, .destroyed 3, .destroyed 2, .freed 3, .freed 2]
    ∧ s.isLive 0 = true ∧ s.isLive 1 = true ∧ s.F 0 1 = 1 ∧ s.H 0 1 = 0 := by
  decide +kernel

end Cactus
