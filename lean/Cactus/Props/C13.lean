import Cactus.Lemmas.LocalContract
import Cactus.Lemmas.Basic
import Cactus.Lemmas.Table
/-!
# C13 — forgetting `unadopt` (KNOWN FINDING D4: the property is false of the code)

The documentation says that removing an adopted handle without calling `unadopt` is safe and can
only leak.  It is not: the orphan test trusts the recorded counts, so a stale record explains away
a handle the program still holds and a reachable object is destroyed.  `C13_counterexample` is the
machine-checked witness on the model; the harness replays the same history on the real code on
every run (corpus `d4_elided_unadopt.ops`).
-/
namespace Cactus
open State

/-- a↔b adopted both ways; the program takes b's handle out of a *without* `unadopt` and keeps
it; then drops its last other handle to a. -/
def elidedHistory : List (Op × List Nat) :=
  [(.act .new, []), (.act .new, []),
   (.act (.clone 1), []), (.act (.link 2 0), []),     -- a holds and adopts b
   (.act (.clone 0), []), (.act (.link 2 1), []),     -- b holds and adopts a
   (.act (.drop 1), []),                              -- program drops its own handle to b
   (.act (.take 0 0), []),                            -- …takes b's handle out of a, no unadopt
   (.act (.drop 0), [])]                              -- …and drops its handle to a

def runWith (fuel : Nat) (ops : List (Op × List Nat)) : State :=
  ops.foldl (fun s oh => execOp fuel s oh.1 oh.2) {}

/-- the program still holds a handle to object 1, yet its value has been destroyed and its
allocation released: the negation of C13 on a 9-call history -/
theorem C13_counterexample :
    let s := runWith 64 elidedHistory
    s.err = none ∧ s.roots = [1] ∧ Ev.destroyed 1 ∈ s.log ∧ Ev.freed 1 ∈ s.log := by
  decide

/-- what the mechanism the property anchors does guarantee: a dying object purges every record
of itself from the peers named in its own table, so a stale record never survives its target
(this is the shape of the repository's `leak_with_elided_unadopt` test). -/
theorem C13_partial_purge_removes_target (x : Nat) (t : Table) (hw : t.WF) (n : Nat) :
    ((t.remove ⟨x, .fwd⟩ n).remove ⟨x, .bwd⟩ n).get ⟨x, .fwd⟩ = t.get ⟨x, .fwd⟩ - n
    ∧ ((t.remove ⟨x, .fwd⟩ n).remove ⟨x, .bwd⟩ n).get ⟨x, .bwd⟩ = t.get ⟨x, .bwd⟩ - n := by
  have hw1 := Table.WF_remove t hw ⟨x, .fwd⟩ n
  constructor
  · rw [Table.get_remove _ hw1]; simp [Table.get_remove _ hw]
  · rw [Table.get_remove _ hw1]; simp [Table.get_remove _ hw]


/-! ## What remains true: a stale record is dangerous only inside a collected group

`State.Stale s a b`: owner `a` is live and records more adoptions of `b` than its value holds
handles to `b` — exactly what an elided `unadopt` leaves behind.  `C13_partial`: every user-level
action and every machine step other than a *passing group teardown* preserves the safety invariant
with no contract at all, and a group teardown preserves it as soon as no stale pair has **both**
its owner and its target inside the group being collected.  So forgetting `unadopt` can endanger a
live object only through a record whose owner and target are both members of a group that passes
the orphan test (the D4 witness above is the smallest such case: a↔b); a stale record whose owner
or target stays outside every collected group can at most keep garbage alive — the documented
"may leak".  In particular the repository's own `leak_with_elided_unadopt` shape (the removed handle
was the target's last one, so the target dies and purges the record) is covered. -/

theorem C13_partial : type_of% @stale_record_harmless_outside_group := @stale_record_harmless_outside_group
theorem C13_partial_actions_need_no_contract : type_of% @applyAct_invS := @applyAct_invS
theorem C13_contract_is_absence_of_stale_records (s : State) : s.P ↔ ∀ a b, ¬ s.Stale a b :=
  P_iff_no_stale s

end Cactus
