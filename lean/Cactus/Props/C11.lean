import Cactus.Lemmas.Final
import Cactus.Lemmas.Once
import Cactus.Lemmas.Basic
/-!
# C11 — a panicking destructor cannot cause double destruction or dangling state

What is proved here:
* one-step lemmas about `panic` and the unwinding: `C11_panic_keeps_only_cleanup`,
  `C11_double_panic_aborts`, `C11_panic_heap`, `C11_no_release_after_panic`, `C11_panic_propagates`;
* whole histories with panicking destructors, no hypothesis on the history, every state during and
  after an unwinding: `C11_no_double_destruction`, `C11_invariants_survive_panic`;
* examples: a destructor panics in the middle of a group teardown (log, leak, invariants after and
  during the unwinding), and a double panic that aborts.
Not proved: that the interrupted teardown's allocations are *reclaimed* — they are not, they leak
(drop.rs:196-213, 298-338), which is why C04 is stated for panic-free histories.
-/
namespace Cactus
open State

/-- when a destructor panics every pending *continuation* of library code (the rest of
`drop_unreachable*`, phase 3 of `drop_cycle`, the rest of enclosing destructor bodies) is
discarded and only drop glue remains: nothing is released by the interrupted teardown, so
nothing can be released twice (drop.rs:196-213, 298-338). -/
theorem C11_panic_keeps_only_cleanup (s : State) (h : s.unwinding = false) :
    ∀ f ∈ (s.panic).stack, f.isCleanup = true := by
  intro f hf
  simp [State.panic, h] at hf
  exact hf.2

/-- a second panic while the first one is unwinding terminates the process -/
theorem C11_double_panic_aborts (s : State) (h : s.unwinding = true) (he : s.err = none) :
    (s.panic).err = some .abort := by
  simp [State.panic, h, fail_err_of_none _ _ he]

/-- a panic changes no object -/
theorem C11_panic_heap (s : State) : (s.panic).heap = s.heap := by
  unfold State.panic; split <;> simp

/-- the interrupted continuations are exactly the ones that release memory: after a panic no
`finishSingle`/`phase3` frame is left, so the allocations of the interrupted teardown leak -/
theorem C11_no_release_after_panic (s : State) (h : s.unwinding = false) (o : Nat) (ks : List Nat) :
    Frame.finishSingle o ∉ (s.panic).stack ∧ Frame.phase3 ks ∉ (s.panic).stack := by
  constructor <;> intro hm <;> have := C11_panic_keeps_only_cleanup s h _ hm <;> simp [Frame.isCleanup] at this

/-- the panic is reported to the caller of the operation (`catch_unwind` boundary) -/
theorem C11_panic_propagates (s : State) (h : s.unwinding = true) :
    (endOp s).log = s.log ++ [.panicked] ∧ (endOp s).unwinding = false := by
  simp [endOp, h, State.emit]

example : (({ stack := [.dropFields [1] [], .finishSingle 0, .phase3 [0]] } : State).panic).stack
    = [.dropFields [1] []] := by decide


/-! ## Over whole histories with panicking destructors (no hypothesis on the history)

`Reachable` contains the states during and after an unwinding.  -/

/-- **C11 (no double destruction, no double release).** Whatever panics: no value's destructor runs
twice and no allocation is released twice. -/
theorem C11_no_double_destruction {s : State} (h : Reachable s) :
    s.destroyedVids.Nodup ∧ s.freedIds.Nodup := reachable_once' h

/-- **C11 (nothing corrupted).** After (and during) an unwinding all bookkeeping invariants still
hold: counts of every live object are exact, tables are symmetric and name live objects only,
weak counts are exact (so Weak handles to the group's members keep reporting them dead and keep
their allocations valid). -/
theorem C11_invariants_survive_panic {s : State} (h : Reachable s) (he : s.err = none) :
    s.InvO ∧ s.InvB ∧ s.InvC ∧ s.InvW ∧ s.InvK := (reachable_core h he).1

/-! ## Non-vacuity: a destructor panics in the middle of a group teardown

A 3-ring `0 → 1 → 2 → 0` built with `link`, a Weak to member 0; member 1's destructor is set to
panic.  The last `drop` collects the ring in the order `[0, 1, 2]` given by the hint: 0's destructor
runs, 1's destructor panics, the unwinding still drops the remaining value (2's destructor runs:
drop glue of the `inners` vector) but skips `phase3`, so the three allocations leak; the panic is
reported to the caller (`panicked`), the members stay dead, and the program goes on. -/

def panicHistory : List (Op × List Nat) :=
  [(.act .new, []), (.act .new, []), (.act .new, []),
   (.act (.clone 1), []), (.act (.link 3 0), []),       -- 0 → 1
   (.act (.clone 2), []), (.act (.link 3 1), []),       -- 1 → 2
   (.act (.clone 0), []), (.act (.link 3 2), []),       -- 2 → 0
   (.act (.downgrade 0), []),                           -- Weak to 0
   (.act (.setPanic 1), []),                            -- 1's destructor panics
   (.act (.drop 1), []), (.act (.drop 1), []),          -- program's handles to 1, 2
   (.act (.drop 0), [0, 1, 2]),                         -- collects {0, 1, 2}; 1's destructor panics
   (.act (.upgrade 0), []),                             -- the members stay dead: None
   (.act .new, []), (.act (.drop 0), [])]               -- the program goes on

/-- by evaluation: no machine error; each of the three values destroyed exactly once, the panic
reported, nothing of the interrupted teardown released (strong, weak, table gone, value present,
freed, implicit weak still owned), later operations unaffected -/
example : let s := run panicHistory
    s.err = none ∧ s.unwinding = false ∧ s.stack = []
    ∧ s.log = [.traced 1 3 4, .traced 2 3 4, .traced 0 3 4,
               .destroyed 0, .destroyed 1, .destroyed 2, .panicked, .ret 0, .destroyed 3, .freed 3]
    ∧ s.heap.map (fun ob => (ob.strong, ob.weak, ob.links.isNone, ob.value.isSome, ob.freed, ob.implicit))
      = [(.uninit, 2, true, false, false, true), (.uninit, 1, true, false, false, true),
         (.uninit, 1, true, false, false, true), (.uninit, 0, true, false, true, false)] := by
  decide +kernel

/-- `C11_no_double_destruction` and `C11_invariants_survive_panic` instantiated at that state -/
example : (run panicHistory).destroyedVids.Nodup ∧ (run panicHistory).freedIds.Nodup :=
  C11_no_double_destruction (run_reachable panicHistory)

example : (run panicHistory).destroyedVids = [0, 1, 2, 3] ∧ (run panicHistory).freedIds = [3] := by
  decide +kernel

example : (run panicHistory).InvO ∧ (run panicHistory).InvB ∧ (run panicHistory).InvC
    ∧ (run panicHistory).InvW ∧ (run panicHistory).InvK :=
  C11_invariants_survive_panic (run_reachable panicHistory) (by decide +kernel)

/-- e.g. the weak count of the leaked member 0 is still exact: the program's Weak plus the implicit
weak reference that nobody will release any more (`2 = 1 + 0 + 0 + 1`) -/
example : (run panicHistory).weakNat 0 = (run panicHistory).extW 0 + (run panicHistory).inHeapW 0
      + (run panicHistory).pendW 0 + (run panicHistory).implicitNat 0 :=
  (C11_invariants_survive_panic (run_reachable panicHistory) (by decide +kernel)).2.2.2.1 0
    (by decide +kernel)

/-- … and they hold in the middle of the unwinding as well: the state right after the panic
(`Reachable` by construction), where only drop glue is left on the stack -/
def panicStart : State :=
  applyOp ((run (panicHistory.take 13)).begin [0, 1, 2]) (.act (.drop 0))

def panicMid : State :=
  step (step (step (step (step (step (step (step (step panicStart))))))))

theorem panicMid_reachable : Reachable panicMid :=
  have h0 : Reachable panicStart :=
    .op (.act (.drop 0)) [0, 1, 2] (run_reachable (panicHistory.take 13)) (by decide +kernel)
  .step (.step (.step (.step (.step (.step (.step (.step (.step h0))))))))

example : panicMid.unwinding = true ∧ panicMid.err = none
    ∧ panicMid.stack = [.dropFields [2] [],
        .dropVal { vid := 2, held := [0], weaks := [], script := [], panics := false }]
    ∧ panicMid.log.drop 3 = [.destroyed 0, .destroyed 1] := by
  decide +kernel

example : panicMid.InvO ∧ panicMid.InvB ∧ panicMid.InvC ∧ panicMid.InvW ∧ panicMid.InvK :=
  C11_invariants_survive_panic panicMid_reachable (by decide +kernel)

/-- a second panic while the first one unwinds (both members of a two-cycle panic) terminates the
process: the machine stops in the sticky `abort` state (`C11_double_panic_aborts`) -/
def doublePanicHistory : List (Op × List Nat) :=
  [(.act .new, []), (.act .new, []),
   (.act (.clone 1), []), (.act (.link 2 0), []),       -- 0 → 1
   (.act (.clone 0), []), (.act (.link 2 1), []),       -- 1 → 0
   (.act (.setPanic 0), []), (.act (.setPanic 1), []),
   (.act (.drop 1), []), (.act (.drop 0), [])]

example : (run doublePanicHistory).err = some .abort
    ∧ (run doublePanicHistory).destroyedVids = [1, 0] := by decide +kernel

end Cactus
