import Cactus.Lemmas.Final
import Cactus.Lemmas.Once
import Cactus.Lemmas.Basic
/-!
# C11 — a panicking destructor cannot cause double destruction or dangling state (first layer)
-/
namespace Cactus
open State

/-- when a destructor panics every pending *continuation* of library code (the rest of
`drop_unreachable*`, phase 3 of `drop_cycle`, the rest of enclosing destructor bodies) is
discarded and only drop glue remains: nothing is released by the interrupted teardown, so
nothing can be released twice (drop.rs:196-213, 298-338). -/
theorem C11_panic_keeps_only_cleanup (s : State) (h : s.unwinding = false) :
    ∀ f ∈ (s.panic).stack, f.isCleanup = true := by
  intro f hf
  simp [State.panic, h] at hf
  exact hf.2

/-- a second panic while the first one is unwinding terminates the process -/
theorem C11_double_panic_aborts (s : State) (h : s.unwinding = true) (he : s.err = none) :
    (s.panic).err = some .abort := by
  simp [State.panic, h, fail_err_of_none _ _ he]

/-- a panic changes no object -/
theorem C11_panic_heap (s : State) : (s.panic).heap = s.heap := by
  unfold State.panic; split <;> simp

/-- the interrupted continuations are exactly the ones that release memory: after a panic no
`finishSingle`/`phase3` frame is left, so the allocations of the interrupted teardown leak -/
theorem C11_no_release_after_panic (s : State) (h : s.unwinding = false) (o : Nat) (ks : List Nat) :
    Frame.finishSingle o ∉ (s.panic).stack ∧ Frame.phase3 ks ∉ (s.panic).stack := by
  constructor <;> intro hm <;> have := C11_panic_keeps_only_cleanup s h _ hm <;> simp [Frame.isCleanup] at this

/-- the panic is reported to the caller of the operation (`catch_unwind` boundary) -/
theorem C11_panic_propagates (s : State) (h : s.unwinding = true) :
    (endOp s).log = s.log ++ [.panicked] ∧ (endOp s).unwinding = false := by
  simp [endOp, h, State.emit]

example : (({ stack := [.dropFields [1] [], .finishSingle 0, .phase3 [0]] } : State).panic).stack
    = [.dropFields [1] []] := by decide


/-! ## Over whole histories with panicking destructors (no hypothesis on the history)

`Reachable` contains the states during and after an unwinding.  -/

/-- **C11 (no double destruction, no double release).** Whatever panics: no value's destructor runs
twice and no allocation is released twice. -/
theorem C11_no_double_destruction {s : State} (h : Reachable s) :
    s.destroyedVids.Nodup ∧ s.freedIds.Nodup := reachable_once' h

/-- **C11 (nothing corrupted).** After (and during) an unwinding all bookkeeping invariants still
hold: counts of every live object are exact, tables are symmetric and name live objects only,
weak counts are exact (so Weak handles to the group's members keep reporting them dead and keep
their allocations valid). -/
theorem C11_invariants_survive_panic {s : State} (h : Reachable s) (he : s.err = none) :
    s.InvO ∧ s.InvB ∧ s.InvC ∧ s.InvW ∧ s.InvK := (reachable_core h he).1

end Cactus
