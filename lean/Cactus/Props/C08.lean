import Cactus.Lemmas.Final
import Cactus.Lemmas.Basic
import Cactus.Lemmas.Table
/-!
# C08 — adoption bookkeeping is exact and symmetric

Each `adopt` adds one owner→target record visible from both ends, each `unadopt` removes at most
one and is a no-op when none exists.  What is proved here:
* one-step lemmas about the two API calls: `C08_adopt_records`, `C08_adopt_self_records`,
  `C08_adopt_counts`, `C08_unadopt_records`, `C08_unadopt_counts`;
* whole histories, no hypothesis on the history, every state: `C08_bookkeeping` (tables well formed,
  records name live objects only, both ends agree — the invariant `InvB`) and
  `C08_decision_from_records`;
* example: parallel adoptions, both kinds of self-adoption, a redundant `unadopt` and the
  destruction of an object with records; the theorems instantiated.
Not proved: hashbrown itself (a table is an association list in the model).
-/
namespace Cactus
open State

/-- `adopt(a, b)` through two different handles, `a ≠ b`: one Forward record in `a`, one Backward
record in `b`, nothing else changes in either table -/
theorem C08_adopt_records (s : State) (a b : Nat) (ta tb : Table) (hab : a ≠ b)
    (ha : s.tableOf a = some ta) (hb : s.tableOf b = some tb) :
    (s.adopt a b false).tableOf a = some (ta.insert ⟨b, .fwd⟩)
    ∧ (s.adopt a b false).tableOf b = some (tb.insert ⟨a, .bwd⟩)
    ∧ (s.adopt a b false).err = s.err := by
  unfold State.adopt
  simp only [Bool.false_eq_true, if_false]
  have h1 := tableOf_setLinks_same s a (·.insert ⟨b, .fwd⟩) ta ha
  have h2 : (s.setLinks a (·.insert ⟨b, .fwd⟩)).tableOf b = some tb := by
    rw [tableOf_setLinks_other s a b _ hab]; exact hb
  refine ⟨?_, ?_, ?_⟩
  · rw [tableOf_setLinks_other _ b a _ (Ne.symm hab)]; exact h1
  · exact tableOf_setLinks_same _ b _ tb h2
  · rw [setLinks_err_of_some _ b _ tb h2, setLinks_err_of_some s a _ ta ha]

/-- self-adoption through a clone: both records land in the one table -/
theorem C08_adopt_self_records (s : State) (a : Nat) (ta : Table) (ha : s.tableOf a = some ta) :
    (s.adopt a a false).tableOf a = some ((ta.insert ⟨a, .fwd⟩).insert ⟨a, .bwd⟩) := by
  unfold State.adopt
  simp only [Bool.false_eq_true, if_false]
  exact tableOf_setLinks_same _ a _ _ (tableOf_setLinks_same s a _ ta ha)

/-- the record is visible from both ends with the same multiplicity: both counts go up by one -/
theorem C08_adopt_counts (ta tb : Table) (a b : Nat) :
    (ta.insert ⟨b, .fwd⟩).get ⟨b, .fwd⟩ = ta.get ⟨b, .fwd⟩ + 1
    ∧ (tb.insert ⟨a, .bwd⟩).get ⟨a, .bwd⟩ = tb.get ⟨a, .bwd⟩ + 1
    ∧ ∀ l, l ≠ ⟨b, .fwd⟩ → (ta.insert ⟨b, .fwd⟩).get l = ta.get l := by
  refine ⟨by simp [Table.get_insert], by simp [Table.get_insert], ?_⟩
  intro l hl; simp [Table.get_insert, hl]

/-- `unadopt(a, b)`, `a ≠ b`: removes one record from each end, saturating -/
theorem C08_unadopt_records (s : State) (a b : Nat) (ta tb : Table) (hab : a ≠ b)
    (ha : s.tableOf a = some ta) (hb : s.tableOf b = some tb) :
    (s.unadopt a b false).tableOf a = some (ta.remove ⟨b, .fwd⟩ 1)
    ∧ (s.unadopt a b false).tableOf b = some (tb.remove ⟨a, .bwd⟩ 1)
    ∧ (s.unadopt a b false).err = s.err := by
  unfold State.unadopt
  simp only [Bool.false_eq_true, if_false]
  have h1 := tableOf_setLinks_same s a (·.remove ⟨b, .fwd⟩ 1) ta ha
  have h2 : (s.setLinks a (·.remove ⟨b, .fwd⟩ 1)).tableOf b = some tb := by
    rw [tableOf_setLinks_other s a b _ hab]; exact hb
  refine ⟨?_, ?_, ?_⟩
  · rw [tableOf_setLinks_other _ b a _ (Ne.symm hab)]; exact h1
  · exact tableOf_setLinks_same _ b _ tb h2
  · rw [setLinks_err_of_some _ b _ tb h2, setLinks_err_of_some s a _ ta ha]

/-- an `unadopt` of a pair that has no record is a no-op; otherwise the count drops by exactly one
and the entry disappears at zero -/
theorem C08_unadopt_counts (t : Table) (hw : t.WF) (k : Link) :
    (t.remove k 1).get k = t.get k - 1 ∧ (∀ l, l ≠ k → (t.remove k 1).get l = t.get l)
    ∧ (t.get k = 0 → t.remove k 1 = t) ∧ (t.remove k 1).WF := by
  refine ⟨by simp [Table.get_remove t hw], ?_, ?_, Table.WF_remove t hw k 1⟩
  · intro l hl; simp [Table.get_remove t hw, hl]
  · intro h; exact Table.remove_absent t k 1 h hw

example : (({ heap := [{ strong := .cnt 1, weak := 1, links := some [], value := none, freed := false },
                       { strong := .cnt 1, weak := 1, links := some [], value := none, freed := false }] } : State).adopt 0 1 false).tableOf 1
    = some [(⟨0, .bwd⟩, 1)] := by decide


/-! ## The property over whole histories (no hypothesis on the history) -/

/-- **C08.** In every reachable state of every history: every link table is well formed (distinct
keys, positive counts), every Forward/Backward record names a *live* object (records involving an
object disappear when it is destroyed), and every record is visible from both ends with the same
multiplicity. -/
theorem C08_bookkeeping {s : State} (h : Reachable s) (he : s.err = none) :
    (∀ (o : Nat) (t : Table), s.tableOf o = some t →
        t.WF ∧ ∀ e, e ∈ t → (e.1.kind = .loop → e.1.ptr = o) ∧ (e.1.kind ≠ .loop → s.isLive e.1.ptr = true))
    ∧ (∀ a b, s.isLive a = true → s.isLive b = true → s.F a b = s.B b a) :=
  (reachable_core h he).1.2.1

/-- consequently the orphan decision taken at any later drop depends only on the currently recorded
adoptions and the handle counts: the cycle map computed by the trace is determined by `F` and the
visited set (not by the order in which the records were made) -/
theorem C08_decision_from_records {s : State} (h : Reachable s) (he : s.err = none) {x : Nat}
    (hx : s.isLive x = true) (k : Nat) :
    (cycleRefs s x).cmap.get k = sumOver (cycleRefs s x).visited (fun n => s.F n k) :=
  let hc := (reachable_core h he).1
  cmap_get_eq s x hc.1 hc.2.1 hx k

/-! ## Non-vacuity: parallel adoptions, both kinds of self-adoption, a redundant `unadopt`, and the
destruction of an object that has records (no contract is assumed by C08, so the history uses the
bare `adopt`/`unadopt` calls) -/

def recordsHistory : List (Op × List Nat) :=
  [(.act .new, []), (.act .new, []), (.act .new, []),       -- objects 0, 1, 2
   (.act (.adopt 0 1), []), (.act (.adopt 0 1), []),
   (.act (.adopt 0 1), []),                                 -- 0 adopts 1 three times
   (.act (.adopt 1 2), []),                                 -- 1 adopts 2
   (.act (.adopt 2 2), []),                                 -- 2 adopts itself through the same handle
   (.act (.clone 0), []), (.act (.adopt 0 3), []),          -- 0 adopts itself through a clone
   (.act (.unadopt 0 1), []),                               -- one of the three records removed
   (.act (.unadopt 2 0), []),                               -- no such record: no-op
   (.act (.drop 2), [])]                                    -- last handle to 2: its records vanish

/-- the tables before the final `drop` (Forward/Backward/Loopback entries with multiplicities) … -/
example : (run (recordsHistory.take 12)).heap.map (·.links) =
    [some [(⟨1, .fwd⟩, 2), (⟨0, .fwd⟩, 1), (⟨0, .bwd⟩, 1)],
     some [(⟨0, .bwd⟩, 2), (⟨2, .fwd⟩, 1)],
     some [(⟨1, .bwd⟩, 1), (⟨2, .loop⟩, 1)]] := by decide +kernel

/-- … and after it: object 2 is gone and so is every record naming it -/
example : (run recordsHistory).err = none ∧ (run recordsHistory).roots = [0, 1, 0]
    ∧ (run recordsHistory).heap.map (·.links) =
      [some [(⟨1, .fwd⟩, 2), (⟨0, .fwd⟩, 1), (⟨0, .bwd⟩, 1)], some [(⟨0, .bwd⟩, 2)], none] := by
  decide +kernel

/-- `C08_bookkeeping` instantiated at that state: object 1's table is well formed and names live
objects only (the record of the destroyed object 2 has been purged), and the adoption `0 → 1` is
visible from both ends with the same multiplicity -/
example : Table.WF [(⟨0, .bwd⟩, 2)]
    ∧ (∀ e ∈ ([(⟨0, .bwd⟩, 2)] : Table), e.1.kind ≠ .loop → (run recordsHistory).isLive e.1.ptr = true)
    ∧ (run recordsHistory).F 0 1 = (run recordsHistory).B 1 0 := by
  have h := C08_bookkeeping (run_reachable recordsHistory) (by decide +kernel)
  have h1 := h.1 1 [(⟨0, .bwd⟩, 2)] (by decide +kernel)
  exact ⟨h1.1, fun e he => (h1.2 e he).2, h.2 0 1 (by decide +kernel) (by decide +kernel)⟩

example : (run recordsHistory).F 0 1 = 2 ∧ (run recordsHistory).B 1 0 = 2
    ∧ (run recordsHistory).F 0 0 = 1 ∧ (run recordsHistory).B 0 0 = 1
    ∧ (run recordsHistory).F 1 2 = 0 := by decide +kernel

/-- `C08_decision_from_records` there: the count the trace from 0 attributes to object 1 is the sum
of the recorded adoptions of 1 by the visited objects `[1, 0]`, i.e. `0 + 2` -/
example : (cycleRefs (run recordsHistory) 0).cmap.get 1
    = sumOver (cycleRefs (run recordsHistory) 0).visited (fun n => (run recordsHistory).F n 1) :=
  C08_decision_from_records (run_reachable recordsHistory) (by decide +kernel) (by decide +kernel) 1

example : (cycleRefs (run recordsHistory) 0).visited = [1, 0]
    ∧ (cycleRefs (run recordsHistory) 0).cmap = [(1, 2), (0, 1)] := by decide +kernel

end Cactus
