import Cactus.Lemmas.Contract
import Cactus.Lemmas.Once
import Cactus.Lemmas.NoErr
import Cactus.Lemmas.Final
import Cactus.Lemmas.Orphan
import Cactus.Lemmas.Shared.OneStep   -- `Shared.rcDrop_dead_noop`, `Shared.decWeakFree_released`
/-!
# C02 — values die at most once; the library never touches freed memory

In the model every library access to an allocation goes through `cell` / `tableOf` / the value
field and reports `uaf`, `movedLinks`, `movedValue`, `underflow` instead of proceeding; so the
property is "`err` never becomes one of those".  What is proved here:
* one-step lemmas: `C02_begun_object_inert`, `C02_trace_reads_live_only`,
  `C02_no_silent_double_free`;
* whole histories: `C02_no_handle_to_released_allocation`, `C02_no_access_after_release` (under
  `ReachableP`), `C02_contract_respecting_histories` (under the syntactic `Op.respects`), and with
  no hypothesis on the history at all `C02_release_scheduled_at_most_once`,
  `C02_destroyed_and_released_at_most_once`, `C02_run_at_most_once`;
* example: a contract-respecting history with a collection, Weak handles and a destructor that
  re-enters the library, the theorems instantiated and the log shown.
Not proved: the library-side statements for histories that break the adoption contract (they are
false: D4); real memory is abstracted by the model, the harness checks it on the implementation.
-/
namespace Cactus
open State

/-- `make_uninit` precedes moving the value out: once a teardown has begun on `o`, every further
`Rc::drop` of a handle to `o` (the members' handles to each other, dropped while the values are
being destroyed) returns at once — the value cannot be moved out or destroyed a second time -/
theorem C02_begun_object_inert (s : State) (o : Nat) (ob : Obj) (v : Val)
    (hc : s.cell o = some ob) (hs : ∃ n, ob.strong = .cnt n) (hv : ob.value = some v) :
    ∃ ob', (s.beginSingle o).cell o = some ob' ∧ ob'.strong = .uninit ∧ ob'.value = none
      ∧ ((s.beginSingle o).rcDrop o) = s.beginSingle o := by
  obtain ⟨n, hn⟩ := hs
  have hf := (cell_some_get s o ob hc).2
  unfold State.beginSingle
  simp only [hc, hn, hv]
  refine ⟨{ ob with strong := .uninit, value := none }, ?_, rfl, rfl, ?_⟩
  · have := cell_setObj_same s o ob { ob with strong := .uninit, value := none } hc
    simpa [State.push, State.cell, hf] using this
  · have hcell : ((s.setObj o { ob with strong := .uninit, value := none }).push [.dropVal v, .finishSingle o]).cell o
        = some { ob with strong := .uninit, value := none } := by
      have := cell_setObj_same s o ob { ob with strong := .uninit, value := none } hc
      simpa [State.push, State.cell, hf] using this
    exact Shared.rcDrop_dead_noop _ o _ hcell rfl

/-- every trace only reads tables of live objects, and every key of the cycle map is a live,
readable allocation: the trace and the orphan test never touch a released allocation or a
moved-out table (needs only the bookkeeping invariants, not the contract) -/
theorem C02_trace_reads_live_only (s : State) (x : Nat) (hO : s.InvO) (hB : s.InvB) (hx : s.isLive x = true) :
    (cycleRefs s x).bad = none ∧ firstUnreadable s (cycleRefs s x).cmap = none
    ∧ ∀ n ∈ (cycleRefs s x).visited, s.isLive n = true :=
  ⟨(cycleRefs_ok s x hO hB hx).1, firstUnreadable_none s x hO hB hx, visited_live s x hO hB hx⟩

/-- releasing is never silent on a released allocation (see also `C04_no_double_release`) -/
theorem C02_no_silent_double_free (s : State) (o : Nat) (h : s.cell o = none) (he : s.err = none) :
    (s.weakDrop o).err = some (.uaf o) := (Shared.decWeakFree_released s o false h he).1


/-! ## Over whole contract-respecting histories -/

/-- **C02 (no access after release, handle side).** In every state of every contract-respecting
execution, every strong handle that still exists anywhere — in the program, inside a stored value,
or owned by a pending teardown frame (this includes the handles that the values of a collected
group hold to each other, which are dropped while the members' values are being destroyed) —
targets an allocation that has not been released; so the `Rc::drop` that will eventually consume it
reads valid counter cells. -/
theorem C02_no_handle_to_released_allocation {s : State} (h : ReachableP s) (he : s.err = none) {o : Nat}
    (hh : 0 < s.ext o + s.inHeap o + s.pend o) : (s.cell o).isSome = true := by
  have hS := reachableP_invS h he
  by_cases h1 : 0 < s.ext o + s.inHeap o
  · exact State.isLive_cell_isSome (hS.1 o h1)
  · have hp : 0 < s.pend o := by omega
    cases hl : s.isLive o with
    | true => exact State.isLive_cell_isSome hl
    | false =>
      obtain ⟨ob, hg, _, _, himp⟩ := hS.2.1 o hp hl
      have hc := (reachable_core h.reachable he).1
      have hw := hc.2.2.2.1 o (State.get_lt hg)
      have hfz := (hc.1 o ob hg).2.2.2
      have : ob.freed = false := by
        cases hf : ob.freed with
        | false => rfl
        | true =>
          have h0 := hfz.mp hf
          simp [State.weakNat, hg, State.implicitNat, himp, h0] at hw
      simp [State.cell, hg, this]

/-- **C02 (no double release).** Each implicit weak reference is owed by at most one pending
continuation, and only while the object still owns it: a second release of the same allocation by
the library cannot be scheduled (no hypothesis on the history) -/
theorem C02_release_scheduled_at_most_once {s : State} (h : Reachable s) (he : s.err = none) (o : Nat) :
    s.owed o ≤ 1 := (reachable_core h he).1.2.2.2.2.2.2 o


/-- **C02 (library side).** In every contract-respecting execution the machine never reports a
read or write of a released allocation (`uaf`), of a moved-out link table (`movedLinks`) or value
(`movedValue`), a double release, a counter underflow or a corrupted counter — and the program
never even holds a dangling handle (`dangling`).  The only ways the machine can stop are running
out of fuel and the two documented aborts (cloning a dead handle, a second panic while unwinding). -/
theorem C02_no_access_after_release {s : State} (h : ReachableP s) (o : Nat) :
    s.err ≠ some (.uaf o) ∧ s.err ≠ some (.movedLinks o) ∧ s.err ≠ some (.movedValue o)
    ∧ s.err ≠ some (.doubleFree o) ∧ s.err ≠ some (.underflow o) ∧ s.err ≠ some (.corrupt o)
    ∧ s.err ≠ some (.dangling o) := reachableP_no_library_error h o

/-- **C02 (at most once).** In every execution of every history — no contract needed, panics
included — the destructor of each stored value runs at most once and each allocation is released
at most once; and a value that is still in place has not been destroyed. -/
theorem C02_destroyed_and_released_at_most_once {s : State} (h : Reachable s) :
    s.destroyedVids.Nodup ∧ s.freedIds.Nodup ∧ ∀ v ∈ s.allVals, v.vid ∉ s.destroyedVids :=
  ⟨(reachable_once' h).1, (reachable_once' h).2, reachable_stored_not_destroyed h⟩

theorem C02_run_at_most_once (ops : List (Op × List Nat)) :
    (run ops).destroyedVids.Nodup ∧ (run ops).freedIds.Nodup := run_once ops


/-! ## With the syntactic hypothesis of `C01_contract_respecting_histories` -/

/-- **C02 for every contract-respecting history** (no bare `adopt`, no bare `take`, also inside
destructor scripts): at every point of the execution the machine is error-free or has stopped for
one of the three reasons that are not library faults — out of fuel, or one of the two documented
aborts.  In particular never `uaf`, `movedLinks`, `movedValue`, `doubleFree`, `underflow`,
`corrupt`, `dangling`. -/
theorem C02_contract_respecting_histories {s : State} (h : ReachableC s) : s.okErr := by
  induction h with
  | init => exact Or.inl rfl
  | @op s o hint hr hq _ ih =>
    cases he : s.err with
    | none =>
      have hp := hr.reachableP he
      have hI : (s.begin hint).Inv := begin_inv s hint (reachable_Inv hp.reachable)
      have hR : (s.begin hint).InvR := begin_invR s hint (reachable_InvR hp.reachable he)
      have hS : (s.begin hint).InvS := begin_invS s hint (reachableP_invS hp)
      exact applyOp_okErr _ o hI hR hS he
    | some e =>
      have h1 : (s.begin hint).err = some e := he
      have h2 := applyOp_err_of_some (s.begin hint) o h1
      rcases ih with h | h | h
      · rw [he] at h; cases h
      · right; left; rw [h2]; rw [he] at h; exact h
      · right; right; rw [h2]; rw [he] at h; exact h
  | @step s hr ih =>
    cases he : s.err with
    | none =>
      have hp := hr.reachableP he
      exact step_okErr s (reachable_Inv hp.reachable) (reachable_InvR hp.reachable he)
        (reachableP_invS hp) (reachableP_P hp) (reachableP_scriptOK hp) he
    | some e =>
      rw [step_of_err he]; exact ih
  | @endOp s _ ih =>
    unfold State.okErr at *
    rw [endOp_err]; exact ih
  | @outOfFuel s _ ih =>
    cases he : s.err with
    | none => right; left; exact fail_err_of_none s .fuel he
    | some e =>
      unfold State.okErr at *
      rw [fail_err_of_some s .fuel e he]; rw [he] at ih; exact ih

/-! ## Non-vacuity: a contract-respecting history with a collection and Weak handles

A 3-ring `0 → 1 → 2 → 0` built with `link`; the program holds a Weak to object 0, object 2's value
holds a Weak to object 1 and its destructor upgrades it (re-entering the library in the middle of
the teardown, when 1 is already marked dead); a survivor (object 3) with a Weak.  The last `drop`
collects the ring (destruction order chosen by the hint `[2, 0, 1]`); afterwards the Weak to the
collected object 0 fails to upgrade and is dropped (releasing the allocation), the Weak to the
survivor upgrades. -/

def weakRingHistory : List (Op × List Nat) :=
  [(.act .new, []), (.act .new, []), (.act .new, []),
   (.act (.clone 1), []), (.act (.link 3 0), []),       -- 0 → 1
   (.act (.clone 2), []), (.act (.link 3 1), []),       -- 1 → 2
   (.act (.clone 0), []), (.act (.link 3 2), []),       -- 2 → 0
   (.act (.downgrade 0), []),                           -- program: Weak to 0
   (.act (.downgrade 1), []), (.act (.storeWeak 1 2), []),  -- object 2 holds a Weak to 1
   (.setScript 2 [.upgradeField 0], []),                -- 2's destructor upgrades it
   (.act .new, []), (.act (.downgrade 3), []),          -- survivor 3 and a Weak to it
   (.act (.drop 1), []), (.act (.drop 1), []),          -- program handles to 1, 2
   (.act (.drop 0), [2, 0, 1]),                         -- last handle: collects {0, 1, 2}
   (.act (.upgrade 0), []),                             -- Weak to dead 0: None
   (.act (.dropWeak 0), []),                            -- last Weak to 0: allocation released
   (.act (.upgrade 0), []), (.act (.counts 1), [])]     -- Weak to survivor 3: Some

/-- the syntactic hypothesis of `C02_contract_respecting_histories` holds (script included) -/
theorem weakRingHistory_respects : ∀ oh ∈ weakRingHistory, oh.1.respects := by decide

/-- so its final state is `ReachableC`, and (no error) `ReachableP` -/
theorem weakRingHistory_reachableC : ReachableC (run weakRingHistory) :=
  run_reachableC weakRingHistory weakRingHistory_respects

theorem weakRingHistory_noErr : (run weakRingHistory).err = none := by decide +kernel

/-- the theorems instantiated: the machine has not stopped for a library fault … -/
example : (run weakRingHistory).okErr :=
  C02_contract_respecting_histories weakRingHistory_reachableC

example (o : Nat) : (run weakRingHistory).err ≠ some (.uaf o)
    ∧ (run weakRingHistory).err ≠ some (.movedLinks o)
    ∧ (run weakRingHistory).err ≠ some (.movedValue o)
    ∧ (run weakRingHistory).err ≠ some (.doubleFree o)
    ∧ (run weakRingHistory).err ≠ some (.underflow o)
    ∧ (run weakRingHistory).err ≠ some (.corrupt o)
    ∧ (run weakRingHistory).err ≠ some (.dangling o) :=
  C02_no_access_after_release (weakRingHistory_reachableC.reachableP weakRingHistory_noErr) o

/-- … every value was destroyed at most once and every allocation released at most once … -/
example : (run weakRingHistory).destroyedVids.Nodup ∧ (run weakRingHistory).freedIds.Nodup :=
  C02_run_at_most_once weakRingHistory

/-- … every handle left designates an allocation that has not been released -/
example : ((run weakRingHistory).cell 3).isSome = true :=
  C02_no_handle_to_released_allocation
    (weakRingHistory_reachableC.reachableP weakRingHistory_noErr) weakRingHistory_noErr
    (by decide +kernel)

/-- concretely (by evaluation): no error at all; the three ring values destroyed once each, in the
order of the hint; the three allocations released once each (1 and 2 by `phase3`, 0 when its last
Weak is dropped); the `upgradeField` inside the teardown and the `upgrade` after it return `None`
(`ret 0`), the `upgrade` of the survivor's Weak `Some` (`ret 1`); survivor counts 2 strong, 1 Weak -/
example : let s := run weakRingHistory
    s.err = none ∧ s.destroyedVids = [2, 0, 1] ∧ s.freedIds = [1, 2, 0]
    ∧ s.roots = [3, 3] ∧ s.wroots = [3]
    ∧ s.log = [.traced 1 3 4, .traced 2 3 4, .traced 0 3 4,
               .destroyed 2, .ret 0, .destroyed 0, .destroyed 1, .freed 1, .freed 2,
               .ret 0, .freed 0, .ret 1, .ret 2, .ret 1]
    ∧ s.heap.map (fun ob => (ob.strong, ob.weak, ob.freed))
        = [(.uninit, 0, true), (.uninit, 0, true), (.uninit, 0, true), (.cnt 2, 2, false)] := by
  decide +kernel

end Cactus
