import Cactus.Lemmas.Final
import Cactus.Lemmas.Basic
import Cactus.Lemmas.Shared.OneStep   -- `Shared.upgradeField_dead_none` (also used by `Props/C10.lean`)
import Cactus.Lemmas.NoRevive         -- `Later`, `later_isLive_false` (destruction is final)
/-!
# C05 — Weak handles observe destruction exactly

What is proved here:
* one-step lemmas: `C05_upgrade_dead_none`, `C05_upgradeField_dead_none`, `C05_upgrade_live_some`,
  `C05_wcounts_dead`, `C05_weakDrop`;
* whole histories, no hypothesis on the history, every state including mid-teardown:
  `C05_weak_keeps_allocation`, `C05_value_present_iff_not_dead`, and the statement itself
  `C05_upgrade_iff_value_not_destroyed`;
* example: a history after which the program holds a Weak to a collected group member and a Weak to
  a survivor; both directions of the equivalence instantiated.
Not modelled: a Weak that never had an allocation (`Weak::new()`): no action of the model creates one.
-/
namespace Cactus
open State

/-- `Weak::upgrade` on a destroyed object (count 0 after `try_unwrap`/`make_mut`, or the uninit
sentinel set by every teardown path before any value is destroyed) returns `None`: no handle is
created, no counter changes (rc.rs:1555-1563). Also holds when called from a destructor
(`upgradeField`, below), because `applyAct` is the same function at every nesting depth. -/
theorem C05_upgrade_dead_none (s : State) (fh fw : List Nat) (w o : Nat) (ob : Obj)
    (hw : nthMod s.wroots w = some o) (hc : s.cell o = some ob) (hd : ob.strong.isDead = true) :
    applyAct s fh fw (.upgrade w) = s.emit (retBool false) := by
  simp [applyAct, hw, hc, hd]

theorem C05_upgradeField_dead_none (s : State) (fh fw : List Nat) (k o : Nat) (ob : Obj)
    (hw : nthMod fw k = some o) (hc : s.cell o = some ob) (hd : ob.strong.isDead = true) :
    applyAct s fh fw (.upgradeField k) = s.emit (retBool false) :=
  Shared.upgradeField_dead_none s fh fw k o ob hw hc hd

/-- on an object whose value has not been destroyed `upgrade` yields a handle to the same
object and increments exactly its strong count -/
theorem C05_upgrade_live_some (s : State) (fh fw : List Nat) (w o : Nat) (ob : Obj) (n : Nat)
    (hw : nthMod s.wroots w = some o) (hc : s.cell o = some ob) (hs : ob.strong = .cnt (n + 1)) :
    (applyAct s fh fw (.upgrade w)).roots = s.roots ++ [o]
    ∧ (applyAct s fh fw (.upgrade w)).log = s.log ++ [retBool true]
    ∧ (applyAct s fh fw (.upgrade w)).heap = s.heap.set o { ob with strong := .cnt (n + 2) } := by
  simp [applyAct, hw, hc, hs, Strong.isDead, State.incStrong, State.setObj, State.emit]

/-- after destruction a Weak reports `strong_count` 0 and `weak_count` 0 (rc.rs:1569-1595) -/
theorem C05_wcounts_dead (s : State) (fh fw : List Nat) (w o : Nat) (ob : Obj)
    (hw : nthMod s.wroots w = some o) (hc : s.cell o = some ob) (hd : ob.strong.isDead = true) :
    (applyAct s fh fw (.wcounts w)).log = s.log ++ [.ret 0, .ret 0] := by
  simp only [applyAct, hw, hc]
  cases hs : ob.strong with
  | uninit => simp [State.emit]
  | cnt n =>
    cases n with
    | zero => simp [State.emit]
    | succ n => simp [hs, Strong.isDead] at hd

/-- dropping a Weak releases the allocation exactly when it was the last weak reference
(implicit one included), and never touches the strong count, the value or the table -/
theorem C05_weakDrop (s : State) (o : Nat) (ob : Obj) (hc : s.cell o = some ob) (w : Nat)
    (hw : ob.weak = w + 1) :
    (s.weakDrop o).heap = s.heap.set o { ob with weak := w, freed := decide (w = 0) }
    ∧ (s.weakDrop o).err = s.err := by
  unfold State.weakDrop State.decWeakFree
  simp only [hc]
  cases w with
  | zero => simp [hw, State.setObj, State.emit]
  | succ w => simp [hw, State.setObj, (cell_some_get s o ob hc).2]

/-- a Weak selector is interpreted modulo the length of the Weak table (the non-vacuity examples
for the property itself are at the end of the file) -/
example : nthMod ({ wroots := [0] } : State).wroots 5 = some 0 := by decide


/-! ## Over whole histories (no hypothesis on the history) -/

/-- **C05 (allocation validity).** While any Weak handle to an object exists — held by the program,
stored inside a value, or owned by a pending teardown frame — its allocation has not been released,
whatever happened to its value (plain drop, zero count with adoptions, member of a collected group,
`try_unwrap`, `make_mut`, interrupted by a panic). -/
theorem C05_weak_keeps_allocation {s : State} (h : Reachable s) (he : s.err = none) {t : Nat}
    (hw : 0 < s.extW t + s.inHeapW t + s.pendW t) : (s.cell t).isSome = true := by
  obtain ⟨⟨hO, _, _, hW, _⟩, hR⟩ := reachable_core h he
  have hlt : t < s.heap.length := by
    by_cases hlt : t < s.heap.length
    · exact hlt
    · have := (hR t (by omega)).2; omega
  have hweak := hW t hlt
  obtain ⟨ob, hg⟩ : ∃ ob, s.heap[t]? = some ob := ⟨s.heap[t], List.getElem?_eq_getElem hlt⟩
  have hfz := (hO t ob hg).2.2.2
  have hwn : s.weakNat t = ob.weak := by simp [State.weakNat, hg]
  have : ob.freed = false := by
    cases hf : ob.freed with
    | false => rfl
    | true => have := hfz.mp hf; omega
  simp [State.cell, hg, this]

/-- **C05 (exactness).** For an allocated object, "the value has not been destroyed" (it is still in
place) is equivalent to "the strong count is positive", which is exactly the test `upgrade`
performs; so `upgrade` succeeds iff the value has not been destroyed, in every reachable state —
including states in the middle of a group teardown, where all members have already been marked
dead before any member's destructor runs. -/
theorem C05_value_present_iff_not_dead {s : State} (h : Reachable s) (he : s.err = none) {o : Nat} {ob : Obj}
    (hc : s.cell o = some ob) : ob.value.isSome = true ↔ ob.strong.isDead = false := by
  have hO := (reachable_core h he).1.1
  have hg := (cell_some_get s o ob hc).1
  have := hO o ob hg
  cases hs : ob.strong with
  | uninit => simp [Strong.isDead, (this.2.2.1 hs).1]
  | cnt n =>
    cases n with
    | zero => simp [Strong.isDead, (this.2.1 hs).1]
    | succ n => simp [Strong.isDead, (this.1 n hs).1]


/-- **C05 (the statement itself).** In every reachable state, for every Weak handle the program
holds: the allocation is readable, and `upgrade` hands out a new strong handle to that same object
if and only if the object's value has not been destroyed (it is still in place). -/
theorem C05_upgrade_iff_value_not_destroyed {s : State} (h : Reachable s) (he : s.err = none)
    (fh fw : List Nat) {w o : Nat} (hw : nthMod s.wroots w = some o) :
    ∃ ob, s.cell o = some ob ∧
      ((applyAct s fh fw (.upgrade w)).roots = s.roots ++ [o] ↔ ob.value.isSome = true) := by
  have hpos : 0 < s.extW o + s.inHeapW o + s.pendW o := by
    have := State.extW_pos_of_mem_wroots (s := s) (mem_of_nthMod hw)
    omega
  have hc := C05_weak_keeps_allocation h he hpos
  obtain ⟨ob, hcell⟩ := Option.isSome_iff_exists.mp hc
  refine ⟨ob, hcell, ?_⟩
  have hiff := C05_value_present_iff_not_dead h he hcell
  cases hd : ob.strong.isDead with
  | true =>
    rw [C05_upgrade_dead_none s fh fw w o ob hw hcell hd]
    constructor
    · intro hr
      have : (s.emit (retBool false)).roots = s.roots := rfl
      rw [this] at hr
      have := congrArg List.length hr
      simp at this
    · intro hv
      have := hiff.mp hv
      rw [hd] at this; cases this
  | false =>
    have hv := hiff.mpr hd
    constructor
    · intro _; exact hv
    · intro _
      cases hs : ob.strong with
      | uninit => simp [hs, Strong.isDead] at hd
      | cnt n =>
        cases n with
        | zero => simp [hs, Strong.isDead] at hd
        | succ n => exact (C05_upgrade_live_some s fh fw w o ob n hw hcell hs).1

/-- **C05 (destruction is final for every Weak).** Once an object's value has been destroyed — in
state `s`, by any teardown path — then in every later state `t` of the same execution (`Later`: any
number of operation starts, machine steps, operation boundaries; mid-teardown states included), as
long as the machine has reported no error, every Weak handle the program holds to that object

* still names a readable allocation,
* fails to `upgrade` (no handle is created, no counter changes), and
* reports `strong_count` 0 and `weak_count` 0,

and the same answer is given to a destructor that upgrades one of its own Weak fields. -/
theorem C05_destroyed_is_final {s t : State} (hl : Later s t) (hr : Reachable t) (he : t.err = none)
    (o : Nat) (ho : o < s.heap.length) (hd : s.isLive o = false) (fh fw : List Nat) :
    (∀ w, nthMod t.wroots w = some o →
        (t.cell o).isSome = true
        ∧ applyAct t fh fw (.upgrade w) = t.emit (retBool false)
        ∧ (applyAct t fh fw (.wcounts w)).log = t.log ++ [.ret 0, .ret 0])
    ∧ (∀ k, nthMod fw k = some o → (t.cell o).isSome = true →
        applyAct t fh fw (.upgradeField k) = t.emit (retBool false)) := by
  have hdead := (later_isLive_false hl ho hd).2
  have key : ∀ ob, t.cell o = some ob → ob.strong.isDead = true := by
    intro ob hc
    obtain ⟨hg, hf⟩ := cell_some_get t o ob hc
    have : t.isLive o = (!ob.freed && !ob.strong.isDead) := by simp [State.isLive, hg]
    rw [this] at hdead
    cases hx : ob.strong.isDead with
    | true => rfl
    | false => simp [hx, hf] at hdead
  constructor
  · intro w hw
    have hpos : 0 < t.extW o + t.inHeapW o + t.pendW o := by
      have := State.extW_pos_of_mem_wroots (s := t) (mem_of_nthMod hw)
      omega
    have hc := C05_weak_keeps_allocation hr he hpos
    obtain ⟨ob, hcell⟩ := Option.isSome_iff_exists.mp hc
    exact ⟨hc, C05_upgrade_dead_none t fh fw w o ob hw hcell (key ob hcell),
      C05_wcounts_dead t fh fw w o ob hw hcell (key ob hcell)⟩
  · intro k hk hc
    obtain ⟨ob, hcell⟩ := Option.isSome_iff_exists.mp hc
    exact C05_upgradeField_dead_none t fh fw k o ob hk hcell (key ob hcell)

/-- the history form: an object destroyed by the end of `ops1` answers `None`/0/0 through every
Weak the program holds after `ops1 ++ ops2`, whatever `ops2` does -/
theorem C05_destroyed_is_final_run (ops1 ops2 : List (Op × List Nat)) (o : Nat)
    (ho : o < (run ops1).heap.length) (hd : (run ops1).isLive o = false)
    (he : (run (ops1 ++ ops2)).err = none) (w : Nat)
    (hw : nthMod (run (ops1 ++ ops2)).wroots w = some o) :
    applyAct (run (ops1 ++ ops2)) [] [] (.upgrade w) = (run (ops1 ++ ops2)).emit (retBool false)
    ∧ (applyAct (run (ops1 ++ ops2)) [] [] (.wcounts w)).log
        = (run (ops1 ++ ops2)).log ++ [.ret 0, .ret 0] :=
  let h := (C05_destroyed_is_final (later_run_append ops1 ops2) (run_reachable _) he o ho hd [] []).1 w hw
  ⟨h.2.1, h.2.2⟩


/-! ## Non-vacuity: both directions of `C05_upgrade_iff_value_not_destroyed` on one history

A two-cycle `0 ↔ 1` built with `link`, a Weak to its member 0, a survivor (object 2) with a Weak;
the program drops its handles to 1 and 0, the second `drop` collects {0, 1}.  In the final state
the program holds the Weak handles `[0, 2]`: one to a collected group member, one to a survivor. -/

def weakObserveHistory : List (Op × List Nat) :=
  [(.act .new, []), (.act .new, []),
   (.act (.clone 1), []), (.act (.link 2 0), []),     -- 0 → 1
   (.act (.clone 0), []), (.act (.link 2 1), []),     -- 1 → 0
   (.act (.downgrade 0), []),                         -- Weak to group member 0
   (.act .new, []), (.act (.downgrade 2), []),        -- survivor 2 and a Weak to it
   (.act (.drop 1), []),                              -- program's handle to 1
   (.act (.drop 0), [])]                              -- program's handle to 0: collects {0, 1}

theorem weakObserveHistory_noErr : (run weakObserveHistory).err = none := by decide +kernel

/-- the final state: both members destroyed, 1's allocation released, 0's kept by the Weak -/
example : let s := run weakObserveHistory
    s.roots = [2] ∧ s.wroots = [0, 2]
    ∧ s.log = [.traced 1 2 3, .traced 0 2 3, .destroyed 1, .destroyed 0, .freed 1]
    ∧ s.heap.map (fun ob => (ob.strong, ob.weak, ob.value.isSome, ob.freed))
        = [(.uninit, 1, false, false), (.uninit, 0, false, true), (.cnt 1, 2, true, false)] := by
  decide +kernel

/-- `C05_weak_keeps_allocation` there: the Weak to the collected member keeps its allocation -/
example : ((run weakObserveHistory).cell 0).isSome = true :=
  C05_weak_keeps_allocation (run_reachable weakObserveHistory) weakObserveHistory_noErr
    (by decide +kernel)

/-- direction "destroyed ⇒ no handle": for the Weak to the collected member 0 the theorem gives an
allocation whose value is gone, so `upgrade` does not hand out a handle -/
example : (applyAct (run weakObserveHistory) [] [] (.upgrade 0)).roots
    ≠ (run weakObserveHistory).roots ++ [0] := by
  obtain ⟨ob, hc, hiff⟩ := C05_upgrade_iff_value_not_destroyed (run_reachable weakObserveHistory)
    weakObserveHistory_noErr [] [] (w := 0) (o := 0) (by decide +kernel)
  have h0 : (run weakObserveHistory).cell 0
      = some { strong := .uninit, weak := 1, links := none, value := none, freed := false,
               implicit := false } := by decide +kernel
  rw [h0] at hc
  cases hc
  intro h
  exact absurd (hiff.mp h) (by decide)

/-- direction "not destroyed ⇒ handle": for the Weak to the survivor 2 the value is in place, so
`upgrade` hands out a new strong handle to object 2 -/
example : (applyAct (run weakObserveHistory) [] [] (.upgrade 1)).roots
    = (run weakObserveHistory).roots ++ [2] := by
  obtain ⟨ob, hc, hiff⟩ := C05_upgrade_iff_value_not_destroyed (run_reachable weakObserveHistory)
    weakObserveHistory_noErr [] [] (w := 1) (o := 2) (by decide +kernel)
  have h2 : (run weakObserveHistory).cell 2
      = some { strong := .cnt 1, weak := 2, links := some [],
               value := some { vid := 2, held := [], weaks := [], script := [], panics := false },
               freed := false } := by decide +kernel
  rw [h2] at hc
  cases hc
  exact hiff.mpr rfl

/-- the same by evaluation, as the program observes it: `upgrade` of the first Weak returns `None`
(`ret 0`), of the second `Some` (`ret 1`), and the dead object reports counts 0 / 0 -/
example : (run (weakObserveHistory ++ [(.act (.upgrade 0), []), (.act (.upgrade 1), []),
      (.act (.wcounts 0), [])])).log.drop 5 = [.ret 0, .ret 1, .ret 0, .ret 0] := by
  decide +kernel

def weakObserveLater : List (Op × List Nat) :=
  [(.act .new, []), (.act (.clone 0), []), (.act (.drop 0), [])]

/-- non-vacuity of `C05_destroyed_is_final_run`: object 0 is destroyed by `weakObserveHistory`; the
program goes on (a new object, a clone, a drop) and still holds a Weak to 0, which the theorem
then answers for -/
example :
    0 < (run weakObserveHistory).heap.length
    ∧ (run weakObserveHistory).isLive 0 = false
    ∧ (run (weakObserveHistory ++ weakObserveLater)).err = none
    ∧ nthMod (run (weakObserveHistory ++ weakObserveLater)).wroots 0 = some 0 := by decide +kernel

end Cactus
