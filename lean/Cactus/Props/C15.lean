import Cactus.Lemmas.Trace
import Cactus.Lemmas.Shared.OneStep   -- `Shared.rcDrop_dead_noop`
import Cactus.Lemmas.Depth.Main
import Cactus.Lemmas.Depth.Example
/-!
# C15 — collection is iterative and linear

The trace is a worklist loop (`traceLoop`), not a recursion.  What is proved here:
* the trace: `C15_visit_once`, `C15_pops_linear` (pops ≤ 1 + Forward entries of the visited objects),
  `C15_trace_terminates` (the fuel computed from the heap always suffices),
  `C15_member_handles_inert`;
* nesting depth (`Cactus.Lemmas.Depth.*`): `C15_collection_depth_bounded` (a whole collection runs
  at constant depth whatever the size of the group), `C15_step_depth`,
  `C15_history_depth_profile`, `C15_single_collection_depth`;
* examples: rings of 4 and 16 vs a chain of 8 (depth profiles), the hypotheses of the depth theorem
  met on the ring of 4, and a ring with chords where the trace bounds give concrete numbers.
Not proved: machine stack bytes on the real implementation are observed by the `bigring` harness
mode (small fixed-size thread stack); the depth theorems are the model-level counterpart.
-/
namespace Cactus

/-- every object is visited at most once per trace -/
theorem C15_visit_once (s : State) (x : Nat)
    (hb : (cycleRefs s x).bad = none) (hf : (cycleRefs s x).outOfFuel = false) :
    (cycleRefs s x).visited.Nodup := (cycleRefs_spec s x hb hf).2.1

/-- worklist pops are bounded by 1 + the number of Forward entries of the visited objects:
time grows linearly with objects plus adoptions -/
theorem C15_pops_linear (s : State) (x : Nat) :
    (cycleRefs s x).popped ≤ 1 + sumOver (cycleRefs s x).visited (fun n => fwdLen (s.tbl n)) :=
  cycleRefs_popped_le s x

/-- the loop always terminates within the fuel computed from the heap (no unbounded work) -/
theorem C15_trace_terminates (s : State) (x : Nat) : (cycleRefs s x).outOfFuel = false :=
  cycleRefs_fuel s x

/-- a handle to an already dead group member is dropped without pushing any continuation frame:
the teardown of a group of any size never nests through its own members -/
theorem C15_member_handles_inert (s : State) (o : Nat) (ob : Obj)
    (hc : s.cell o = some ob) (hd : ob.strong.isDead = true) : (s.rcDrop o).stack = s.stack := by
  rw [Shared.rcDrop_dead_noop s o ob hc hd]


/-! ## A collection runs at constant nesting depth (`Cactus.Lemmas.Depth.*`)

In the real code the machine stack holds one activation record per library call that waits for a
nested call to return.  In the model these are the continuation frames on the control stack:
`finishSingle` (rest of `drop_unreachable*`), `phase3` (rest of `drop_cycle`) — counted by
`State.libDepth` — and `script` (a running destructor body), counted in addition by `State.depth`;
the other frames are data (handles and values some loop will get to).

* `C15_collection_depth_bounded`: from a stable point (`Good`: reachable, no error, every stored
  handle recorded, quiet values) whose next step starts a collection of the group of `o`
  (`Collects`), the whole teardown — phases 1–3 and every member's destructor — runs back to the
  rest of the stack with `libDepth ≤ start + 1` and `depth ≤ start + 2` in **every** intermediate
  state, **whatever the number of members** (the `+1` is the `phase3` frame, the other `+1` the one
  destructor body currently running; `DepthExample.ring4_plus_one_fails` shows `+2` is attained).
* `C15_step_depth`: no hypothesis at all — one machine step changes either measure by at most one;
  per-frame facts in `Cactus.Lemmas.Depth.Step`.
* `C15_history_depth_profile`: for every operation of every `fullQuiet` history that ends without
  error, every intermediate state is within `+2` / `+1` of a stable point of the same operation:
  collections never add to the nesting, only the recursive teardown of acyclic chains does (as with
  plain reference counting).
* Contrast, machine-checked: rings of 4, 8, 16 objects are reclaimed at `libDepth` 1
  (`C15_example_ring16`), a chain of 8 objects dropped from its head reaches `libDepth` 8
  (`C15_example_chain8`), with or without recorded adoptions. -/

/-- from a stable point `s` (`Good`) whose top frame `rcDrop o` starts a collection (`Collects`),
the machine is back at a stable point `t` after `k` further steps, the stack of `t` is the rest of
the stack of `s`, and every state passed through — for a group of any size — has at most
`s.depth + 2` activation records, of which at most `s.libDepth + 1` are library continuations
(`collection_depth_bounded` in `Cactus.Lemmas.Depth.Collect`; `Run k a b`: `k` error-free steps
lead from `a` to `b`, `runSteps j a`: the state after `j` steps) -/
theorem C15_collection_depth_bounded {s : State} (hg : Good s) {o : Nat} {rest : List Frame}
    {ob : Obj} {n : Nat} (hc : Collects s o rest ob n) :
    ∃ k t, Run k (step s) t ∧ Good t ∧ t.stack = rest
      ∧ t.depth = s.depth ∧ t.libDepth = s.libDepth
      ∧ ∀ j, j ≤ k → (runSteps j (step s)).depth ≤ s.depth + 2
          ∧ (runSteps j (step s)).libDepth ≤ s.libDepth + 1 :=
  collection_depth_bounded hg hc

/-- one machine step pushes at most one activation record (any state whatsoever) -/
theorem C15_step_depth (s : State) :
    (step s).depth ≤ s.depth + 1 ∧ (step s).libDepth ≤ s.libDepth + 1 :=
  step_depth_le s

/-- **C15 along whole histories.**  In a history of `fullQuiet` operations that ends without error,
take any operation `oh` (after the prefix `pre`) and let `s0 = applyOp {run pre with hint} oh.1` be
the state in which its `drain` starts.  Then `s0` is a stable point, the `drain` is `runSteps` with
the fuel, and every state it passes through (index `j`) is within `+2` activation records / `+1`
library continuation of a stable point passed earlier in the same operation (index `i ≤ j`), at
which — unless it is that stable point itself — a collection is in progress. -/
theorem C15_history_depth_profile (ops : List (Op × List Nat)) (hfq : ∀ oh ∈ ops, oh.1.fullQuiet)
    (he : (run ops).err = none) (pre : List (Op × List Nat)) (oh : Op × List Nat)
    (post : List (Op × List Nat)) (hops : ops = pre ++ oh :: post) :
    Good (run pre) ∧ (run pre).stack = []
    ∧ Good (applyOp { run pre with hint := oh.2 } oh.1)
    ∧ execOp defaultFuel (run pre) oh.1 oh.2
        = runSteps defaultFuel (applyOp { run pre with hint := oh.2 } oh.1)
    ∧ ∀ j, ∃ i, i ≤ j ∧ Good (runSteps i (applyOp { run pre with hint := oh.2 } oh.1))
        ∧ (runSteps j (applyOp { run pre with hint := oh.2 } oh.1)).depth
            ≤ (runSteps i (applyOp { run pre with hint := oh.2 } oh.1)).depth + 2
        ∧ (runSteps j (applyOp { run pre with hint := oh.2 } oh.1)).libDepth
            ≤ (runSteps i (applyOp { run pre with hint := oh.2 } oh.1)).libDepth + 1
        ∧ (i = j ∨ ∃ o rest ob n,
            Collects (runSteps i (applyOp { run pre with hint := oh.2 } oh.1)) o rest ob n) :=
  history_depth_profile ops hfq he pre oh post hops

/-- one operation of a history: a `fullQuiet` operation applied at a quiescent stable point `u`
that leaves exactly the `rcDrop` starting a collection on the stack (dropping the last program
handle of an orphaned group) runs at `depth ≤ 2`, `libDepth ≤ 1` throughout, and `execOp` is
`k + 1` machine steps ending at a quiescent stable point -/
theorem C15_single_collection_depth {u : State} (hg : Good u) (hq : u.stack = []) (op : Op)
    (hop : op.fullQuiet) (hint : List Nat) {o : Nat} {ob : Obj} {n : Nat}
    (he : (applyOp { u with hint := hint } op).err = none)
    (hc : Collects (applyOp { u with hint := hint } op) o [] ob n) :
    (∀ j, (runSteps j (applyOp { u with hint := hint } op)).depth ≤ 2
        ∧ (runSteps j (applyOp { u with hint := hint } op)).libDepth ≤ 1)
    ∧ ∃ k, ∀ fuel, k + 1 ≤ fuel →
        execOp fuel u op hint = runSteps (k + 1) (applyOp { u with hint := hint } op)
        ∧ Good (execOp fuel u op hint) ∧ (execOp fuel u op hint).stack = [] :=
  execOp_single_collection_depth hg hq op hop hint he hc


/-! ## Examples (`Cactus.Lemmas.Depth.Example`)

`DepthExample.ringStart n`: `n` objects linked into one ring with `link`, the state right after
`drop` of the last program handle has pushed its `rcDrop 0` frame;
`DepthExample.chainStart mk n`: the same for a chain `0 → 1 → … → n-1` built with `mk = store` or
`link`.  `depthTrace k s` / `libDepthTrace k s` list `depth` / `libDepth` of `s, step s, …, step^k s`. -/

/-- the ring of 16 is reclaimed in 82 steps at `depth ≤ 2`, `libDepth ≤ 1` -/
theorem C15_example_ring16 :
    (runSteps 82 (DepthExample.ringStart 16)).stack = []
    ∧ (runSteps 81 (DepthExample.ringStart 16)).stack ≠ []
    ∧ (runSteps 82 (DepthExample.ringStart 16)).destroyedVids.length = 16
    ∧ DepthExample.maxOf (DepthExample.depthTrace 83 (DepthExample.ringStart 16)) = 2
    ∧ DepthExample.maxOf (DepthExample.libDepthTrace 83 (DepthExample.ringStart 16)) = 1 :=
  DepthExample.ring16_max

/-- a plain chain of 8 dropped from its head nests: `libDepth` 8, `depth` 9 -/
theorem C15_example_chain8 :
    (runSteps 47 (DepthExample.chainStart .store 8)).stack = []
    ∧ (runSteps 47 (DepthExample.chainStart .store 8)).err = none
    ∧ DepthExample.maxOf (DepthExample.depthTrace 47 (DepthExample.chainStart .store 8)) = 9
    ∧ DepthExample.maxOf (DepthExample.libDepthTrace 47 (DepthExample.chainStart .store 8)) = 8 :=
  DepthExample.chain8_store_max

/-- the hypotheses of `C15_collection_depth_bounded` are met by the ring of 4: its start is a
stable point and its `rcDrop 0` starts a collection -/
theorem C15_example_hypotheses_met :
    ∃ ob n, Collects (DepthExample.ringStart 4) 0 [] ob n :=
  DepthExample.ring4_collects

example : Good (DepthExample.ringStart 4) := DepthExample.ring4_good

/-- … and what the theorem gives there, next to the evaluated depth profile of the 22 steps -/
example : ∃ k t, Run k (step (DepthExample.ringStart 4)) t ∧ t.stack = []
    ∧ ∀ j, j ≤ k → (runSteps j (step (DepthExample.ringStart 4))).depth ≤ 2
        ∧ (runSteps j (step (DepthExample.ringStart 4))).libDepth ≤ 1 := by
  obtain ⟨ob, n, hc⟩ := C15_example_hypotheses_met
  obtain ⟨k, t, hr, _, hst, _, _, hall⟩ := C15_collection_depth_bounded DepthExample.ring4_good hc
  have h0 : (DepthExample.ringStart 4).depth = 0 ∧ (DepthExample.ringStart 4).libDepth = 0 := by
    decide +kernel
  exact ⟨k, t, hr, hst, fun j hj => by have := hall j hj; omega⟩

example : DepthExample.depthTrace 23 (DepthExample.ringStart 4)
    = [0, 1, 2, 1, 1, 1, 1, 2, 1, 1, 1, 1, 2, 1, 1, 1, 1, 2, 1, 1, 1, 1, 0, 0] :=
  DepthExample.ring4_depthTrace

/-! ## Trace example: a ring with chords

Four objects in a ring `0 → 1 → 2 → 3 → 0` with chords `0 → 2`, `2 → 0`, `1 → 3` and a parallel
adoption `0 → 1` (count 2), all built with `link`; the program keeps one handle, to object 0.  The
heap then has 7 Forward entries (the parallel adoption is one entry with count 2). -/

def chordRing : List (Op × List Nat) :=
  [(.act .new, []), (.act .new, []), (.act .new, []), (.act .new, []),
   (.act (.clone 1), []), (.act (.link 4 0), []),     -- 0 → 1
   (.act (.clone 2), []), (.act (.link 4 1), []),     -- 1 → 2
   (.act (.clone 3), []), (.act (.link 4 2), []),     -- 2 → 3
   (.act (.clone 0), []), (.act (.link 4 3), []),     -- 3 → 0 (ring closed)
   (.act (.clone 2), []), (.act (.link 4 0), []),     -- chord 0 → 2
   (.act (.clone 0), []), (.act (.link 4 2), []),     -- chord 2 → 0
   (.act (.clone 3), []), (.act (.link 4 1), []),     -- chord 1 → 3
   (.act (.clone 1), []), (.act (.link 4 0), []),     -- second adoption 0 → 1
   (.act (.drop 1), []), (.act (.drop 1), []), (.act (.drop 1), [])]

/-- the state, the hypotheses of `C15_visit_once` (`bad = none`, `outOfFuel = false`), and the trace
from object 0 by evaluation: 4 objects visited, 8 worklist pops, 7 Forward entries scanned -/
example : let s := run chordRing
    s.err = none ∧ s.roots = [0] ∧ s.heap.map (·.strong) = [.cnt 3, .cnt 2, .cnt 2, .cnt 2]
    ∧ (cycleRefs s 0).bad = none ∧ (cycleRefs s 0).outOfFuel = false
    ∧ (cycleRefs s 0).visited = [1, 3, 2, 0]
    ∧ (cycleRefs s 0).popped = 8
    ∧ sumOver (cycleRefs s 0).visited (fun n => fwdLen (s.tbl n)) = 7
    ∧ (cycleRefs s 0).cmap = [(1, 2), (3, 2), (2, 2), (0, 2)] := by
  decide +kernel

/-- `C15_visit_once` applies: no object is visited twice although every object is named by two
Forward entries -/
example : (cycleRefs (run chordRing) 0).visited.Nodup :=
  C15_visit_once (run chordRing) 0 (by decide +kernel) (by decide +kernel)

/-- `C15_pops_linear` gives `popped ≤ 1 + 7`, and the bound is attained here -/
example : (cycleRefs (run chordRing) 0).popped ≤ 8 := by
  have h := C15_pops_linear (run chordRing) 0
  have h7 : sumOver (cycleRefs (run chordRing) 0).visited (fun n => fwdLen ((run chordRing).tbl n)) = 7 := by
    decide +kernel
  omega

/-- the same trace is what the final `drop` runs (event `traced root visited popped`), after which
the whole group is collected -/
example : let s := run (chordRing ++ [(.act (.drop 0), [])])
    s.err = none ∧ Ev.traced 0 4 8 ∈ s.log ∧ s.destroyedVids = [1, 3, 2, 0]
    ∧ s.freedIds = [1, 3, 2, 0] := by
  decide +kernel

end Cactus
