import Cactus.Lemmas.Trace
import Cactus.Props.C16
/-!
# C15 — collection is iterative and linear

The trace is a worklist loop (`traceLoop`), not a recursion; its cost is bounded by the number of
objects visited plus the Forward entries in their tables, each table is scanned once, and the
fuel computed from the heap always suffices.  During a group teardown the members' handles to
each other are inert (`C16_drop_dead_noop`), so destroying the values pushes no further
continuation frames.  Machine stack bytes on the real implementation are observed by the
`bigring` harness mode (small fixed-size thread stack), not proved.
-/
namespace Cactus

/-- every object is visited at most once per trace -/
theorem C15_visit_once (s : State) (x : Nat)
    (hb : (cycleRefs s x).bad = none) (hf : (cycleRefs s x).outOfFuel = false) :
    (cycleRefs s x).visited.Nodup := (cycleRefs_spec s x hb hf).2.1

/-- worklist pops are bounded by 1 + the number of Forward entries of the visited objects:
time grows linearly with objects plus adoptions -/
theorem C15_pops_linear (s : State) (x : Nat) :
    (cycleRefs s x).popped ≤ 1 + sumOver (cycleRefs s x).visited (fun n => fwdLen (s.tbl n)) :=
  cycleRefs_popped_le s x

/-- the loop always terminates within the fuel computed from the heap (no unbounded work) -/
theorem C15_trace_terminates (s : State) (x : Nat) : (cycleRefs s x).outOfFuel = false :=
  cycleRefs_fuel s x

/-- a handle to an already dead group member is dropped without pushing any continuation frame:
the teardown of a group of any size never nests through its own members -/
theorem C15_member_handles_inert (s : State) (o : Nat) (ob : Obj)
    (hc : s.cell o = some ob) (hd : ob.strong.isDead = true) : (s.rcDrop o).stack = s.stack := by
  rw [C16_drop_dead_noop s o ob hc hd]

end Cactus
