import Cactus.Lemmas.Final
import Cactus.Lemmas.Once
import Cactus.Lemmas.NoErr
import Cactus.Lemmas.Basic
import Cactus.Lemmas.Table
import Cactus.Lemmas.Shared.OneStep   -- `Shared.purgeOne_skips_self` (also used by `Props/C10.lean`)
/-!
# C12 — handle-consuming APIs stay sound on objects that take part in adoptions

After fix F3 `try_unwrap` and the stealing branch of `make_mut` give an allocation up through
`giveUp`: purge the peers named in its table, drop the table, then release.  What is proved here:
* one-step lemmas: `C12_purge_entry`, `C12_purge_skips_self`, `C12_purgeOne_core`;
* whole histories, no hypothesis on the history, every state: `C12_no_reference_to_given_up`,
  `C12_values_never_duplicated`, `C12_owned_value_not_destroyed`;
* examples: `try_unwrap` and the stealing `make_mut` on adopting objects with Weak handles; the
  theorems instantiated.
Not claimed: that the graph stays *fully recorded* — `make_mut` (clone and steal) puts the value's
stored handles into a fresh allocation with an empty table, so `Full` fails afterwards (see
`Props/C09.lean`); the contract `P` (records ≤ handles) is what is preserved.
-/
namespace Cactus
open State

/-- one purge step removes *all* Forward and Backward records of `x` from the peer's table when
the counts agree (they do: `InvB` symmetry), whatever else the table contains -/
theorem C12_purge_entry (t : Table) (hw : t.WF) (x n : Nat) (hf : t.get ⟨x, .fwd⟩ ≤ n) (hb : t.get ⟨x, .bwd⟩ ≤ n) :
    ((t.remove ⟨x, .fwd⟩ n).remove ⟨x, .bwd⟩ n).get ⟨x, .fwd⟩ = 0
    ∧ ((t.remove ⟨x, .fwd⟩ n).remove ⟨x, .bwd⟩ n).get ⟨x, .bwd⟩ = 0
    ∧ (∀ l, l ≠ ⟨x, .fwd⟩ → l ≠ ⟨x, .bwd⟩ → ((t.remove ⟨x, .fwd⟩ n).remove ⟨x, .bwd⟩ n).get l = t.get l)
    ∧ ((t.remove ⟨x, .fwd⟩ n).remove ⟨x, .bwd⟩ n).WF := by
  have hw1 := Table.WF_remove t hw ⟨x, .fwd⟩ n
  refine ⟨?_, ?_, ?_, Table.WF_remove _ hw1 _ _⟩
  · rw [Table.get_remove _ hw1]; simp [Table.get_remove _ hw]; omega
  · rw [Table.get_remove _ hw1]; simp [Table.get_remove _ hw]; omega
  · intro l h1 h2
    rw [Table.get_remove _ hw1]; simp [h2, Table.get_remove _ hw, h1]

/-- the purge loop never touches the object's own table while iterating over it (the `ptr::eq`
self-skip, drop.rs:379): no nested borrow of the same `RefCell` -/
theorem C12_purge_skips_self (x : Nat) (s : State) (e : Link × Nat) (h : e.1.ptr = x) : purgeOne x s e = s :=
  Shared.purgeOne_skips_self x s e h

/-- a purge step changes nothing but the table of the peer it names -/
theorem C12_purgeOne_core (x : Nat) (s : State) (e : Link × Nat) (o : Nat) (ho : o ≠ e.1.ptr) :
    (purgeOne x s e).tableOf o = s.tableOf o := by
  unfold State.purgeOne
  split
  · rfl
  · exact tableOf_setLinks_other s _ o _ (Ne.symm ho)

example : Table.remove (Table.remove [(⟨3, .fwd⟩, 2), (⟨3, .bwd⟩, 1), (⟨4, .fwd⟩, 1)] ⟨3, .fwd⟩ 2) ⟨3, .bwd⟩ 2
    = [(⟨4, .fwd⟩, 1)] := by decide


/-! ## Over whole histories: nothing keeps a bookkeeping reference to a given-up allocation -/

/-- **C12.** In every reachable state (in particular after any `try_unwrap`, `make_mut`,
`get_mut`, raw round trip or `increment/decrement_strong_count` on objects that adopted or were
adopted) no readable link table contains a Forward or Backward record naming an object that is not
live: no former peer keeps a reference to an allocation that was given up. -/
theorem C12_no_reference_to_given_up {s : State} (h : Reachable s) (he : s.err = none)
    {a o : Nat} (hdead : s.isLive o = false) : s.F a o = 0 ∧ s.B a o = 0 := by
  have hB := (reachable_core h he).1.2.1
  constructor
  · cases hz : s.F a o with
    | zero => rfl
    | succ k =>
      obtain ⟨c, hm⟩ := (State.F_pos_iff hB a o).mp (by omega)
      have := State.entry_live hB hm (by simp)
      simp [hdead] at this
  · cases hz : s.B a o with
    | zero => rfl
    | succ k =>
      obtain ⟨c, hm⟩ := (State.B_pos_iff hB a o).mp (by omega)
      have := State.entry_live hB hm (by simp)
      simp [hdead] at this


/-! ## Values are moved out or cloned exactly once (`Cactus.Lemmas.Once`)

Every value carries an identifier (`vid`) assigned when it is created; `make_mut`'s clone branch
gives the copy a fresh one, `try_unwrap` and the stealing branch of `make_mut` *move* the value
(same `vid`, new place).  In every state of every execution of every history — no contract, errors
and panics included — no two places (heap slots, unwrapped values held by the program, values
waiting for their destructor) hold a value with the same identifier, and a value that is still in
place has not been destroyed: a value is never duplicated by a move and never destroyed while the
program or an object still owns it. -/

/-- two distinct places never hold values with the same identifier (`s.allVals`: the values in the
heap, the unwrapped values held by the program, the values waiting for their destructor in
`dropVal` frames) -/
theorem C12_values_never_duplicated {s : State} (h : Reachable s) :
    (s.allVals.map (·.vid)).Nodup := reachable_vids_nodup h

/-- a value that is still in place (in the heap, unwrapped, or waiting for its destructor) has not
been destroyed -/
theorem C12_owned_value_not_destroyed {s : State} (h : Reachable s) :
    ∀ v ∈ s.allVals, v.vid ∉ s.destroyedVids := reachable_stored_not_destroyed h

/-- non-vacuity: `try_unwrap` of the sole handle of an adopting object with a Weak outstanding, then
the former peer is dropped: no error, the moved value is held by the program and not destroyed -/
example :
    let s := run [(.act .new, []), (.act .new, []), (.act (.clone 1), []), (.act (.link 2 0), []),
      (.act (.downgrade 0), []), (.act (.tryUnwrap 0), []), (.act (.drop 0), [])]
    s.err = none ∧ s.vals.map (·.vid) = [0] ∧ s.destroyedVids = [] ∧ s.isLive 0 = false := by
  decide +kernel

/-! ## Non-vacuity: `try_unwrap` and the stealing branch of `make_mut` on adopting objects

Object 0 holds and adopts object 1 and has a Weak: `try_unwrap` moves its value out (the program
now holds the value, which still holds the handle to 1) and gives the allocation up.  Object 2 holds
and adopts object 3 and has a Weak: `make_mut` steals its value into the fresh object 4 and gives the
allocation up.  In both cases the former peer's table must forget the given-up allocation. -/

def giveUpHistory : List (Op × List Nat) :=
  [(.act .new, []), (.act .new, []),
   (.act (.clone 1), []), (.act (.link 2 0), []),       -- 0 holds and adopts 1
   (.act (.downgrade 0), []),                           -- Weak to 0
   (.act (.tryUnwrap 0), []),                           -- 0 is unique: unwrapped, allocation given up
   (.act .new, []), (.act .new, []),                    -- objects 2, 3; handles [1, 2, 3]
   (.act (.clone 2), []), (.act (.link 3 1), []),       -- 2 holds and adopts 3
   (.act (.downgrade 1), []),                           -- Weak to 2
   (.act (.makeMut 1), []),                             -- 2 unique with a Weak: value stolen into object 4
   (.act (.getMut 1), [])]                              -- the fresh allocation is unique: Some

/-- the records exist before the two calls (tables of the objects after 5 and after 11 operations) -/
example : (run (giveUpHistory.take 5)).heap.map (·.links)
      = [some [(⟨1, .fwd⟩, 1)], some [(⟨0, .bwd⟩, 1)]]
    ∧ (run (giveUpHistory.take 11)).heap.map (·.links)
      = [none, some [], some [(⟨3, .fwd⟩, 1)], some [(⟨2, .bwd⟩, 1)]] := by
  decide +kernel

/-- the final state: both allocations given up (count 0, table and value gone, kept by their Weak),
all tables empty, the unwrapped value (vid 0) held by the program, the stolen value (vid 2) in
object 4; the three calls returned `Ok`, "stolen" and `Some` -/
example : let s := run giveUpHistory
    s.err = none ∧ s.roots = [1, 4, 3] ∧ s.wroots = [0, 2] ∧ s.vals.map (·.vid) = [0]
    ∧ s.heap.map (fun ob => (ob.strong, ob.weak, ob.value.map (·.vid)))
      = [(.cnt 0, 1, none), (.cnt 2, 1, some 1), (.cnt 0, 1, none), (.cnt 2, 1, some 3),
         (.cnt 1, 1, some 2)]
    ∧ s.heap.map (·.links) = [none, some [], none, some [], some []]
    ∧ s.log = [.ret 1, .ret 1, .ret 1] ∧ s.destroyedVids = [] := by
  decide +kernel

/-- `C12_no_reference_to_given_up` instantiated: neither former peer keeps a record of the
allocation that was given up -/
example : ((run giveUpHistory).F 1 0 = 0 ∧ (run giveUpHistory).B 1 0 = 0)
    ∧ ((run giveUpHistory).F 3 2 = 0 ∧ (run giveUpHistory).B 3 2 = 0) :=
  ⟨C12_no_reference_to_given_up (run_reachable giveUpHistory) (by decide +kernel) (by decide +kernel),
   C12_no_reference_to_given_up (run_reachable giveUpHistory) (by decide +kernel) (by decide +kernel)⟩

/-- `C12_values_never_duplicated` / `C12_owned_value_not_destroyed` instantiated: the four values
(two of them moved) sit in four distinct places and none has been destroyed -/
example : ((run giveUpHistory).allVals.map (·.vid)).Nodup :=
  C12_values_never_duplicated (run_reachable giveUpHistory)

example : ∀ v ∈ (run giveUpHistory).allVals, v.vid ∉ (run giveUpHistory).destroyedVids :=
  C12_owned_value_not_destroyed (run_reachable giveUpHistory)

example : (run giveUpHistory).allVals.map (·.vid) = [1, 3, 2, 0] := by decide +kernel

end Cactus
