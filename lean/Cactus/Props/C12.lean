import Cactus.Lemmas.Final
import Cactus.Lemmas.Basic
import Cactus.Lemmas.Table
/-!
# C12 — handle-consuming APIs stay sound on objects that take part in adoptions (first layer)

After fix F3 `try_unwrap` and the stealing branch of `make_mut` give an allocation up through
`giveUp`: purge the peers named in its table, drop the table, then release.  First layer: what
`giveUp` leaves behind, and that the purge removes every record of the object from a peer.
-/
namespace Cactus
open State

/-- one purge step removes *all* Forward and Backward records of `x` from the peer's table when
the counts agree (they do: `InvB` symmetry), whatever else the table contains -/
theorem C12_purge_entry (t : Table) (hw : t.WF) (x n : Nat) (hf : t.get ⟨x, .fwd⟩ ≤ n) (hb : t.get ⟨x, .bwd⟩ ≤ n) :
    ((t.remove ⟨x, .fwd⟩ n).remove ⟨x, .bwd⟩ n).get ⟨x, .fwd⟩ = 0
    ∧ ((t.remove ⟨x, .fwd⟩ n).remove ⟨x, .bwd⟩ n).get ⟨x, .bwd⟩ = 0
    ∧ (∀ l, l ≠ ⟨x, .fwd⟩ → l ≠ ⟨x, .bwd⟩ → ((t.remove ⟨x, .fwd⟩ n).remove ⟨x, .bwd⟩ n).get l = t.get l)
    ∧ ((t.remove ⟨x, .fwd⟩ n).remove ⟨x, .bwd⟩ n).WF := by
  have hw1 := Table.WF_remove t hw ⟨x, .fwd⟩ n
  refine ⟨?_, ?_, ?_, Table.WF_remove _ hw1 _ _⟩
  · rw [Table.get_remove _ hw1]; simp [Table.get_remove _ hw]; omega
  · rw [Table.get_remove _ hw1]; simp [Table.get_remove _ hw]; omega
  · intro l h1 h2
    rw [Table.get_remove _ hw1]; simp [h2, Table.get_remove _ hw, h1]

/-- the purge loop never touches the object's own table while iterating over it (the `ptr::eq`
self-skip, drop.rs:379): no nested borrow of the same `RefCell` -/
theorem C12_purge_skips_self (x : Nat) (s : State) (e : Link × Nat) (h : e.1.ptr = x) : purgeOne x s e = s := by
  simp [State.purgeOne, h]

/-- a purge step changes nothing but the table of the peer it names -/
theorem C12_purgeOne_core (x : Nat) (s : State) (e : Link × Nat) (o : Nat) (ho : o ≠ e.1.ptr) :
    (purgeOne x s e).tableOf o = s.tableOf o := by
  unfold State.purgeOne
  split
  · rfl
  · exact tableOf_setLinks_other s _ o _ (Ne.symm ho)

example : Table.remove (Table.remove [(⟨3, .fwd⟩, 2), (⟨3, .bwd⟩, 1), (⟨4, .fwd⟩, 1)] ⟨3, .fwd⟩ 2) ⟨3, .bwd⟩ 2
    = [(⟨4, .fwd⟩, 1)] := by decide


/-! ## Over whole histories: nothing keeps a bookkeeping reference to a given-up allocation -/

/-- **C12.** In every reachable state (in particular after any `try_unwrap`, `make_mut`,
`get_mut`, raw round trip or `increment/decrement_strong_count` on objects that adopted or were
adopted) no readable link table contains a Forward or Backward record naming an object that is not
live: no former peer keeps a reference to an allocation that was given up. -/
theorem C12_no_reference_to_given_up {s : State} (h : Reachable s) (he : s.err = none)
    {a o : Nat} (hdead : s.isLive o = false) : s.F a o = 0 ∧ s.B a o = 0 := by
  have hB := (reachable_core h he).1.2.1
  constructor
  · cases hz : s.F a o with
    | zero => rfl
    | succ k =>
      obtain ⟨c, hm⟩ := (State.F_pos_iff hB a o).mp (by omega)
      have := State.entry_live hB hm (by simp)
      simp [hdead] at this
  · cases hz : s.B a o with
    | zero => rfl
    | succ k =>
      obtain ⟨c, hm⟩ := (State.B_pos_iff hB a o).mp (by omega)
      have := State.entry_live hB hm (by simp)
      simp [hdead] at this

end Cactus
