import Cactus.Lemmas.Final
import Cactus.Lemmas.Complete
import Cactus.Lemmas.Basic
import Cactus.Lemmas.Orphan
import Cactus.Props.C13
/-!
# C03 — an orphaned adopted group is destroyed in full by the drop that orphans it

KNOWN FINDING D5: the property is false of the code when the dropped object's own count reaches
zero while it has adoptions (`Rc::drop` then takes the no-trace path, drop.rs:147-150).
`C03_counterexample` is the machine-checked witness; the harness replays it on the real code on
every run (corpus `d5_joint_orphan.ops`).  What does hold: the last-handle rule (below) and the
group rule on the trace path (`Cactus.Lemmas.Orphan`: when the orphan test passes, the keys of the
cycle map are exactly the objects reachable through recorded adoptions, and `dropCycle` marks
every one of them dead and moves its value out in the same machine step).
-/
namespace Cactus
open State

/-- X adopts Y and Z, Y adopts itself (through a clone) and Z; the program drops its only handle
to X.  Afterwards every strong handle to X, Y, Z is a recorded adoption held inside the set. -/
def jointOrphanHistory : List (Op × List Nat) :=
  [(.act .new, []), (.act .new, []), (.act .new, []),
   (.act (.clone 1), []), (.act (.link 3 0), []),
   (.act (.clone 2), []), (.act (.link 3 0), []),
   (.act (.clone 1), []), (.act (.link 3 1), []),
   (.act (.clone 2), []), (.act (.link 3 1), []),
   (.act (.drop 1), []), (.act (.drop 1), []), (.act (.drop 0), [])]

/-- only X is destroyed; Y and Z stay allocated with positive counts and the program holds no
handle to anything: they can never be collected -/
theorem C03_counterexample :
    let s := runWith 64 jointOrphanHistory
    s.err = none ∧ s.roots = [] ∧ Ev.destroyed 0 ∈ s.log ∧ Ev.destroyed 1 ∉ s.log ∧ Ev.destroyed 2 ∉ s.log
      ∧ s.isLive 1 = true ∧ s.isLive 2 = true := by
  decide

/-- the last-handle rule: dropping the last strong handle of an object without adoptions moves its
value out and schedules its destructor in that very step (synchronously, never deferred) -/
theorem C03_last_handle (s : State) (o : Nat) (ob : Obj) (v : Val)
    (hc : s.cell o = some ob) (hs : ob.strong = .cnt 1) (hl : ob.links = some []) (hv : ob.value = some v) :
    (s.rcDrop o).stack = .dropVal v :: .finishSingle o :: s.stack
    ∧ ((s.rcDrop o).heap[o]?).map (·.strong) = some .uninit := by
  have hf := (cell_some_get s o ob hc).2
  have hlt := cell_some_lt s o ob hc
  unfold State.rcDrop
  simp only [hc, hs, hl, List.isEmpty_nil, if_true]
  unfold State.beginSingle
  rw [cell_setObj_same s o ob _ hc]
  simp [hf, hv, State.setObj, State.push, hlt]

/-- the group rule on the trace path, graph part: when the orphan test passes, the objects that
`drop_cycle` is given are exactly the objects reachable from the dropped one through recorded
adoptions — none is missed, none outside the group is included -/
theorem C03_group_is_reach_set (s : State) (x : Nat) (hO : s.InvO) (hB : s.InvB) (hx : s.isLive x = true)
    (hne : (cycleRefs s x).cmap.isEmpty = false)
    (hext : hasExternalOwners s (cycleRefs s x).cmap = false) (k : Nat) :
    k ∈ (cycleRefs s x).cmap.keys ↔ FwdReach s x k := by
  have hok := cycleRefs_ok s x hO hB hx
  have hspec := cycleRefs_spec s x hok.1 hok.2
  rw [keys_eq_visited s x hO hB hx hne hext k]
  exact ⟨fun h => hspec.2.2.2.2.1 k h, fun h => hspec.2.2.2.2.2.2.1 k h⟩


/-! ## The group rule, proved on the trace path

`C03_group_collected` (in `Cactus.Lemmas.Complete`): in any state satisfying the invariants, when
`Rc::drop` of a handle to `x` leaves `x` with a positive count (so the trace runs) and afterwards
(i) no member of `FwdReach x` has a handle in the program or in a pending frame, (ii) no live
object outside the set holds a handle to a member, (iii) inside the set every held handle is a
recorded adoption and (iv) no live object outside has a stale record into the set (implied by (ii)
and the contract: `noStale_of_P`), then that very machine step marks **every** member dead, moves
every member's value out and schedules all their destructors above the rest of the stack, i.e.
they run before the drop returns.  The zero-count path is the known finding D5 above. -/

theorem C03_group_rule : type_of% @C03_group_collected := @C03_group_collected
theorem C03_last_handle_with_adoptions : type_of% @C03_last_handle_links := @C03_last_handle_links
theorem C03_no_stale_record_under_contract : type_of% @noStale_of_P := @noStale_of_P


/-! ## The cascade rule, as a statement about operation boundaries

"An object whose last strong handle disappears is destroyed immediately, and so, transitively, is
every object all of whose strong handles were owned by objects destroyed in that same step":
when an operation returns (the control stack is empty again) every object that is still live has
at least one strong handle held by the program or stored in a value that is still in place.  So
an object all of whose handles disappeared during the operation — dropped directly, or owned by
values destroyed in that operation, at any depth of the cascade — is not live any more when the
operation returns: its value has been moved out and its destructor has run (or is the husk of a
`try_unwrap`/`make_mut`).  Collection is synchronous, never deferred.  No hypothesis on the history. -/

theorem C03_no_live_object_without_a_handle {s : State} (h : Reachable s) (he : s.err = none)
    (hq : s.stack = []) {t : Nat} (hl : s.isLive t = true) : 0 < s.ext t + s.inHeap t := by
  have hC := (reachable_core h he).1.2.2.1 t hl
  have hp : s.pend t = 0 := by simp [State.pend, hq, State.sumList]
  have := State.strongNat_pos_of_isLive hl
  omega

/-- contrapositive form: an object with no handle left at an operation boundary is dead, its value
is gone -/
theorem C03_handleless_object_is_destroyed {s : State} (h : Reachable s) (he : s.err = none)
    (hq : s.stack = []) {t : Nat} {ob : Obj} (hg : s.heap[t]? = some ob)
    (h0 : s.ext t + s.inHeap t = 0) : ob.value = none := by
  have hO := (reachable_core h he).1.1 t ob hg
  cases hs : ob.strong with
  | uninit => exact (hO.2.2.1 hs).1
  | cnt n =>
    cases n with
    | zero => exact (hO.2.1 hs).1
    | succ n =>
      have hf := (hO.1 n hs).2.2.1
      have hl : s.isLive t = true := (State.isLive_eq_true_iff s t).mpr ⟨ob, n, hg, hf, hs⟩
      have := C03_no_live_object_without_a_handle h he hq hl
      omega

end Cactus
