import Cactus.Lemmas.Final
import Cactus.Lemmas.Complete
import Cactus.Lemmas.Basic
import Cactus.Lemmas.Orphan
import Cactus.Lemmas.Shared.RunWith   -- `runWith` (`run` with an explicit step budget)
import Cactus.Lemmas.Shared.OneStep   -- `Shared.rcDrop_last_handle` (also used by `Props/C07.lean`)
import Cactus.Lemmas.Termination.Loop   -- the measure `State.work`, termination, the `makeMut` loop
/-!
# C03 — an orphaned adopted group is destroyed in full by the drop that orphans it

KNOWN FINDING D5: the property is false of the code when the dropped object's own count reaches
zero while it has adoptions (`Rc::drop` then takes the no-trace path, drop.rs:147-150).
`C03_counterexample` is the machine-checked witness; the harness replays it on the real code on
every run (corpus `d5_joint_orphan.ops`).  What does hold and is proved here:
* one-step lemmas: `C03_last_handle`, `C03_last_handle_with_adoptions` (the last-handle rule),
  `C03_group_is_reach_set`, `C03_group_rule` (on the trace path: when the orphan test passes, the
  keys of the cycle map are exactly the objects reachable through recorded adoptions, and that very
  machine step marks every one of them dead, moves its value out and schedules its destructor),
  `C03_no_stale_record_under_contract`;
* a positive instance of the group rule with all eleven hypotheses discharged
  (`C03_group_rule_instance`: ring with tail, an outsider, a Weak);
* whole histories, no hypothesis: `C03_no_live_object_without_a_handle`,
  `C03_handleless_object_is_destroyed` (collection is synchronous: at operation boundaries every
  live object has a handle);
* the drop returns (last section): `C03_work_decreases` (every machine step except the execution of
  a `makeMut` action of a destructor script decreases the measure `State.work`),
  `C03_teardown_terminates` (at most `s.work` steps), `C03_step_budget_suffices` (`drain` with
  `s.work ≤ fuel` never reports `.fuel`), `C03_operation_within_budget`,
  `C03_history_never_out_of_budget` (static condition for `run`), all for class (b): no destructor
  script contains `makeMut`; class (a) (no scripts) is an instance
  (`C03_teardown_terminates_noScripts`).  Examples with computed `work` and actual step counts:
  `C03_ring_with_tail_budget`, `C03_scripted_budget`.
  FINDING (of the model; not replayed on the code — there it is an unbounded recursion of user
  `drop`, i.e. a stack overflow, not a defect of the crate): for class (c), all scripts,
  termination is false — `C03_teardown_can_diverge`: a destructor that `make_mut`s a shared handle
  to a value carrying the same destructor re-creates what it destroys; the operation exhausts
  every step budget.
Not proved (false): the group rule on the zero-count path, see D5 above; termination of the
teardown for destructor scripts containing `makeMut`.
`runWith` (`run` with an explicit step budget) comes from `Cactus.Lemmas.Shared.RunWith`, and
`C03_last_handle` is proved by the shared one-step lemma `Shared.rcDrop_last_handle`
(`Cactus.Lemmas.Shared.OneStep`, also used by `Props/C07.lean`); no other property file is imported.
-/
namespace Cactus
open State

/-- X adopts Y and Z, Y adopts itself (through a clone) and Z; the program drops its only handle
to X.  Afterwards every strong handle to X, Y, Z is a recorded adoption held inside the set. -/
def jointOrphanHistory : List (Op × List Nat) :=
  [(.act .new, []), (.act .new, []), (.act .new, []),
   (.act (.clone 1), []), (.act (.link 3 0), []),
   (.act (.clone 2), []), (.act (.link 3 0), []),
   (.act (.clone 1), []), (.act (.link 3 1), []),
   (.act (.clone 2), []), (.act (.link 3 1), []),
   (.act (.drop 1), []), (.act (.drop 1), []), (.act (.drop 0), [])]

/-- only X is destroyed; Y and Z stay allocated with positive counts and the program holds no
handle to anything: they can never be collected -/
theorem C03_counterexample :
    let s := runWith 64 jointOrphanHistory
    s.err = none ∧ s.roots = [] ∧ Ev.destroyed 0 ∈ s.log ∧ Ev.destroyed 1 ∉ s.log ∧ Ev.destroyed 2 ∉ s.log
      ∧ s.isLive 1 = true ∧ s.isLive 2 = true := by
  decide

/-- the last-handle rule: dropping the last strong handle of an object without adoptions moves its
value out and schedules its destructor in that very step (synchronously, never deferred) -/
theorem C03_last_handle (s : State) (o : Nat) (ob : Obj) (v : Val)
    (hc : s.cell o = some ob) (hs : ob.strong = .cnt 1) (hl : ob.links = some []) (hv : ob.value = some v) :
    (s.rcDrop o).stack = .dropVal v :: .finishSingle o :: s.stack
    ∧ ((s.rcDrop o).heap[o]?).map (·.strong) = some .uninit :=
  Shared.rcDrop_last_handle s o ob v hc hs hl hv

/-- the group rule on the trace path, graph part: when the orphan test passes, the objects that
`drop_cycle` is given are exactly the objects reachable from the dropped one through recorded
adoptions — none is missed, none outside the group is included -/
theorem C03_group_is_reach_set (s : State) (x : Nat) (hO : s.InvO) (hB : s.InvB) (hx : s.isLive x = true)
    (hne : (cycleRefs s x).cmap.isEmpty = false)
    (hext : hasExternalOwners s (cycleRefs s x).cmap = false) (k : Nat) :
    k ∈ (cycleRefs s x).cmap.keys ↔ FwdReach s x k := by
  have hok := cycleRefs_ok s x hO hB hx
  have hspec := cycleRefs_spec s x hok.1 hok.2
  rw [keys_eq_visited s x hO hB hx hne hext k]
  exact ⟨fun h => hspec.2.2.2.2.1 k h, fun h => hspec.2.2.2.2.2.2.1 k h⟩


/-! ## The group rule, proved on the trace path

`C03_group_collected` (in `Cactus.Lemmas.Complete`): in any state satisfying the invariants, when
`Rc::drop` of a handle to `x` leaves `x` with a positive count (so the trace runs) and afterwards
(i) no member of `FwdReach x` has a handle in the program or in a pending frame, (ii) no live
object outside the set holds a handle to a member, (iii) inside the set every held handle is a
recorded adoption and (iv) no live object outside has a stale record into the set (implied by (ii)
and the contract: `noStale_of_P`), then that very machine step marks **every** member dead, moves
every member's value out and schedules all their destructors above the rest of the stack, i.e.
they run before the drop returns.  The zero-count path is the known finding D5 above. -/

/-- **C03, group rule on the trace path.**  `s.decTop rest x ob n` is the state in which the trace
of `Rc::drop` runs: the `rcDrop x` frame popped, the strong count of `x` decremented to `n + 1`;
`FwdReach s1 x m`: `m` is reachable from `x` through recorded adoptions (Forward entries). -/
theorem C03_group_rule (s : State) (x : Nat) (rest : List Frame) (ob : Obj) (n : Nat) (t : Table)
    (herr : s.err = none) (hI : s.Inv) (hst : s.stack = .rcDrop x :: rest)
    (hc : s.cell x = some ob) (hs : ob.strong = .cnt (n + 2)) (hl : ob.links = some t)
    (hne : t.isEmpty = false)
    (hi : ∀ m, FwdReach (s.decTop rest x ob n) x m →
      (s.decTop rest x ob n).ext m = 0 ∧ (s.decTop rest x ob n).pend m = 0)
    (hii : ∀ m a, FwdReach (s.decTop rest x ob n) x m → ¬ FwdReach (s.decTop rest x ob n) x a →
      (s.decTop rest x ob n).isLive a = true → (s.decTop rest x ob n).H a m = 0)
    (hiii : ∀ m a, FwdReach (s.decTop rest x ob n) x m → FwdReach (s.decTop rest x ob n) x a →
      (s.decTop rest x ob n).H a m ≤ (s.decTop rest x ob n).F a m)
    (hiv : ∀ m a, FwdReach (s.decTop rest x ob n) x m → ¬ FwdReach (s.decTop rest x ob n) x a →
      (s.decTop rest x ob n).isLive a = true → (s.decTop rest x ob n).F a m = 0) :
    let s1 := s.decTop rest x ob n
    let tr := cycleRefs s1 x
    let s2 := s1.emit (.traced x tr.visited.length tr.popped)
    tr.cmap.isEmpty = false
    ∧ hasExternalOwners s2 tr.cmap = false
    ∧ step s = s2.dropCycle tr.cmap
    ∧ (step s).err = none
    ∧ (∀ k, k ∈ tr.cmap.keys ↔ FwdReach s1 x k)
    ∧ ∃ vs : List Val,
        (step s).stack = vs.map Frame.dropVal ++ [Frame.phase3 tr.cmap.keys] ++ rest
        ∧ ∀ m, FwdReach s1 x m →
            ∃ v, (s.heap[m]?).bind (·.value) = some v
              ∧ v ∈ vs
              ∧ Frame.dropVal v ∈ (step s).stack
              ∧ ∃ ob', (step s).heap[m]? = some ob' ∧ ob'.strong = .uninit ∧ ob'.value = none
                  ∧ ob'.links = none :=
  C03_group_collected s x rest ob n t herr hI hst hc hs hl hne hi hii hiii hiv

/-- the last-handle rule for an object with any link table: dropping the last strong handle of `x`
moves its value out and schedules its destructor in that very step, above the rest of the stack,
and marks `x` uninit -/
theorem C03_last_handle_with_adoptions (s : State) (x : Nat) (rest : List Frame) (ob : Obj)
    (herr : s.err = none) (hI : s.Inv) (hst : s.stack = .rcDrop x :: rest)
    (hc : s.cell x = some ob) (hs : ob.strong = .cnt 1) :
    ∃ v, ob.value = some v
      ∧ (step s).stack = Frame.dropVal v :: Frame.finishSingle x :: rest
      ∧ Frame.dropVal v ∈ (step s).stack
      ∧ ∃ ob', (step s).heap[x]? = some ob' ∧ ob'.strong = .uninit ∧ ob'.value = none :=
  C03_last_handle_links s x rest ob herr hI hst hc hs

/-- hypothesis (iv) of the group rule follows from (ii) and the adoption contract `P` -/
theorem C03_no_stale_record_under_contract (s : State) (x : Nat) (hP : s.P)
    (hii : ∀ m a, FwdReach s x m → ¬ FwdReach s x a → s.isLive a = true → s.H a m = 0) :
    ∀ m a, FwdReach s x m → ¬ FwdReach s x a → s.isLive a = true → s.F a m = 0 :=
  noStale_of_P s x hP hii


/-! ### A positive instance of the group rule

Ring x ↔ y (objects 0, 1) with a tail x → z₁ → z₂ (objects 2, 3), all built with `link`; an outsider
(object 4) that adopts and holds object 5; a Weak handle to y; the program has dropped its handles
to y, z₁, z₂ and now drops its only handle to x.  `groupStart` is the state in which that `drop` has
pushed its `rcDrop 0` frame: x has count 2 (the program's handle and y's). -/

def groupBuild : List (Op × List Nat) :=
  [(.act .new, []), (.act .new, []), (.act .new, []), (.act .new, []),
   (.act (.clone 1), []), (.act (.link 4 0), []),     -- x adopts and holds y
   (.act (.clone 0), []), (.act (.link 4 1), []),     -- y adopts and holds x
   (.act (.clone 2), []), (.act (.link 4 0), []),     -- x → z₁
   (.act (.clone 3), []), (.act (.link 4 2), []),     -- z₁ → z₂
   (.act .new, []), (.act .new, []), (.act (.link 5 4), []),  -- outsider 4 → 5
   (.act (.downgrade 1), []),                         -- a Weak to y
   (.act (.drop 1), []), (.act (.drop 1), []), (.act (.drop 1), [])]

def groupStart : State := applyOp ((run groupBuild).begin []) (.act (.drop 0))

/-- object x as it is in `groupStart` -/
def groupX : Obj :=
  { strong := .cnt 2, weak := 1,
    links := some [(⟨1, .fwd⟩, 1), (⟨1, .bwd⟩, 1), (⟨2, .fwd⟩, 1)],
    value := some { vid := 0, held := [1, 2], weaks := [], script := [], panics := false },
    freed := false }

/-- the state in which the trace runs -/
abbrev groupS1 : State := groupStart.decTop [] 0 groupX 0

theorem groupStart_reachable : Reachable groupStart :=
  .op (.act (.drop 0)) [] (run_reachable groupBuild) (by decide +kernel)

example : groupStart.err = none ∧ groupStart.stack = [.rcDrop 0] ∧ groupStart.roots = [4]
    ∧ groupStart.wroots = [1] ∧ groupStart.cell 0 = some groupX
    ∧ groupStart.heap.map (·.strong) = [.cnt 2, .cnt 1, .cnt 1, .cnt 1, .cnt 1, .cnt 1] := by
  decide +kernel

/-- `FwdReach` from x in `groupS1` is membership in the visited list of the trace (`cycleRefs_spec`),
which evaluates to `[1, 3, 2, 0]`: this turns the quantifiers of hypotheses (i)–(iv) into bounded
ones -/
theorem groupS1_fwdReach (m : Nat) : FwdReach groupS1 0 m ↔ m ∈ [1, 3, 2, 0] := by
  have hb : (cycleRefs groupS1 0).bad = none := by decide +kernel
  have hf : (cycleRefs groupS1 0).outOfFuel = false := by decide +kernel
  have hv : (cycleRefs groupS1 0).visited = [1, 3, 2, 0] := by decide +kernel
  have sp := cycleRefs_spec groupS1 0 hb hf
  rw [← hv]
  exact ⟨sp.2.2.2.2.2.2.1 m, sp.2.2.2.2.1 m⟩

/-- all eleven hypotheses of `C03_group_rule` hold in `groupStart` (the four quantified ones after
bounding them by `groupS1_fwdReach` and the heap length, each by evaluation), and the theorem
yields: the step raises no error, the keys of the cycle map are exactly the group, the stack becomes
the members' destructors followed by `phase3`, and each of x, y, z₁, z₂ has its value moved out
(its destructor is on the stack) and is marked `uninit` with value and table gone -/
theorem C03_group_rule_instance :
    (step groupStart).err = none
    ∧ (∀ k, k ∈ (cycleRefs groupS1 0).cmap.keys ↔ FwdReach groupS1 0 k)
    ∧ ∃ vs : List Val,
        (step groupStart).stack
          = vs.map Frame.dropVal ++ [Frame.phase3 (cycleRefs groupS1 0).cmap.keys]
        ∧ ∀ m, m < 4 →
            ∃ v, (groupStart.heap[m]?).bind (·.value) = some v
              ∧ Frame.dropVal v ∈ (step groupStart).stack
              ∧ ∃ ob', (step groupStart).heap[m]? = some ob' ∧ ob'.strong = .uninit
                  ∧ ob'.value = none ∧ ob'.links = none := by
  have hlen : groupS1.heap.length = 6 := by decide +kernel
  have h := C03_group_rule groupStart 0 [] groupX 0
    [(⟨1, .fwd⟩, 1), (⟨1, .bwd⟩, 1), (⟨2, .fwd⟩, 1)]
    (by decide +kernel) (reachable_Inv groupStart_reachable) (by decide +kernel)
    (by decide +kernel) rfl rfl rfl
    (fun m hm => by
      have key : ∀ m ∈ [1, 3, 2, 0], groupS1.ext m = 0 ∧ groupS1.pend m = 0 := by decide +kernel
      exact key m ((groupS1_fwdReach m).mp hm))
    (fun m a hm ha hl => by
      have key : ∀ m ∈ [1, 3, 2, 0], ∀ a, a < 6 → a ∉ [1, 3, 2, 0] → groupS1.isLive a = true →
          groupS1.H a m = 0 := by decide +kernel
      exact key m ((groupS1_fwdReach m).mp hm) a (hlen ▸ State.isLive_lt hl)
        (fun h => ha ((groupS1_fwdReach a).mpr h)) hl)
    (fun m a hm ha => by
      have key : ∀ m ∈ [1, 3, 2, 0], ∀ a ∈ [1, 3, 2, 0], groupS1.H a m ≤ groupS1.F a m := by
        decide +kernel
      exact key m ((groupS1_fwdReach m).mp hm) a ((groupS1_fwdReach a).mp ha))
    (fun m a hm ha hl => by
      have key : ∀ m ∈ [1, 3, 2, 0], ∀ a, a < 6 → a ∉ [1, 3, 2, 0] → groupS1.isLive a = true →
          groupS1.F a m = 0 := by decide +kernel
      exact key m ((groupS1_fwdReach m).mp hm) a (hlen ▸ State.isLive_lt hl)
        (fun h => ha ((groupS1_fwdReach a).mpr h)) hl)
  obtain ⟨-, -, -, herr, hkeys, vs, hstack, hmem⟩ := h
  refine ⟨herr, hkeys, vs, by simpa using hstack, ?_⟩
  intro m hm
  obtain ⟨v, h1, -, h3, h4⟩ := hmem m ((groupS1_fwdReach m).mpr (by
    have : m = 0 ∨ m = 1 ∨ m = 2 ∨ m = 3 := by omega
    rcases this with rfl | rfl | rfl | rfl <;> simp))
  exact ⟨v, h1, h3, h4⟩

/-- the same step by evaluation: the four destructors and `phase3` on the stack, the outsiders
untouched -/
example : (step groupStart).stack =
      [.dropVal { vid := 1, held := [0], weaks := [], script := [], panics := false },
       .dropVal { vid := 2, held := [3], weaks := [], script := [], panics := false },
       .dropVal { vid := 0, held := [1, 2], weaks := [], script := [], panics := false },
       .dropVal { vid := 3, held := [], weaks := [], script := [], panics := false },
       .phase3 [1, 2, 0, 3]]
    ∧ (step groupStart).heap.map (·.strong) = [.uninit, .uninit, .uninit, .uninit, .cnt 1, .cnt 1] := by
  decide +kernel

/-- … and the whole operation: all four destructors have run when the `drop` returns; the three
allocations without Weak handles are released, y's is kept by its Weak; the outsiders are live -/
example : let s := run (groupBuild ++ [(.act (.drop 0), [])])
    s.err = none ∧ s.stack = []
    ∧ s.log = [.traced 1 4 5, .traced 2 2 2, .traced 3 1 1,      -- the three earlier drops
               .traced 0 4 5, .destroyed 1, .destroyed 2, .destroyed 0, .destroyed 3,
               .freed 2, .freed 0, .freed 3]
    ∧ s.isLive 4 = true ∧ s.isLive 5 = true ∧ (s.cell 1).isSome = true := by
  decide +kernel


/-! ## The cascade rule, as a statement about operation boundaries

"An object whose last strong handle disappears is destroyed immediately, and so, transitively, is
every object all of whose strong handles were owned by objects destroyed in that same step":
when an operation returns (the control stack is empty again) every object that is still live has
at least one strong handle held by the program or stored in a value that is still in place.  So
an object all of whose handles disappeared during the operation — dropped directly, or owned by
values destroyed in that operation, at any depth of the cascade — is not live any more when the
operation returns: its value has been moved out and its destructor has run (or is the husk of a
`try_unwrap`/`make_mut`).  Collection is synchronous, never deferred.  No hypothesis on the history. -/

theorem C03_no_live_object_without_a_handle {s : State} (h : Reachable s) (he : s.err = none)
    (hq : s.stack = []) {t : Nat} (hl : s.isLive t = true) : 0 < s.ext t + s.inHeap t := by
  have hC := (reachable_core h he).1.2.2.1 t hl
  have hp : s.pend t = 0 := by simp [State.pend, hq, State.sumList]
  have := State.strongNat_pos_of_isLive hl
  omega

/-- contrapositive form: an object with no handle left at an operation boundary is dead, its value
is gone -/
theorem C03_handleless_object_is_destroyed {s : State} (h : Reachable s) (he : s.err = none)
    (hq : s.stack = []) {t : Nat} {ob : Obj} (hg : s.heap[t]? = some ob)
    (h0 : s.ext t + s.inHeap t = 0) : ob.value = none := by
  have hO := (reachable_core h he).1.1 t ob hg
  cases hs : ob.strong with
  | uninit => exact (hO.2.2.1 hs).1
  | cnt n =>
    cases n with
    | zero => exact (hO.2.1 hs).1
    | succ n =>
      have hf := (hO.1 n hs).2.2.1
      have hl : s.isLive t = true := (State.isLive_eq_true_iff s t).mpr ⟨ob, n, hg, hf, hs⟩
      have := C03_no_live_object_without_a_handle h he hq hl
      omega

/-- the cascade rule instantiated on the history of the positive instance above, after the
collecting `drop` has returned: the two objects that are still live (the outsiders 4 and 5) each have
a handle, and y (object 1), all of whose handles were owned by values destroyed in that operation,
has had its value destroyed although its allocation is kept by a Weak -/
example : 0 < (run (groupBuild ++ [(.act (.drop 0), [])])).ext 5
      + (run (groupBuild ++ [(.act (.drop 0), [])])).inHeap 5 :=
  C03_no_live_object_without_a_handle (run_reachable _) (by decide +kernel) (by decide +kernel)
    (by decide +kernel)

example : ∀ ob, (run (groupBuild ++ [(.act (.drop 0), [])])).heap[1]? = some ob → ob.value = none :=
  fun _ hg => C03_handleless_object_is_destroyed (run_reachable _) (by decide +kernel)
    (by decide +kernel) hg (by decide +kernel)

example : let s := run (groupBuild ++ [(.act (.drop 0), [])])
    s.ext 5 = 0 ∧ s.inHeap 5 = 1 ∧ s.ext 1 + s.inHeap 1 = 0 ∧ s.wroots = [1]
    ∧ (s.heap[1]?).map (fun ob => (ob.strong, ob.weak, ob.value.isSome, ob.freed))
        = some (.uninit, 1, false, false) := by
  decide +kernel


/-! ## The drop returns: termination of the teardown

"All objects of the set are destroyed before the drop returns" presupposes that the drop returns.
In the model an operation is `endOp (drain fuel (applyOp …))` and `drain` gives up with
`err := some .fuel` when the budget is exhausted; every other theorem assumes `err = none`.  This
section shows that the `fuel` error is an artefact of a too small budget only — for every state in
which no destructor script contains `makeMut` (class (b), `State.NoMM = ScriptsQ Act.notMakeMut`:
scripts of running destructors, of values about to be destroyed, of values in the heap and of
unwrapped values) — and that it is not for the remaining class.

The measure (`Cactus/Lemmas/Termination/Measure.lean`) is a weighted sum,
`s.work = stackW s.stack + heapW s.heap + valsW s.vals`:
a value costs `v.cost = 3 + 7·|script| + 3·|held| + 2·|weaks|`; frames weigh `rcDrop` 2,
`weakDrop`/`panic`/`finishSingle`/`phase3` 1, `dropFields h w` `1 + 3|h| + 2|w|`, `script _ _ acts`
`1 + 7|acts|`, `dropVal v` `v.cost + 1`; a value in the heap weighs `v.cost + 3`, an unwrapped value
`v.cost + 1`. -/

/-- the measure, spelled out -/
theorem C03_work_def (s : State) :
    s.work = ((s.stack.map Frame.work).sum
      + ((s.heap.map (·.value)).map (fun ov => match ov with | some v => v.cost + 3 | none => 0)).sum)
      + (s.vals.map (fun v => v.cost + 1)).sum := by
  have : optW = (fun ov => match ov with | some v => v.cost + 3 | none => 0) := by
    funext ov; cases ov <;> rfl
  simp only [State.work, stackW, heapW, hv, valsW, this]

/-- **every machine step decreases the measure** (or raises an error), all nine frame kinds and
all actions inside destructor scripts, with one exception: the step that executes a `makeMut`
action of a destructor script.  No hypothesis on the state. -/
theorem C03_work_decreases (s : State) (he : s.err = none) (hst : s.stack ≠ [])
    (hmm : ∀ h w r as rest, s.stack ≠ .script h w (.makeMut r :: as) :: rest) :
    (step s).err ≠ none ∨ (step s).work < s.work :=
  step_work_lt s he hst hmm

/-- **C03, the drop returns**: from any state whose destructor scripts contain no `makeMut`, the
control stack is empty (the operation returns) or an error is raised after at most `s.work` machine
steps -/
theorem C03_teardown_terminates (s : State) (hq : s.ScriptsQ Act.notMakeMut) :
    ∃ k, k ≤ s.work ∧ ((runSteps k s).stack = [] ∨ (runSteps k s).err ≠ none) :=
  teardown_terminates s hq

/-- class (a): no destructor scripts at all (e.g. all values `quiet`), nothing else assumed -/
theorem C03_teardown_terminates_noScripts (s : State) (hq : s.ScriptsQ (fun _ => False)) :
    ∃ k, k ≤ s.work ∧ ((runSteps k s).stack = [] ∨ (runSteps k s).err ≠ none) :=
  teardown_terminates_noScripts s hq

/-- **the step budget is not hiding a loop**: `drain` with a budget of at least `s.work` never
ends in the `fuel` error -/
theorem C03_step_budget_suffices (f : Nat) (s : State) (hq : s.ScriptsQ Act.notMakeMut)
    (he : s.err = none) (hf : s.work ≤ f) :
    (drain f s).err ≠ some .fuel :=
  drain_no_fuel_error f s hq he hf

/-- … it ends with an empty stack and no more work than it started with, or with another error -/
theorem C03_drain_finishes (f : Nat) (s : State) (hq : s.ScriptsQ Act.notMakeMut)
    (he : s.err = none) (hf : s.work ≤ f) :
    ((drain f s).err = none ∧ (drain f s).stack = [] ∧ (drain f s).work ≤ s.work)
    ∨ ((drain f s).err ≠ none ∧ (drain f s).err ≠ some .fuel) :=
  drain_finishes f s hq he hf

/-- no machine step raises `fuel` (the trace's own budget is sufficient, `cycleRefs_fuel`): the
error comes from `drain` alone -/
theorem C03_step_never_out_of_fuel (s : State) (h : (step s).err = some .fuel) : s.err = some .fuel :=
  step_err_fuel s h

/-- one operation, from the state before it: a budget of `2·work + 6 + 7·|installed script|` is
enough (`2·`: a top-level `makeMut` may clone a value that is already counted) -/
theorem C03_operation_within_budget (fuel : Nat) (s : State) (op : Op) (hint : List Nat)
    (he : s.err ≠ some .fuel) (hq : s.ScriptsQ Act.notMakeMut) (hop : op.scriptNoMM)
    (hw : 2 * s.work + 6 + 7 * op.scriptLen ≤ fuel) :
    (execOp fuel s op hint).err ≠ some .fuel :=
  execOp_no_fuel_of_work fuel s op hint he hq hop hw

/-- the same in terms of sizes, for a quiescent state: allocations, unwrapped values, handles
stored in values, total script length -/
theorem C03_operation_within_budget_sizes (fuel : Nat) (s : State) (op : Op) (hint : List Nat)
    (he : s.err ≠ some .fuel) (hst : s.stack = []) (hq : s.ScriptsQ Act.notMakeMut) (hop : op.scriptNoMM)
    (hw : 12 * (s.heap.length + s.vals.length) + 6 * s.storedHandles + 14 * s.scriptTotal + 6
      + 7 * op.scriptLen ≤ fuel) :
    (execOp fuel s op hint).err ≠ some .fuel :=
  execOp_no_fuel_of_size fuel s op hint he hst hq hop hw

/-- **whole histories**: a history in which `makeMut` occurs neither as an action nor in a
destructor script, with `6·#operations + 7·Σ script lengths ≤ defaultFuel = 10⁶`, never reports
`fuel` — whatever else it does -/
theorem C03_history_never_out_of_budget (ops : List (Op × List Nat))
    (hops : ∀ oh ∈ ops, oh.1.S Act.notMakeMut)
    (hsize : 6 * ops.length + 7 * (ops.map (·.1.scriptLen)).sum ≤ defaultFuel) :
    (run ops).err ≠ some .fuel :=
  run_no_fuel_error ops hops hsize

/-! ### The finding: with `makeMut` in a destructor the teardown can run forever

`make_mut` on a shared handle clones the value *with its destructor*; a destructor that does this
to a value carrying the same destructor and drops the copy re-creates what it destroys (in Rust:
an unbounded recursion of `drop`, i.e. a stack overflow — the crate cannot prevent it, `T: Clone`
and `T: Drop` are user code).  Proof: `Cactus.TerminationLoop.loop_six_steps` (loop invariant: six
machine steps lead from round `n` to round `n + 1`; one more husk in the heap, three more frames
on the stack, `work = 53 + 3·n`). -/

/-- the history: a prototype carrying the script, shared, `makeMut` of one handle (first copy);
the fifth operation, `drop 1`, drops the copy -/
theorem C03_diverging_history : TerminationLoop.loopPre =
    [(.act .new, []), (.setScript 0 [.clone 0, .makeMut 1, .drop 1], []), (.act (.clone 0), []),
     (.act (.makeMut 1), [])] := rfl

/-- **FINDING**: for every step budget `f` the fifth operation ends with `err = some .fuel` -/
theorem C03_teardown_can_diverge (f : Nat) :
    (execOp f (run TerminationLoop.loopPre) (.act (.drop 1)) []).err = some .fuel :=
  TerminationLoop.makeMut_loop_never_returns f

/-- as a statement about machine steps: no error, never an empty stack, and the measure grows
without bound (by 3 every six steps) -/
theorem C03_teardown_can_diverge_steps (m : Nat) :
    let s := applyOp ((run TerminationLoop.loopPre).begin []) (.act (.drop 1))
    (runSteps m s).err = none ∧ (runSteps m s).stack ≠ [] ∧ (runSteps (6 * m + 1) s).work = 53 + 3 * m := by
  refine ⟨(TerminationLoop.makeMut_loop_runs_forever m).1, (TerminationLoop.makeMut_loop_runs_forever m).2, ?_⟩
  have e : 6 * m + 1 = 1 + 6 * m := by omega
  rw [e, runSteps_add]
  show (runSteps (6 * m) (step TerminationLoop.loopStart)).work = _
  rw [TerminationLoop.loopStart_step, TerminationLoop.loop_rounds, TerminationLoop.loop_work]

/-! ### Examples: computed `work`, actual number of steps -/

/-- the ring with tail of the positive instance above (`groupStart`: the collecting `drop 0` has
pushed its frame): `work = 53`, the operation returns after exactly 22 machine steps,
`22 ≤ 53 ≤ defaultFuel` -/
theorem C03_ring_with_tail_budget :
    groupStart.work = 53
    ∧ (runSteps 22 groupStart).stack = [] ∧ (runSteps 22 groupStart).err = none
    ∧ (runSteps 21 groupStart).stack ≠ []
    ∧ 22 ≤ groupStart.work ∧ groupStart.work ≤ defaultFuel := by
  decide +kernel

/-- the theorem applies to it (its values have no scripts) -/
example : ∃ k, k ≤ 53 ∧ ((runSteps k groupStart).stack = [] ∨ (runSteps k groupStart).err ≠ none) := by
  have hq : groupStart.ScriptsQ Act.notMakeMut :=
    applyOp_noMM _ _ trivial (begin_scriptsQ _ _ (run_noMM groupBuild (by decide)))
  have h := C03_teardown_terminates groupStart hq
  rwa [C03_ring_with_tail_budget.1] at h

/-- a 2-ring whose members have destructor scripts that allocate, clone, store, downgrade and drop
handles while the group is being collected -/
def scriptedBuild : List (Op × List Nat) :=
  [(.act .new, []), (.act .new, []), (.act .new, []),
   (.act (.clone 1), []), (.act (.link 3 0), []),     -- x adopts and holds y
   (.act (.clone 0), []), (.act (.link 3 1), []),     -- y adopts and holds x
   (.setScript 0 [.new, .clone 2, .store 3 2, .drop 2], []),
   (.setScript 1 [.new, .downgradeField 0, .dropWeak 0, .drop 2], []),
   (.act (.drop 1), [])]

def scriptedStart : State := applyOp ((run scriptedBuild).begin []) (.act (.drop 0))

/-- `work = 82`; both destructors run (`destroyed 0`, `destroyed 1`), the operation returns after
exactly 31 machine steps without error, `31 ≤ 82 ≤ defaultFuel` -/
theorem C03_scripted_budget :
    scriptedStart.work = 82
    ∧ (runSteps 31 scriptedStart).stack = [] ∧ (runSteps 31 scriptedStart).err = none
    ∧ (runSteps 30 scriptedStart).stack ≠ []
    ∧ Ev.destroyed 0 ∈ (runSteps 31 scriptedStart).log ∧ Ev.destroyed 1 ∈ (runSteps 31 scriptedStart).log
    ∧ 31 ≤ scriptedStart.work ∧ scriptedStart.work ≤ defaultFuel := by
  decide +kernel

/-- the hypotheses of the theorems hold for it, so they apply: the budget of `run` suffices -/
example : (drain defaultFuel scriptedStart).err ≠ some .fuel := by
  have hq : scriptedStart.ScriptsQ Act.notMakeMut :=
    applyOp_noMM _ _ trivial (begin_scriptsQ _ _ (run_noMM scriptedBuild (by decide)))
  exact C03_step_budget_suffices defaultFuel scriptedStart hq (by decide +kernel)
    (by rw [C03_scripted_budget.1]; decide)

/-- and the static condition for the whole history: 11 operations, 8 script actions -/
example : (run (scriptedBuild ++ [(.act (.drop 0), [])])).err ≠ some .fuel :=
  C03_history_never_out_of_budget _ (by decide) (by decide)

end Cactus
