import Cactus.Lemmas.Final
import Cactus.Lemmas.Complete
import Cactus.Lemmas.Basic
import Cactus.Lemmas.Orphan
import Cactus.Props.C13   -- only for `runWith` (`run` with an explicit step budget)
/-!
# C03 — an orphaned adopted group is destroyed in full by the drop that orphans it

KNOWN FINDING D5: the property is false of the code when the dropped object's own count reaches
zero while it has adoptions (`Rc::drop` then takes the no-trace path, drop.rs:147-150).
`C03_counterexample` is the machine-checked witness; the harness replays it on the real code on
every run (corpus `d5_joint_orphan.ops`).  What does hold and is proved here:
* one-step lemmas: `C03_last_handle`, `C03_last_handle_with_adoptions` (the last-handle rule),
  `C03_group_is_reach_set`, `C03_group_rule` (on the trace path: when the orphan test passes, the
  keys of the cycle map are exactly the objects reachable through recorded adoptions, and that very
  machine step marks every one of them dead, moves its value out and schedules its destructor),
  `C03_no_stale_record_under_contract`;
* a positive instance of the group rule with all eleven hypotheses discharged
  (`C03_group_rule_instance`: ring with tail, an outsider, a Weak);
* whole histories, no hypothesis: `C03_no_live_object_without_a_handle`,
  `C03_handleless_object_is_destroyed` (collection is synchronous: at operation boundaries every
  live object has a handle).
Not proved (false): the group rule on the zero-count path, see D5 above.
`Cactus.Props.C13` is imported only for `runWith` (`run` with an explicit step budget).
-/
namespace Cactus
open State

/-- X adopts Y and Z, Y adopts itself (through a clone) and Z; the program drops its only handle
to X.  Afterwards every strong handle to X, Y, Z is a recorded adoption held inside the set. -/
def jointOrphanHistory : List (Op × List Nat) :=
  [(.act .new, []), (.act .new, []), (.act .new, []),
   (.act (.clone 1), []), (.act (.link 3 0), []),
   (.act (.clone 2), []), (.act (.link 3 0), []),
   (.act (.clone 1), []), (.act (.link 3 1), []),
   (.act (.clone 2), []), (.act (.link 3 1), []),
   (.act (.drop 1), []), (.act (.drop 1), []), (.act (.drop 0), [])]

/-- only X is destroyed; Y and Z stay allocated with positive counts and the program holds no
handle to anything: they can never be collected -/
theorem C03_counterexample :
    let s := runWith 64 jointOrphanHistory
    s.err = none ∧ s.roots = [] ∧ Ev.destroyed 0 ∈ s.log ∧ Ev.destroyed 1 ∉ s.log ∧ Ev.destroyed 2 ∉ s.log
      ∧ s.isLive 1 = true ∧ s.isLive 2 = true := by
  decide

/-- the last-handle rule: dropping the last strong handle of an object without adoptions moves its
value out and schedules its destructor in that very step (synchronously, never deferred) -/
theorem C03_last_handle (s : State) (o : Nat) (ob : Obj) (v : Val)
    (hc : s.cell o = some ob) (hs : ob.strong = .cnt 1) (hl : ob.links = some []) (hv : ob.value = some v) :
    (s.rcDrop o).stack = .dropVal v :: .finishSingle o :: s.stack
    ∧ ((s.rcDrop o).heap[o]?).map (·.strong) = some .uninit := by
  have hf := (cell_some_get s o ob hc).2
  have hlt := cell_some_lt s o ob hc
  unfold State.rcDrop
  simp only [hc, hs, hl, List.isEmpty_nil, if_true]
  unfold State.beginSingle
  rw [cell_setObj_same s o ob _ hc]
  simp [hf, hv, State.setObj, State.push, hlt]

/-- the group rule on the trace path, graph part: when the orphan test passes, the objects that
`drop_cycle` is given are exactly the objects reachable from the dropped one through recorded
adoptions — none is missed, none outside the group is included -/
theorem C03_group_is_reach_set (s : State) (x : Nat) (hO : s.InvO) (hB : s.InvB) (hx : s.isLive x = true)
    (hne : (cycleRefs s x).cmap.isEmpty = false)
    (hext : hasExternalOwners s (cycleRefs s x).cmap = false) (k : Nat) :
    k ∈ (cycleRefs s x).cmap.keys ↔ FwdReach s x k := by
  have hok := cycleRefs_ok s x hO hB hx
  have hspec := cycleRefs_spec s x hok.1 hok.2
  rw [keys_eq_visited s x hO hB hx hne hext k]
  exact ⟨fun h => hspec.2.2.2.2.1 k h, fun h => hspec.2.2.2.2.2.2.1 k h⟩


/-! ## The group rule, proved on the trace path

`C03_group_collected` (in `Cactus.Lemmas.Complete`): in any state satisfying the invariants, when
`Rc::drop` of a handle to `x` leaves `x` with a positive count (so the trace runs) and afterwards
(i) no member of `FwdReach x` has a handle in the program or in a pending frame, (ii) no live
object outside the set holds a handle to a member, (iii) inside the set every held handle is a
recorded adoption and (iv) no live object outside has a stale record into the set (implied by (ii)
and the contract: `noStale_of_P`), then that very machine step marks **every** member dead, moves
every member's value out and schedules all their destructors above the rest of the stack, i.e.
they run before the drop returns.  The zero-count path is the known finding D5 above. -/

/-- **C03, group rule on the trace path.**  `s.decTop rest x ob n` is the state in which the trace
of `Rc::drop` runs: the `rcDrop x` frame popped, the strong count of `x` decremented to `n + 1`;
`FwdReach s1 x m`: `m` is reachable from `x` through recorded adoptions (Forward entries). -/
theorem C03_group_rule (s : State) (x : Nat) (rest : List Frame) (ob : Obj) (n : Nat) (t : Table)
    (herr : s.err = none) (hI : s.Inv) (hst : s.stack = .rcDrop x :: rest)
    (hc : s.cell x = some ob) (hs : ob.strong = .cnt (n + 2)) (hl : ob.links = some t)
    (hne : t.isEmpty = false)
    (hi : ∀ m, FwdReach (s.decTop rest x ob n) x m →
      (s.decTop rest x ob n).ext m = 0 ∧ (s.decTop rest x ob n).pend m = 0)
    (hii : ∀ m a, FwdReach (s.decTop rest x ob n) x m → ¬ FwdReach (s.decTop rest x ob n) x a →
      (s.decTop rest x ob n).isLive a = true → (s.decTop rest x ob n).H a m = 0)
    (hiii : ∀ m a, FwdReach (s.decTop rest x ob n) x m → FwdReach (s.decTop rest x ob n) x a →
      (s.decTop rest x ob n).H a m ≤ (s.decTop rest x ob n).F a m)
    (hiv : ∀ m a, FwdReach (s.decTop rest x ob n) x m → ¬ FwdReach (s.decTop rest x ob n) x a →
      (s.decTop rest x ob n).isLive a = true → (s.decTop rest x ob n).F a m = 0) :
    let s1 := s.decTop rest x ob n
    let tr := cycleRefs s1 x
    let s2 := s1.emit (.traced x tr.visited.length tr.popped)
    tr.cmap.isEmpty = false
    ∧ hasExternalOwners s2 tr.cmap = false
    ∧ step s = s2.dropCycle tr.cmap
    ∧ (step s).err = none
    ∧ (∀ k, k ∈ tr.cmap.keys ↔ FwdReach s1 x k)
    ∧ ∃ vs : List Val,
        (step s).stack = vs.map Frame.dropVal ++ [Frame.phase3 tr.cmap.keys] ++ rest
        ∧ ∀ m, FwdReach s1 x m →
            ∃ v, (s.heap[m]?).bind (·.value) = some v
              ∧ v ∈ vs
              ∧ Frame.dropVal v ∈ (step s).stack
              ∧ ∃ ob', (step s).heap[m]? = some ob' ∧ ob'.strong = .uninit ∧ ob'.value = none
                  ∧ ob'.links = none :=
  C03_group_collected s x rest ob n t herr hI hst hc hs hl hne hi hii hiii hiv

/-- the last-handle rule for an object with any link table: dropping the last strong handle of `x`
moves its value out and schedules its destructor in that very step, above the rest of the stack,
and marks `x` uninit -/
theorem C03_last_handle_with_adoptions (s : State) (x : Nat) (rest : List Frame) (ob : Obj)
    (herr : s.err = none) (hI : s.Inv) (hst : s.stack = .rcDrop x :: rest)
    (hc : s.cell x = some ob) (hs : ob.strong = .cnt 1) :
    ∃ v, ob.value = some v
      ∧ (step s).stack = Frame.dropVal v :: Frame.finishSingle x :: rest
      ∧ Frame.dropVal v ∈ (step s).stack
      ∧ ∃ ob', (step s).heap[x]? = some ob' ∧ ob'.strong = .uninit ∧ ob'.value = none :=
  C03_last_handle_links s x rest ob herr hI hst hc hs

/-- hypothesis (iv) of the group rule follows from (ii) and the adoption contract `P` -/
theorem C03_no_stale_record_under_contract (s : State) (x : Nat) (hP : s.P)
    (hii : ∀ m a, FwdReach s x m → ¬ FwdReach s x a → s.isLive a = true → s.H a m = 0) :
    ∀ m a, FwdReach s x m → ¬ FwdReach s x a → s.isLive a = true → s.F a m = 0 :=
  noStale_of_P s x hP hii


/-! ### A positive instance of the group rule

Ring x ↔ y (objects 0, 1) with a tail x → z₁ → z₂ (objects 2, 3), all built with `link`; an outsider
(object 4) that adopts and holds object 5; a Weak handle to y; the program has dropped its handles
to y, z₁, z₂ and now drops its only handle to x.  `groupStart` is the state in which that `drop` has
pushed its `rcDrop 0` frame: x has count 2 (the program's handle and y's). -/

def groupBuild : List (Op × List Nat) :=
  [(.act .new, []), (.act .new, []), (.act .new, []), (.act .new, []),
   (.act (.clone 1), []), (.act (.link 4 0), []),     -- x adopts and holds y
   (.act (.clone 0), []), (.act (.link 4 1), []),     -- y adopts and holds x
   (.act (.clone 2), []), (.act (.link 4 0), []),     -- x → z₁
   (.act (.clone 3), []), (.act (.link 4 2), []),     -- z₁ → z₂
   (.act .new, []), (.act .new, []), (.act (.link 5 4), []),  -- outsider 4 → 5
   (.act (.downgrade 1), []),                         -- a Weak to y
   (.act (.drop 1), []), (.act (.drop 1), []), (.act (.drop 1), [])]

def groupStart : State := applyOp ((run groupBuild).begin []) (.act (.drop 0))

/-- object x as it is in `groupStart` -/
def groupX : Obj :=
  { strong := .cnt 2, weak := 1,
    links := some [(⟨1, .fwd⟩, 1), (⟨1, .bwd⟩, 1), (⟨2, .fwd⟩, 1)],
    value := some { vid := 0, held := [1, 2], weaks := [], script := [], panics := false },
    freed := false }

/-- the state in which the trace runs -/
abbrev groupS1 : State := groupStart.decTop [] 0 groupX 0

theorem groupStart_reachable : Reachable groupStart :=
  .op (.act (.drop 0)) [] (run_reachable groupBuild) (by decide +kernel)

example : groupStart.err = none ∧ groupStart.stack = [.rcDrop 0] ∧ groupStart.roots = [4]
    ∧ groupStart.wroots = [1] ∧ groupStart.cell 0 = some groupX
    ∧ groupStart.heap.map (·.strong) = [.cnt 2, .cnt 1, .cnt 1, .cnt 1, .cnt 1, .cnt 1] := by
  decide +kernel

/-- `FwdReach` from x in `groupS1` is membership in the visited list of the trace (`cycleRefs_spec`),
which evaluates to `[1, 3, 2, 0]`: this turns the quantifiers of hypotheses (i)–(iv) into bounded
ones -/
theorem groupS1_fwdReach (m : Nat) : FwdReach groupS1 0 m ↔ m ∈ [1, 3, 2, 0] := by
  have hb : (cycleRefs groupS1 0).bad = none := by decide +kernel
  have hf : (cycleRefs groupS1 0).outOfFuel = false := by decide +kernel
  have hv : (cycleRefs groupS1 0).visited = [1, 3, 2, 0] := by decide +kernel
  have sp := cycleRefs_spec groupS1 0 hb hf
  rw [← hv]
  exact ⟨sp.2.2.2.2.2.2.1 m, sp.2.2.2.2.1 m⟩

/-- all eleven hypotheses of `C03_group_rule` hold in `groupStart` (the four quantified ones after
bounding them by `groupS1_fwdReach` and the heap length, each by evaluation), and the theorem
yields: the step raises no error, the keys of the cycle map are exactly the group, the stack becomes
the members' destructors followed by `phase3`, and each of x, y, z₁, z₂ has its value moved out
(its destructor is on the stack) and is marked `uninit` with value and table gone -/
theorem C03_group_rule_instance :
    (step groupStart).err = none
    ∧ (∀ k, k ∈ (cycleRefs groupS1 0).cmap.keys ↔ FwdReach groupS1 0 k)
    ∧ ∃ vs : List Val,
        (step groupStart).stack
          = vs.map Frame.dropVal ++ [Frame.phase3 (cycleRefs groupS1 0).cmap.keys]
        ∧ ∀ m, m < 4 →
            ∃ v, (groupStart.heap[m]?).bind (·.value) = some v
              ∧ Frame.dropVal v ∈ (step groupStart).stack
              ∧ ∃ ob', (step groupStart).heap[m]? = some ob' ∧ ob'.strong = .uninit
                  ∧ ob'.value = none ∧ ob'.links = none := by
  have hlen : groupS1.heap.length = 6 := by decide +kernel
  have h := C03_group_rule groupStart 0 [] groupX 0
    [(⟨1, .fwd⟩, 1), (⟨1, .bwd⟩, 1), (⟨2, .fwd⟩, 1)]
    (by decide +kernel) (reachable_Inv groupStart_reachable) (by decide +kernel)
    (by decide +kernel) rfl rfl rfl
    (fun m hm => by
      have key : ∀ m ∈ [1, 3, 2, 0], groupS1.ext m = 0 ∧ groupS1.pend m = 0 := by decide +kernel
      exact key m ((groupS1_fwdReach m).mp hm))
    (fun m a hm ha hl => by
      have key : ∀ m ∈ [1, 3, 2, 0], ∀ a, a < 6 → a ∉ [1, 3, 2, 0] → groupS1.isLive a = true →
          groupS1.H a m = 0 := by decide +kernel
      exact key m ((groupS1_fwdReach m).mp hm) a (hlen ▸ State.isLive_lt hl)
        (fun h => ha ((groupS1_fwdReach a).mpr h)) hl)
    (fun m a hm ha => by
      have key : ∀ m ∈ [1, 3, 2, 0], ∀ a ∈ [1, 3, 2, 0], groupS1.H a m ≤ groupS1.F a m := by
        decide +kernel
      exact key m ((groupS1_fwdReach m).mp hm) a ((groupS1_fwdReach a).mp ha))
    (fun m a hm ha hl => by
      have key : ∀ m ∈ [1, 3, 2, 0], ∀ a, a < 6 → a ∉ [1, 3, 2, 0] → groupS1.isLive a = true →
          groupS1.F a m = 0 := by decide +kernel
      exact key m ((groupS1_fwdReach m).mp hm) a (hlen ▸ State.isLive_lt hl)
        (fun h => ha ((groupS1_fwdReach a).mpr h)) hl)
  obtain ⟨-, -, -, herr, hkeys, vs, hstack, hmem⟩ := h
  refine ⟨herr, hkeys, vs, by simpa using hstack, ?_⟩
  intro m hm
  obtain ⟨v, h1, -, h3, h4⟩ := hmem m ((groupS1_fwdReach m).mpr (by
    have : m = 0 ∨ m = 1 ∨ m = 2 ∨ m = 3 := by omega
    rcases this with rfl | rfl | rfl | rfl <;> simp))
  exact ⟨v, h1, h3, h4⟩

/-- the same step by evaluation: the four destructors and `phase3` on the stack, the outsiders
untouched -/
example : (step groupStart).stack =
      [.dropVal { vid := 1, held := [0], weaks := [], script := [], panics := false },
       .dropVal { vid := 2, held := [3], weaks := [], script := [], panics := false },
       .dropVal { vid := 0, held := [1, 2], weaks := [], script := [], panics := false },
       .dropVal { vid := 3, held := [], weaks := [], script := [], panics := false },
       .phase3 [1, 2, 0, 3]]
    ∧ (step groupStart).heap.map (·.strong) = [.uninit, .uninit, .uninit, .uninit, .cnt 1, .cnt 1] := by
  decide +kernel

/-- … and the whole operation: all four destructors have run when the `drop` returns; the three
allocations without Weak handles are released, y's is kept by its Weak; the outsiders are live -/
example : let s := run (groupBuild ++ [(.act (.drop 0), [])])
    s.err = none ∧ s.stack = []
    ∧ s.log = [.traced 1 4 5, .traced 2 2 2, .traced 3 1 1,      -- the three earlier drops
               .traced 0 4 5, .destroyed 1, .destroyed 2, .destroyed 0, .destroyed 3,
               .freed 2, .freed 0, .freed 3]
    ∧ s.isLive 4 = true ∧ s.isLive 5 = true ∧ (s.cell 1).isSome = true := by
  decide +kernel


/-! ## The cascade rule, as a statement about operation boundaries

"An object whose last strong handle disappears is destroyed immediately, and so, transitively, is
every object all of whose strong handles were owned by objects destroyed in that same step":
when an operation returns (the control stack is empty again) every object that is still live has
at least one strong handle held by the program or stored in a value that is still in place.  So
an object all of whose handles disappeared during the operation — dropped directly, or owned by
values destroyed in that operation, at any depth of the cascade — is not live any more when the
operation returns: its value has been moved out and its destructor has run (or is the husk of a
`try_unwrap`/`make_mut`).  Collection is synchronous, never deferred.  No hypothesis on the history. -/

theorem C03_no_live_object_without_a_handle {s : State} (h : Reachable s) (he : s.err = none)
    (hq : s.stack = []) {t : Nat} (hl : s.isLive t = true) : 0 < s.ext t + s.inHeap t := by
  have hC := (reachable_core h he).1.2.2.1 t hl
  have hp : s.pend t = 0 := by simp [State.pend, hq, State.sumList]
  have := State.strongNat_pos_of_isLive hl
  omega

/-- contrapositive form: an object with no handle left at an operation boundary is dead, its value
is gone -/
theorem C03_handleless_object_is_destroyed {s : State} (h : Reachable s) (he : s.err = none)
    (hq : s.stack = []) {t : Nat} {ob : Obj} (hg : s.heap[t]? = some ob)
    (h0 : s.ext t + s.inHeap t = 0) : ob.value = none := by
  have hO := (reachable_core h he).1.1 t ob hg
  cases hs : ob.strong with
  | uninit => exact (hO.2.2.1 hs).1
  | cnt n =>
    cases n with
    | zero => exact (hO.2.1 hs).1
    | succ n =>
      have hf := (hO.1 n hs).2.2.1
      have hl : s.isLive t = true := (State.isLive_eq_true_iff s t).mpr ⟨ob, n, hg, hf, hs⟩
      have := C03_no_live_object_without_a_handle h he hq hl
      omega

/-- the cascade rule instantiated on the history of the positive instance above, after the
collecting `drop` has returned: the two objects that are still live (the outsiders 4 and 5) each have
a handle, and y (object 1), all of whose handles were owned by values destroyed in that operation,
has had its value destroyed although its allocation is kept by a Weak -/
example : 0 < (run (groupBuild ++ [(.act (.drop 0), [])])).ext 5
      + (run (groupBuild ++ [(.act (.drop 0), [])])).inHeap 5 :=
  C03_no_live_object_without_a_handle (run_reachable _) (by decide +kernel) (by decide +kernel)
    (by decide +kernel)

example : ∀ ob, (run (groupBuild ++ [(.act (.drop 0), [])])).heap[1]? = some ob → ob.value = none :=
  fun _ hg => C03_handleless_object_is_destroyed (run_reachable _) (by decide +kernel)
    (by decide +kernel) hg (by decide +kernel)

example : let s := run (groupBuild ++ [(.act (.drop 0), [])])
    s.ext 5 = 0 ∧ s.inHeap 5 = 1 ∧ s.ext 1 + s.inHeap 1 = 0 ∧ s.wroots = [1]
    ∧ (s.heap[1]?).map (fun ob => (ob.strong, ob.weak, ob.value.isSome, ob.freed))
        = some (.uninit, 1, false, false) := by
  decide +kernel

end Cactus
