import Cactus.Lemmas.Release
import Cactus.Lemmas.Basic
/-!
# C04 — destroyed objects return all memory

In the model the allocation of an object is `freed`, its table is `links` (`none` once dropped)
and its value `value`.  What is proved here:
* one-step lemmas about the release steps: `C04_decWeak_frees_iff`, `C04_finishSingle`,
  `C04_no_double_release`;
* whole panic-free histories (`ReachableNP`), at operation boundaries:
  `C04_destroyed_objects_return_memory`, `C04_fully_collected_graph_leaks_nothing`;
* example: one history in which objects die by every path (collected group, zero count with
  adoptions, plain last-handle drop, `try_unwrap`), the theorems instantiated at every object.
Not proved: the real allocator and hashbrown's buffer policy are abstracted; the harness observes
exact `RcBox` block counts per step (the `F`/`heap` channels) and the end-of-history byte balance.
Histories with panicking destructors legitimately leak (C11) and are excluded.
-/
namespace Cactus
open State

/-- releasing a weak reference frees the allocation exactly when it was the last one; a second
release is impossible because a released allocation is not a `cell` any more -/
theorem C04_decWeak_frees_iff (s : State) (o : Nat) (ob : Obj) (imp : Bool) (hc : s.cell o = some ob)
    (w : Nat) (hw : ob.weak = w + 1) :
    ((s.decWeakFree o imp).cell o = none ↔ w = 0) ∧ (s.decWeakFree o imp).err = s.err := by
  unfold State.decWeakFree
  simp only [hc]
  have hf := (cell_some_get s o ob hc).2
  cases w with
  | zero =>
    simp only [hw]
    constructor
    · have hlt := cell_some_lt s o ob hc
      simp [State.emit, State.cell, State.setObj, List.getElem?_set_self hlt]
    · rfl
  | succ w =>
    simp only [hw]
    constructor
    · rw [cell_setObj_same s o ob _ hc]; simp [hf]
    · rfl

/-- the rest of `drop_unreachable*` after the value has been destroyed: the table is dropped and
the implicit weak reference released, so without Weak handles (`weak = 1`) the allocation is freed
and with Weak handles only the bare allocation (no value, no table) survives -/
theorem C04_finishSingle (s : State) (o : Nat) (ob : Obj) (t : Table) (hc : s.cell o = some ob)
    (hl : ob.links = some t) (w : Nat) (hw : ob.weak = w + 1) :
    (s.finishSingle o).heap = s.heap.set o { ob with links := none, weak := w, freed := decide (w = 0), implicit := false }
    ∧ (s.finishSingle o).err = s.err := by
  unfold State.finishSingle
  simp only [hc, hl]
  have hf := (cell_some_get s o ob hc).2
  have hlt := cell_some_lt s o ob hc
  unfold State.decWeakFree
  rw [cell_setObj_same s o ob _ hc]
  simp only [hf]
  cases w with
  | zero => simp [hw, State.setObj, State.emit]
  | succ w => simp [hw, State.setObj, hf]

/-- an allocation is never released twice: releasing a released allocation is reported as an
error, never silently performed -/
theorem C04_no_double_release (s : State) (o : Nat) (imp : Bool) (h : s.cell o = none) (he : s.err = none) :
    (s.decWeakFree o imp).err = some (.uaf o) ∧ (s.decWeakFree o imp).heap = s.heap := by
  unfold State.decWeakFree
  simp [h, fail_err_of_none _ _ he]

example : (({ heap := [{ strong := .uninit, weak := 1, links := some [], value := none, freed := false }] } : State).finishSingle 0).heap
    = [{ strong := .uninit, weak := 0, links := none, value := none, freed := true, implicit := false }] := by decide


/-! ## Over whole panic-free histories

A panicking destructor legitimately leaks the allocations of the interrupted teardown (C11), so
the exact-release statement is about executions in which no destructor panics (`ReachableNP`:
no `setPanic` anywhere).  -/

/-- **C04.** Between operations, for every object whose value has been destroyed (or moved out by
`try_unwrap`/`make_mut`): its link table and value are gone, its implicit weak reference has been
released, and its allocation is released exactly when no Weak handle to it remains — for every
path by which it died (plain last-handle drop, zero count with adoptions, member of a collected
group). -/
theorem C04_destroyed_objects_return_memory {s : State} (h : ReachableNP s) (he : s.err = none)
    (hq : s.stack = []) {o : Nat} {ob : Obj} (hg : s.heap[o]? = some ob) (hd : ob.strong.isDead = true) :
    ob.links = none ∧ ob.value = none ∧ ob.implicit = false
      ∧ (ob.freed = true ↔ s.extW o + s.inHeapW o = 0) :=
  C04_dead_object_released h he hq hg hd

/-- after a history in which every object has been destroyed and every Weak dropped, every
allocation has been released -/
theorem C04_fully_collected_graph_leaks_nothing {s : State} (h : ReachableNP s) (he : s.err = none)
    (hq : s.stack = []) (hall : ∀ (o : Nat) (ob : Obj), s.heap[o]? = some ob → ob.strong.isDead = true)
    (hw : s.wroots = []) (hv : s.vals = []) :
    ∀ (o : Nat) (ob : Obj), s.heap[o]? = some ob → ob.freed = true :=
  C04_all_collected_nothing_left h he hq hall hw hv

/-! ## Non-vacuity: every path by which an object dies, in one panic-free history

A two-cycle `0 ↔ 1` with a Weak to member 0 (collected group); `2 → 3` adopted but acyclic (zero
count with adoptions, then a cascade); object 4 plain (last-handle drop); object 5 unwrapped by
`try_unwrap` while a Weak to it exists (given up).  First the glue that turns "no `setPanic` in the
history" into `ReachableNP (run ops)`. -/

instance : DecidablePred Act.noPanic := fun a => by
  cases a <;> simp only [Act.noPanic] <;> infer_instance

instance : DecidablePred Op.noPanic := fun o => by
  cases o <;> simp only [Op.noPanic] <;> infer_instance

theorem drain_reachableNP (f : Nat) (s : State) (h : ReachableNP s) : ReachableNP (drain f s) := by
  induction f generalizing s with
  | zero =>
    unfold drain
    split
    · exact h
    · exact .outOfFuel h
  | succ f ih =>
    unfold drain
    split
    · exact ih _ (.step h)
    · exact h

theorem foldl_execOp_reachableNP (fuel : Nat) (ops : List (Op × List Nat))
    (hops : ∀ oh ∈ ops, oh.1.noPanic) (s : State)
    (hr : ReachableNP s) (hq : s.err = none → s.stack = []) :
    ReachableNP (ops.foldl (fun s oh => execOp fuel s oh.1 oh.2) s)
    ∧ ((ops.foldl (fun s oh => execOp fuel s oh.1 oh.2) s).err = none →
        (ops.foldl (fun s oh => execOp fuel s oh.1 oh.2) s).stack = []) := by
  induction ops generalizing s with
  | nil => exact ⟨hr, hq⟩
  | cons oh rest ih =>
    simp only [List.foldl_cons]
    apply ih (fun x hx => hops x (List.mem_cons_of_mem _ hx))
    · unfold execOp
      split
      · exact hr
      · rename_i he
        exact .endOp (drain_reachableNP fuel _ (.op oh.1 oh.2 hr (hq he) (hops oh List.mem_cons_self)))
    · exact execOp_quiescent fuel s oh.1 oh.2 hq

theorem run_reachableNP (ops : List (Op × List Nat)) (hops : ∀ oh ∈ ops, oh.1.noPanic) :
    ReachableNP (run ops) ∧ ((run ops).err = none → (run ops).stack = []) :=
  foldl_execOp_reachableNP defaultFuel ops hops {} .init (fun _ => rfl)

def releaseHistory : List (Op × List Nat) :=
  [(.act .new, []), (.act .new, []),
   (.act (.clone 1), []), (.act (.link 2 0), []),     -- 0 → 1
   (.act (.clone 0), []), (.act (.link 2 1), []),     -- 1 → 0: a two-cycle
   (.act (.downgrade 0), []),                         -- Weak to member 0
   (.act .new, []), (.act .new, []),                  -- objects 2, 3
   (.act (.link 3 2), []),                            -- 2 → 3: adopted, acyclic
   (.act .new, []),                                   -- object 4: plain
   (.act .new, []), (.act (.downgrade 4), []),        -- object 5 and a Weak to it
   (.act (.tryUnwrap 4), []), (.act (.dropValue 0), []),  -- 5 unwrapped (given up), value dropped
   (.act (.drop 1), []),                              -- program's handle to 1
   (.act (.drop 0), []),                              -- handle to 0: the group {0, 1} is collected
   (.act (.drop 0), []),                              -- last handle to 2: zero count with adoptions
   (.act (.drop 0), [])]                              -- last handle to 4: plain last-handle drop
theorem releaseHistory_noPanic : ∀ oh ∈ releaseHistory, oh.1.noPanic := by decide

theorem releaseHistory_noErr : (run releaseHistory).err = none := by decide +kernel

/-- the final state by evaluation: (strong, weak, table gone, value present, freed, implicit) per object;
all six are dead, 0 and 5 are kept allocated by the two Weak handles `[0, 5]` -/
example : let s := run releaseHistory
    s.roots = [] ∧ s.wroots = [0, 5] ∧ s.vals = [] ∧ s.stack = []
    ∧ s.heap.map (fun ob => (ob.strong, ob.weak, ob.links.isNone, ob.value.isSome, ob.freed, ob.implicit))
      = [(.uninit, 1, true, false, false, false), (.uninit, 0, true, false, true, false),
         (.uninit, 0, true, false, true, false), (.uninit, 0, true, false, true, false),
         (.uninit, 0, true, false, true, false), (.cnt 0, 1, true, false, false, false)]
    ∧ s.log = [.ret 1, .destroyed 5, .traced 1 2 3, .traced 0 2 3, .destroyed 1, .destroyed 0, .freed 1,
               .destroyed 2, .destroyed 3, .freed 3, .freed 2, .destroyed 4, .freed 4] := by
  decide +kernel

/-- `C04_destroyed_objects_return_memory` instantiated at every object of that state: table and
value gone, implicit weak released, allocation released iff no Weak handle remains -/
example (o : Nat) (ob : Obj) (hg : (run releaseHistory).heap[o]? = some ob) :
    ob.links = none ∧ ob.value = none ∧ ob.implicit = false
      ∧ (ob.freed = true ↔ (run releaseHistory).extW o + (run releaseHistory).inHeapW o = 0) := by
  have hd : ∀ ob ∈ (run releaseHistory).heap, ob.strong.isDead = true := by decide +kernel
  exact C04_destroyed_objects_return_memory (run_reachableNP releaseHistory releaseHistory_noPanic).1
    releaseHistory_noErr (by decide +kernel) hg (hd ob (List.mem_of_getElem? hg))

/-- in particular member 0 of the collected group is not released (one Weak handle), member 1 is -/
example : (run releaseHistory).extW 0 + (run releaseHistory).inHeapW 0 = 1
    ∧ (run releaseHistory).extW 1 + (run releaseHistory).inHeapW 1 = 0 := by decide +kernel

/-- after the two Weak handles are dropped as well, the hypotheses of
`C04_fully_collected_graph_leaks_nothing` hold and every allocation has been released -/
def releaseAllHistory : List (Op × List Nat) :=
  releaseHistory ++ [(.act (.dropWeak 0), []), (.act (.dropWeak 0), [])]

example (o : Nat) (ob : Obj) (hg : (run releaseAllHistory).heap[o]? = some ob) : ob.freed = true := by
  have hd : ∀ ob ∈ (run releaseAllHistory).heap, ob.strong.isDead = true := by decide +kernel
  exact C04_fully_collected_graph_leaks_nothing
    (run_reachableNP releaseAllHistory (by decide)).1 (by decide +kernel) (by decide +kernel)
    (fun o ob hg => hd ob (List.mem_of_getElem? hg)) (by decide +kernel) (by decide +kernel) o ob hg

example : (run releaseAllHistory).heap.map (·.freed) = [true, true, true, true, true, true]
    ∧ (run releaseAllHistory).log.drop 13 = [.freed 0, .freed 5] := by decide +kernel

end Cactus
