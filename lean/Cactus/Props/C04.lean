import Cactus.Lemmas.Release
import Cactus.Lemmas.Basic
/-!
# C04 — destroyed objects return all memory (first layer: the release steps)

In the model the allocation of an object is `freed`, its table is `links` (`none` once dropped)
and its value `value`.  The real allocator and hashbrown's buffer policy are abstracted; the
harness observes exact `RcBox` block counts per step and net-zero bytes per history (channel A).
-/
namespace Cactus
open State

/-- releasing a weak reference frees the allocation exactly when it was the last one; a second
release is impossible because a released allocation is not a `cell` any more -/
theorem C04_decWeak_frees_iff (s : State) (o : Nat) (ob : Obj) (imp : Bool) (hc : s.cell o = some ob)
    (w : Nat) (hw : ob.weak = w + 1) :
    ((s.decWeakFree o imp).cell o = none ↔ w = 0) ∧ (s.decWeakFree o imp).err = s.err := by
  unfold State.decWeakFree
  simp only [hc]
  have hf := (cell_some_get s o ob hc).2
  cases w with
  | zero =>
    simp only [hw]
    constructor
    · have hlt := cell_some_lt s o ob hc
      simp [State.emit, State.cell, State.setObj, List.getElem?_set_self hlt]
    · rfl
  | succ w =>
    simp only [hw]
    constructor
    · rw [cell_setObj_same s o ob _ hc]; simp [hf]
    · rfl

/-- the rest of `drop_unreachable*` after the value has been destroyed: the table is dropped and
the implicit weak reference released, so without Weak handles (`weak = 1`) the allocation is freed
and with Weak handles only the bare allocation (no value, no table) survives -/
theorem C04_finishSingle (s : State) (o : Nat) (ob : Obj) (t : Table) (hc : s.cell o = some ob)
    (hl : ob.links = some t) (w : Nat) (hw : ob.weak = w + 1) :
    (s.finishSingle o).heap = s.heap.set o { ob with links := none, weak := w, freed := decide (w = 0), implicit := false }
    ∧ (s.finishSingle o).err = s.err := by
  unfold State.finishSingle
  simp only [hc, hl]
  have hf := (cell_some_get s o ob hc).2
  have hlt := cell_some_lt s o ob hc
  unfold State.decWeakFree
  rw [cell_setObj_same s o ob _ hc]
  simp only [hf]
  cases w with
  | zero => simp [hw, State.setObj, State.emit]
  | succ w => simp [hw, State.setObj, hf]

/-- an allocation is never released twice: releasing a released allocation is reported as an
error, never silently performed -/
theorem C04_no_double_release (s : State) (o : Nat) (imp : Bool) (h : s.cell o = none) (he : s.err = none) :
    (s.decWeakFree o imp).err = some (.uaf o) ∧ (s.decWeakFree o imp).heap = s.heap := by
  unfold State.decWeakFree
  simp [h, fail_err_of_none _ _ he]

example : (({ heap := [{ strong := .uninit, weak := 1, links := some [], value := none, freed := false }] } : State).finishSingle 0).heap
    = [{ strong := .uninit, weak := 0, links := none, value := none, freed := true, implicit := false }] := by decide


/-! ## Over whole panic-free histories

A panicking destructor legitimately leaks the allocations of the interrupted teardown (C11), so
the exact-release statement is about executions in which no destructor panics (`ReachableNP`:
no `setPanic` anywhere).  -/

/-- **C04.** Between operations, for every object whose value has been destroyed (or moved out by
`try_unwrap`/`make_mut`): its link table and value are gone, its implicit weak reference has been
released, and its allocation is released exactly when no Weak handle to it remains — for every
path by which it died (plain last-handle drop, zero count with adoptions, member of a collected
group). -/
theorem C04_destroyed_objects_return_memory {s : State} (h : ReachableNP s) (he : s.err = none)
    (hq : s.stack = []) {o : Nat} {ob : Obj} (hg : s.heap[o]? = some ob) (hd : ob.strong.isDead = true) :
    ob.links = none ∧ ob.value = none ∧ ob.implicit = false
      ∧ (ob.freed = true ↔ s.extW o + s.inHeapW o = 0) :=
  C04_dead_object_released h he hq hg hd

/-- after a history in which every object has been destroyed and every Weak dropped, every
allocation has been released -/
theorem C04_fully_collected_graph_leaks_nothing {s : State} (h : ReachableNP s) (he : s.err = none)
    (hq : s.stack = []) (hall : ∀ (o : Nat) (ob : Obj), s.heap[o]? = some ob → ob.strong.isDead = true)
    (hw : s.wroots = []) (hv : s.vals = []) :
    ∀ (o : Nat) (ob : Obj), s.heap[o]? = some ob → ob.freed = true :=
  C04_all_collected_nothing_left h he hq hall hw hv

end Cactus
