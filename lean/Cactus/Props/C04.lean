import Cactus.Lemmas.Release
import Cactus.Lemmas.ReleaseSem
import Cactus.Lemmas.Basic
import Cactus.Lemmas.Shared.OneStep   -- `Shared.decWeakFree_released` (also used by `Props/C02.lean`)
/-!
# C04 — destroyed objects return all memory

In the model the allocation of an object is `freed`, its table is `links` (`none` once dropped)
and its value `value`.  What is proved here:
* one-step lemmas about the release steps: `C04_decWeak_frees_iff`, `C04_finishSingle`,
  `C04_no_double_release`;
* whole panic-free histories (`ReachableNP`), at operation boundaries:
  `C04_destroyed_objects_return_memory`, `C04_fully_collected_graph_leaks_nothing`;
* example: one history in which objects die by every path (collected group, zero count with
  adoptions, plain last-handle drop, `try_unwrap`), the theorems instantiated at every object;
* **no leak without a panic** (last section): the syntactic restriction `ReachableNP` replaced by
  a semantic one, for *every* history (`Reachable`, `setPanic` allowed):
  `C04_release_invariant_lost_only_by_panic` (in every reachable state the release invariant
  `InvN` holds unless a panic is unwinding, a panic has been caught — `Ev.panicked ∈ log` — or the
  machine has stopped with an error; the only machine step that can lose it is that of a `panic`
  frame, `C04_only_the_panic_frame_loses_it`), `C04_no_leak_without_a_panic` and
  `C04_no_panic_so_far_leaks_nothing` (the two whole-history results for every state at an
  operation boundary with no `Ev.panicked` in its log), with an example that uses `setPanic`
  (old theorems silent, new one applies) and one in which a destructor does panic (the
  hypothesis is necessary: a dead object without Weak handles stays allocated).
Not proved: the real allocator and hashbrown's buffer policy are abstracted; the harness observes
exact `RcBox` block counts per step (the `F`/`heap` channels) and the end-of-history byte balance.
Executions in which a destructor has panicked legitimately leak (C11) and are excluded — by the
syntactic `ReachableNP` in the first whole-history section, by "no `Ev.panicked` logged so far" in
the last.
-/
namespace Cactus
open State

/-- releasing a weak reference frees the allocation exactly when it was the last one; a second
release is impossible because a released allocation is not a `cell` any more -/
theorem C04_decWeak_frees_iff (s : State) (o : Nat) (ob : Obj) (imp : Bool) (hc : s.cell o = some ob)
    (w : Nat) (hw : ob.weak = w + 1) :
    ((s.decWeakFree o imp).cell o = none ↔ w = 0) ∧ (s.decWeakFree o imp).err = s.err := by
  unfold State.decWeakFree
  simp only [hc]
  have hf := (cell_some_get s o ob hc).2
  cases w with
  | zero =>
    simp only [hw]
    constructor
    · have hlt := cell_some_lt s o ob hc
      simp [State.emit, State.cell, State.setObj, List.getElem?_set_self hlt]
    · rfl
  | succ w =>
    simp only [hw]
    constructor
    · rw [cell_setObj_same s o ob _ hc]; simp [hf]
    · rfl

/-- the rest of `drop_unreachable*` after the value has been destroyed: the table is dropped and
the implicit weak reference released, so without Weak handles (`weak = 1`) the allocation is freed
and with Weak handles only the bare allocation (no value, no table) survives -/
theorem C04_finishSingle (s : State) (o : Nat) (ob : Obj) (t : Table) (hc : s.cell o = some ob)
    (hl : ob.links = some t) (w : Nat) (hw : ob.weak = w + 1) :
    (s.finishSingle o).heap = s.heap.set o { ob with links := none, weak := w, freed := decide (w = 0), implicit := false }
    ∧ (s.finishSingle o).err = s.err := by
  unfold State.finishSingle
  simp only [hc, hl]
  have hf := (cell_some_get s o ob hc).2
  have hlt := cell_some_lt s o ob hc
  unfold State.decWeakFree
  rw [cell_setObj_same s o ob _ hc]
  simp only [hf]
  cases w with
  | zero => simp [hw, State.setObj, State.emit]
  | succ w => simp [hw, State.setObj, hf]

/-- an allocation is never released twice: releasing a released allocation is reported as an
error, never silently performed -/
theorem C04_no_double_release (s : State) (o : Nat) (imp : Bool) (h : s.cell o = none) (he : s.err = none) :
    (s.decWeakFree o imp).err = some (.uaf o) ∧ (s.decWeakFree o imp).heap = s.heap :=
  Shared.decWeakFree_released s o imp h he

example : (({ heap := [{ strong := .uninit, weak := 1, links := some [], value := none, freed := false }] } : State).finishSingle 0).heap
    = [{ strong := .uninit, weak := 0, links := none, value := none, freed := true, implicit := false }] := by decide


/-! ## Over whole panic-free histories

A panicking destructor legitimately leaks the allocations of the interrupted teardown (C11), so
the exact-release statement is about executions in which no destructor panics (`ReachableNP`:
no `setPanic` anywhere).  -/

/-- **C04.** Between operations, for every object whose value has been destroyed (or moved out by
`try_unwrap`/`make_mut`): its link table and value are gone, its implicit weak reference has been
released, and its allocation is released exactly when no Weak handle to it remains — for every
path by which it died (plain last-handle drop, zero count with adoptions, member of a collected
group). -/
theorem C04_destroyed_objects_return_memory {s : State} (h : ReachableNP s) (he : s.err = none)
    (hq : s.stack = []) {o : Nat} {ob : Obj} (hg : s.heap[o]? = some ob) (hd : ob.strong.isDead = true) :
    ob.links = none ∧ ob.value = none ∧ ob.implicit = false
      ∧ (ob.freed = true ↔ s.extW o + s.inHeapW o = 0) :=
  C04_dead_object_released h he hq hg hd

/-- after a history in which every object has been destroyed and every Weak dropped, every
allocation has been released -/
theorem C04_fully_collected_graph_leaks_nothing {s : State} (h : ReachableNP s) (he : s.err = none)
    (hq : s.stack = []) (hall : ∀ (o : Nat) (ob : Obj), s.heap[o]? = some ob → ob.strong.isDead = true)
    (hw : s.wroots = []) (hv : s.vals = []) :
    ∀ (o : Nat) (ob : Obj), s.heap[o]? = some ob → ob.freed = true :=
  C04_all_collected_nothing_left h he hq hall hw hv

/-! ## Non-vacuity: every path by which an object dies, in one panic-free history

A two-cycle `0 ↔ 1` with a Weak to member 0 (collected group); `2 → 3` adopted but acyclic (zero
count with adoptions, then a cascade); object 4 plain (last-handle drop); object 5 unwrapped by
`try_unwrap` while a Weak to it exists (given up).  First the glue that turns "no `setPanic` in the
history" into `ReachableNP (run ops)`. -/

instance : DecidablePred Act.noPanic := fun a => by
  cases a <;> simp only [Act.noPanic] <;> infer_instance

instance : DecidablePred Op.noPanic := fun o => by
  cases o <;> simp only [Op.noPanic] <;> infer_instance

theorem drain_reachableNP (f : Nat) (s : State) (h : ReachableNP s) : ReachableNP (drain f s) := by
  induction f generalizing s with
  | zero =>
    unfold drain
    split
    · exact h
    · exact .outOfFuel h
  | succ f ih =>
    unfold drain
    split
    · exact ih _ (.step h)
    · exact h

theorem foldl_execOp_reachableNP (fuel : Nat) (ops : List (Op × List Nat))
    (hops : ∀ oh ∈ ops, oh.1.noPanic) (s : State)
    (hr : ReachableNP s) (hq : s.err = none → s.stack = []) :
    ReachableNP (ops.foldl (fun s oh => execOp fuel s oh.1 oh.2) s)
    ∧ ((ops.foldl (fun s oh => execOp fuel s oh.1 oh.2) s).err = none →
        (ops.foldl (fun s oh => execOp fuel s oh.1 oh.2) s).stack = []) := by
  induction ops generalizing s with
  | nil => exact ⟨hr, hq⟩
  | cons oh rest ih =>
    simp only [List.foldl_cons]
    apply ih (fun x hx => hops x (List.mem_cons_of_mem _ hx))
    · unfold execOp
      split
      · exact hr
      · rename_i he
        exact .endOp (drain_reachableNP fuel _ (.op oh.1 oh.2 hr (hq he) (hops oh List.mem_cons_self)))
    · exact execOp_quiescent fuel s oh.1 oh.2 hq

theorem run_reachableNP (ops : List (Op × List Nat)) (hops : ∀ oh ∈ ops, oh.1.noPanic) :
    ReachableNP (run ops) ∧ ((run ops).err = none → (run ops).stack = []) :=
  foldl_execOp_reachableNP defaultFuel ops hops {} .init (fun _ => rfl)

def releaseHistory : List (Op × List Nat) :=
  [(.act .new, []), (.act .new, []),
   (.act (.clone 1), []), (.act (.link 2 0), []),     -- 0 → 1
   (.act (.clone 0), []), (.act (.link 2 1), []),     -- 1 → 0: a two-cycle
   (.act (.downgrade 0), []),                         -- Weak to member 0
   (.act .new, []), (.act .new, []),                  -- objects 2, 3
   (.act (.link 3 2), []),                            -- 2 → 3: adopted, acyclic
   (.act .new, []),                                   -- object 4: plain
   (.act .new, []), (.act (.downgrade 4), []),        -- object 5 and a Weak to it
   (.act (.tryUnwrap 4), []), (.act (.dropValue 0), []),  -- 5 unwrapped (given up), value dropped
   (.act (.drop 1), []),                              -- program's handle to 1
   (.act (.drop 0), []),                              -- handle to 0: the group {0, 1} is collected
   (.act (.drop 0), []),                              -- last handle to 2: zero count with adoptions
   (.act (.drop 0), [])]                              -- last handle to 4: plain last-handle drop
theorem releaseHistory_noPanic : ∀ oh ∈ releaseHistory, oh.1.noPanic := by decide

theorem releaseHistory_noErr : (run releaseHistory).err = none := by decide +kernel

/-- the final state by evaluation: (strong, weak, table gone, value present, freed, implicit) per object;
all six are dead, 0 and 5 are kept allocated by the two Weak handles `[0, 5]` -/
example : let s := run releaseHistory
    s.roots = [] ∧ s.wroots = [0, 5] ∧ s.vals = [] ∧ s.stack = []
    ∧ s.heap.map (fun ob => (ob.strong, ob.weak, ob.links.isNone, ob.value.isSome, ob.freed, ob.implicit))
      = [(.uninit, 1, true, false, false, false), (.uninit, 0, true, false, true, false),
         (.uninit, 0, true, false, true, false), (.uninit, 0, true, false, true, false),
         (.uninit, 0, true, false, true, false), (.cnt 0, 1, true, false, false, false)]
    ∧ s.log = [.ret 1, .destroyed 5, .traced 1 2 3, .traced 0 2 3, .destroyed 1, .destroyed 0, .freed 1,
               .destroyed 2, .destroyed 3, .freed 3, .freed 2, .destroyed 4, .freed 4] := by
  decide +kernel

/-- `C04_destroyed_objects_return_memory` instantiated at every object of that state: table and
value gone, implicit weak released, allocation released iff no Weak handle remains -/
example (o : Nat) (ob : Obj) (hg : (run releaseHistory).heap[o]? = some ob) :
    ob.links = none ∧ ob.value = none ∧ ob.implicit = false
      ∧ (ob.freed = true ↔ (run releaseHistory).extW o + (run releaseHistory).inHeapW o = 0) := by
  have hd : ∀ ob ∈ (run releaseHistory).heap, ob.strong.isDead = true := by decide +kernel
  exact C04_destroyed_objects_return_memory (run_reachableNP releaseHistory releaseHistory_noPanic).1
    releaseHistory_noErr (by decide +kernel) hg (hd ob (List.mem_of_getElem? hg))

/-- in particular member 0 of the collected group is not released (one Weak handle), member 1 is -/
example : (run releaseHistory).extW 0 + (run releaseHistory).inHeapW 0 = 1
    ∧ (run releaseHistory).extW 1 + (run releaseHistory).inHeapW 1 = 0 := by decide +kernel

/-- after the two Weak handles are dropped as well, the hypotheses of
`C04_fully_collected_graph_leaks_nothing` hold and every allocation has been released -/
def releaseAllHistory : List (Op × List Nat) :=
  releaseHistory ++ [(.act (.dropWeak 0), []), (.act (.dropWeak 0), [])]

example (o : Nat) (ob : Obj) (hg : (run releaseAllHistory).heap[o]? = some ob) : ob.freed = true := by
  have hd : ∀ ob ∈ (run releaseAllHistory).heap, ob.strong.isDead = true := by decide +kernel
  exact C04_fully_collected_graph_leaks_nothing
    (run_reachableNP releaseAllHistory (by decide)).1 (by decide +kernel) (by decide +kernel)
    (fun o ob hg => hd ob (List.mem_of_getElem? hg)) (by decide +kernel) (by decide +kernel) o ob hg

example : (run releaseAllHistory).heap.map (·.freed) = [true, true, true, true, true, true]
    ∧ (run releaseAllHistory).log.drop 13 = [.freed 0, .freed 5] := by decide +kernel

end Cactus

namespace Cactus
open State

/-! ## No leak without a panic

The section above excludes panics *syntactically*: `ReachableNP` forbids every `setPanic` in the
history, although a value that has been told to panic leaks nothing as long as its destructor has not
run.  Here the hypothesis is about what the execution did: the statements hold for **every**
history (`Reachable`), at every operation boundary at which no destructor has panicked so far — no
`Ev.panicked` in the log (`endOp`, the `catch_unwind` at the operation boundary, logs it when the
operation unwound).

The invariant behind C04 is `State.InvN`: an implicit weak reference that a dead object still owns
is owed by exactly one pending frame (`finishSingle` or `phase3`).  A panicking destructor discards
those frames (`State.panic` filters the stack down to the cleanup frames), and that is the only way
in which the invariant is ever lost. -/

/-- **The release invariant is lost only by a panic.**  In every reachable state — any history,
`setPanic` allowed — `InvN` holds, or a destructor panic is unwinding right now, or one has been
caught at an earlier operation boundary, or the machine has stopped with an error (abort on a double
panic, fuel, a history outside the contract of the handle table). -/
theorem C04_release_invariant_lost_only_by_panic {s : State} (h : Reachable s) :
    s.InvN ∨ s.unwinding = true ∨ Ev.panicked ∈ s.log ∨ s.err ≠ none :=
  reachable_invN_or_panic h

/-- … and the transition that loses it is the step of a `panic` frame, no other: every machine step
whose top frame is not `panic` preserves `InvN` (no hypothesis about what the values in the state
could do later), and so do the operations (`applyOp_InvN`) and `catch_unwind` (`endOp`); the step of a
`panic` frame starts unwinding (or aborts). -/
theorem C04_only_the_panic_frame_loses_it (s : State) (hI : s.Inv) (hR : s.InvR) (hN : s.InvN) :
    ((∀ rest, s.stack ≠ .panic :: rest) → (step s).err = none →
        (step s).InvN ∧ (step s).unwinding = s.unwinding)
    ∧ (∀ op, (applyOp s op).err = none → (applyOp s op).InvN ∧ (applyOp s op).unwinding = s.unwinding)
    ∧ (endOp s).InvN
    ∧ (∀ rest, s.err = none → s.stack = .panic :: rest →
        (step s).unwinding = true ∨ (step s).err ≠ none) :=
  ⟨fun htop he => ⟨step_InvN_of_not_panic s hI hR hN htop he, ReleaseSem.step_unw_eq_of_not_panic s htop⟩,
   fun op he => ⟨applyOp_InvN s op hI hR hN he, ReleaseSem.applyOp_unw s op⟩,
   endOp_InvN_of_InvN s hN,
   fun _ herr hst => step_panic_frame s herr hst⟩

/-- **C04, no leak without a panic.**  Between operations of any execution in which no destructor
has panicked so far (whatever the program could have done: values set to panic may be alive in the
heap), for every object whose value has been destroyed (or moved out): its link table and value are
gone, its implicit weak reference has been released, and its allocation is released exactly when no
Weak handle to it remains. -/
theorem C04_no_leak_without_a_panic {s : State} (h : Reachable s) (he : s.err = none)
    (hq : s.stack = []) (hu : s.unwinding = false) (hl : Ev.panicked ∉ s.log)
    {o : Nat} {ob : Obj} (hg : s.heap[o]? = some ob) (hd : ob.strong.isDead = true) :
    ob.links = none ∧ ob.value = none ∧ ob.implicit = false
      ∧ (ob.freed = true ↔ s.extW o + s.inHeapW o = 0) :=
  C04_dead_object_released_sem h he hq hu hl hg hd

/-- after any history in which no destructor has panicked, every object has been destroyed and every
Weak (and unwrapped value) dropped, every allocation has been released -/
theorem C04_no_panic_so_far_leaks_nothing {s : State} (h : Reachable s) (he : s.err = none)
    (hq : s.stack = []) (hu : s.unwinding = false) (hl : Ev.panicked ∉ s.log)
    (hall : ∀ (o : Nat) (ob : Obj), s.heap[o]? = some ob → ob.strong.isDead = true)
    (hw : s.wroots = []) (hv : s.vals = []) :
    ∀ (o : Nat) (ob : Obj), s.heap[o]? = some ob → ob.freed = true :=
  C04_all_collected_nothing_left_sem h he hq hu hl hall hw hv

/-- the states produced by `run` are at an operation boundary: never unwinding -/
theorem run_not_unwinding (ops : List (Op × List Nat)) (he : (run ops).err = none) :
    (run ops).unwinding = false := by
  unfold run at he ⊢
  generalize hs0 : ({} : State) = s0 at he ⊢
  have h0 : s0.unwinding = false := by subst hs0; rfl
  clear hs0
  induction ops generalizing s0 with
  | nil => exact h0
  | cons oh rest ih =>
    simp only [List.foldl_cons] at he ⊢
    refine ih _ he ?_
    unfold execOp
    split
    · exact h0
    · exact ReleaseSem.endOp_unw _

/-! ### (a) A history that uses `setPanic` and leaks nothing

The ring `0 ↔ 1` (with a Weak to member 0) is collected completely while object 2, whose destructor
has been told to panic, stays alive.  The history is not `noPanic`, so `ReachableNP` and the theorems
of the section above say nothing about it; no destructor has panicked, so the new theorem applies. -/

def armedHistory : List (Op × List Nat) :=
  [(.act .new, []), (.act .new, []),
   (.act (.clone 1), []), (.act (.link 2 0), []),     -- 0 → 1
   (.act (.clone 0), []), (.act (.link 2 1), []),     -- 1 → 0: a two-cycle
   (.act (.downgrade 0), []),                         -- Weak to member 0
   (.act .new, []),                                   -- object 2
   (.act (.setPanic 2), []),                          -- … whose destructor will panic
   (.act (.drop 1), []),                              -- program's handle to 1
   (.act (.drop 0), [])]                              -- handle to 0: the group {0, 1} is collected

/-- outside the syntactic class -/
example : ¬ ∀ oh ∈ armedHistory, oh.1.noPanic := by decide

/-- the final state by evaluation: object 2 alive and armed, 0 and 1 dead, no panic logged -/
example : let s := run armedHistory
    s.roots = [2] ∧ s.wroots = [0] ∧ s.vals = [] ∧ s.stack = [] ∧ s.err = none ∧ s.unwinding = false
    ∧ s.heap.map (fun ob => (ob.strong, ob.weak, ob.links.isNone, ob.value.map (·.panics), ob.freed, ob.implicit))
      = [(.uninit, 1, true, none, false, false), (.uninit, 0, true, none, true, false),
         (.cnt 1, 1, false, some true, false, true)]
    ∧ s.log = [.traced 1 2 3, .traced 0 2 3, .destroyed 1, .destroyed 0, .freed 1] := by
  decide +kernel

/-- `C04_no_leak_without_a_panic` instantiated at every dead object of that state -/
example (o : Nat) (ob : Obj) (hg : (run armedHistory).heap[o]? = some ob)
    (hd : ob.strong.isDead = true) :
    ob.links = none ∧ ob.value = none ∧ ob.implicit = false
      ∧ (ob.freed = true ↔ (run armedHistory).extW o + (run armedHistory).inHeapW o = 0) :=
  C04_no_leak_without_a_panic (run_reachable armedHistory) (by decide +kernel) (by decide +kernel)
    (by decide +kernel) (by decide +kernel) hg hd

/-- member 0 is kept by its Weak handle, member 1 is released -/
example : (run armedHistory).extW 0 + (run armedHistory).inHeapW 0 = 1
    ∧ (run armedHistory).extW 1 + (run armedHistory).inHeapW 1 = 0
    ∧ (run armedHistory).heap.map (·.freed) = [false, true, false] := by decide +kernel

/-- a history whose destructor script contains `setPanic` (so it is not `noPanic`) but finds no handle
to arm when it runs: everything is collected, `C04_no_panic_so_far_leaks_nothing` applies -/
def harmlessHistory : List (Op × List Nat) :=
  [(.act .new, []), (.setScript 0 [.setPanic 0], []), (.act (.drop 0), [])]

example : ¬ ∀ oh ∈ harmlessHistory, oh.1.noPanic := by decide

example (o : Nat) (ob : Obj) (hg : (run harmlessHistory).heap[o]? = some ob) : ob.freed = true := by
  have hd : ∀ ob ∈ (run harmlessHistory).heap, ob.strong.isDead = true := by decide +kernel
  exact C04_no_panic_so_far_leaks_nothing (run_reachable harmlessHistory) (by decide +kernel)
    (by decide +kernel) (run_not_unwinding _ (by decide +kernel)) (by decide +kernel)
    (fun o ob hg => hd ob (List.mem_of_getElem? hg)) (by decide +kernel) (by decide +kernel) o ob hg

/-! ### (b) The hypothesis is necessary: a destructor that does panic leaks

The same ring, member 0 armed.  The collection destroys value 1, then value 0, whose destructor
panics: the `phase3` continuation (release of the implicit weak references) is discarded.  At the
next operation boundary `Ev.panicked` is in the log, both members are dead, no Weak handle to either
exists — and neither allocation has been released (this is C11's legitimate leak). -/

def panickedHistory : List (Op × List Nat) :=
  [(.act .new, []), (.act .new, []),
   (.act (.clone 1), []), (.act (.link 2 0), []),     -- 0 → 1
   (.act (.clone 0), []), (.act (.link 2 1), []),     -- 1 → 0: a two-cycle
   (.act (.setPanic 0), []),                          -- member 0's destructor will panic
   (.act (.drop 1), []),
   (.act (.drop 0), [])]                              -- the group {0, 1} is collected; value 0 panics

example : let s := run panickedHistory
    s.err = none ∧ s.stack = [] ∧ s.unwinding = false ∧ s.roots = [] ∧ s.wroots = [] ∧ s.vals = []
    ∧ Ev.panicked ∈ s.log
    ∧ s.log = [.traced 1 2 3, .traced 0 2 3, .destroyed 1, .destroyed 0, .panicked]
    ∧ s.heap.map (fun ob => (ob.strong, ob.weak, ob.links.isNone, ob.value.isSome, ob.freed, ob.implicit))
      = [(.uninit, 1, true, false, false, true), (.uninit, 1, true, false, false, true)] := by
  decide +kernel

/-- the conclusion of `C04_no_leak_without_a_panic` fails at both objects of that (reachable,
error-free, quiescent) state: dead, no Weak handle, not released, implicit weak still owned -/
example : Reachable (run panickedHistory)
    ∧ ∀ o < 2, ∃ ob, (run panickedHistory).heap[o]? = some ob ∧ ob.strong.isDead = true
        ∧ (run panickedHistory).extW o + (run panickedHistory).inHeapW o = 0
        ∧ ob.freed = false ∧ ob.implicit = true :=
  ⟨run_reachable _, by decide +kernel⟩

/-- and the release invariant itself is lost there: only the third disjunct of
`C04_release_invariant_lost_only_by_panic` holds -/
example : ¬ (run panickedHistory).InvN ∧ (run panickedHistory).unwinding = false
    ∧ Ev.panicked ∈ (run panickedHistory).log ∧ (run panickedHistory).err = none := by
  refine ⟨fun hN => ?_, by decide +kernel, by decide +kernel, by decide +kernel⟩
  have h1 : ∃ ob, (run panickedHistory).heap[0]? = some ob ∧ ob.strong.isDead = true
      ∧ ob.implicit = true := by decide +kernel
  obtain ⟨ob, hg, hd, hi⟩ := h1
  have h2 := hN 0 ob hg hd hi
  have h3 : (run panickedHistory).stack = [] := by decide +kernel
  rw [owed_of_stack_nil h3] at h2
  cases h2

end Cactus
