import Cactus.Lemmas.Basic
import Cactus.Props.C05
import Cactus.Props.C12
/-!
# C10 — destructors may use the API re-entrantly during a collection (first layer)

The machine is small-step with an explicit control stack, so a destructor's API calls are
ordinary applications of `applyAct` in a state whose stack is non-empty; every invariant is a
predicate of one state *including its stack* (`Cactus.Spec.Inv`), so "C01–C06 continue to hold"
is the same preservation theorem at every nesting depth.  First layer: the uniformity itself, and
the two local facts the property names.
-/
namespace Cactus
open State

/-- a script action is executed by the very same function, in the same state, as a top-level
operation: there is no separate "re-entrant" code path in the model -/
theorem C10_script_uses_applyAct (s : State) (h w : List Nat) (a : Act) (as : List Act) (rest : List Frame)
    (he : s.err = none) (hs : s.stack = .script h w (a :: as) :: rest) :
    step s = applyAct ({ s with stack := rest }.push [.script h w as]) h w a := by
  unfold step; simp [he, hs]

/-- a finished script frame just disappears -/
theorem C10_script_done (s : State) (h w : List Nat) (rest : List Frame)
    (he : s.err = none) (hs : s.stack = .script h w [] :: rest) : step s = { s with stack := rest } := by
  unfold step; simp [he, hs]

/-- upgrading a Weak to a dying peer from inside a destructor yields `None` -/
theorem C10_upgrade_dying_peer (s : State) (fh fw : List Nat) (k o : Nat) (ob : Obj)
    (hw : nthMod fw k = some o) (hc : s.cell o = some ob) (hd : ob.strong = .uninit) :
    applyAct s fh fw (.upgradeField k) = s.emit (retBool false) :=
  C05_upgradeField_dead_none s fh fw k o ob hw hc (by simp [hd, Strong.isDead])

/-- no internal borrow conflict: the only nested table access of the library (the purge loop)
skips the object whose table is being iterated -/
theorem C10_no_nested_self_borrow (x : Nat) (s : State) (e : Link × Nat) (h : e.1.ptr = x) :
    purgeOne x s e = s := C12_purge_skips_self x s e h

end Cactus
