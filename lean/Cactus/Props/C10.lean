import Cactus.Lemmas.Final
import Cactus.Lemmas.Basic
import Cactus.Props.C05
import Cactus.Props.C12
/-!
# C10 — destructors may use the API re-entrantly during a collection (first layer)

The machine is small-step with an explicit control stack, so a destructor's API calls are
ordinary applications of `applyAct` in a state whose stack is non-empty; every invariant is a
predicate of one state *including its stack* (`Cactus.Spec.Inv`), so "C01–C06 continue to hold"
is the same preservation theorem at every nesting depth.  First layer: the uniformity itself, and
the two local facts the property names.
-/
namespace Cactus
open State

/-- a script action is executed by the very same function, in the same state, as a top-level
operation: there is no separate "re-entrant" code path in the model -/
theorem C10_script_uses_applyAct (s : State) (h w : List Nat) (a : Act) (as : List Act) (rest : List Frame)
    (he : s.err = none) (hs : s.stack = .script h w (a :: as) :: rest) :
    step s = applyAct ({ s with stack := rest }.push [.script h w as]) h w a := by
  unfold step; simp [he, hs]

/-- a finished script frame just disappears -/
theorem C10_script_done (s : State) (h w : List Nat) (rest : List Frame)
    (he : s.err = none) (hs : s.stack = .script h w [] :: rest) : step s = { s with stack := rest } := by
  unfold step; simp [he, hs]

/-- upgrading a Weak to a dying peer from inside a destructor yields `None` -/
theorem C10_upgrade_dying_peer (s : State) (fh fw : List Nat) (k o : Nat) (ob : Obj)
    (hw : nthMod fw k = some o) (hc : s.cell o = some ob) (hd : ob.strong = .uninit) :
    applyAct s fh fw (.upgradeField k) = s.emit (retBool false) :=
  C05_upgradeField_dead_none s fh fw k o ob hw hc (by simp [hd, Strong.isDead])

/-- no internal borrow conflict: the only nested table access of the library (the purge loop)
skips the object whose table is being iterated -/
theorem C10_no_nested_self_borrow (x : Nat) (s : State) (e : Link × Nat) (h : e.1.ptr = x) :
    purgeOne x s e = s := C12_purge_skips_self x s e h


/-! ## C01–C06 continue to hold while destructors run

`Reachable`/`ReachableP` contain every *intermediate* machine state: between any two steps of a
teardown — in particular right before and right after every action of every destructor script, at
any nesting depth, including nested collections started by a destructor.  The invariants are
predicates of one state including its control stack, so no separate re-entrancy argument exists. -/

/-- at every point of every teardown (stack non-empty or not) all unconditional invariants hold:
object states, bookkeeping (C08), exact strong (C06) and weak (C05) counts, no double release -/
theorem C10_invariants_hold_mid_teardown {s : State} (h : Reachable s) (he : s.err = none) :
    s.InvO ∧ s.InvB ∧ s.InvC ∧ s.InvW ∧ s.InvK := (reachable_core h he).1

/-- and in contract-respecting executions so does safety (C01/C02): what the program or any live
value holds is live; what a pending frame holds has not been released -/
theorem C10_safety_holds_mid_teardown {s : State} (h : ReachableP s) (he : s.err = none) :
    (∀ o, 0 < s.ext o + s.inHeap o → s.isLive o = true)
    ∧ (∀ o, 0 < s.pend o → (s.cell o).isSome = true) := by
  have hS := reachableP_invS h he
  refine ⟨hS.1, ?_⟩
  intro o hp
  cases hl : s.isLive o with
  | true => exact State.isLive_cell_isSome hl
  | false =>
    obtain ⟨ob, hg, hs, _, himp⟩ := hS.2.1 o hp hl
    have hO := (reachable_core h.reachable he).1.1
    have hW := (reachable_core h.reachable he).1.2.2.2.1
    have hlt := State.get_lt hg
    have hw := hW o hlt
    have hfz := (hO o ob hg).2.2.2
    have : ob.freed = false := by
      cases hf : ob.freed with
      | false => rfl
      | true =>
        have h0 := hfz.mp hf
        simp [State.weakNat, hg, State.implicitNat, himp, h0] at hw
    simp [State.cell, hg, this]

end Cactus
