import Cactus.Lemmas.Final
import Cactus.Lemmas.Basic
import Cactus.Lemmas.Contract
import Cactus.Lemmas.GroupOrder
import Cactus.Lemmas.Shared.OneStep   -- `Shared.upgradeField_dead_none`, `Shared.purgeOne_skips_self`
/-!
# C10 — destructors may use the API re-entrantly during a collection

The machine is small-step with an explicit control stack, so a destructor's API calls are
ordinary applications of `applyAct` in a state whose stack is non-empty; every invariant is a
predicate of one state *including its stack* (`Cactus.Spec.Inv`), so "C01–C06 continue to hold"
is the same preservation theorem at every nesting depth.  What is proved here:
* one-step lemmas: `C10_script_uses_applyAct`, `C10_script_done`, `C10_upgrade_dying_peer`,
  `C10_no_nested_self_borrow`;
* every reachable state, in particular every point of every teardown:
  `C10_invariants_hold_mid_teardown` (no hypothesis on the history) and
  `C10_safety_holds_mid_teardown` (under `ReachableP`);
* example: a destructor that upgrades Weak handles, clones a Weak and destroys an outsider from
  inside a group teardown; both theorems instantiated at a state seven frames deep.
Not modelled: what a destructor does besides calling the API (a script is a list of API actions), and
`RefCell` borrow flags as such — the model has no borrow state; `C10_no_nested_self_borrow` is the one
place where the library iterates a table while touching others.
-/
namespace Cactus
open State

/-- a script action is executed by the very same function, in the same state, as a top-level
operation: there is no separate "re-entrant" code path in the model -/
theorem C10_script_uses_applyAct (s : State) (h w : List Nat) (a : Act) (as : List Act) (rest : List Frame)
    (he : s.err = none) (hs : s.stack = .script h w (a :: as) :: rest) :
    step s = applyAct ({ s with stack := rest }.push [.script h w as]) h w a := by
  unfold step; simp [he, hs]

/-- a finished script frame just disappears -/
theorem C10_script_done (s : State) (h w : List Nat) (rest : List Frame)
    (he : s.err = none) (hs : s.stack = .script h w [] :: rest) : step s = { s with stack := rest } := by
  unfold step; simp [he, hs]

/-- upgrading a Weak to a dying peer from inside a destructor yields `None` -/
theorem C10_upgrade_dying_peer (s : State) (fh fw : List Nat) (k o : Nat) (ob : Obj)
    (hw : nthMod fw k = some o) (hc : s.cell o = some ob) (hd : ob.strong = .uninit) :
    applyAct s fh fw (.upgradeField k) = s.emit (retBool false) :=
  Shared.upgradeField_dead_none s fh fw k o ob hw hc (by simp [hd, Strong.isDead])

/-- no internal borrow conflict: the only nested table access of the library (the purge loop)
skips the object whose table is being iterated -/
theorem C10_no_nested_self_borrow (x : Nat) (s : State) (e : Link × Nat) (h : e.1.ptr = x) :
    purgeOne x s e = s := Shared.purgeOne_skips_self x s e h


/-! ## C01–C06 continue to hold while destructors run

`Reachable`/`ReachableP` contain every *intermediate* machine state: between any two steps of a
teardown — in particular right before and right after every action of every destructor script, at
any nesting depth, including nested collections started by a destructor.  The invariants are
predicates of one state including its control stack, so no separate re-entrancy argument exists. -/

/-- at every point of every teardown (stack non-empty or not) all unconditional invariants hold:
object states, bookkeeping (C08), exact strong (C06) and weak (C05) counts, no double release -/
theorem C10_invariants_hold_mid_teardown {s : State} (h : Reachable s) (he : s.err = none) :
    s.InvO ∧ s.InvB ∧ s.InvC ∧ s.InvW ∧ s.InvK := (reachable_core h he).1

/-- and in contract-respecting executions so does safety (C01/C02): what the program or any live
value holds is live; what a pending frame holds has not been released -/
theorem C10_safety_holds_mid_teardown {s : State} (h : ReachableP s) (he : s.err = none) :
    (∀ o, 0 < s.ext o + s.inHeap o → s.isLive o = true)
    ∧ (∀ o, 0 < s.pend o → (s.cell o).isSome = true) := by
  have hS := reachableP_invS h he
  refine ⟨hS.1, ?_⟩
  intro o hp
  cases hl : s.isLive o with
  | true => exact State.isLive_cell_isSome hl
  | false =>
    obtain ⟨ob, hg, hs, _, himp⟩ := hS.2.1 o hp hl
    have hO := (reachable_core h.reachable he).1.1
    have hW := (reachable_core h.reachable he).1.2.2.2.1
    have hlt := State.get_lt hg
    have hw := hW o hlt
    have hfz := (hO o ob hg).2.2.2
    have : ob.freed = false := by
      cases hf : ob.freed with
      | false => rfl
      | true =>
        have h0 := hfz.mp hf
        simp [State.weakNat, hg, State.implicitNat, himp, h0] at hw
    simp [State.cell, hg, this]

/-! ## Non-vacuity: a destructor that re-enters the library in the middle of a collection

A two-cycle `0 ↔ 1` built with `link`; outsiders 2 and 3, where 2's value holds a strong handle to 3
and the program holds handles to both.  The value of member 0 holds a Weak to its peer 1 and a Weak
to outsider 2; its destructor script upgrades both (the peer is already dying: `None`; the outsider
is live: `Some`, a new program handle), clones a Weak of the program (to the dying object 0 itself),
drops both program handles to outsider 2 — which destroys 2 *inside* the group teardown, a nested
last-handle teardown that in turn drops 2's handle to 3 — and finally queries the counts of 3.
`reentrantStart` is the state in which the collecting `drop` has pushed its `rcDrop 0` frame. -/

def reentrantBuild : List (Op × List Nat) :=
  [(.act .new, []), (.act .new, []),                        -- group members 0, 1
   (.act (.clone 1), []), (.act (.link 2 0), []),           -- 0 → 1
   (.act (.clone 0), []), (.act (.link 2 1), []),           -- 1 → 0
   (.act .new, []), (.act .new, []),                        -- outsiders 2, 3; handles [0, 1, 2, 3]
   (.act (.clone 3), []), (.act (.store 4 2), []),          -- 2's value holds a handle to 3
   (.act (.downgrade 1), []), (.act (.storeWeak 0 0), []),  -- 0's value: Weak to its peer 1
   (.act (.downgrade 2), []), (.act (.storeWeak 0 0), []),  -- … and a Weak to outsider 2
   (.act (.downgrade 0), []),                               -- program: Weak to 0
   (.setScript 0 [.upgradeField 0, .upgradeField 1, .cloneWeak 0, .drop 0, .drop 1, .counts 0], []),
   (.act (.drop 1), [])]                                    -- program's handle to 1; handles [0, 2, 3]

def reentrantStart : State := applyOp ((run reentrantBuild).begin [0, 1]) (.act (.drop 0))

theorem runSteps_reachable (n : Nat) (s : State) (h : Reachable s) : Reachable (runSteps n s) := by
  induction n generalizing s with
  | zero => exact h
  | succ n ih => exact ih _ (.step h)

theorem runSteps_reachableC (n : Nat) (s : State) (h : ReachableC s) : ReachableC (runSteps n s) := by
  induction n generalizing s with
  | zero => exact h
  | succ n ih => exact ih _ (.step h)

theorem reentrantBuild_respects : ∀ oh ∈ reentrantBuild, oh.1.respects := by decide

theorem reentrantStart_reachableC : ReachableC reentrantStart :=
  .op (.act (.drop 0)) [0, 1] (run_reachableC reentrantBuild reentrantBuild_respects)
    (by decide +kernel) trivial

/-- twelve machine steps into the operation: the group teardown (`phase3`, member 1's value still
waiting) is suspended inside the destructor of member 0 (`script`, then its drop glue), which is
suspended inside the teardown of outsider 2 (`finishSingle 2`), which is dropping 2's handle to 3:
seven frames, three nested library calls -/
example : (runSteps 12 reentrantStart).stack =
      [.rcDrop 3, .dropFields [] [], .finishSingle 2, .script [1] [1, 2] [.counts 0],
       .dropFields [1] [1, 2],
       .dropVal { vid := 1, held := [0], weaks := [], script := [], panics := false },
       .phase3 [1, 0]]
    ∧ (runSteps 12 reentrantStart).err = none
    ∧ (runSteps 12 reentrantStart).roots = [3] ∧ (runSteps 12 reentrantStart).wroots = [0, 0]
    ∧ (runSteps 12 reentrantStart).log
        = [.traced 1 2 3, .traced 0 2 3, .destroyed 0, .ret 0, .ret 1, .destroyed 2] := by
  decide +kernel

/-- `C10_invariants_hold_mid_teardown` applies to that intermediate state … -/
theorem reentrant_mid_invariants :
    (runSteps 12 reentrantStart).InvO ∧ (runSteps 12 reentrantStart).InvB
    ∧ (runSteps 12 reentrantStart).InvC ∧ (runSteps 12 reentrantStart).InvW
    ∧ (runSteps 12 reentrantStart).InvK :=
  C10_invariants_hold_mid_teardown
    (runSteps_reachable 12 _ reentrantStart_reachableC.reachable) (by decide +kernel)

/-- … and gives, e.g., for the live outsider 3: its strong count is exactly the program's handle
plus the handle owned by the pending `rcDrop 3` frame (`2 = 1 + 0 + 1`), and for the dying member 0:
its weak count is the two Weak handles of the program (one just cloned by the destructor) plus the
implicit weak reference that `phase3` still owes (`3 = 2 + 0 + 0 + 1`) -/
example : (runSteps 12 reentrantStart).strongNat 3
      = (runSteps 12 reentrantStart).ext 3 + (runSteps 12 reentrantStart).inHeap 3
        + (runSteps 12 reentrantStart).pend 3 :=
  reentrant_mid_invariants.2.2.1 3 (by decide +kernel)

example : (runSteps 12 reentrantStart).weakNat 0
      = (runSteps 12 reentrantStart).extW 0 + (runSteps 12 reentrantStart).inHeapW 0
        + (runSteps 12 reentrantStart).pendW 0 + (runSteps 12 reentrantStart).implicitNat 0 :=
  reentrant_mid_invariants.2.2.2.1 0 (by decide +kernel)

example : (runSteps 12 reentrantStart).strongNat 3 = 2 ∧ (runSteps 12 reentrantStart).ext 3 = 1
    ∧ (runSteps 12 reentrantStart).inHeap 3 = 0 ∧ (runSteps 12 reentrantStart).pend 3 = 1
    ∧ (runSteps 12 reentrantStart).weakNat 0 = 3 ∧ (runSteps 12 reentrantStart).extW 0 = 2
    ∧ (runSteps 12 reentrantStart).implicitNat 0 = 1 := by
  decide +kernel

/-- `C10_safety_holds_mid_teardown` applies too (the history is contract-respecting): the handle
owned by the pending `rcDrop 3` frame designates an allocation that has not been released -/
example : ((runSteps 12 reentrantStart).cell 3).isSome = true :=
  (C10_safety_holds_mid_teardown
    ((runSteps_reachableC 12 _ reentrantStart_reachableC).reachableP (by decide +kernel))
    (by decide +kernel)).2 3 (by decide +kernel)

/-- the whole operation ends without error after 30 steps; the log shows the re-entrant calls in
order: peer upgrade `None`, outsider upgrade `Some`, outsider 2 destroyed inside the teardown,
counts of 3 (1 strong, 0 Weak); 2's allocation is released only when member 0's Weak to it is
dropped by the drop glue; member 0's allocation survives through the program's two Weak handles -/
example : (runSteps 30 reentrantStart).stack = [] ∧ (runSteps 29 reentrantStart).stack ≠ [] := by
  decide +kernel

example : let s := run (reentrantBuild ++ [(.act (.drop 0), [0, 1])])
    s.err = none ∧ s.stack = [] ∧ s.roots = [3] ∧ s.wroots = [0, 0]
    ∧ s.log = [.traced 1 2 3, .traced 0 2 3, .destroyed 0, .ret 0, .ret 1, .destroyed 2, .ret 1, .ret 0,
               .freed 2, .destroyed 1, .freed 1]
    ∧ s.heap.map (fun ob => (ob.strong, ob.weak, ob.freed))
        = [(.uninit, 2, false), (.uninit, 0, true), (.uninit, 0, true), (.cnt 1, 1, false)] := by
  decide +kernel

end Cactus
