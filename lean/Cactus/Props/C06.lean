import Cactus.Lemmas.Final
import Cactus.Lemmas.Basic
/-!
# C06 — reference counts and identity are exact (first layer)

`adopt`/`unadopt` touch only link tables: counters, values and allocation status of *every* object
are unchanged (adopt.rs:136-247).  The counting invariant over whole histories (`strong` =
number of existing handles) is `InvC` in `Cactus.Lemmas.Inv`.
-/
namespace Cactus
open State

/-- everything in an `RcBox` except the link table -/
def Obj.core (ob : Obj) : Strong × Nat × Option Val × Bool := (ob.strong, ob.weak, ob.value, ob.freed)

theorem setLinks_core (s : State) (o : Nat) (f : Table → Table) :
    (s.setLinks o f).heap.map Obj.core = s.heap.map Obj.core := by
  unfold State.setLinks
  split
  · rename_i ob hc
    split
    · have h := (cell_some_get s o ob hc).1
      simp only [State.setObj, List.map_set]
      apply List.ext_getElem?
      intro i
      by_cases hi : o = i
      · subst hi
        simp [List.getElem?_set, h, Obj.core]
        exact cell_some_lt s o ob hc
      · simp [List.getElem?_set_ne hi]
    · simp
  · simp

/-- recording an adoption changes no counter, value or allocation of any object -/
theorem C06_adopt_counts (s : State) (a b : Nat) (same : Bool) :
    (s.adopt a b same).heap.map Obj.core = s.heap.map Obj.core := by
  unfold State.adopt
  split <;> simp [setLinks_core]

/-- removing an adoption record changes no counter, value or allocation of any object -/
theorem C06_unadopt_counts (s : State) (a b : Nat) (same : Bool) :
    (s.unadopt a b same).heap.map Obj.core = s.heap.map Obj.core := by
  unfold State.unadopt
  split <;> simp [setLinks_core]

/-- identity: the handle table only ever stores object ids, and `ptr_eq` compares them -/
theorem C06_ptrEq (s : State) (fh fw : List Nat) (r1 r2 a b : Nat)
    (h1 : s.useRoot r1 = some a) (h2 : s.useRoot r2 = some b) :
    (applyAct s fh fw (.ptrEq r1 r2)).log = s.log ++ [retBool (a = b)] := by
  simp [applyAct, h1, h2, State.emit]

/-- `clone` adds exactly one to the target's strong count and one handle to the program -/
theorem C06_clone (s : State) (fh fw : List Nat) (r o : Nat) (ob : Obj) (n : Nat)
    (hr : s.useRoot r = some o) (hc : s.cell o = some ob) (hs : ob.strong = .cnt (n + 1)) :
    (applyAct s fh fw (.clone r)).roots = s.roots ++ [o]
    ∧ (applyAct s fh fw (.clone r)).heap = s.heap.set o { ob with strong := .cnt (n + 2) } := by
  simp [applyAct, hr, State.incStrong, hc, hs, State.setObj]

example : (({ heap := [{ strong := .cnt 1, weak := 1, links := some [], value := none, freed := false }] } : State).adopt 0 0 false).heap.map Obj.core
    = [(.cnt 1, 1, none, false)] := by decide


/-! ## The property over whole histories (no hypothesis on the history: holds with or without the
adoption contract, at operation boundaries and mid-teardown) -/

/-- **C06.** In every reachable state, for every live object: `strong_count` equals the number of
existing strong handles to it — held by the program (`ext`: handle table, raw pointers, unwrapped
values), stored in values still in the heap (`inHeap`, including values of unreachable but not yet
collected objects), or owned by pending teardown frames (`pend`, zero between operations) — and
`weak_count` (the weak cell minus the implicit weak) equals the number of existing Weak handles. -/
theorem C06_counts_exact {s : State} (h : Reachable s) (he : s.err = none) {t : Nat}
    (hl : s.isLive t = true) :
    s.strongNat t = s.ext t + s.inHeap t + s.pend t
    ∧ s.weakNat t = s.extW t + s.inHeapW t + s.pendW t + 1 := by
  obtain ⟨⟨hO, _, hC, hW, _⟩, _⟩ := reachable_core h he
  refine ⟨hC t hl, ?_⟩
  have hlt := State.isLive_lt hl
  have := hW t hlt
  obtain ⟨ob, n, hg, hf, hs⟩ := (State.isLive_eq_true_iff s t).mp hl
  have himp := ((hO t ob hg).1 n hs).2.2.2
  simp [State.implicitNat, hg, himp] at this
  exact this

/-- between operations no frame is pending, so the counts are exactly the handles of the program
and of stored values -/
theorem C06_counts_exact_quiescent {s : State} (h : Reachable s) (he : s.err = none)
    (hq : s.stack = []) {t : Nat} (hl : s.isLive t = true) :
    s.strongNat t = s.ext t + s.inHeap t ∧ s.weakNat t = s.extW t + s.inHeapW t + 1 := by
  have := C06_counts_exact h he hl
  simp [State.pend, State.pendW, hq, State.sumList] at this
  exact this

end Cactus
