import Cactus.Lemmas.Final
import Cactus.Lemmas.Basic
import Cactus.Lemmas.Contract   -- `run_reachableC` (non-vacuity of `C06_held_object_count_positive`)
/-!
# C06 — reference counts and identity are exact

`adopt`/`unadopt` touch only link tables: counters, values and allocation status of *every* object
are unchanged (adopt.rs:136-247).  What is proved here:
* one-step lemmas: `C06_adopt_counts`, `C06_unadopt_counts`, `C06_ptrEq`, `C06_clone`;
* whole histories, no hypothesis on the history (with or without the adoption contract, at operation
  boundaries and mid-teardown): `C06_counts_exact`, `C06_counts_exact_quiescent`
  (`strong` = number of existing strong handles, `weak` = number of Weak handles + implicit one);
* example: an object designated by every kind of handle at once, the theorem instantiated and the
  numbers shown.
Not proved: counter overflow (`usize` is unbounded `Nat` in the model).
-/
namespace Cactus
open State

/-- everything in an `RcBox` except the link table -/
def Obj.core (ob : Obj) : Strong × Nat × Option Val × Bool := (ob.strong, ob.weak, ob.value, ob.freed)

theorem setLinks_core (s : State) (o : Nat) (f : Table → Table) :
    (s.setLinks o f).heap.map Obj.core = s.heap.map Obj.core := by
  unfold State.setLinks
  split
  · rename_i ob hc
    split
    · have h := (cell_some_get s o ob hc).1
      simp only [State.setObj, List.map_set]
      apply List.ext_getElem?
      intro i
      by_cases hi : o = i
      · subst hi
        simp [List.getElem?_set, h, Obj.core]
        exact cell_some_lt s o ob hc
      · simp [List.getElem?_set_ne hi]
    · simp
  · simp

/-- recording an adoption changes no counter, value or allocation of any object -/
theorem C06_adopt_counts (s : State) (a b : Nat) (same : Bool) :
    (s.adopt a b same).heap.map Obj.core = s.heap.map Obj.core := by
  unfold State.adopt
  split <;> simp [setLinks_core]

/-- removing an adoption record changes no counter, value or allocation of any object -/
theorem C06_unadopt_counts (s : State) (a b : Nat) (same : Bool) :
    (s.unadopt a b same).heap.map Obj.core = s.heap.map Obj.core := by
  unfold State.unadopt
  split <;> simp [setLinks_core]

/-- identity: the handle table only ever stores object ids, and `ptr_eq` compares them -/
theorem C06_ptrEq (s : State) (fh fw : List Nat) (r1 r2 a b : Nat)
    (h1 : s.useRoot r1 = some a) (h2 : s.useRoot r2 = some b) :
    (applyAct s fh fw (.ptrEq r1 r2)).log = s.log ++ [retBool (a = b)] := by
  simp [applyAct, h1, h2, State.emit]

/-- `clone` adds exactly one to the target's strong count and one handle to the program -/
theorem C06_clone (s : State) (fh fw : List Nat) (r o : Nat) (ob : Obj) (n : Nat)
    (hr : s.useRoot r = some o) (hc : s.cell o = some ob) (hs : ob.strong = .cnt (n + 1)) :
    (applyAct s fh fw (.clone r)).roots = s.roots ++ [o]
    ∧ (applyAct s fh fw (.clone r)).heap = s.heap.set o { ob with strong := .cnt (n + 2) } := by
  simp [applyAct, hr, State.incStrong, hc, hs, State.setObj]

example : (({ heap := [{ strong := .cnt 1, weak := 1, links := some [], value := none, freed := false }] } : State).adopt 0 0 false).heap.map Obj.core
    = [(.cnt 1, 1, none, false)] := by decide


/-! ## The property over whole histories (no hypothesis on the history: holds with or without the
adoption contract, at operation boundaries and mid-teardown) -/

/-- **C06.** In every reachable state, for every live object: `strong_count` equals the number of
existing strong handles to it — held by the program (`ext`: handle table, raw pointers, unwrapped
values), stored in values still in the heap (`inHeap`, including values of unreachable but not yet
collected objects), or owned by pending teardown frames (`pend`, zero between operations) — and
`weak_count` (the weak cell minus the implicit weak) equals the number of existing Weak handles. -/
theorem C06_counts_exact {s : State} (h : Reachable s) (he : s.err = none) {t : Nat}
    (hl : s.isLive t = true) :
    s.strongNat t = s.ext t + s.inHeap t + s.pend t
    ∧ s.weakNat t = s.extW t + s.inHeapW t + s.pendW t + 1 := by
  obtain ⟨⟨hO, _, hC, hW, _⟩, _⟩ := reachable_core h he
  refine ⟨hC t hl, ?_⟩
  have hlt := State.isLive_lt hl
  have := hW t hlt
  obtain ⟨ob, n, hg, hf, hs⟩ := (State.isLive_eq_true_iff s t).mp hl
  have himp := ((hO t ob hg).1 n hs).2.2.2
  simp [State.implicitNat, hg, himp] at this
  exact this

/-- between operations no frame is pending, so the counts are exactly the handles of the program
and of stored values -/
theorem C06_counts_exact_quiescent {s : State} (h : Reachable s) (he : s.err = none)
    (hq : s.stack = []) {t : Nat} (hl : s.isLive t = true) :
    s.strongNat t = s.ext t + s.inHeap t ∧ s.weakNat t = s.extW t + s.inHeapW t + 1 := by
  have := C06_counts_exact h he hl
  simp [State.pend, State.pendW, hq, State.sumList] at this
  exact this

/-- **C06 (an object to which handles exist never reads zero).** Under the adoption contract, in
every state of every execution (mid-teardown included): an object the program can reach — through a
handle it holds or through handles stored in reachable values, adopted or not — has a positive strong
count, and that count is exactly the number of existing handles.  This is the theorem behind the
oracle line `O6:held-object-destroyed-with-k-handles`: a group teardown that decrements a survivor
(seeded m06, m62, m94) makes the implementation leave this set of states. -/
theorem C06_held_object_count_positive {s : State} (h : ReachableP s) (he : s.err = none) {o : Nat}
    (hr : s.Reach o) :
    0 < s.strongNat o ∧ s.strongNat o = s.ext o + s.inHeap o + s.pend o := by
  have hlive := reach_live (reachableP_invS h he) hr
  obtain ⟨ob, n, hg, _, hs⟩ := (State.isLive_eq_true_iff s o).mp hlive
  refine ⟨?_, (C06_counts_exact h.reachable he hlive).1⟩
  simp [State.strongNat, hg, hs]

/-! ## Non-vacuity: every kind of handle at once

Object 1 is designated by a program handle, a handle stored in object 0's value (adopted), a handle
stored in object 2's value (not adopted), a raw pointer, a handle inside an unwrapped value held by
the program, and by two Weak handles (one of the program, one stored in 0's value). -/

def countsHistory : List (Op × List Nat) :=
  [(.act .new, []), (.act .new, []), (.act .new, []),       -- objects 0, 1, 2
   (.act (.clone 1), []), (.act (.link 3 0), []),           -- 0 holds and adopts 1
   (.act (.clone 1), []), (.act (.store 3 2), []),          -- 2 holds 1, not adopted
   (.act (.clone 1), []), (.act (.intoRaw 3), []),          -- a raw pointer to 1
   (.act (.downgrade 1), []), (.act (.downgrade 1), []),
   (.act (.storeWeak 1 0), []),                             -- Weak to 1: one in 0's value, one in the program
   (.act .new, []), (.act (.clone 1), []), (.act (.store 4 3), []),
   (.act (.tryUnwrap 3), []),                               -- an unwrapped value holding a handle to 1
   (.act (.counts 1), [])]                                  -- `strong_count`, `weak_count` of object 1

/-- the hypotheses of `C06_counts_exact_quiescent` at object 1 of the final state, and the theorem
instantiated there -/
example : (run countsHistory).strongNat 1 = (run countsHistory).ext 1 + (run countsHistory).inHeap 1
    ∧ (run countsHistory).weakNat 1
        = (run countsHistory).extW 1 + (run countsHistory).inHeapW 1 + 1 :=
  C06_counts_exact_quiescent (run_reachable countsHistory) (by decide +kernel) (by decide +kernel)
    (t := 1) (by decide +kernel)

/-- the concrete numbers: 5 strong handles = 3 of the program (handle table, raw pointer, unwrapped
value) + 2 stored in values; weak cell 3 = 1 Weak of the program + 1 stored + the implicit one; and
what the program reads through the API: `strong_count = 5`, `weak_count = 2` -/
example : let s := run countsHistory
    s.err = none ∧ s.roots = [0, 1, 2] ∧ s.raws = [1] ∧ s.wroots = [1]
    ∧ s.vals.map (·.held) = [[1]]
    ∧ s.strongNat 1 = 5 ∧ s.ext 1 = 3 ∧ s.inHeap 1 = 2
    ∧ s.weakNat 1 = 3 ∧ s.extW 1 = 1 ∧ s.inHeapW 1 = 1
    ∧ s.log = [.freed 3, .ret 1, .ret 5, .ret 2] := by
  decide +kernel

/-- non-vacuity of `C06_held_object_count_positive`: `countsHistory` respects the contract, object 1
is held by the program, and the theorem gives its count (5, see above) as positive and exact -/
example : 0 < (run countsHistory).strongNat 1
    ∧ (run countsHistory).strongNat 1
        = (run countsHistory).ext 1 + (run countsHistory).inHeap 1 + (run countsHistory).pend 1 :=
  C06_held_object_count_positive
    ((run_reachableC countsHistory (by decide)).reachableP (by decide +kernel))
    (by decide +kernel) (.root (by decide +kernel))

end Cactus
