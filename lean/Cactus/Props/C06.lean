import Cactus.Lemmas.Basic
/-!
# C06 — reference counts and identity are exact (first layer)

`adopt`/`unadopt` touch only link tables: counters, values and allocation status of *every* object
are unchanged (adopt.rs:136-247).  The counting invariant over whole histories (`strong` =
number of existing handles) is `InvC` in `Cactus.Lemmas.Inv`.
-/
namespace Cactus
open State

/-- everything in an `RcBox` except the link table -/
def Obj.core (ob : Obj) : Strong × Nat × Option Val × Bool := (ob.strong, ob.weak, ob.value, ob.freed)

theorem setLinks_core (s : State) (o : Nat) (f : Table → Table) :
    (s.setLinks o f).heap.map Obj.core = s.heap.map Obj.core := by
  unfold State.setLinks
  split
  · rename_i ob hc
    split
    · have h := (cell_some_get s o ob hc).1
      simp only [State.setObj, List.map_set]
      apply List.ext_getElem?
      intro i
      by_cases hi : o = i
      · subst hi
        simp [List.getElem?_set, h, Obj.core]
        exact cell_some_lt s o ob hc
      · simp [List.getElem?_set_ne hi]
    · simp
  · simp

/-- recording an adoption changes no counter, value or allocation of any object -/
theorem C06_adopt_counts (s : State) (a b : Nat) (same : Bool) :
    (s.adopt a b same).heap.map Obj.core = s.heap.map Obj.core := by
  unfold State.adopt
  split <;> simp [setLinks_core]

/-- removing an adoption record changes no counter, value or allocation of any object -/
theorem C06_unadopt_counts (s : State) (a b : Nat) (same : Bool) :
    (s.unadopt a b same).heap.map Obj.core = s.heap.map Obj.core := by
  unfold State.unadopt
  split <;> simp [setLinks_core]

/-- identity: the handle table only ever stores object ids, and `ptr_eq` compares them -/
theorem C06_ptrEq (s : State) (fh fw : List Nat) (r1 r2 a b : Nat)
    (h1 : s.useRoot r1 = some a) (h2 : s.useRoot r2 = some b) :
    (applyAct s fh fw (.ptrEq r1 r2)).log = s.log ++ [retBool (a = b)] := by
  simp [applyAct, h1, h2, State.emit]

/-- `clone` adds exactly one to the target's strong count and one handle to the program -/
theorem C06_clone (s : State) (fh fw : List Nat) (r o : Nat) (ob : Obj) (n : Nat)
    (hr : s.useRoot r = some o) (hc : s.cell o = some ob) (hs : ob.strong = .cnt (n + 1)) :
    (applyAct s fh fw (.clone r)).roots = s.roots ++ [o]
    ∧ (applyAct s fh fw (.clone r)).heap = s.heap.set o { ob with strong := .cnt (n + 2) } := by
  simp [applyAct, hr, State.incStrong, hc, hs, State.setObj]

example : (({ heap := [{ strong := .cnt 1, weak := 1, links := some [], value := none, freed := false }] } : State).adopt 0 0 false).heap.map Obj.core
    = [(.cnt 1, 1, none, false)] := by decide

end Cactus
