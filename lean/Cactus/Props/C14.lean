import Cactus.Lemmas.Basic
import Cactus.Lemmas.Table
import Cactus.Lemmas.PayAsYouGo
import Cactus.Lemmas.Shared.OneStep   -- `Shared.rcDrop_emptyTable_log` (also used by `Props/C07.lean`)
/-!
# C14 — objects without recorded adoptions pay no tracing cost

Dropping or cloning a handle to an object whose bookkeeping is empty performs no reachability
trace.  In the model a trace is visible as a `traced` event and nowhere else.  What is proved here:
* one-step lemmas: `C14_drop_no_trace`, `C14_clone_no_trace`, `C14_unadopt_all_empty`,
  `C14_every_trace_has_a_cause`, `C14_trace_only_from_rcDrop`, `C14_actions_never_trace`,
  `C14_operations_never_trace`;
* whole histories (`Cactus.Lemmas.PayAsYouGo.*`): `C14_every_logged_trace_has_a_cause`; per object
  `C14_untouched_objects_have_empty_tables`, `C14_only_touched_objects_root_a_trace` (and the
  every-state versions); never-adopting programs `C14_program_without_adoptions_never_traces`,
  `C14_program_without_adoptions_has_empty_tables`, `C14_noAdopt_every_state`;
* examples: a 22-operation never-adopting history and an adopting history with a bystander.
Not proved: "no heap allocation" on the real allocator is observed by the harness (channel T0 /
oracle O14).
-/
namespace Cactus
open State

/-- `Rc::drop` on an object whose link table is empty appends nothing to the event log in the
same step: in particular no trace is started (drop.rs:134-146). -/
theorem C14_drop_no_trace (s : State) (o : Nat) (ob : Obj)
    (hc : s.cell o = some ob) (hl : ob.links = some []) :
    (s.rcDrop o).log = s.log :=
  Shared.rcDrop_emptyTable_log s o ob hc hl

/-- cloning a handle never starts a trace and never touches a table: `inc_strong` only (rc.rs:1053) -/
theorem C14_clone_no_trace (s : State) (o : Nat) : (s.incStrong o).log = s.log := by
  unfold State.incStrong; split <;> (try split) <;> simp

/-- the table of an object that was adopted `n` times and unadopted `n` times is empty again:
entries are deleted when their count reaches zero (link.rs:49-57), for every multiplicity -/
theorem C14_unadopt_all_empty (k : Link) (n : Nat) :
    Table.removeN (Table.insertN [] k n) k n = [] := Table.removeN_insertN_nil k n

/-- non-vacuity: a shared object with an empty table exists and the drop really is silent -/
example : (({ heap := [{ strong := .cnt 2, weak := 1, links := some [], value := none, freed := false }] } : State).rcDrop 0).log = [] := by
  decide


/-! ## Whole histories (`Cactus.Lemmas.PayAsYouGo.*`)

* `C14_every_trace_has_a_cause` (no hypothesis on the state at all): the events one machine step
  appends contain a `traced o _ _` only if `o`'s link table was non-empty in the state the step
  started from; `C14_trace_only_from_rcDrop`: at most one such event per step, and only from a frame
  `rcDrop o`; `C14_actions_never_trace`: top-level actions never trace by themselves.
  `C14_every_logged_trace_has_a_cause`: for every reachable state (operation boundary or
  mid-teardown) and every `traced o v p` event at position `i` of its log there is a reachable
  state whose log is the first `i` events, whose next step appended exactly that event, and in which
  `o`'s table was non-empty.
* Per object: with `touched ops` the (ghost) list of objects designated by an `adopt`/`link` of the
  history, at top level or inside a destructor script — `C14_untouched_objects_have_empty_tables`:
  an object outside that list has an empty (or moved-out) table at the end of the history, and
  `C14_only_touched_objects_root_a_trace`: no trace of the whole history is rooted at it
  (`ReachableT` versions: in every state of the history).  Whatever the other objects do, an object
  that never took part in a recorded adoption never pays.
* `C14_program_without_adoptions_never_traces`, `C14_program_without_adoptions_has_empty_tables`:
  a history none of whose operations (incl. destructor scripts) is `adopt`/`link` never runs a
  trace and all its tables stay empty — `C14_noAdopt_every_state` for every intermediate state.
* Non-vacuity: `C14_example_no_adoptions` (22 operations over 5 objects with clones, stored
  handles, Weak handles, a destructor script, `makeMut`, `tryUnwrap`; everything destroyed and
  released; no `traced` event — by evaluation and by the theorem) and `C14_example_bystander`
  (a `link` two-cycle is traced and collected while a bystander object is cloned and dropped: no
  trace is rooted at the bystander). -/

/-- **every trace has a cause** (no hypothesis on `s`): the log of `step s` is the log of `s`
followed by new events, and every `traced o _ _` among them is rooted at an object `o` whose link
table was non-empty in `s` -/
theorem C14_every_trace_has_a_cause (s : State) :
    ∃ new, (step s).log = s.log ++ new ∧
      ∀ o v p, Ev.traced o v p ∈ new →
        ∃ ob t, s.cell o = some ob ∧ ob.links = some t ∧ t ≠ [] :=
  trace_has_cause_step s

/-- one machine step either appends no `traced` event (`NoTraceExt s s'`: `s'.log = s.log ++ new`
with no `traced` event in `new`), or it is the step of a frame `rcDrop o` that appends exactly
`traced o _ _`, and the table of `o` was readable and non-empty before the step (`s.Tabled o`) -/
theorem C14_trace_only_from_rcDrop (s : State) :
    NoTraceExt s (step s) ∨
      ∃ o v p rest, s.err = none ∧ s.stack = .rcDrop o :: rest ∧
        (step s).log = s.log ++ [Ev.traced o v p] ∧ s.Tabled o :=
  step_log_cases s

/-- a user-level action (top level or inside a destructor) appends no `traced` event by itself -/
theorem C14_actions_never_trace (s : State) (fh fw : List Nat) (a : Act) :
    ∃ new, (applyAct s fh fw a).log = s.log ++ new ∧ ∀ o v p, Ev.traced o v p ∉ new :=
  trace_has_cause_applyAct s fh fw a

/-- the same for a top-level operation -/
theorem C14_operations_never_trace (s : State) (op : Op) :
    ∃ new, (applyOp s op).log = s.log ++ new ∧ ∀ o v p, Ev.traced o v p ∉ new :=
  trace_has_cause_applyOp s op

/-- whole-log form: in every reachable state `s`, for every position `i` of the log holding an
event `traced o v p` there is a reachable state `s0`, without error and with a frame `rcDrop o` on
top of its stack, whose log is the log of `s` before position `i`, whose machine step appended
exactly that event, and in which the link table of `o` was non-empty -/
theorem C14_every_logged_trace_has_a_cause {s : State} (h : Reachable s) :
    ∀ i o v p, s.log[i]? = some (Ev.traced o v p) →
      ∃ s0, Reachable s0 ∧ s0.err = none ∧ (∃ rest, s0.stack = Frame.rcDrop o :: rest) ∧
        s0.log = s.log.take i ∧ (step s0).log = s.log.take (i + 1) ∧
        (step s0).log = s0.log ++ [Ev.traced o v p] ∧
        ∃ ob t, s0.cell o = some ob ∧ ob.links = some t ∧ t ≠ [] :=
  reachable_trace_has_cause h

/-- per object, tables: an object never designated by an `adopt`/`link` of the history (top level
or destructor script; `touched ops` is that ghost list) ends with an empty or moved-out table,
whatever adoptions the history performs on other objects -/
theorem C14_untouched_objects_have_empty_tables (ops : List (Op × List Nat)) :
    ∀ o, o ∉ touched ops → ∀ ob, (run ops).heap[o]? = some ob →
      ob.links = some [] ∨ ob.links = none :=
  run_untouched_tables_empty ops

/-- per object, traces: every trace of the history is rooted at an object designated by one of its
recorded adoptions -/
theorem C14_only_touched_objects_root_a_trace (ops : List (Op × List Nat)) :
    ∀ o v p, Ev.traced o v p ∈ (run ops).log → o ∈ touched ops :=
  run_trace_root_touched ops

/-- the same in every state of every history, mid-teardown included (`ReachableT T s`: `Reachable s`
together with the ghost list `T` of the objects designated so far by a recorded adoption) -/
theorem C14_untouched_every_state {T : List Nat} {s : State} (h : ReachableT T s) :
    ∀ o, o ∉ T → ∀ ob, s.heap[o]? = some ob → ob.links = some [] ∨ ob.links = none :=
  h.untouched_untabled

theorem C14_traced_touched_every_state {T : List Nat} {s : State} (h : ReachableT T s) :
    ∀ o v p, Ev.traced o v p ∈ s.log → o ∈ T :=
  h.traced_touched

/-- a history none of whose operations (incl. installed destructor scripts) is `adopt`/`link`
never runs a trace -/
theorem C14_program_without_adoptions_never_traces (ops : List (Op × List Nat))
    (h : ∀ oh ∈ ops, oh.1.noAdopt) :
    ∀ e ∈ (run ops).log, ∀ o v p, e ≠ Ev.traced o v p :=
  run_noAdopt_no_trace ops h

/-- … and all its link tables stay empty (or moved out) -/
theorem C14_program_without_adoptions_has_empty_tables (ops : List (Op × List Nat))
    (h : ∀ oh ∈ ops, oh.1.noAdopt) :
    ∀ (o : Nat) (ob : Obj), (run ops).heap[o]? = some ob → ob.links = some [] ∨ ob.links = none :=
  run_noAdopt_tables_empty ops h

/-- the same in every intermediate state of such a history (`ReachableN`), together with: every
destructor script anywhere in the state is `noAdopt` -/
theorem C14_noAdopt_every_state {s : State} (h : ReachableN s) :
    (∀ (o : Nat) (ob : Obj), s.heap[o]? = some ob → ob.links = some [] ∨ ob.links = none) ∧
    s.ScriptsQ Act.noAdopt ∧ (∀ e ∈ s.log, e.isTraced = false) :=
  h.invariant


/-! ## Non-vacuity (`Cactus.Lemmas.PayAsYouGo.Example`) -/

/-- the never-adopting history `hN`, written out: 22 operations over 5 objects -/
example : PayAsYouGoExample.hN =
    [(.act .new, []), (.act .new, []), (.act .new, []),       -- objects 0, 1, 2; handles [0, 1, 2]
     (.setScript 1 [.upgradeField 0, .cloneField 0, .drop 0], []),  -- destructor of object 1's value
     (.act (.downgrade 2), []), (.act (.downgrade 0), []),    -- Weak handles [2, 0]
     (.act (.storeWeak 1 1), []),                             -- object 1 holds a Weak to object 0
     (.act (.store 2 1), []),                                 -- object 1 holds the handle to object 2
     (.act (.store 1 0), []),                                 -- object 0 holds the handle to 1: 0 → 1 → 2
     (.act (.clone 0), []), (.act (.counts 0), []),           -- second handle to object 0
     (.act (.drop 0), []),                                    -- drop one of them: no cascade
     (.act (.upgrade 0), []), (.act (.drop 1), []),           -- upgrade the Weak to 2, drop the result
     (.act .new, []), (.act (.clone 1), []), (.act (.makeMut 1), []),  -- object 3 shared: make_mut clones
     (.act (.tryUnwrap 2), []), (.act (.dropValue 0), []),    -- unwrap object 3, drop the value
     (.act (.drop 1), []),                                    -- drop object 4
     (.act (.drop 0), []),                                    -- last handle to 0: cascade 0, 1, 2
     (.act (.dropWeak 0), [])] := rfl                         -- last Weak to 2: allocation released

/-- the hypothesis of `C14_program_without_adoptions_never_traces` holds for it, it ends without
error, everything is destroyed and released … -/
example : (∀ oh ∈ PayAsYouGoExample.hN, oh.1.noAdopt) ∧ (run PayAsYouGoExample.hN).err = none
    ∧ (run PayAsYouGoExample.hN).heap.length = 5
    ∧ (run PayAsYouGoExample.hN).heap.all (·.freed) = true
    ∧ (run PayAsYouGoExample.hN).log =
      [.ret 2, .ret 1, .ret 1, .ret 2, .freed 3, .ret 1, .destroyed 3, .destroyed 4, .freed 4,
       .destroyed 0, .destroyed 1, .ret 0, .destroyed 2, .freed 1, .freed 0, .freed 2] :=
  ⟨PayAsYouGoExample.hN_noAdopt, PayAsYouGoExample.hN_noErr, PayAsYouGoExample.hN_all_released.1,
   PayAsYouGoExample.hN_all_released.2.1, PayAsYouGoExample.hN_log⟩

/-- … and, by the theorem, its log contains no `traced` event -/
theorem C14_example_no_adoptions :
    ∀ e ∈ (run PayAsYouGoExample.hN).log, ∀ o v p, e ≠ Ev.traced o v p :=
  C14_program_without_adoptions_never_traces PayAsYouGoExample.hN PayAsYouGoExample.hN_noAdopt

/-- the adopting history `hA` with a bystander, written out -/
example : PayAsYouGoExample.hA =
    [(.act .new, []), (.act .new, []),                        -- objects 0, 1
     (.act (.clone 0), []), (.act (.link 2 1), []),           -- 1 → 0 (adopt(1, 0))
     (.act (.clone 1), []), (.act (.link 2 0), []),           -- 0 → 1 (adopt(0, 1)): a two-cycle
     (.act .new, []), (.act (.clone 2), []), (.act (.drop 3), []),  -- bystander 2, cloned, clone dropped
     (.act (.drop 0), []),                                    -- handle to 0: traces, cycle still owned
     (.act (.drop 0), []),                                    -- handle to 1: traces, cycle collected
     (.act (.drop 0), [])] := rfl                             -- bystander dropped: no trace

/-- the objects designated by its adoptions, and the traces it runs (by evaluation) -/
example : touched PayAsYouGoExample.hA = [1, 0, 0, 1]
    ∧ (run PayAsYouGoExample.hA).log.filter Ev.isTraced = [.traced 0 2 3, .traced 1 2 3] :=
  ⟨PayAsYouGoExample.hA_touched, PayAsYouGoExample.hA_traces⟩

/-- the per-object theorems applied to the bystander (object 2, not in `touched hA`): its table is
empty and no trace is rooted at it -/
theorem C14_example_bystander :
    (∀ ob, (run PayAsYouGoExample.hA).heap[2]? = some ob → ob.links = some [] ∨ ob.links = none) ∧
      ∀ v p, Ev.traced 2 v p ∉ (run PayAsYouGoExample.hA).log := by
  have h2 : 2 ∉ touched PayAsYouGoExample.hA := by rw [PayAsYouGoExample.hA_touched]; decide
  exact ⟨C14_untouched_objects_have_empty_tables PayAsYouGoExample.hA 2 h2,
    fun v p hm => h2 (C14_only_touched_objects_root_a_trace PayAsYouGoExample.hA 2 v p hm)⟩

end Cactus
