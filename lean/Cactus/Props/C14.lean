import Cactus.Lemmas.Basic
import Cactus.Lemmas.Table
import Cactus.Lemmas.PayAsYouGo
/-!
# C14 — objects without recorded adoptions pay no tracing cost

Dropping or cloning a handle to an object whose bookkeeping is empty performs no reachability
trace.  In the model a trace is visible as a `traced` event and nowhere else; "no heap
allocation" on the real allocator is observed by the harness (channel T / oracle O14), not proved.
First the one-step lemmas, then the statements about whole histories
(`Cactus.Lemmas.PayAsYouGo.*`).
-/
namespace Cactus
open State

/-- `Rc::drop` on an object whose link table is empty appends nothing to the event log in the
same step: in particular no trace is started (drop.rs:134-146). -/
theorem C14_drop_no_trace (s : State) (o : Nat) (ob : Obj)
    (hc : s.cell o = some ob) (hl : ob.links = some []) :
    (s.rcDrop o).log = s.log := by
  unfold State.rcDrop
  simp only [hc, hl]
  cases hs : ob.strong with
  | uninit => simp
  | cnt n =>
    cases n with
    | zero => simp
    | succ n =>
      simp only [List.isEmpty_nil, if_true]
      have hf := (cell_some_get s o ob hc).2
      split
      · unfold State.beginSingle
        rw [cell_setObj_same s o ob _ hc]
        simp only [hf]
        split
        · rename_i heq
          cases heq
          simp only []
          split <;> simp
        · simp
      · rfl

/-- cloning a handle never starts a trace and never touches a table: `inc_strong` only (rc.rs:1053) -/
theorem C14_clone_no_trace (s : State) (o : Nat) : (s.incStrong o).log = s.log := by
  unfold State.incStrong; split <;> (try split) <;> simp

/-- the table of an object that was adopted `n` times and unadopted `n` times is empty again:
entries are deleted when their count reaches zero (link.rs:49-57), for every multiplicity -/
theorem C14_unadopt_all_empty (k : Link) (n : Nat) :
    Table.removeN (Table.insertN [] k n) k n = [] := Table.removeN_insertN_nil k n

/-- non-vacuity: a shared object with an empty table exists and the drop really is silent -/
example : (({ heap := [{ strong := .cnt 2, weak := 1, links := some [], value := none, freed := false }] } : State).rcDrop 0).log = [] := by
  decide


/-! ## Whole histories (`Cactus.Lemmas.PayAsYouGo.*`)

* `C14_every_trace_has_a_cause` (no hypothesis on the state at all): the events one machine step
  appends contain a `traced o _ _` only if `o`'s link table was non-empty in the state the step
  started from; `C14_trace_only_from_rcDrop`: at most one such event per step, and only from a frame
  `rcDrop o`; `C14_actions_never_trace`: top-level actions never trace by themselves.
  `C14_every_logged_trace_has_a_cause`: for every reachable state (operation boundary or
  mid-teardown) and every `traced o v p` event at position `i` of its log there is a reachable
  state whose log is the first `i` events, whose next step appended exactly that event, and in which
  `o`'s table was non-empty.
* Per object: with `touched ops` the (ghost) list of objects designated by an `adopt`/`link` of the
  history, at top level or inside a destructor script — `C14_untouched_objects_have_empty_tables`:
  an object outside that list has an empty (or moved-out) table at the end of the history, and
  `C14_only_touched_objects_root_a_trace`: no trace of the whole history is rooted at it
  (`ReachableT` versions: in every state of the history).  Whatever the other objects do, an object
  that never took part in a recorded adoption never pays.
* `C14_program_without_adoptions_never_traces`, `C14_program_without_adoptions_has_empty_tables`:
  a history none of whose operations (incl. destructor scripts) is `adopt`/`link` never runs a
  trace and all its tables stay empty — `C14_noAdopt_every_state` for every intermediate state.
* Non-vacuity: `C14_example_no_adoptions` (22 operations over 5 objects with clones, stored
  handles, Weak handles, a destructor script, `makeMut`, `tryUnwrap`; everything destroyed and
  released; no `traced` event — by evaluation and by the theorem) and `C14_example_bystander`
  (a `link` two-cycle is traced and collected while a bystander object is cloned and dropped: no
  trace is rooted at the bystander). -/

theorem C14_every_trace_has_a_cause : type_of% @trace_has_cause_step := @trace_has_cause_step
theorem C14_trace_only_from_rcDrop : type_of% @step_log_cases := @step_log_cases
theorem C14_actions_never_trace : type_of% @trace_has_cause_applyAct := @trace_has_cause_applyAct
theorem C14_operations_never_trace : type_of% @trace_has_cause_applyOp := @trace_has_cause_applyOp
theorem C14_every_logged_trace_has_a_cause : type_of% @reachable_trace_has_cause :=
  @reachable_trace_has_cause
theorem C14_untouched_objects_have_empty_tables : type_of% @run_untouched_tables_empty :=
  @run_untouched_tables_empty
theorem C14_only_touched_objects_root_a_trace : type_of% @run_trace_root_touched :=
  @run_trace_root_touched
theorem C14_untouched_every_state : type_of% @ReachableT.untouched_untabled :=
  @ReachableT.untouched_untabled
theorem C14_traced_touched_every_state : type_of% @ReachableT.traced_touched :=
  @ReachableT.traced_touched
theorem C14_program_without_adoptions_never_traces : type_of% @run_noAdopt_no_trace :=
  @run_noAdopt_no_trace
theorem C14_program_without_adoptions_has_empty_tables : type_of% @run_noAdopt_tables_empty :=
  @run_noAdopt_tables_empty
theorem C14_noAdopt_every_state : type_of% @ReachableN.invariant := @ReachableN.invariant
theorem C14_example_no_adoptions : type_of% @PayAsYouGoExample.hN_no_trace :=
  @PayAsYouGoExample.hN_no_trace
theorem C14_example_bystander : type_of% @PayAsYouGoExample.hA_bystander :=
  @PayAsYouGoExample.hA_bystander

end Cactus
