import Cactus.Lemmas.Basic
import Cactus.Lemmas.Table
/-!
# C14 — objects without recorded adoptions pay no tracing cost

Dropping or cloning a handle to an object whose bookkeeping is empty performs no reachability
trace.  In the model a trace is visible as a `traced` event and nowhere else; "no heap
allocation" on the real allocator is observed by the harness (channel T / oracle O14), not proved.
-/
namespace Cactus
open State

/-- `Rc::drop` on an object whose link table is empty appends nothing to the event log in the
same step: in particular no trace is started (drop.rs:134-146). -/
theorem C14_drop_no_trace (s : State) (o : Nat) (ob : Obj)
    (hc : s.cell o = some ob) (hl : ob.links = some []) :
    (s.rcDrop o).log = s.log := by
  unfold State.rcDrop
  simp only [hc, hl]
  cases hs : ob.strong with
  | uninit => simp
  | cnt n =>
    cases n with
    | zero => simp
    | succ n =>
      simp only [List.isEmpty_nil, if_true]
      have hf := (cell_some_get s o ob hc).2
      split
      · unfold State.beginSingle
        rw [cell_setObj_same s o ob _ hc]
        simp only [hf]
        split
        · rename_i heq
          cases heq
          simp only []
          split <;> simp
        · simp
      · rfl

/-- cloning a handle never starts a trace and never touches a table: `inc_strong` only (rc.rs:1053) -/
theorem C14_clone_no_trace (s : State) (o : Nat) : (s.incStrong o).log = s.log := by
  unfold State.incStrong; split <;> (try split) <;> simp

/-- the table of an object that was adopted `n` times and unadopted `n` times is empty again:
entries are deleted when their count reaches zero (link.rs:49-57), for every multiplicity -/
theorem C14_unadopt_all_empty (k : Link) (n : Nat) :
    Table.removeN (Table.insertN [] k n) k n = [] := Table.removeN_insertN_nil k n

/-- non-vacuity: a shared object with an empty table exists and the drop really is silent -/
example : (({ heap := [{ strong := .cnt 2, weak := 1, links := some [], value := none, freed := false }] } : State).rcDrop 0).log = [] := by
  decide

end Cactus
