import Cactus.Lemmas.Once
import Cactus.Lemmas.Contract
import Cactus.Lemmas.Final
import Cactus.Lemmas.Orphan
import Cactus.Lemmas.Shared.RunWith   -- `runWith` (`run` with an explicit step budget)
/-!
# C01 — no premature destruction

What is proved here, in this order:
* one-step lemmas: `C01_closure` (the arithmetic heart of the orphan test: exact counts `InvC`, the
  adoption contract `P` and a passing test leave no handle outside the traced group) and
  `C01_survivors_do_not_name_members` (the group handed to `drop_cycle` is closed);
* whole histories, every state including mid-teardown: `C01_no_premature_destruction`, `C01_run`,
  `C01_destructor_has_not_run` under `ReachableP` (the contract held in every state passed through),
  and `C01_contract_respecting_histories`, `C01_run_contract_respecting` under the purely syntactic
  hypothesis `Op.respects`; `C01_internal_steps_keep_contract`;
* examples: the ring-with-tail history by evaluation, and the theorems instantiated at its end state
  and at a state three steps into a group teardown.
Not proved: anything about histories that break the contract — the property is false there (known
finding D4, machine-checked counterexample in `Props/C13.lean`).
`runWith` (`run` with an explicit step budget), which the evaluation examples use, comes from
`Cactus.Lemmas.Shared.RunWith`; no other property file is imported.
-/
namespace Cactus
open State

theorem sum_split (l : List Nat) (p : Nat → Bool) (f : Nat → Nat) :
    (l.map f).sum = ((l.filter p).map f).sum + ((l.filter (fun n => !p n)).map f).sum := by
  induction l with
  | nil => simp
  | cons a r ih => by_cases h : p a <;> simp [List.filter, h, ih] <;> omega

theorem sum_le_sum (l : List Nat) (f g : Nat → Nat) (h : ∀ n, f n ≤ g n) :
    (l.map f).sum ≤ (l.map g).sum := by
  induction l with
  | nil => simp
  | cons a r ih => simp; have := h a; omega

/-- closure lemma, arithmetic core: `strong m = ext m + Σ_all H · m` (exact counts),
`F n m ≤ H n m` (contract), `strong m ≤ Σ_{n ∈ R} F n m` (orphan test) ⇒ no outside handle, no
holder outside `R`, and inside `R` every held handle is recorded -/
theorem C01_closure (All : List Nat) (inR : Nat → Bool) (F H : Nat → Nat → Nat)
    (strong ext : Nat → Nat) (m : Nat)
    (hC : strong m = ext m + (All.map (H · m)).sum)
    (hP : ∀ n, F n m ≤ H n m)
    (hT : strong m ≤ ((All.filter inR).map (F · m)).sum) :
    ext m = 0 ∧ ((All.filter (fun n => !inR n)).map (H · m)).sum = 0
      ∧ ((All.filter inR).map (F · m)).sum = ((All.filter inR).map (H · m)).sum := by
  have h1 := sum_split All inR (H · m)
  have h2 := sum_le_sum (All.filter inR) (F · m) (H · m) hP
  omega

/-- the group handed to `drop_cycle` is closed: a live object outside it neither adopts nor is
adopted by a member, so after the teardown no surviving table names a destroyed object -/
theorem C01_survivors_do_not_name_members (s : State) (x : Nat) (hO : s.InvO) (hB : s.InvB)
    (hx : s.isLive x = true) (hne : (cycleRefs s x).cmap.isEmpty = false)
    (hext : hasExternalOwners s (cycleRefs s x).cmap = false) (a m : Nat)
    (ha : s.isLive a = true) (hna : a ∉ (cycleRefs s x).cmap.keys) (hm : m ∈ (cycleRefs s x).cmap.keys) :
    s.F a m = 0 ∧ s.B a m = 0 := by
  rw [keys_eq_visited s x hO hB hx hne hext] at hna hm
  have := survivors_clean s x hO hB hx hne hext a ha hna m hm
  exact ⟨this.1, this.2.1⟩

/-- non-vacuity and a concrete instance: ring x↔y with tail x→z₁→z₂ (the D1 witness); while the
program holds x nothing is destroyed, and dropping x destroys all four -/
def ringTailHistory : List (Op × List Nat) :=
  [(.act .new, []), (.act .new, []), (.act .new, []), (.act .new, []),
   (.act (.clone 1), []), (.act (.link 4 0), []), (.act (.clone 0), []), (.act (.link 4 1), []),
   (.act (.clone 2), []), (.act (.link 4 0), []), (.act (.clone 3), []), (.act (.link 4 2), []),
   (.act (.drop 1), []), (.act (.drop 1), []), (.act (.drop 1), [])]

example : let s := runWith 64 ringTailHistory
    s.err = none ∧ s.roots = [0] ∧ (∀ o, o < 4 → s.isLive o = true) ∧ ∀ v, v < 4 → Ev.destroyed v ∉ s.log := by
  decide

example : let s := runWith 64 (ringTailHistory ++ [(.act (.drop 0), [])])
    s.err = none ∧ ∀ v, v < 4 → Ev.destroyed v ∈ s.log ∧ Ev.freed v ∈ s.log := by
  decide


/-! ## The property, at full strength

`ReachableP s`: `s` occurs in some execution (at an operation boundary or in the middle of a
teardown, e.g. while a user destructor runs) of some history — any object-graph shape, any
multiplicities, any drop order, any `shuffle`s and hints (every layout) — in which the adoption
contract `P` ("never more recorded adoptions from an owner to a target than the owner's value holds
handles to it") held in every state passed through. -/

/-- **C01.** Every object reachable from a strong handle the program still holds — directly or
through handles stored inside other reachable objects, recorded as adoptions or not — is live: its
strong count is positive, its allocation has not been released and its value is still in place
(its destructor has not run). -/
theorem C01_no_premature_destruction {s : State} (h : ReachableP s) (he : s.err = none)
    {o : Nat} (hr : s.Reach o) :
    s.isLive o = true ∧ ∃ ob v, s.heap[o]? = some ob ∧ ob.freed = false ∧ ob.value = some v := by
  have hlive := reach_live (reachableP_invS h he) hr
  refine ⟨hlive, ?_⟩
  have hO := (reachable_core h.reachable he).1.1
  obtain ⟨ob, n, hg, hf, hs⟩ := (State.isLive_eq_true_iff s o).mp hlive
  obtain ⟨hv, _, _, _⟩ := (hO o ob hg).1 n hs
  obtain ⟨v, hv⟩ := Option.isSome_iff_exists.mp hv
  exact ⟨ob, v, hg, hf, hv⟩

/-- the same for the states produced by `run`, as a function of the history -/
theorem C01_run (ops : List (Op × List Nat)) (hP : ReachableP (run ops)) (he : (run ops).err = none)
    {o : Nat} (hr : (run ops).Reach o) : (run ops).isLive o = true :=
  (C01_no_premature_destruction hP he hr).1

/-- the contract is satisfiable and the theorem is not vacuous: the initial state is
contract-respecting-reachable -/
example : ReachableP ({} : State) := .init


/-! ## The same, with a *syntactic* hypothesis on the history

`Op.respects`: the history (including every destructor script it installs) never calls the two
primitives that can break the contract on their own — a bare `adopt` (recording an adoption without
storing the handle) and a bare `take` (removing a stored handle without `unadopt`) — and uses the
composites `link` (= adopt; store) and `unlink` (= take; unadopt) instead, together with every
other operation of the alphabet: `new clone drop unadopt store downgrade upgrade cloneWeak dropWeak
storeWeak tryUnwrap dropValue makeMut getMut intoRaw fromRaw incStrong decStrong ptrEq counts
setPanic shuffle …`.  Redundant or unmatched `unadopt`s, partially recorded edges (`store` without
`adopt`), parallel adoptions, self-adoption through a clone or through the same handle, panicking
destructors and every layout are all inside this alphabet.  `step_P` shows that the machine's own
steps never break the contract, so nothing needs to be assumed about intermediate states. -/

/-- **C01 for every contract-respecting history**, at every point of its execution. -/
theorem C01_contract_respecting_histories {s : State} (h : ReachableC s) (he : s.err = none)
    {o : Nat} (hr : s.Reach o) : s.isLive o = true := contract_respecting_history_safe h he hr

theorem C01_run_contract_respecting (ops : List (Op × List Nat)) (hops : ∀ oh ∈ ops, oh.1.respects)
    (he : (run ops).err = none) {o : Nat} (hr : (run ops).Reach o) : (run ops).isLive o = true :=
  run_contract_safe ops hops he hr

/-- the library's own steps never break the adoption contract -/
theorem C01_internal_steps_keep_contract (s : State) (hI : s.Inv) (hC : s.ScriptsC) (hP : s.P) :
    (step s).P := step_P s hI hC hP

/-- non-vacuity: the ring-with-tail history is contract-respecting -/
example : ∀ oh ∈ ringTailHistory, oh.1.respects := by decide


/-- …and the destructor of a reachable object's value has not run: its `vid` does not occur among
the `destroyed` events of the log (no operation so far ran its destructor) -/
theorem C01_destructor_has_not_run {s : State} (h : ReachableP s) (he : s.err = none)
    {o : Nat} (hr : s.Reach o) :
    ∃ ob v, s.heap[o]? = some ob ∧ ob.value = some v ∧ v.vid ∉ s.destroyedVids := by
  obtain ⟨_, ob, v, hg, _, hv⟩ := C01_no_premature_destruction h he hr
  refine ⟨ob, v, hg, hv, ?_⟩
  apply reachable_stored_not_destroyed h.reachable v
  unfold State.allVals
  apply List.mem_append_left
  apply List.mem_append_left
  rw [List.mem_filterMap]
  exact ⟨ob, List.mem_of_getElem? hg, hv⟩

/-! ## The theorems instantiated on the ring-with-tail history

`ringTailHistory` (above) is contract-respecting and ends without error with `roots = [0]`; object 3
(z₂) is reachable from the program's handle through the stored handles `0 → 2 → 3`. -/

theorem ringTail_reach3 : (run ringTailHistory).Reach 3 :=
  .step (a := 2) (.step (a := 0) (o := 2) (.root (by decide +kernel)) (by decide +kernel)
    (by decide +kernel)) (by decide +kernel) (by decide +kernel)

/-- `C01_run_contract_respecting`: so it is live -/
example : (run ringTailHistory).isLive 3 = true :=
  C01_run_contract_respecting ringTailHistory (by decide) (by decide +kernel) ringTail_reach3

/-- `C01_no_premature_destruction` / `C01_destructor_has_not_run` (through `ReachableC ⇒ ReachableP`):
its allocation is not released, its value is in place, its destructor has not run -/
example : ∃ ob v, (run ringTailHistory).heap[3]? = some ob ∧ ob.freed = false ∧ ob.value = some v :=
  (C01_no_premature_destruction
    ((run_reachableC ringTailHistory (by decide)).reachableP (by decide +kernel))
    (by decide +kernel) ringTail_reach3).2

example : ∃ ob v, (run ringTailHistory).heap[3]? = some ob ∧ ob.value = some v
    ∧ v.vid ∉ (run ringTailHistory).destroyedVids :=
  C01_destructor_has_not_run
    ((run_reachableC ringTailHistory (by decide)).reachableP (by decide +kernel))
    (by decide +kernel) ringTail_reach3

/-- mid-teardown: the same ring with two more objects, 4 held by the program and 5 held by 4's value;
the program drops its handle to x and we stop three machine steps into the group teardown (x, y,
z₁, z₂ marked dead, y's destructor body done, its fields about to be dropped).  The state is `ReachableC`, object 5 is reachable
through `4 → 5`, and the theorem says it is live — while the four members are not. -/
def ringTailMid : State :=
  step (step (step (applyOp
    ((run (ringTailHistory ++ [(.act .new, []), (.act .new, []), (.act (.store 2 1), [])])).begin [])
    (.act (.drop 0)))))

theorem ringTailMid_reachableC : ReachableC ringTailMid :=
  .step (.step (.step (.op (.act (.drop 0)) []
    (run_reachableC (ringTailHistory ++ [(.act .new, []), (.act .new, []), (.act (.store 2 1), [])])
      (by decide)) (by decide +kernel) trivial)))

example : ringTailMid.err = none ∧ ringTailMid.roots = [4] ∧ ringTailMid.stack.length = 5
    ∧ ringTailMid.heap.map (·.strong) = [.uninit, .uninit, .uninit, .uninit, .cnt 1, .cnt 1] := by
  decide +kernel

example : ringTailMid.isLive 5 = true :=
  C01_contract_respecting_histories ringTailMid_reachableC (by decide +kernel)
    (.step (a := 4) (.root (by decide +kernel)) (by decide +kernel) (by decide +kernel))

end Cactus
