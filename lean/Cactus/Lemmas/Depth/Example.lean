import Cactus.Lemmas.Depth.Main
/-!
# C15, nesting depth: contrast and non-vacuity

* (a) a ring of `n` objects built with `link`, the last program handle dropped: one collection.
  The trace of depths is listed for `n = 4`; the maximum is `2` activation records (`phase3` + the
  running destructor body) and `1` library continuation, for `n = 4`, `8` and `16` alike.
  `collection_depth_bounded` applies (`ring4_collects`), and its `+ 2` is attained
  (`ring4_plus_one_fails`: the `+ 1` bound for `depth` asked for in the task is false when `script`
  frames are counted; it is `libDepth` that obeys `+ 1`).
* (b) a plain chain `0 → 1 → … → n-1` built with `store` (no adoption), dropped from the head:
  the zero-count path nests, `libDepth` reaches `n` (`4` for `n = 4`, `8` for `n = 8`) and `depth`
  reaches `n + 1`.  This is the recursion that the group teardown avoids.
* (c) the same chain built with `link` (adopted, acyclic): no trace happens at all (the head's
  count goes to zero: purge + zero-count path), and the nesting is the same as in (b).
-/
namespace Cactus.DepthExample
open Cactus

/-- `depth` of `s`, `step s`, …, `step^n s` -/
def depthTrace : Nat → State → List Nat
  | 0, s => [s.depth]
  | n + 1, s => s.depth :: depthTrace n (step s)

/-- `libDepth` of `s`, `step s`, …, `step^n s` -/
def libDepthTrace : Nat → State → List Nat
  | 0, s => [s.libDepth]
  | n + 1, s => s.libDepth :: libDepthTrace n (step s)

def maxOf (l : List Nat) : Nat := l.foldl max 0

theorem depthTrace_eq (n : Nat) (s : State) :
    depthTrace n s = (List.range (n + 1)).map (fun j => (runSteps j s).depth) := by
  induction n generalizing s with
  | zero => rfl
  | succ n ih =>
    rw [depthTrace, ih (step s), List.range_succ_eq_map (n := n + 1), List.map_cons, List.map_map]
    rfl

theorem libDepthTrace_eq (n : Nat) (s : State) :
    libDepthTrace n s = (List.range (n + 1)).map (fun j => (runSteps j s).libDepth) := by
  induction n generalizing s with
  | zero => rfl
  | succ n ih =>
    rw [libDepthTrace, ih (step s), List.range_succ_eq_map (n := n + 1), List.map_cons, List.map_map]
    rfl

def noHints (ops : List Op) : List (Op × List Nat) := ops.map (fun o => (o, []))

/-! ## (a) rings -/

/-- `n` objects, `n-1 → 0` through a clone of the first handle, then `i → i+1` for
`i = n-2, …, 0`, each `link` moving the program's handle to `i+1` into object `i`; one program
handle (to object `0`) is left -/
def ringOps (n : Nat) : List Op :=
  List.replicate n (.act .new) ++ [.act (.clone 0), .act (.link n (n - 1))]
    ++ (List.range (n - 1)).reverse.map (fun i => .act (.link (i + 1) i))

/-- the state in which the `drain` of the final `drop 0` starts -/
def ringStart (n : Nat) : State :=
  applyOp { run (noHints (ringOps n)) with hint := [] } (.act (.drop 0))

theorem ring4_start : (ringStart 4).stack = [.rcDrop 0] ∧ (ringStart 4).err = none := by
  decide +kernel

/-- the 22 steps of the collection of the 4-ring: `rcDrop`, 4 × 5 steps of destructors, `phase3` -/
theorem ring4_depthTrace :
    depthTrace 23 (ringStart 4)
      = [0, 1, 2, 1, 1, 1, 1, 2, 1, 1, 1, 1, 2, 1, 1, 1, 1, 2, 1, 1, 1, 1, 0, 0] := by
  decide +kernel

theorem ring4_libDepthTrace :
    libDepthTrace 23 (ringStart 4)
      = [0, 1, 1, 1, 1, 1, 1, 1, 1, 1, 1, 1, 1, 1, 1, 1, 1, 1, 1, 1, 1, 1, 0, 0] := by
  decide +kernel

theorem ring4_done : (runSteps 22 (ringStart 4)).stack = [] ∧ (runSteps 22 (ringStart 4)).err = none
    ∧ (runSteps 22 (ringStart 4)).destroyedVids.length = 4
    ∧ (runSteps 22 (ringStart 4)).freedIds.length = 4 := by
  decide +kernel

theorem ring4_max : maxOf (depthTrace 23 (ringStart 4)) = 2
    ∧ maxOf (libDepthTrace 23 (ringStart 4)) = 1 := by decide +kernel

/-- twice the objects, 42 steps, the same maxima -/
theorem ring8_max : (runSteps 42 (ringStart 8)).stack = [] ∧ (runSteps 41 (ringStart 8)).stack ≠ []
    ∧ (runSteps 42 (ringStart 8)).destroyedVids.length = 8
    ∧ maxOf (depthTrace 43 (ringStart 8)) = 2
    ∧ maxOf (libDepthTrace 43 (ringStart 8)) = 1 := by decide +kernel

/-- four times the objects, 82 steps, the same maxima -/
theorem ring16_max : (runSteps 82 (ringStart 16)).stack = [] ∧ (runSteps 81 (ringStart 16)).stack ≠ []
    ∧ (runSteps 82 (ringStart 16)).destroyedVids.length = 16
    ∧ maxOf (depthTrace 83 (ringStart 16)) = 2
    ∧ maxOf (libDepthTrace 83 (ringStart 16)) = 1 := by decide +kernel

/-! ### the theorems apply to the ring -/

theorem ring4_fullQuiet : ∀ oh ∈ noHints (ringOps 4 ++ [.act (.drop 0)]), oh.1.fullQuiet := by
  decide

theorem ring4_noErr : (run (noHints (ringOps 4 ++ [.act (.drop 0)]))).err = none := by
  decide +kernel

/-- the start of the final `drain` is a stable point (by the whole-history theorem) -/
theorem ring4_good : Good (ringStart 4) :=
  (history_depth_profile _ ring4_fullQuiet ring4_noErr (noHints (ringOps 4)) (.act (.drop 0), []) []
    (by simp [noHints])).2.2.1

/-- … and its `rcDrop 0` starts a collection: the hypotheses of `collection_depth_bounded` and
`single_collection_depth` are satisfied -/
theorem ring4_collects : ∃ ob n, Collects (ringStart 4) 0 [] ob n := by
  rcases ring4_good.step_cases (by rw [ring4_start.1]; simp) with h | ⟨o, rest, ob, n, hc⟩
  · exfalso
    have hmem : Frame.phase3 [3, 1, 2, 0] ∈ (step (ringStart 4)).stack := by decide +kernel
    exact h.ctl.stack _ hmem
  · have := hc.stack
    rw [ring4_start.1] at this
    simp only [List.cons.injEq, Frame.rcDrop.injEq] at this
    obtain ⟨rfl, rfl⟩ := this
    exact ⟨ob, n, hc⟩

/-- what `single_collection_depth` gives for the ring -/
example : ∀ j, (runSteps j (ringStart 4)).depth ≤ 2 ∧ (runSteps j (ringStart 4)).libDepth ≤ 1 := by
  obtain ⟨ob, n, hc⟩ := ring4_collects
  obtain ⟨_, _, _, _, _, h, _⟩ := single_collection_depth ring4_good hc
  exact h

/-- the `+ 2` of `collection_depth_bounded` is attained: with the running destructor body counted,
`+ 1` is not a bound -/
theorem ring4_plus_one_fails :
    ¬ ∀ j, j ≤ 21 → (runSteps j (step (ringStart 4))).depth ≤ (ringStart 4).depth + 1 := by
  intro h
  have := h 1 (by omega)
  revert this
  decide +kernel

/-! ## (b), (c) chains -/

/-- `n` objects, then `mk (i+1) i` for `i = n-2, …, 0` (`mk = store` or `link`): the program's
handle to `i+1` moves into object `i`; one program handle (to the head `0`) is left -/
def chainOps (mk : Nat → Nat → Act) (n : Nat) : List Op :=
  List.replicate n (.act .new) ++ (List.range (n - 1)).reverse.map (fun i => .act (mk (i + 1) i))

def chainStart (mk : Nat → Nat → Act) (n : Nat) : State :=
  applyOp { run (noHints (chainOps mk n)) with hint := [] } (.act (.drop 0))

/-- (b) plain chain of 4, no adoption: the zero-count path nests, one `finishSingle` per link -/
theorem chain4_store_depthTrace :
    depthTrace 23 (chainStart .store 4)
      = [0, 1, 2, 1, 1, 2, 3, 2, 2, 3, 4, 3, 3, 4, 5, 4, 4, 3, 3, 2, 2, 1, 1, 0]
    ∧ libDepthTrace 23 (chainStart .store 4)
      = [0, 1, 1, 1, 1, 2, 2, 2, 2, 3, 3, 3, 3, 4, 4, 4, 4, 3, 3, 2, 2, 1, 1, 0] := by
  decide +kernel

theorem chain4_store_max : (runSteps 23 (chainStart .store 4)).stack = []
    ∧ (runSteps 23 (chainStart .store 4)).err = none
    ∧ (runSteps 23 (chainStart .store 4)).destroyedVids = [0, 1, 2, 3]
    ∧ maxOf (depthTrace 23 (chainStart .store 4)) = 5
    ∧ maxOf (libDepthTrace 23 (chainStart .store 4)) = 4 := by decide +kernel

/-- twice the links, twice the nesting -/
theorem chain8_store_max : (runSteps 47 (chainStart .store 8)).stack = []
    ∧ (runSteps 47 (chainStart .store 8)).err = none
    ∧ maxOf (depthTrace 47 (chainStart .store 8)) = 9
    ∧ maxOf (libDepthTrace 47 (chainStart .store 8)) = 8 := by decide +kernel

/-- (c) the same chain built with `link` (adopted, acyclic): dropping the head takes the
zero-count path (purge the peers, then `drop_unreachable`), no trace, and the same nesting -/
theorem chain4_link_depthTrace :
    depthTrace 23 (chainStart .link 4)
      = [0, 1, 2, 1, 1, 2, 3, 2, 2, 3, 4, 3, 3, 4, 5, 4, 4, 3, 3, 2, 2, 1, 1, 0]
    ∧ libDepthTrace 23 (chainStart .link 4)
      = [0, 1, 1, 1, 1, 2, 2, 2, 2, 3, 3, 3, 3, 4, 4, 4, 4, 3, 3, 2, 2, 1, 1, 0] := by
  decide +kernel

theorem chain4_link_max : (runSteps 23 (chainStart .link 4)).stack = []
    ∧ (runSteps 23 (chainStart .link 4)).err = none
    ∧ (runSteps 23 (chainStart .link 4)).destroyedVids = [0, 1, 2, 3]
    ∧ (runSteps 23 (chainStart .link 4)).log.all (fun e => match e with | .traced _ _ _ => false | _ => true)
        = true
    ∧ maxOf (depthTrace 23 (chainStart .link 4)) = 5
    ∧ maxOf (libDepthTrace 23 (chainStart .link 4)) = 4 := by decide +kernel

theorem chain8_link_max : (runSteps 47 (chainStart .link 8)).stack = []
    ∧ (runSteps 47 (chainStart .link 8)).err = none
    ∧ maxOf (depthTrace 47 (chainStart .link 8)) = 9
    ∧ maxOf (libDepthTrace 47 (chainStart .link 8)) = 8 := by decide +kernel

/-- the chain built with `link` is a `fullQuiet` history: `history_depth_profile` applies to it,
and what it says is relative — here the stable points themselves nest (`Good.bigStepD`, first
alternative, `+1` per link), no collection is involved -/
theorem chain4_link_fullQuiet :
    ∀ oh ∈ noHints (chainOps .link 4 ++ [.act (.drop 0)]), oh.1.fullQuiet := by decide

theorem chain4_link_noErr : (run (noHints (chainOps .link 4 ++ [.act (.drop 0)]))).err = none := by
  decide +kernel

end Cactus.DepthExample
