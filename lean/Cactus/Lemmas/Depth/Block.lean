import Cactus.Lemmas.Depth.Step
/-!
# C15, nesting depth: runs with a bound on every state passed through

* `RunP P k s t`: `Run k s t` all of whose `k + 1` states (both ends included) satisfy `P`;
* `Bounded d e u`: `u.depth ≤ d ∧ u.libDepth ≤ e`;
* the block of destructors of a collected group (`run_block'`) re-proved with the accounting:
  over a stack `rest` the whole block runs within `contCount rest + 1` activation records (the
  `+ 1` is the body of the destructor currently running) and within `libCount rest` library
  continuations — **whatever the number of values in the block** (`runP_block`).
-/
namespace Cactus
open State

/-- `Run k s t` all of whose states, both ends included, satisfy `P` -/
inductive RunP (P : State → Prop) : Nat → State → State → Prop
  | zero (s : State) : P s → RunP P 0 s s
  | succ {k : Nat} {s t : State} : s.err = none → s.stack ≠ [] → P s → RunP P k (step s) t →
      RunP P (k + 1) s t

namespace RunP
variable {P Q : State → Prop}

theorem toRun {k : Nat} {s t : State} (h : RunP P k s t) : Run k s t := by
  induction h with
  | zero s _ => exact .zero s
  | succ he hst _ _ ih => exact .succ he hst ih

theorem head {k : Nat} {s t : State} (h : RunP P k s t) : P s := by
  cases h with
  | zero _ hp => exact hp
  | succ _ _ hp _ => exact hp

theorem last {k : Nat} {s t : State} (h : RunP P k s t) : P t := by
  induction h with
  | zero _ hp => exact hp
  | succ _ _ _ _ ih => exact ih

theorem one {s : State} (he : s.err = none) (hst : s.stack ≠ []) (h0 : P s) (h1 : P (step s)) :
    RunP P 1 s (step s) :=
  .succ he hst h0 (.zero _ h1)

theorem trans {k j : Nat} {s t u : State} (h1 : RunP P k s t) (h2 : RunP P j t u) :
    RunP P (k + j) s u := by
  induction h1 with
  | zero s _ => rw [Nat.zero_add]; exact h2
  | succ he hst hp _ ih =>
    rw [Nat.add_right_comm]
    exact .succ he hst hp (ih h2)

theorem cast {k j : Nat} {s t : State} (h : RunP P k s t) (hk : k = j) : RunP P j s t := hk ▸ h

theorem mono {k : Nat} {s t : State} (h : RunP P k s t) (hpq : ∀ u, P u → Q u) : RunP Q k s t := by
  induction h with
  | zero s hp => exact .zero s (hpq _ hp)
  | succ he hst hp _ ih => exact .succ he hst (hpq _ hp) ih

/-- every state passed through satisfies `P` -/
theorem forall_runSteps {k : Nat} {s t : State} (h : RunP P k s t) :
    ∀ j, j ≤ k → P (runSteps j s) := by
  induction h with
  | zero s hp =>
    intro j hj
    obtain rfl : j = 0 := by omega
    exact hp
  | succ _ _ hp _ ih =>
    intro j hj
    cases j with
    | zero => exact hp
    | succ j => exact ih j (by omega)

/-- conversely: a `Run` all of whose states satisfy `P` -/
theorem of_run {k : Nat} {s t : State} (h : Run k s t) (hp : ∀ j, j ≤ k → P (runSteps j s)) :
    RunP P k s t := by
  induction h with
  | zero s => exact .zero s (hp 0 (Nat.le_refl _))
  | succ he hst _ ih =>
    exact .succ he hst (hp 0 (Nat.zero_le _)) (ih (fun j hj => hp (j + 1) (by omega)))

end RunP

/-- at most `d` activation records, at most `e` of them library continuations -/
def Bounded (d e : Nat) (u : State) : Prop := u.depth ≤ d ∧ u.libDepth ≤ e

theorem Bounded.mono {d e d' e' : Nat} {u : State} (h : Bounded d e u) (hd : d ≤ d') (he : e ≤ e') :
    Bounded d' e' u := ⟨Nat.le_trans h.1 hd, Nat.le_trans h.2 he⟩

theorem bounded_of_stack {u : State} {l : List Frame} {d e : Nat} (h : u.stack = l)
    (hd : contCount l ≤ d) (he : libCount l ≤ e) : Bounded d e u := by
  unfold Bounded
  rw [depth_of_stack h, libDepth_of_stack h]
  exact ⟨hd, he⟩

/-! ## the block of destructors, with the accounting -/

/-- dropping the strong fields of a collected value: every handle is dead, nothing nests -/
theorem runP_held (rest : List Frame) (ws : List Nat) (hs : List Nat) :
    ∀ s : State, s.err = none → s.stack = .dropFields hs ws :: rest →
      (∀ t ∈ hs, ∃ ob, s.cell t = some ob ∧ ob.strong.isDead = true) →
      RunP (Bounded (contCount rest) (libCount rest)) (2 * hs.length) s
        { s with stack := .dropFields [] ws :: rest } := by
  induction hs with
  | nil =>
    intro s _ hst _
    have : ({ s with stack := .dropFields [] ws :: rest } : State) = s := by rw [← hst]
    rw [this]
    exact .zero s (bounded_of_stack hst (by simp) (by simp))
  | cons h hs ih =>
    intro s he hst hd
    obtain ⟨ob, hc, hdead⟩ := hd h (List.mem_cons_self ..)
    have h1 : step s = { s with stack := .rcDrop h :: .dropFields hs ws :: rest } := by
      simp [step, he, hst, State.dropFields, push]
    have h2 : step (step s) = { s with stack := .dropFields hs ws :: rest } := by
      rw [h1]
      simp only [step, he]
      exact rcDrop_dead_noop _ h ob hc hdead
    have hr := ih (step (step s)) (by rw [h2]; exact he) (by rw [h2])
      (by rw [h2]; intro t ht; exact hd t (List.mem_cons_of_mem _ ht))
    rw [h2] at hr
    have p0 : Bounded (contCount rest) (libCount rest) s :=
      bounded_of_stack hst (by simp) (by simp)
    have p1 : Bounded (contCount rest) (libCount rest) (step s) := by
      rw [h1]; exact bounded_of_stack rfl (by simp) (by simp)
    have p2 : Bounded (contCount rest) (libCount rest) (step (step s)) := by
      rw [h2]; exact bounded_of_stack rfl (by simp) (by simp)
    have hr2 : RunP _ 1 (step s) (step (step s)) :=
      RunP.one (by rw [h1]; exact he) (by rw [h1]; simp) p1 p2
    rw [h2] at hr2
    have hr1 : RunP _ 1 s (step s) := RunP.one he (by rw [hst]; simp) p0 p1
    exact ((hr1.trans hr2).trans hr).cast (by simp only [List.length_cons]; omega)

/-- dropping the `Weak` fields of a collected value -/
theorem runP_weaks (rest : List Frame) (ws : List Nat) :
    ∀ s : State, s.err = none → s.stack = .dropFields [] ws :: rest → GoodW s.heap ws →
      RunP (Bounded (contCount rest) (libCount rest)) (2 * ws.length + 1) s
        (releaseWeaks { s with stack := rest } ws) := by
  induction ws with
  | nil =>
    intro s he hst _
    have : step s = releaseWeaks { s with stack := rest } [] := by
      simp [step, he, hst, State.dropFields, releaseWeaks]
    rw [← this]
    refine RunP.one he (by rw [hst]; simp) (bounded_of_stack hst (by simp) (by simp)) ?_
    rw [this]
    exact bounded_of_stack (l := rest) rfl (Nat.le_refl _) (Nat.le_refl _)
  | cons w ws ih =>
    intro s he hst hgood
    obtain ⟨ob, hg, hf, hc⟩ := goodW_head _ _ _ hgood
    have h1 : step s = { s with stack := .weakDrop w :: .dropFields [] ws :: rest } := by
      simp [step, he, hst, State.dropFields, push]
    have h2 : step (step s)
        = ({ s with stack := .dropFields [] ws :: rest } : State).weakDrop w := by
      rw [h1]; simp only [step, he]
    have h3 := weakDrop_good { s with stack := .dropFields [] ws :: rest } w ob hg hf (by omega)
    have h4 := weakDrop_good { s with stack := rest } w ob hg hf (by omega)
    have h2' := h2
    rw [h3] at h2
    have hr := ih (step (step s)) (by rw [h2]; exact he) (by rw [h2])
      (by rw [h2]; exact goodW_step _ _ _ _ hg hgood)
    have hfin : releaseWeaks { step (step s) with stack := rest } ws
        = releaseWeaks { s with stack := rest } (w :: ws) := by
      rw [h2]
      show _ = releaseWeaks (({ s with stack := rest } : State).weakDrop w) ws
      rw [h4]
    rw [hfin] at hr
    have p0 : Bounded (contCount rest) (libCount rest) s :=
      bounded_of_stack hst (by simp) (by simp)
    have p1 : Bounded (contCount rest) (libCount rest) (step s) := by
      rw [h1]; exact bounded_of_stack rfl (by simp) (by simp)
    have p2 : Bounded (contCount rest) (libCount rest) (step (step s)) := by
      rw [h2]; exact bounded_of_stack rfl (by simp) (by simp)
    have hr1 : RunP _ 1 s (step s) := RunP.one he (by rw [hst]; simp) p0 p1
    have hr2 : RunP _ 1 (step s) (step (step s)) :=
      RunP.one (by rw [h1]; exact he) (by rw [h1]; simp) p1 p2
    exact ((hr1.trans hr2).trans hr).cast (by simp only [List.length_cons]; omega)

/-- destroying one quiet value whose handles are dead: one activation record (the destructor
body) on top of the stack, for one step; no library call nests -/
theorem runP_dropVal (s : State) (v : Val) (rest : List Frame) (he : s.err = none)
    (hst : s.stack = .dropVal v :: rest) (hq : v.quiet) (hr : Ready s.heap v.held v.weaks) :
    RunP (Bounded (contCount rest + 1) (libCount rest)) (valSteps v) s
      (dropValQuiet { s with stack := rest } v) := by
  have h1 : step s = { s with stack := .script v.held v.weaks [] :: .dropFields v.held v.weaks :: rest,
                              log := s.log ++ [.destroyed v.vid] } := by
    simp [step, he, hst, State.dropVal, push, emit, hq.1, hq.2]
  have h2 : step (step s) = { s with stack := .dropFields v.held v.weaks :: rest,
                                     log := s.log ++ [.destroyed v.vid] } := by
    rw [h1]; simp [step, he]
  have p0 : Bounded (contCount rest + 1) (libCount rest) s :=
    bounded_of_stack hst (by simp) (by simp)
  have p1 : Bounded (contCount rest + 1) (libCount rest) (step s) := by
    rw [h1]; exact bounded_of_stack rfl (by simp) (by simp)
  have p2 : Bounded (contCount rest + 1) (libCount rest) (step (step s)) := by
    rw [h2]; exact bounded_of_stack rfl (by simp) (by simp)
  have r1 : RunP _ 1 s (step s) := RunP.one he (by rw [hst]; simp) p0 p1
  have r2 : RunP _ 1 (step s) (step (step s)) :=
    RunP.one (by rw [h1]; exact he) (by rw [h1]; simp) p1 p2
  have r3 := (runP_held rest v.weaks v.held (step (step s)) (by rw [h2]; exact he)
    (by rw [h2]) (by
      rw [h2]
      intro t ht
      obtain ⟨ob, hg, hf, hd, _⟩ := hr.2 t ht
      exact ⟨ob, by simp [cell, hg, hf], hd⟩)).mono
    (fun u hu => hu.mono (Nat.le_succ _) (Nat.le_refl _))
  have r4 := (runP_weaks rest v.weaks { step (step s) with stack := .dropFields [] v.weaks :: rest }
    (by rw [h2]; exact he) rfl (by rw [h2]; exact hr.1)).mono
    (fun u hu => hu.mono (Nat.le_succ _) (Nat.le_refl _))
  have hfin : releaseWeaks
      { ({ step (step s) with stack := .dropFields [] v.weaks :: rest } : State) with stack := rest }
      v.weaks = dropValQuiet { s with stack := rest } v := by
    rw [h2]; rfl
  rw [hfin] at r4
  exact (((r1.trans r2).trans r3).trans r4).cast (by unfold valSteps; omega)

/-- **the block of destructors of a collected group runs at constant depth**: over the stack
`rest`, at most `contCount rest + 1` activation records and `libCount rest` library
continuations, whatever the length of `vs` -/
theorem runP_block (vs : List Val) :
    ∀ (s : State) (rest : List Frame), s.err = none → s.stack = vs.map Frame.dropVal ++ rest →
      (∀ v ∈ vs, v.quiet) →
      Ready s.heap (vs.map (·.held)).flatten (vs.map (·.weaks)).flatten →
      RunP (Bounded (contCount rest + 1) (libCount rest)) (blockSteps vs) s
        (blockResult { s with stack := rest } vs) := by
  induction vs with
  | nil =>
    intro s rest _ hst _ _
    have : blockResult { s with stack := rest } [] = s := by
      show ({ s with stack := rest } : State) = s
      rw [← show s.stack = rest from hst]
    rw [this]
    exact .zero s (bounded_of_stack (show s.stack = rest from hst) (Nat.le_succ _) (Nat.le_refl _))
  | cons v vs ih =>
    intro s rest he hst hq hr
    simp only [List.map_cons, List.flatten_cons] at hr
    have hn1 := (runP_dropVal s v (vs.map Frame.dropVal ++ rest) he hst
      (hq v (List.mem_cons_self ..)) hr.left).mono
      (Q := Bounded (contCount rest + 1) (libCount rest))
      (fun u hu => hu.mono (by simp) (by simp))
    have hsp := dropValQuiet_spec { s with stack := vs.map Frame.dropVal ++ rest } v hr.left.1
    have hctl := hsp.1
    obtain ⟨s1, hs1⟩ : ∃ s1, s1 = dropValQuiet { s with stack := vs.map Frame.dropVal ++ rest } v :=
      ⟨_, rfl⟩
    rw [← hs1] at hn1 hsp hctl
    have hst1 : s1.stack = vs.map Frame.dropVal ++ rest := by rw [hctl]
    have he1 : s1.err = none := by rw [hctl]; exact he
    have hn2 := ih s1 rest he1 hst1 (fun v hv => hq v (List.mem_cons_of_mem _ hv))
      (hr.right hsp.2)
    have hfin : blockResult { s1 with stack := rest } vs
        = blockResult { s with stack := rest } (v :: vs) := by
      show _ = blockResult (dropValQuiet { s with stack := rest } v) vs
      congr 1
      rw [hs1, dropValQuiet_setStack s _ v, dropValQuiet_setStack s rest v]
    rw [hfin] at hn2
    exact (hn1.trans hn2).cast (by simp [blockSteps])

end Cactus
