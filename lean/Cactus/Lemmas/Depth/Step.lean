import Cactus.Lemmas.Depth.Defs
/-!
# C15, nesting depth: one machine step, frame by frame (no hypothesis on the state)

Which steps push or pop an activation record:

| top frame                 | `depth`            | `libDepth`         |
|---------------------------|--------------------|--------------------|
| `rcDrop o`                | `+0` or `+1`       | `+0` or `+1` (same)|
| `weakDrop o`              | `+0`               | `+0`               |
| `dropVal v`               | `+1` (the body)    | `+0`               |
| `script _ _ []`           | `-1` (body returns)| `+0`               |
| `script _ _ (a :: as)`    | `+0`               | `+0`               |
| `panic`                   | `+0` (abort) or `=0` (unwinding) | same |
| `dropFields _ _`          | `+0`               | `+0`               |
| `finishSingle o`          | `-1`               | `-1`               |
| `phase3 ks`               | `-1`               | `-1`               |

Consequences: `step_depth_le` (a step pushes at most one activation record),
`step_depth_ge` (and pops at most one, unless a panic unwinds).
-/
namespace Cactus
open State

theorem depth_of_stack {s : State} {l : List Frame} (h : s.stack = l) : s.depth = contCount l := by
  rw [State.depth_eq, h]

theorem libDepth_of_stack {s : State} {l : List Frame} (h : s.stack = l) : s.libDepth = libCount l := by
  rw [State.libDepth_eq, h]

theorem step_eq_frame {s : State} {f : Frame} {rest : List Frame} (herr : s.err = none)
    (hst : s.stack = f :: rest) :
    step s = match f with
      | .rcDrop o => ({ s with stack := rest } : State).rcDrop o
      | .weakDrop o => ({ s with stack := rest } : State).weakDrop o
      | .dropVal v => ({ s with stack := rest } : State).dropVal v
      | .script _ _ [] => ({ s with stack := rest } : State)
      | .script h w (a :: as) => applyAct (({ s with stack := rest } : State).push [.script h w as]) h w a
      | .panic => ({ s with stack := rest } : State).panic
      | .dropFields h w => ({ s with stack := rest } : State).dropFields h w
      | .finishSingle o => ({ s with stack := rest } : State).finishSingle o
      | .phase3 ks => ks.foldl State.phase3One ({ s with stack := rest } : State) := by
  cases f with
  | script h w acts => cases acts <;> (unfold step; simp only [herr, hst])
  | _ => unfold step; simp only [herr, hst]

theorem step_of_stack_nil {s : State} (h : s.stack = []) : step s = s := by
  unfold step
  split
  · rfl
  · simp only [h]

theorem runSteps_of_stack_nil (n : Nat) {s : State} (h : s.stack = []) : runSteps n s = s := by
  induction n with
  | zero => rfl
  | succ n ih => rw [runSteps, step_of_stack_nil h, ih]

section frames
variable {s : State} {rest : List Frame}

/-- `Rc::drop`: nothing, or exactly one library continuation (`finishSingle` or `phase3`) -/
theorem step_rcDrop_depth (he : s.err = none) {o : Nat} (hst : s.stack = .rcDrop o :: rest) :
    ((step s).depth = s.depth ∧ (step s).libDepth = s.libDepth)
    ∨ ((step s).depth = s.depth + 1 ∧ (step s).libDepth = s.libDepth + 1) := by
  have e : step s = ({ s with stack := rest } : State).rcDrop o := step_eq_frame he hst
  rw [depth_of_stack hst, libDepth_of_stack hst, e]
  rcases rcDrop_stack_cases ({ s with stack := rest } : State) o with h | ⟨v, h⟩ | ⟨vs, ks, h⟩
  · left; rw [depth_of_stack h, libDepth_of_stack h]; simp
  · right; rw [depth_of_stack h, libDepth_of_stack h]; simp
  · right; rw [depth_of_stack h, libDepth_of_stack h]; simp

theorem step_weakDrop_depth (he : s.err = none) {o : Nat} (hst : s.stack = .weakDrop o :: rest) :
    (step s).depth = s.depth ∧ (step s).libDepth = s.libDepth := by
  have e : step s = ({ s with stack := rest } : State).weakDrop o := step_eq_frame he hst
  have h : (step s).stack = rest := by rw [e]; simp [State.weakDrop]
  rw [depth_of_stack hst, libDepth_of_stack hst, depth_of_stack h, libDepth_of_stack h]; simp

/-- destroying a value: the destructor body is entered -/
theorem step_dropVal_depth (he : s.err = none) {v : Val} (hst : s.stack = .dropVal v :: rest) :
    (step s).depth = s.depth + 1 ∧ (step s).libDepth = s.libDepth := by
  have e : step s = ({ s with stack := rest } : State).dropVal v := step_eq_frame he hst
  have h : (step s).stack = [.script v.held v.weaks v.script] ++ (if v.panics then [.panic] else [])
      ++ [.dropFields v.held v.weaks] ++ rest := by rw [e]; simp [State.dropVal]
  rw [depth_of_stack hst, libDepth_of_stack hst, depth_of_stack h, libDepth_of_stack h]
  cases v.panics <;> simp <;> omega

/-- the destructor body returns -/
theorem step_script_nil_depth (he : s.err = none) {h w : List Nat}
    (hst : s.stack = .script h w [] :: rest) :
    (step s).depth + 1 = s.depth ∧ (step s).libDepth = s.libDepth := by
  have e : step s = ({ s with stack := rest } : State) := step_eq_frame he hst
  have h' : (step s).stack = rest := by rw [e]
  rw [depth_of_stack hst, libDepth_of_stack hst, depth_of_stack h', libDepth_of_stack h']; simp

/-- one action of a destructor body: pushes pending handles or values only -/
theorem step_script_cons_depth (he : s.err = none) {h w : List Nat} {a : Act} {as : List Act}
    (hst : s.stack = .script h w (a :: as) :: rest) :
    (step s).depth = s.depth ∧ (step s).libDepth = s.libDepth := by
  have e : step s = applyAct (({ s with stack := rest } : State).push [.script h w as]) h w a :=
    step_eq_frame he hst
  rw [depth_of_stack hst, libDepth_of_stack hst, e]
  rcases applyAct_stack_cases (({ s with stack := rest } : State).push [.script h w as]) h w a with
    h' | ⟨d, hd, h'⟩
  · rw [depth_of_stack h', libDepth_of_stack h']; simp
  · rw [depth_of_stack h', libDepth_of_stack h', contCount_cons_data hd, libCount_cons_data hd]; simp

/-- a destructor panics: abort (error, the stack is kept) or every activation record is unwound -/
theorem step_panic_depth (he : s.err = none) (hst : s.stack = .panic :: rest) :
    ((step s).depth = s.depth ∧ (step s).libDepth = s.libDepth ∧ (step s).err ≠ none)
    ∨ ((step s).depth = 0 ∧ (step s).libDepth = 0) := by
  have e : step s = ({ s with stack := rest } : State).panic := step_eq_frame he hst
  rw [depth_of_stack hst, libDepth_of_stack hst, e]
  unfold State.panic
  split
  · left
    have h' : (({ s with stack := rest } : State).fail .abort).stack = rest := by simp
    rw [depth_of_stack h', libDepth_of_stack h']
    refine ⟨by simp, by simp, ?_⟩
    rw [fail_err_of_none _ _ (show ({ s with stack := rest } : State).err = none from he)]; simp
  · right
    exact ⟨contCount_filter_isCleanup rest, libCount_filter_isCleanup rest⟩

theorem dropFields_stack_cases (u : State) (h w : List Nat) :
    (u.dropFields h w).stack = u.stack
    ∨ ∃ d h' w', d.isData = true ∧ (u.dropFields h w).stack = d :: .dropFields h' w' :: u.stack := by
  cases h with
  | cons x xs => exact Or.inr ⟨.rcDrop x, xs, w, rfl, rfl⟩
  | nil =>
    cases w with
    | cons x xs => exact Or.inr ⟨.weakDrop x, [], xs, rfl, rfl⟩
    | nil => exact Or.inl rfl

theorem step_dropFields_depth (he : s.err = none) {h w : List Nat}
    (hst : s.stack = .dropFields h w :: rest) :
    (step s).depth = s.depth ∧ (step s).libDepth = s.libDepth := by
  have e : step s = ({ s with stack := rest } : State).dropFields h w := step_eq_frame he hst
  rw [depth_of_stack hst, libDepth_of_stack hst, e]
  rcases dropFields_stack_cases ({ s with stack := rest } : State) h w with h' | ⟨d, x, y, hd, h'⟩
  · rw [depth_of_stack h', libDepth_of_stack h']; simp
  · rw [depth_of_stack h', libDepth_of_stack h', contCount_cons_data hd, libCount_cons_data hd]; simp

/-- `drop_unreachable*` returns -/
theorem step_finishSingle_depth (he : s.err = none) {o : Nat}
    (hst : s.stack = .finishSingle o :: rest) :
    (step s).depth + 1 = s.depth ∧ (step s).libDepth + 1 = s.libDepth := by
  have e : step s = ({ s with stack := rest } : State).finishSingle o := step_eq_frame he hst
  have h' : (step s).stack = rest := by rw [e, finishSingle_stack]
  rw [depth_of_stack hst, libDepth_of_stack hst, depth_of_stack h', libDepth_of_stack h']; simp

/-- `drop_cycle` returns -/
theorem step_phase3_depth (he : s.err = none) {ks : List Nat}
    (hst : s.stack = .phase3 ks :: rest) :
    (step s).depth + 1 = s.depth ∧ (step s).libDepth + 1 = s.libDepth := by
  have e : step s = ks.foldl State.phase3One ({ s with stack := rest } : State) :=
    step_eq_frame he hst
  have h' : (step s).stack = rest := by rw [e, foldl_phase3One_stack]
  rw [depth_of_stack hst, libDepth_of_stack hst, depth_of_stack h', libDepth_of_stack h']; simp

end frames

/-- **one machine step pushes at most one activation record** (any state whatsoever) -/
theorem step_depth_le (s : State) :
    (step s).depth ≤ s.depth + 1 ∧ (step s).libDepth ≤ s.libDepth + 1 := by
  cases he : s.err with
  | some e => rw [step_of_err he]; omega
  | none =>
    cases hst : s.stack with
    | nil => rw [step_of_stack_nil hst]; omega
    | cons f rest =>
      cases f with
      | rcDrop o => rcases step_rcDrop_depth he hst with h | h <;> omega
      | weakDrop o => have := step_weakDrop_depth he hst; omega
      | dropVal v => have := step_dropVal_depth he hst; omega
      | script h w acts =>
        cases acts with
        | nil => have := step_script_nil_depth he hst; omega
        | cons a as => have := step_script_cons_depth he hst; omega
      | panic => rcases step_panic_depth he hst with h | h <;> omega
      | dropFields h w => have := step_dropFields_depth he hst; omega
      | finishSingle o => have := step_finishSingle_depth he hst; omega
      | phase3 ks => have := step_phase3_depth he hst; omega

/-- **one machine step pops at most one activation record**, unless it is a panic that starts
unwinding -/
theorem step_depth_ge (s : State) (hp : s.stack.head? ≠ some .panic) :
    s.depth ≤ (step s).depth + 1 ∧ s.libDepth ≤ (step s).libDepth + 1 := by
  cases he : s.err with
  | some e => rw [step_of_err he]; omega
  | none =>
    cases hst : s.stack with
    | nil => rw [step_of_stack_nil hst]; omega
    | cons f rest =>
      cases f with
      | rcDrop o => rcases step_rcDrop_depth he hst with h | h <;> omega
      | weakDrop o => have := step_weakDrop_depth he hst; omega
      | dropVal v => have := step_dropVal_depth he hst; omega
      | script h w acts =>
        cases acts with
        | nil => have := step_script_nil_depth he hst; omega
        | cons a as => have := step_script_cons_depth he hst; omega
      | panic => rw [hst] at hp; exact absurd rfl hp
      | dropFields h w => have := step_dropFields_depth he hst; omega
      | finishSingle o => have := step_finishSingle_depth he hst; omega
      | phase3 ks => have := step_phase3_depth he hst; omega

/-- along any run, `j` steps add at most `j` activation records -/
theorem runSteps_depth_le (j : Nat) (s : State) :
    (runSteps j s).depth ≤ s.depth + j ∧ (runSteps j s).libDepth ≤ s.libDepth + j := by
  induction j generalizing s with
  | zero => exact ⟨Nat.le_refl _, Nat.le_refl _⟩
  | succ j ih =>
    have h1 := ih (step s)
    have h2 := step_depth_le s
    rw [runSteps]
    omega

end Cactus
