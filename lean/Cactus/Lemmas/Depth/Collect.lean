import Cactus.Lemmas.Depth.Block
/-!
# C15, nesting depth: a whole collection runs at constant depth

`collection_depth_bounded`: from a stable point (`Good s`) whose top frame `rcDrop o` starts a
collection (`Collects`), the machine comes back to a stable point `t` (`Good t`, stack = the rest
of `s.stack`) and **every** state passed through has

* `depth ≤ s.depth + 2`: the `phase3` frame (rest of `drop_cycle`) and the body of the one
  destructor that is currently running;
* `libDepth ≤ s.libDepth + 1`: the `phase3` frame — no library call nests inside `drop_cycle`;

whatever the number of objects in the group.  Both bounds are attained (`Example.lean`), so the
`+ 1` for `depth` asked for in the task statement does not hold with `script` frames counted:
it holds for the library continuations.
-/
namespace Cactus
open State

/-- the block of destructors of a collection, from `step s` to the state in which the `phase3`
frame is on top, with the accounting (first half of `collect_core`, with `runP_block` in the
place of `run_block'`) -/
theorem collect_block_runP {s : State} {o : Nat} {rest : List Frame}
    (s1 : State) (hd : DecFacts s1 o) (e : Ev)
    (hst1 : s1.stack = rest) (hhint1 : s1.hint = s.hint)
    (hne : (cycleRefs s1 o).cmap.isEmpty = false)
    (hext : hasExternalOwners s1 (cycleRefs s1 o).cmap = false)
    (hstep : step s = (s1.emit e).dropCycle (cycleRefs s1 o).cmap) :
    ∃ B : State,
      RunP (Bounded (contCount rest + 2) (libCount rest + 1))
        (blockSteps ((s1.emit e).cyc2 (cycleRefs s1 o).cmap).2) (step s) B
      ∧ B.stack = .phase3 (cycleRefs s1 o).cmap.keys :: rest ∧ B.err = none := by
  have hcr : cycleRefs (s1.emit e) o = cycleRefs s1 o := cycleRefs_emit s1 e o
  have hI2 : (s1.emit e).InvCore := State.InvCore_emit hd.core e
  have hR2 : (s1.emit e).InvR := hd.rng.emit e
  have hS2 : (s1.emit e).InvSCore := hd.safe
  have herr2 : (s1.emit e).err = none := hd.err
  have hfq2 : FQ noE (s1.emit e) := hd.fq.emit e
  have hF2 : (s1.emit e).Full := hfq2.toFull
  have ho2 : (s1.emit e).isLive o = true := hd.live
  have hne2 : (cycleRefs (s1.emit e) o).cmap.isEmpty = false := by rw [hcr]; exact hne
  have hext2 : hasExternalOwners (s1.emit e) (cycleRefs (s1.emit e) o).cmap = false := by
    rw [hcr]; exact hext
  have hCR := cycleReady_of_inv (s1.emit e) o hI2.1 hI2.2.1 herr2 ho2 hext2
  have hT := dropCycle_teardown (s1.emit e) o hI2.1 hI2.2.1 herr2 ho2 hne2 hext2
  have hready := collection_block_ready (s1.emit e) o hI2 hR2 hS2 herr2 hF2 ho2 hne2 hext2
  rw [hcr] at hCR hT hready
  generalize hcm : (cycleRefs s1 o).cmap = c at *
  rw [← hstep] at hT hready
  generalize hvs : ((s1.emit e).cyc2 c).2 = vs at *
  have hq : ∀ v ∈ vs, v.quiet := by
    intro v hv
    obtain ⟨k, _, obk, hgk, hvk⟩ := hT.mem_vals hv
    exact hfq2.quiet k obk v hgk hvk
  obtain ⟨d1, d2, d3, d4, d5, d6, d7, d8, d9, d10, d11⟩ := dropCycle_spec (s1.emit e) c hCR
  rw [← hstep] at d1 d2 d3 d4 d5 d6 d7 d8 d9 d10 d11
  rw [hvs] at d3
  have hst2 : (s1.emit e).stack = rest := hst1
  have hhint : (s1.emit e).hint = s.hint := hhint1
  rw [hst2, hhint, List.append_assoc] at d3
  have hperm := reorder_perm s.hint vs
  have hr : Ready (step s).heap (blockHeld (reorder s.hint vs)) (blockWeaks (reorder s.hint vs)) :=
    hready.perm (blockHeld_perm hperm.symm) (blockWeaks_perm hperm.symm)
  have hrun := runP_block (reorder s.hint vs) (step s) ([Frame.phase3 c.keys] ++ rest) d2 d3
    (fun v hv => hq v ((mem_reorder s.hint _ v).mp hv)) hr
  rw [blockSteps_perm hperm] at hrun
  obtain ⟨k1, -, -⟩ := blockResult_spec
    ({ step s with stack := [Frame.phase3 c.keys] ++ rest } : State) (reorder s.hint vs) hr.1
  refine ⟨_, hrun.mono (fun u hu => hu.mono (by simp) (by simp)), ?_, ?_⟩
  · rw [k1]; rfl
  · rw [k1]; exact d2

/-- **C15, group teardown at constant depth.**  From a stable point `s` whose top frame
`rcDrop o` starts a collection, the machine is back at a stable point `t` after `k` further steps
(`k` = the steps of the block of destructors + 1), the stack of `t` is the rest of the stack of
`s`, and every state passed through — for a group of any size — has at most `s.depth + 2`
activation records (the `phase3` frame and the running destructor body), of which at most
`s.libDepth + 1` are library continuations (the `phase3` frame). -/
theorem collection_depth_bounded {s : State} (hg : Good s) {o : Nat} {rest : List Frame} {ob : Obj}
    {n : Nat} (hc : Collects s o rest ob n) :
    ∃ k t, Run k (step s) t ∧ Good t ∧ t.stack = rest
      ∧ t.depth = s.depth ∧ t.libDepth = s.libDepth
      ∧ ∀ j, j ≤ k → (runSteps j (step s)).depth ≤ s.depth + 2
          ∧ (runSteps j (step s)).libDepth ≤ s.libDepth + 1 := by
  obtain ⟨t, cr⟩ := hg.collect hc
  obtain ⟨B, hB, hstB, herB⟩ := collect_block_runP (s := s) (decState s o rest ob n)
    (hg.decFacts hc.stack hc.cell hc.strong) _ rfl rfl hc.hne hc.hext hc.step_eq
  -- the last step: the `phase3` frame
  have htB : t = step B := by
    rw [← cr.run.runSteps_eq, runSteps_add, hB.toRun.runSteps_eq]
    rfl
  have hstt : t.stack = rest := by
    rw [htB, step_eq_frame herB hstB]
    exact foldl_phase3One_stack _ _
  have hd : s.depth = contCount rest := by rw [depth_of_stack hc.stack]; simp
  have hl : s.libDepth = libCount rest := by rw [libDepth_of_stack hc.stack]; simp
  have hlast : RunP (Bounded (contCount rest + 2) (libCount rest + 1)) 1 B (step B) :=
    RunP.one herB (by rw [hstB]; simp) hB.last
      (by rw [← htB]; exact bounded_of_stack hstt (by omega) (by omega))
  have hall := (hB.trans hlast).forall_runSteps
  refine ⟨_, t, cr.run, cr.good, hstt, ?_, ?_, ?_⟩
  · rw [hd, depth_of_stack hstt]
  · rw [hl, libDepth_of_stack hstt]
  · intro j hj
    have := hall j hj
    rw [hd, hl]
    exact this

/-- the same as a `RunP` (the form that composes) -/
theorem collection_runP {s : State} (hg : Good s) {o : Nat} {rest : List Frame} {ob : Obj}
    {n : Nat} (hc : Collects s o rest ob n) :
    ∃ k t, RunP (Bounded (s.depth + 2) (s.libDepth + 1)) k (step s) t ∧ Good t ∧ t.stack = rest := by
  obtain ⟨k, t, hr, hgt, hst, -, -, hall⟩ := collection_depth_bounded hg hc
  exact ⟨k, t, RunP.of_run hr hall, hgt, hst⟩

/-- the library part alone, in the `+ 1` form of the task statement: during the collection of a
group of any size at most one library call (`drop_cycle` itself) is added to those that were
waiting when it started -/
theorem collection_libDepth_bounded {s : State} (hg : Good s) {o : Nat} {rest : List Frame}
    {ob : Obj} {n : Nat} (hc : Collects s o rest ob n) :
    ∃ k t, Run k (step s) t ∧ Good t ∧ t.stack = rest
      ∧ ∀ j, j ≤ k → (runSteps j (step s)).libDepth ≤ s.libDepth + 1 := by
  obtain ⟨k, t, hr, hgt, hst, -, -, hall⟩ := collection_depth_bounded hg hc
  exact ⟨k, t, hr, hgt, hst, fun j hj => (hall j hj).2⟩

end Cactus
