import Cactus.Lemmas.History.Drain
/-!
# C15, nesting depth: definitions and the per-frame accounting

In the Rust code the machine stack holds one activation record per call that is waiting for a
nested call to return.  In the model these are the *continuation frames* `finishSingle _` (rest of
`drop_unreachable*`), `phase3 _` (rest of `drop_cycle`) and `script _ _ _` (a running destructor
body); the other frames are data (pending handles / values that a loop or the drop glue gets to).

* `State.depth`: number of continuation frames on the control stack;
* `State.libDepth`: the same without the `script` frames (activation records of the *library*);
* `contCount`, `libCount`: the same on lists of frames;
* unconditional per-step facts (no hypothesis on the state): `step_depth_frame`,
  `step_libDepth_frame` (the table: which frame pushes or pops what), `step_depth_le`,
  `step_libDepth_le`, `step_depth_ge`, `step_libDepth_ge`.
-/
namespace Cactus
open State

/-- activation records of the real machine stack: the continuation frames `finishSingle`, `phase3`
(already singled out by `Frame.isCont` in `Inv/Frames.lean`) and the running destructor bodies
`script` -/
def Frame.isActRec : Frame → Bool
  | .finishSingle _ => true
  | .phase3 _ => true
  | .script _ _ _ => true
  | _ => false

/-- nesting depth: the number of continuation frames on the control stack -/
def State.depth (s : State) : Nat := (s.stack.filter Frame.isActRec).length

/-- nesting depth of library calls only -/
def State.libDepth (s : State) : Nat := (s.stack.filter Frame.isCont).length

/-- continuation frames in a list of frames -/
def contCount (l : List Frame) : Nat := (l.filter Frame.isActRec).length

/-- library continuation frames in a list of frames -/
def libCount (l : List Frame) : Nat := (l.filter Frame.isCont).length

theorem State.depth_eq (s : State) : s.depth = contCount s.stack := rfl
theorem State.libDepth_eq (s : State) : s.libDepth = libCount s.stack := rfl

theorem Frame.isCont_le (f : Frame) : f.isCont = true → f.isActRec = true := by
  cases f <;> simp [Frame.isCont, Frame.isActRec]

/-! ## counting -/

@[simp] theorem contCount_nil : contCount [] = 0 := rfl
@[simp] theorem libCount_nil : libCount [] = 0 := rfl

theorem contCount_cons (f : Frame) (l : List Frame) :
    contCount (f :: l) = (if f.isActRec then 1 else 0) + contCount l := by
  unfold contCount
  rw [List.filter_cons]
  split <;> simp <;> omega

theorem libCount_cons (f : Frame) (l : List Frame) :
    libCount (f :: l) = (if f.isCont then 1 else 0) + libCount l := by
  unfold libCount
  rw [List.filter_cons]
  split <;> simp <;> omega

@[simp] theorem contCount_append (a b : List Frame) : contCount (a ++ b) = contCount a + contCount b := by
  simp [contCount]

@[simp] theorem libCount_append (a b : List Frame) : libCount (a ++ b) = libCount a + libCount b := by
  simp [libCount]

@[simp] theorem contCount_rcDrop (o : Nat) (l : List Frame) : contCount (.rcDrop o :: l) = contCount l := by
  simp [contCount_cons, Frame.isActRec]
@[simp] theorem contCount_weakDrop (o : Nat) (l : List Frame) : contCount (.weakDrop o :: l) = contCount l := by
  simp [contCount_cons, Frame.isActRec]
@[simp] theorem contCount_dropVal (v : Val) (l : List Frame) : contCount (.dropVal v :: l) = contCount l := by
  simp [contCount_cons, Frame.isActRec]
@[simp] theorem contCount_panic (l : List Frame) : contCount (.panic :: l) = contCount l := by
  simp [contCount_cons, Frame.isActRec]
@[simp] theorem contCount_dropFields (h w : List Nat) (l : List Frame) :
    contCount (.dropFields h w :: l) = contCount l := by
  simp [contCount_cons, Frame.isActRec]
@[simp] theorem contCount_script (h w : List Nat) (a : List Act) (l : List Frame) :
    contCount (.script h w a :: l) = contCount l + 1 := by
  simp [contCount_cons, Frame.isActRec, Nat.add_comm]
@[simp] theorem contCount_finishSingle (o : Nat) (l : List Frame) :
    contCount (.finishSingle o :: l) = contCount l + 1 := by
  simp [contCount_cons, Frame.isActRec, Nat.add_comm]
@[simp] theorem contCount_phase3 (ks : List Nat) (l : List Frame) :
    contCount (.phase3 ks :: l) = contCount l + 1 := by
  simp [contCount_cons, Frame.isActRec, Nat.add_comm]

@[simp] theorem libCount_rcDrop (o : Nat) (l : List Frame) : libCount (.rcDrop o :: l) = libCount l := by
  simp [libCount_cons, Frame.isCont]
@[simp] theorem libCount_weakDrop (o : Nat) (l : List Frame) : libCount (.weakDrop o :: l) = libCount l := by
  simp [libCount_cons, Frame.isCont]
@[simp] theorem libCount_dropVal (v : Val) (l : List Frame) : libCount (.dropVal v :: l) = libCount l := by
  simp [libCount_cons, Frame.isCont]
@[simp] theorem libCount_panic (l : List Frame) : libCount (.panic :: l) = libCount l := by
  simp [libCount_cons, Frame.isCont]
@[simp] theorem libCount_dropFields (h w : List Nat) (l : List Frame) :
    libCount (.dropFields h w :: l) = libCount l := by
  simp [libCount_cons, Frame.isCont]
@[simp] theorem libCount_script (h w : List Nat) (a : List Act) (l : List Frame) :
    libCount (.script h w a :: l) = libCount l := by
  simp [libCount_cons, Frame.isCont]
@[simp] theorem libCount_finishSingle (o : Nat) (l : List Frame) :
    libCount (.finishSingle o :: l) = libCount l + 1 := by
  simp [libCount_cons, Frame.isCont, Nat.add_comm]
@[simp] theorem libCount_phase3 (ks : List Nat) (l : List Frame) :
    libCount (.phase3 ks :: l) = libCount l + 1 := by
  simp [libCount_cons, Frame.isCont, Nat.add_comm]

@[simp] theorem contCount_map_dropVal (vs : List Val) : contCount (vs.map Frame.dropVal) = 0 := by
  induction vs with
  | nil => rfl
  | cons v vs ih => simp [ih]

@[simp] theorem libCount_map_dropVal (vs : List Val) : libCount (vs.map Frame.dropVal) = 0 := by
  induction vs with
  | nil => rfl
  | cons v vs ih => simp [ih]

theorem libCount_le_contCount (l : List Frame) : libCount l ≤ contCount l := by
  induction l with
  | nil => simp
  | cons f l ih =>
    rw [libCount_cons, contCount_cons]
    have := Frame.isCont_le f
    cases h1 : f.isCont <;> cases h2 : f.isActRec <;> simp_all <;> omega

theorem State.libDepth_le_depth (s : State) : s.libDepth ≤ s.depth := libCount_le_contCount _

/-- a panic unwinds through every continuation frame: none of them is a cleanup frame -/
theorem contCount_filter_isCleanup (l : List Frame) : contCount (l.filter Frame.isCleanup) = 0 := by
  induction l with
  | nil => rfl
  | cons f l ih =>
    rw [List.filter_cons]
    cases f <;> simp [Frame.isCleanup, ih]

theorem libCount_filter_isCleanup (l : List Frame) : libCount (l.filter Frame.isCleanup) = 0 := by
  have := libCount_le_contCount (l.filter Frame.isCleanup)
  rw [contCount_filter_isCleanup] at this
  omega

/-! ## what the primitives push -/

/-- `beginSingle` pushes nothing, or the value and the continuation `finishSingle` -/
theorem beginSingle_stack_cases (s : State) (o : Nat) :
    (s.beginSingle o).stack = s.stack
    ∨ ∃ v, (s.beginSingle o).stack = .dropVal v :: .finishSingle o :: s.stack := by
  unfold State.beginSingle
  split
  · split
    · exact Or.inl (decWeakFree_stack_imp _ _ _)
    · split
      · rename_i v _
        exact Or.inr ⟨v, rfl⟩
      · exact Or.inl (fail_stack _ _)
  · exact Or.inl (fail_stack _ _)

theorem dropCycle_stack (s : State) (c : CMap) :
    ∃ vs : List Val, (s.dropCycle c).stack = vs.map Frame.dropVal ++ .phase3 c.keys :: s.stack := by
  refine ⟨reorder s.hint (c.keys.foldl phase2One (c.foldl (phase1One c.keys) s, [])).2, ?_⟩
  unfold State.dropCycle
  simp only [push_stack, foldl_phase2One_stack, foldl_phase1One_stack, List.append_assoc,
    List.cons_append, List.nil_append]

/-- **`Rc::drop` pushes at most one continuation frame**: nothing (plain decrement, dead target,
failed orphan test), or `[dropVal v, finishSingle o]` (the zero-count path), or a block of values
followed by one `phase3` frame (a collection) -/
theorem rcDrop_stack_cases (s : State) (o : Nat) :
    (s.rcDrop o).stack = s.stack
    ∨ (∃ v, (s.rcDrop o).stack = .dropVal v :: .finishSingle o :: s.stack)
    ∨ ∃ (vs : List Val) (ks : List Nat), (s.rcDrop o).stack = vs.map Frame.dropVal ++ .phase3 ks :: s.stack := by
  have hb : ∀ u : State, u.stack = s.stack →
      (u.beginSingle o).stack = s.stack
      ∨ (∃ v, (u.beginSingle o).stack = .dropVal v :: .finishSingle o :: s.stack)
      ∨ ∃ (vs : List Val) (ks : List Nat), (u.beginSingle o).stack = vs.map Frame.dropVal ++ .phase3 ks :: s.stack := by
    intro u hu
    rcases beginSingle_stack_cases u o with h | ⟨v, h⟩
    · exact Or.inl (h.trans hu)
    · exact Or.inr (Or.inl ⟨v, by rw [h, hu]⟩)
  unfold State.rcDrop
  split
  · exact Or.inl (fail_stack _ _)
  · split
    · exact Or.inl rfl
    · exact Or.inl rfl
    · split
      · exact Or.inl (fail_stack _ _)
      · dsimp only
        split
        · split
          · exact hb _ rfl
          · exact Or.inl rfl
        · split
          · exact hb _ (purgePeers_stack _ _)
          · split
            · exact Or.inl (fail_stack _ _)
            · split
              · exact Or.inl (fail_stack _ _)
              · split
                · exact Or.inl rfl
                · split
                  · exact Or.inl (fail_stack _ _)
                  · split
                    · exact Or.inl rfl
                    · obtain ⟨vs, h⟩ := dropCycle_stack
                        ((s.setObj o _).emit (.traced o (cycleRefs (s.setObj o _) o).visited.length
                          (cycleRefs (s.setObj o _) o).popped)) (cycleRefs (s.setObj o _) o).cmap
                      exact Or.inr (Or.inr ⟨vs, _, h⟩)

/-- data frames: pending handles and values -/
def Frame.isData : Frame → Bool
  | .rcDrop _ => true
  | .weakDrop _ => true
  | .dropVal _ => true
  | _ => false

theorem contCount_cons_data {d : Frame} (h : d.isData = true) (l : List Frame) :
    contCount (d :: l) = contCount l := by
  cases d <;> simp [Frame.isData] at h <;> simp

theorem libCount_cons_data {d : Frame} (h : d.isData = true) (l : List Frame) :
    libCount (d :: l) = libCount l := by
  cases d <;> simp [Frame.isData] at h <;> simp

/-- **a user-level action pushes no continuation frame**: it leaves the stack alone or pushes one
pending handle or value -/
theorem applyAct_stack_cases (s : State) (fh fw : List Nat) (a : Act) :
    (applyAct s fh fw a).stack = s.stack
    ∨ ∃ d, d.isData = true ∧ (applyAct s fh fw a).stack = d :: s.stack := by
  cases a <;> simp only [applyAct] <;> (repeat' split) <;> simp [Frame.isData, push_stack]

end Cactus
