import Cactus.Lemmas.Depth.Collect
import Cactus.Lemmas.History.Main
/-!
# C15, nesting depth along whole histories of fully recorded, quiet programs

Outside collections the depth legitimately grows: the zero-count path of `Rc::drop` nests
(`finishSingle` frames) along an acyclic chain.  So the statements are relative to the stable
points (`Good`) the run passes through:

* `Good.bigStepD`: from a stable point with a non-empty stack the next stable point is reached
  either by **one** step, which changes `depth` and `libDepth` by at most one (up or down), or by a
  **collection**, which comes back to the depth at which it started and in between adds at most
  `2` to `depth` and `1` to `libDepth`;
* `Good.depth_profile`: every state of the run (`runSteps j s`) is within `+2` / `+1` of a stable
  point `runSteps i s`, `i ≤ j`, and if it is not itself that stable point a collection started
  there is in progress;
* `Good.depth_le_of_stable`: hence a bound on the stable points bounds the whole run;
* `drain_eq_runSteps`, `Good.drain`: `drain` is `runSteps`, and ends at a stable point;
* `single_collection_depth`, `execOp_single_collection_depth`: an operation whose whole effect is
  one collection (the last program handle of an orphaned group is dropped) runs within 2 activation
  records, 1 of them in the library, whatever the size of the group;
* `history_depth_profile`: all of this for every operation of a `fullQuiet` history that ends
  without error.
-/
namespace Cactus
open State

/-! ## stable points -/

theorem Good.sim_self {s : State} (hg : Good s) : Sim s s := ⟨LayoutEqL.refl s, hg, hg⟩

/-- at a stable point: the next step leads to a stable point, or it starts a collection -/
theorem Good.step_cases {s : State} (hg : Good s) (hne : s.stack ≠ []) :
    Good (step s) ∨ ∃ o rest ob n, Collects s o rest ob n := by
  cases hst : s.stack with
  | nil => exact absurd hst hne
  | cons f rest =>
    by_cases hf : ∃ o, f = .rcDrop o
    · obtain ⟨o, rfl⟩ := hf
      rcases hg.sim_self.step_rcDrop hst with h | ⟨ob, _, n, hc, -, -⟩
      · exact Or.inl h.good
      · exact Or.inr ⟨o, rest, ob, n, hc⟩
    · exact Or.inl (hg.step_simple hst (fun o e => hf ⟨o, e⟩))

theorem Good.no_panic_top {s : State} (hg : Good s) : s.stack.head? ≠ some .panic := by
  cases hst : s.stack with
  | nil => simp
  | cons f rest =>
    intro h
    simp only [List.head?_cons, Option.some.injEq] at h
    subst h
    exact hg.ctl.stack .panic (by rw [hst]; exact List.mem_cons_self)

/-- **the big step with the accounting**: from a stable point with a non-empty stack, either one
simple step to the next stable point (depth changes by at most one), or a whole collection (back
to the starting depth; in between at most `+2` activation records, `+1` library continuation) -/
theorem Good.bigStepD {s : State} (hg : Good s) (hne : s.stack ≠ []) :
    (Good (step s)
      ∧ (step s).depth ≤ s.depth + 1 ∧ s.depth ≤ (step s).depth + 1
      ∧ (step s).libDepth ≤ s.libDepth + 1 ∧ s.libDepth ≤ (step s).libDepth + 1)
    ∨ ∃ o rest ob n k t, Collects s o rest ob n ∧ Run (k + 1) s t ∧ Good t ∧ t.stack = rest
        ∧ t.depth = s.depth ∧ t.libDepth = s.libDepth
        ∧ ∀ j, j ≤ k + 1 → (runSteps j s).depth ≤ s.depth + 2
            ∧ (runSteps j s).libDepth ≤ s.libDepth + 1 := by
  rcases hg.step_cases hne with h | ⟨o, rest, ob, n, hc⟩
  · have h1 := step_depth_le s
    have h2 := step_depth_ge s hg.no_panic_top
    exact Or.inl ⟨h, h1.1, h2.1, h1.2, h2.2⟩
  · obtain ⟨k, t, hr, hgt, hst, hd, hl, hall⟩ := collection_depth_bounded hg hc
    refine Or.inr ⟨o, rest, ob, n, k, t, hc, .succ hg.err hne hr, hgt, hst, hd, hl, ?_⟩
    intro j hj
    cases j with
    | zero => exact ⟨Nat.le_add_right _ _, Nat.le_add_right _ _⟩
    | succ j => exact hall j (by omega)

/-- **every state of a run from a stable point is close to a stable point of that run**: within
`+2` activation records and `+1` library continuation of a stable point passed earlier, and if it
is not itself that stable point then a collection started there is in progress.  (No fuel: the
run is `runSteps`, which idles once the stack is empty.) -/
theorem Good.depth_profile {s : State} (hg : Good s) (j : Nat) :
    ∃ i, i ≤ j ∧ Good (runSteps i s)
      ∧ (runSteps j s).depth ≤ (runSteps i s).depth + 2
      ∧ (runSteps j s).libDepth ≤ (runSteps i s).libDepth + 1
      ∧ (i = j ∨ ∃ o rest ob n, Collects (runSteps i s) o rest ob n) := by
  induction j using Nat.strongRecOn generalizing s with
  | _ j ih =>
    cases j with
    | zero => exact ⟨0, Nat.le_refl _, hg, Nat.le_add_right _ _, Nat.le_add_right _ _, Or.inl rfl⟩
    | succ j =>
      by_cases hne : s.stack = []
      · -- the run idles: every index is a stable point
        have e := runSteps_of_stack_nil (j + 1) hne
        exact ⟨j + 1, Nat.le_refl _, by rw [e]; exact hg, Nat.le_add_right _ _, Nat.le_add_right _ _,
          Or.inl rfl⟩
      · rcases hg.bigStepD hne with ⟨h, -⟩ | ⟨o, rest, ob, n, k, t, hc, hr, hgt, -, -, -, hall⟩
        · obtain ⟨i, hi, g, b1, b2, b3⟩ := ih j (Nat.lt_succ_self _) h
          refine ⟨i + 1, by omega, g, b1, b2, ?_⟩
          rcases b3 with rfl | b3
          · exact Or.inl rfl
          · exact Or.inr b3
        · by_cases hjk : j + 1 ≤ k + 1
          · exact ⟨0, Nat.zero_le _, hg, (hall _ hjk).1, (hall _ hjk).2, Or.inr ⟨o, rest, ob, n, hc⟩⟩
          · have ht : runSteps (k + 1) s = t := hr.runSteps_eq
            have hsplit : ∀ i, runSteps (k + 1 + i) s = runSteps i t := by
              intro i; rw [runSteps_add, ht]
            obtain ⟨i, hi, g, b1, b2, b3⟩ := ih (j + 1 - (k + 1)) (by omega) hgt
            have hj : j + 1 = k + 1 + (j + 1 - (k + 1)) := by omega
            rw [← hsplit] at g b1 b2 b3
            rw [← hsplit, ← hj] at b1 b2
            refine ⟨k + 1 + i, by omega, g, b1, b2, ?_⟩
            rcases b3 with h | b3
            · exact Or.inl (by omega)
            · exact Or.inr b3

/-- a bound on the depth of the stable points bounds the whole run -/
theorem Good.depth_le_of_stable {s : State} (hg : Good s) (d e : Nat)
    (hb : ∀ i, Good (runSteps i s) → (runSteps i s).depth ≤ d ∧ (runSteps i s).libDepth ≤ e) (j : Nat) :
    (runSteps j s).depth ≤ d + 2 ∧ (runSteps j s).libDepth ≤ e + 1 := by
  obtain ⟨i, -, g, b1, b2, -⟩ := hg.depth_profile j
  have := hb i g
  omega

/-! ## `drain` -/

/-- a `drain` that ends without error is `runSteps` with the fuel as the number of steps -/
theorem drain_eq_runSteps (f : Nat) (s : State) (h : (drain f s).err = none) :
    drain f s = runSteps f s := by
  induction f generalizing s with
  | zero =>
    unfold drain at h ⊢
    split
    · rfl
    · rename_i hst
      simp only [hst] at h
      cases he : s.err with
      | none => rw [fail_err_of_none s _ he] at h; cases h
      | some e => rw [fail_err_of_some s _ e he] at h; cases h
  | succ f ih =>
    unfold drain at h ⊢
    split
    · rename_i he hst
      simp only [he, hst] at h
      exact ih _ h
    · rename_i hn
      have he : s.err = none := by
        split at h
        · rename_i a r h1 h2
          exact absurd h2 (hn a r h1)
        · exact h
      cases hst : s.stack with
      | nil => exact (runSteps_of_stack_nil _ hst).symm
      | cons a r => exact absurd hst (hn a r he)

/-- `drain` from a stable point, if it does not run out of fuel: it is `runSteps`, it ends at a
stable point with an empty stack -/
theorem Good.drain {s : State} (hg : Good s) (f : Nat) (he : (drain f s).err = none) :
    drain f s = runSteps f s ∧ Good (drain f s) ∧ (drain f s).stack = [] :=
  ⟨drain_eq_runSteps f s he, (drain_sim f s s hg.sim_self he).2.good, drain_quiescent f s he⟩

/-! ## an operation whose whole effect is one collection -/

/-- the stack of a stable point holds nothing but the `rcDrop` that starts a collection: the whole
run stays within 2 activation records, 1 of them in the library — for a group of any size -/
theorem single_collection_depth {s : State} (hg : Good s) {o : Nat} {ob : Obj} {n : Nat}
    (hc : Collects s o [] ob n) :
    ∃ k t, Run (k + 1) s t ∧ Good t ∧ t.stack = []
      ∧ (∀ j, (runSteps j s).depth ≤ 2 ∧ (runSteps j s).libDepth ≤ 1)
      ∧ ∀ f, k + 1 ≤ f → drain f s = t := by
  obtain ⟨k, t, hr, hgt, hst, -, -, hall⟩ := collection_depth_bounded hg hc
  have hd : s.depth = 0 := by rw [depth_of_stack hc.stack]; simp
  have hl : s.libDepth = 0 := by rw [libDepth_of_stack hc.stack]; simp
  have hne : s.stack ≠ [] := by rw [hc.stack]; simp
  have hrun : Run (k + 1) s t := .succ hg.err hne hr
  refine ⟨k, t, hrun, hgt, hst, ?_, ?_⟩
  · intro j
    by_cases hj : j ≤ k + 1
    · cases j with
      | zero => show s.depth ≤ 2 ∧ s.libDepth ≤ 1; omega
      | succ j =>
        have := hall j (by omega)
        rw [hd, hl] at this
        exact this
    · have e : runSteps j s = t := by
        have : j = k + 1 + (j - (k + 1)) := by omega
        rw [this, runSteps_add, hrun.runSteps_eq, runSteps_of_stack_nil _ hst]
      rw [e, depth_of_stack hst, libDepth_of_stack hst]
      simp
  · intro f hf
    rw [hrun.drain_eq f hf, drain_of_stack_nil _ _ hst]

/-- the same for one operation of a history: a `fullQuiet` operation applied at a quiescent stable
point that leaves exactly the `rcDrop` starting a collection on the stack (dropping the last
program handle of an orphaned group) -/
theorem execOp_single_collection_depth {u : State} (hg : Good u) (hq : u.stack = []) (op : Op)
    (hop : op.fullQuiet) (hint : List Nat) {o : Nat} {ob : Obj} {n : Nat}
    (he : (applyOp { u with hint := hint } op).err = none)
    (hc : Collects (applyOp { u with hint := hint } op) o [] ob n) :
    (∀ j, (runSteps j (applyOp { u with hint := hint } op)).depth ≤ 2
        ∧ (runSteps j (applyOp { u with hint := hint } op)).libDepth ≤ 1)
    ∧ ∃ k, ∀ fuel, k + 1 ≤ fuel →
        execOp fuel u op hint = runSteps (k + 1) (applyOp { u with hint := hint } op)
        ∧ Good (execOp fuel u op hint) ∧ (execOp fuel u op hint).stack = [] := by
  have hga := hg.applyOp hq op hop hint he
  obtain ⟨k, t, hr, hgt, hst, hall, hdr⟩ := single_collection_depth hga hc
  refine ⟨hall, k, fun fuel hf => ?_⟩
  have e : execOp fuel u op hint = t := by
    have : execOp fuel u op hint = endOp (drain fuel (applyOp { u with hint := hint } op)) := by
      simp [execOp, hg.err]
    rw [this, hdr fuel hf, endOp_of_not_unwinding _ hgt.ctl.unw]
  rw [e]
  exact ⟨hr.runSteps_eq.symm, hgt, hst⟩

/-! ## whole histories -/

/-- stable points along a history of `fullQuiet` operations that ends without error -/
theorem runFrom_good (fuel : Nat) (ops : List (Op × List Nat)) :
    ∀ s : State, Good s → s.stack = [] → (∀ oh ∈ ops, oh.1.fullQuiet) →
      (runFrom fuel s ops).err = none → Good (runFrom fuel s ops) ∧ (runFrom fuel s ops).stack = [] := by
  induction ops with
  | nil => intro s hg hq _ _; exact ⟨hg, hq⟩
  | cons oh ops ih =>
    intro s hg hq hfq he
    rw [runFrom_cons] at he ⊢
    have he1 := runFrom_err_none fuel ops _ he
    obtain ⟨-, hsim, hq1⟩ :=
      execOp_sim fuel hg.sim_self hq oh.1 (hfq oh List.mem_cons_self) oh.2 oh.2 he1
    exact ih _ hsim.good hq1 (fun x hx => hfq x (List.mem_cons_of_mem _ hx)) he

theorem runFrom_append (fuel : Nat) (s : State) (a b : List (Op × List Nat)) :
    runFrom fuel s (a ++ b) = runFrom fuel (runFrom fuel s a) b := by
  unfold runFrom; rw [List.foldl_append]

/-- **C15 along whole histories.**  In a history of `fullQuiet` operations that ends without
error, take any operation `oh` (after the prefix `pre`) and let `s0` be the state in which its
`drain` starts.  Then `s0` is a stable point, the `drain` is `runSteps` with the fuel, and every
state it passes through is within `+2` activation records / `+1` library continuation of a stable
point passed earlier in the same operation, at which — unless it is that stable point itself — a
collection is in progress.  The remaining nesting is that of the stable points: the
zero-count path of `Rc::drop` along acyclic chains (`Good.bigStepD`: `±1` per step). -/
theorem history_depth_profile (ops : List (Op × List Nat)) (hfq : ∀ oh ∈ ops, oh.1.fullQuiet)
    (he : (run ops).err = none) (pre : List (Op × List Nat)) (oh : Op × List Nat)
    (post : List (Op × List Nat)) (hops : ops = pre ++ oh :: post) :
    Good (run pre) ∧ (run pre).stack = []
    ∧ Good (applyOp { run pre with hint := oh.2 } oh.1)
    ∧ execOp defaultFuel (run pre) oh.1 oh.2
        = runSteps defaultFuel (applyOp { run pre with hint := oh.2 } oh.1)
    ∧ ∀ j, ∃ i, i ≤ j ∧ Good (runSteps i (applyOp { run pre with hint := oh.2 } oh.1))
        ∧ (runSteps j (applyOp { run pre with hint := oh.2 } oh.1)).depth
            ≤ (runSteps i (applyOp { run pre with hint := oh.2 } oh.1)).depth + 2
        ∧ (runSteps j (applyOp { run pre with hint := oh.2 } oh.1)).libDepth
            ≤ (runSteps i (applyOp { run pre with hint := oh.2 } oh.1)).libDepth + 1
        ∧ (i = j ∨ ∃ o rest ob n,
            Collects (runSteps i (applyOp { run pre with hint := oh.2 } oh.1)) o rest ob n) := by
  subst hops
  rw [run_eq_runFrom, runFrom_append, runFrom_cons] at he
  have he1 := runFrom_err_none _ post _ he
  have hpre : (run pre).err = none := by
    cases hx : (run pre).err with
    | none => rfl
    | some e =>
      have : execOp defaultFuel (run pre) oh.1 oh.2 = run pre := by simp [execOp, hx]
      rw [← run_eq_runFrom, this, hx] at he1; cases he1
  obtain ⟨hgp, hqp⟩ := runFrom_good defaultFuel pre {} Good.init rfl
    (fun x hx => hfq x (List.mem_append_left _ hx)) hpre
  rw [← run_eq_runFrom] at hgp hqp he1
  have hop : oh.1.fullQuiet := hfq oh (List.mem_append_right _ List.mem_cons_self)
  have e1 : execOp defaultFuel (run pre) oh.1 oh.2
      = endOp (drain defaultFuel (applyOp { run pre with hint := oh.2 } oh.1)) := by
    simp [execOp, hpre]
  rw [e1, endOp_err] at he1
  have hga := hgp.applyOp hqp oh.1 hop oh.2 (drain_err_none _ _ he1)
  obtain ⟨d1, d2, -⟩ := hga.drain defaultFuel he1
  refine ⟨hgp, hqp, hga, ?_, hga.depth_profile⟩
  rw [e1, endOp_of_not_unwinding _ d2.ctl.unw, d1]

end Cactus
