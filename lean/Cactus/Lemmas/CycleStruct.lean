import Cactus.Lemmas.Basic
import Cactus.Lemmas.Trace
import Cactus.Spec.Inv
/-!
# Exact shape of the state after `dropCycle`

Under `CycleReady s c` (every key of the cycle map is a distinct, readable, live object that passed
the orphan test) the two synchronous phases of `drop_cycle` are described exactly: which objects are
rewritten and how, that nothing else moves, and which values are collected in which order.
-/
namespace Cactus
open State

/-- every key of the cycle map is a distinct, readable, live object whose strong count does not
exceed its cycle-owned count (i.e. the orphan test passed) -/
structure CycleReady (s : State) (c : CMap) : Prop where
  nodup : c.keys.Nodup
  noerr : s.err = none
  ready : ∀ k, k ∈ c.keys → ∃ ob t st v, s.heap[k]? = some ob ∧ ob.freed = false ∧ ob.links = some t
            ∧ ob.strong = .cnt st ∧ ob.value = some v ∧ st ≤ c.get k

/-! ## abbreviations -/

/-- the predicate phase 1 filters a member's table with -/
abbrev intraFwd (keys : List Nat) (x : Link × Nat) : Bool :=
  !(x.1.kind == .fwd && keys.contains x.1.ptr)

/-- a group member after phase 1 (when the orphan test passed) -/
def p1Obj (keys : List Nat) (ob : Obj) : Obj :=
  { ob with links := ob.links.map (fun t => t.filter (intraFwd keys)), strong := .cnt 0 }

/-- a group member after phase 2 -/
def p2Obj (ob : Obj) : Obj :=
  { ob with strong := .uninit, value := none, links := none }

/-- state after phase 1 of `dropCycle` -/
abbrev State.cyc1 (s : State) (c : CMap) : State := c.foldl (State.phase1One c.keys) s

/-- state and collected values after phase 2 of `dropCycle` -/
abbrev State.cyc2 (s : State) (c : CMap) : State × List Val :=
  c.keys.foldl State.phase2One (s.cyc1 c, [])

theorem State.dropCycle_eq_push (s : State) (c : CMap) :
    s.dropCycle c
      = (s.cyc2 c).1.push ((reorder s.hint (s.cyc2 c).2).map Frame.dropVal ++ [.phase3 c.keys]) := rfl

@[simp] theorem p2Obj_p1Obj (keys : List Nat) (ob : Obj) : p2Obj (p1Obj keys ob) = p2Obj ob := rfl
@[simp] theorem p1Obj_value (keys : List Nat) (ob : Obj) : (p1Obj keys ob).value = ob.value := rfl
@[simp] theorem p1Obj_freed (keys : List Nat) (ob : Obj) : (p1Obj keys ob).freed = ob.freed := rfl
@[simp] theorem p1Obj_strong (keys : List Nat) (ob : Obj) : (p1Obj keys ob).strong = .cnt 0 := rfl
@[simp] theorem p1Obj_weak (keys : List Nat) (ob : Obj) : (p1Obj keys ob).weak = ob.weak := rfl
@[simp] theorem p1Obj_implicit (keys : List Nat) (ob : Obj) :
    (p1Obj keys ob).implicit = ob.implicit := rfl
@[simp] theorem p1Obj_links (keys : List Nat) (ob : Obj) :
    (p1Obj keys ob).links = ob.links.map (fun t => t.filter (intraFwd keys)) := rfl

/-! ## small helpers -/

/-- "same state up to the heap" is transitive -/
theorem State.withHeap_trans {a b c : State} (h1 : b = { a with heap := b.heap })
    (h2 : c = { b with heap := c.heap }) : c = { a with heap := c.heap } := by
  rw [h1] at h2
  exact h2

theorem State.withHeap_err {a b : State} (h : b = { a with heap := b.heap }) : b.err = a.err := by
  rw [h]

theorem State.cs_cell_of_get {s : State} {k : Nat} {ob : Obj} (hg : s.heap[k]? = some ob)
    (hf : ob.freed = false) : s.cell k = some ob := by
  simp [State.cell, hg, hf]

theorem State.get_lt {s : State} {k : Nat} {ob : Obj} (hg : s.heap[k]? = some ob) :
    k < s.heap.length := (List.getElem?_eq_some_iff.mp hg).1

/-- in a map with distinct keys, an entry's count is what `get` returns -/
theorem CMap.get_of_mem (c : CMap) (h : c.keys.Nodup) (k n : Nat) (hm : (k, n) ∈ c) :
    c.get k = n := by
  induction c with
  | nil => cases hm
  | cons e r ih =>
    obtain ⟨k', n'⟩ := e
    have hnd : k' ∉ CMap.keys r ∧ (CMap.keys r).Nodup := by
      simpa [CMap.keys] using h
    cases hm with
    | head => simp [CMap.get]
    | tail _ hm' =>
      have hk : k ∈ CMap.keys r := List.mem_map.mpr ⟨(k, n), hm', rfl⟩
      have hne : k' ≠ k := fun hh => hnd.1 (hh ▸ hk)
      simp [CMap.get, hne, ih hnd.2 hm']

theorem CMap.mem_keys_of_mem {c : CMap} {e : Nat × Nat} (h : e ∈ c) : e.1 ∈ c.keys :=
  List.mem_map.mpr ⟨e, h, rfl⟩

/-! ## phase 1 -/

theorem State.phase1One_ready (keys : List Nat) (s : State) (k n : Nat) (ob : Obj) (t : Table)
    (st : Nat) (hg : s.heap[k]? = some ob) (hf : ob.freed = false) (hl : ob.links = some t)
    (hs : ob.strong = .cnt st) (hle : st ≤ n) :
    State.phase1One keys s (k, n) = s.setObj k (p1Obj keys ob) := by
  have hc := State.cs_cell_of_get hg hf
  unfold State.phase1One
  simp only [hc, hl, hs]
  have h0 : st - min n st = 0 := by rw [Nat.min_eq_right hle]; exact Nat.sub_self _
  simp only [h0, p1Obj, hl, Option.map_some]

/-- readiness of one entry, relative to the current state -/
def Ready1 (s : State) (e : Nat × Nat) : Prop :=
  ∃ ob t st, s.heap[e.1]? = some ob ∧ ob.freed = false ∧ ob.links = some t
    ∧ ob.strong = .cnt st ∧ st ≤ e.2

/-- phase 1 over any list of entries with distinct, ready keys -/
theorem State.phase1_fold (keys : List Nat) (l : CMap) (s : State)
    (hnd : l.keys.Nodup) (hr : ∀ e ∈ l, Ready1 s e) :
    let s1 := l.foldl (State.phase1One keys) s
    s1 = { s with heap := s1.heap } ∧ s1.heap.length = s.heap.length
    ∧ (∀ k ∈ l.keys, ∀ ob, s.heap[k]? = some ob → s1.heap[k]? = some (p1Obj keys ob))
    ∧ (∀ o, o ∉ l.keys → s1.heap[o]? = s.heap[o]?) := by
  induction l generalizing s with
  | nil => simp [CMap.keys]
  | cons e r ih =>
    obtain ⟨k, n⟩ := e
    have hnd' : k ∉ CMap.keys r ∧ (CMap.keys r).Nodup := by simpa [CMap.keys] using hnd
    obtain ⟨ob, t, st, hg, hf, hl, hs, hle⟩ := hr (k, n) (List.mem_cons_self ..)
    have hstep := State.phase1One_ready keys s k n ob t st hg hf hl hs hle
    have hlt := State.get_lt hg
    -- the remaining entries are still ready after the step
    have hr' : ∀ e ∈ r, Ready1 (s.setObj k (p1Obj keys ob)) e := by
      intro e he
      have hne : k ≠ e.1 := fun hh => hnd'.1 (hh ▸ CMap.mem_keys_of_mem he)
      obtain ⟨ob', t', st', hg', rest⟩ := hr e (List.mem_cons_of_mem _ he)
      exact ⟨ob', t', st', by rw [State.setObj_get_other _ _ _ _ hne]; exact hg', rest⟩
    obtain ⟨h1, h2, h3, h4⟩ := ih (s.setObj k (p1Obj keys ob)) hnd'.2 hr'
    simp only [List.foldl_cons, hstep]
    refine ⟨?_, ?_, ?_, ?_⟩
    · exact State.withHeap_trans (a := s) (b := s.setObj k (p1Obj keys ob)) rfl h1
    · rw [h2, State.setObj_heap_length]
    · intro k' hk' ob' hg'
      have hk'' : k' = k ∨ k' ∈ CMap.keys r := by simpa [CMap.keys] using hk'
      rcases hk'' with rfl | hk''
      · rw [h4 _ hnd'.1, State.setObj_get_same _ _ _ hlt]
        rw [hg] at hg'; cases hg'; rfl
      · have hne : k ≠ k' := fun hh => hnd'.1 (hh ▸ hk'')
        exact h3 k' hk'' ob' (by rw [State.setObj_get_other _ _ _ _ hne]; exact hg')
    · intro o ho
      have ho' : o ≠ k ∧ o ∉ CMap.keys r := by simpa [CMap.keys] using ho
      rw [h4 o ho'.2, State.setObj_get_other _ _ _ _ (Ne.symm ho'.1)]

/-- **Phase 1.**  No error, heap length and every non-heap field unchanged; every key object gets
its table filtered and its strong count zeroed; every other slot is untouched. -/
theorem phase1_spec (s : State) (c : CMap) (h : CycleReady s c) :
    (s.cyc1 c).err = none
    ∧ s.cyc1 c = { s with heap := (s.cyc1 c).heap }
    ∧ (s.cyc1 c).heap.length = s.heap.length
    ∧ (∀ k ∈ c.keys, ∀ ob, s.heap[k]? = some ob → (s.cyc1 c).heap[k]? = some (p1Obj c.keys ob))
    ∧ (∀ o, o ∉ c.keys → (s.cyc1 c).heap[o]? = s.heap[o]?) := by
  have hr : ∀ e ∈ c, Ready1 s e := by
    intro e he
    obtain ⟨ob, t, st, v, hg, hf, hl, hs, _, hle⟩ := h.ready e.1 (CMap.mem_keys_of_mem he)
    rw [CMap.get_of_mem c h.nodup e.1 e.2 he] at hle
    exact ⟨ob, t, st, hg, hf, hl, hs, hle⟩
  obtain ⟨h1, h2, h3, h4⟩ := State.phase1_fold c.keys c s h.nodup hr
  refine ⟨?_, h1, h2, h3, h4⟩
  have : (s.cyc1 c).err = s.err := State.withHeap_err h1
  rw [this, h.noerr]

/-- phase 1, with the object written out in terms of the readiness witnesses -/
theorem phase1_key (s : State) (c : CMap) (h : CycleReady s c) (k : Nat) (hk : k ∈ c.keys)
    (ob : Obj) (t : Table) (hg : s.heap[k]? = some ob) (hl : ob.links = some t) :
    (s.cyc1 c).heap[k]? = some { ob with
      links := some (t.filter (fun x => !(x.1.kind == .fwd && c.keys.contains x.1.ptr))),
      strong := .cnt 0 } := by
  rw [(phase1_spec s c h).2.2.2.1 k hk ob hg]
  simp only [p1Obj, hl, Option.map_some]

/-! ## phase 2 -/

theorem State.phase2One_ready (acc : State × List Val) (k : Nat) (ob : Obj) (v : Val)
    (hg : acc.1.heap[k]? = some ob) (hf : ob.freed = false) (hs : ob.strong = .cnt 0)
    (hv : ob.value = some v) :
    State.phase2One acc k = (acc.1.setObj k (p2Obj ob), acc.2 ++ [v]) := by
  have hc := State.cs_cell_of_get hg hf
  unfold State.phase2One
  simp only [hc, hs, hv]
  rfl

/-- readiness of one key for phase 2, relative to the current state -/
def Ready2 (s : State) (k : Nat) : Prop :=
  ∃ ob v, s.heap[k]? = some ob ∧ ob.freed = false ∧ ob.strong = .cnt 0 ∧ ob.value = some v

/-- phase 2 over any list of distinct, ready keys -/
theorem State.phase2_fold (l : List Nat) (acc : State × List Val)
    (hnd : l.Nodup) (hr : ∀ k ∈ l, Ready2 acc.1 k) :
    let r := l.foldl State.phase2One acc
    r.1 = { acc.1 with heap := r.1.heap } ∧ r.1.heap.length = acc.1.heap.length
    ∧ (∀ k ∈ l, ∀ ob, acc.1.heap[k]? = some ob → r.1.heap[k]? = some (p2Obj ob))
    ∧ (∀ o, o ∉ l → r.1.heap[o]? = acc.1.heap[o]?)
    ∧ r.2.map some
        = acc.2.map some ++ l.map (fun k => (acc.1.heap[k]?).bind (fun ob => ob.value)) := by
  induction l generalizing acc with
  | nil => simp
  | cons k r ih =>
    have hnd' : k ∉ r ∧ r.Nodup := by simpa using hnd
    obtain ⟨ob, v, hg, hf, hs, hv⟩ := hr k (List.mem_cons_self ..)
    have hstep := State.phase2One_ready acc k ob v hg hf hs hv
    have hlt := State.get_lt hg
    have hr' : ∀ k' ∈ r, Ready2 (acc.1.setObj k (p2Obj ob), acc.2 ++ [v]).1 k' := by
      intro k' hk'
      have hne : k ≠ k' := fun hh => hnd'.1 (hh ▸ hk')
      obtain ⟨ob', v', hg', rest⟩ := hr k' (List.mem_cons_of_mem _ hk')
      exact ⟨ob', v', by
        show (acc.1.setObj k (p2Obj ob)).heap[k']? = some ob'
        rw [State.setObj_get_other _ _ _ _ hne]; exact hg', rest⟩
    obtain ⟨h1, h2, h3, h4, h5⟩ := ih (acc.1.setObj k (p2Obj ob), acc.2 ++ [v]) hnd'.2 hr'
    simp only [List.foldl_cons, hstep]
    refine ⟨?_, ?_, ?_, ?_, ?_⟩
    · exact State.withHeap_trans (a := acc.1) (b := acc.1.setObj k (p2Obj ob)) rfl h1
    · rw [h2]; exact State.setObj_heap_length _ _ _
    · intro k' hk' ob' hg'
      have hk'' : k' = k ∨ k' ∈ r := by simpa using hk'
      rcases hk'' with rfl | hk''
      · rw [h4 _ hnd'.1]
        show (acc.1.setObj k' (p2Obj ob)).heap[k']? = _
        rw [State.setObj_get_same _ _ _ hlt]
        rw [hg] at hg'; cases hg'; rfl
      · have hne : k ≠ k' := fun hh => hnd'.1 (hh ▸ hk'')
        exact h3 k' hk'' ob' (by
          show (acc.1.setObj k (p2Obj ob)).heap[k']? = some ob'
          rw [State.setObj_get_other _ _ _ _ hne]; exact hg')
    · intro o ho
      have ho' : o ≠ k ∧ o ∉ r := by simpa using ho
      rw [h4 o ho'.2]
      exact State.setObj_get_other _ _ _ _ (Ne.symm ho'.1)
    · rw [h5]
      have hmap : r.map (fun k' => ((acc.1.setObj k (p2Obj ob), acc.2 ++ [v]).1.heap[k']?).bind
            (fun ob => ob.value))
          = r.map (fun k' => (acc.1.heap[k']?).bind (fun ob => ob.value)) := by
        apply List.map_congr_left
        intro k' hk'
        have hne : k ≠ k' := fun hh => hnd'.1 (hh ▸ hk')
        show ((acc.1.setObj k (p2Obj ob)).heap[k']?).bind _ = _
        rw [State.setObj_get_other _ _ _ _ hne]
      rw [hmap]
      simp [hg, hv]

/-- **Phase 2.**  No error, heap length and every non-heap field unchanged; every key object is
marked uninit with value and table moved out; every other slot is as in `s`; the collected values
are exactly the keys' values, in key order. -/
theorem phase2_spec (s : State) (c : CMap) (h : CycleReady s c) :
    (s.cyc2 c).1.err = none
    ∧ (s.cyc2 c).1 = { s with heap := (s.cyc2 c).1.heap }
    ∧ (s.cyc2 c).1.heap.length = s.heap.length
    ∧ (∀ k ∈ c.keys, ∀ ob, s.heap[k]? = some ob → (s.cyc2 c).1.heap[k]? = some (p2Obj ob))
    ∧ (∀ o, o ∉ c.keys → (s.cyc2 c).1.heap[o]? = s.heap[o]?)
    ∧ (s.cyc2 c).2.map some = c.keys.map (fun k => (s.heap[k]?).bind (fun ob => ob.value)) := by
  obtain ⟨_, p1, p2, p3, p4⟩ := phase1_spec s c h
  have hr : ∀ k ∈ c.keys, Ready2 (s.cyc1 c, ([] : List Val)).1 k := by
    intro k hk
    obtain ⟨ob, t, st, v, hg, hf, hl, hs, hv, _⟩ := h.ready k hk
    exact ⟨p1Obj c.keys ob, v, p3 k hk ob hg, hf, rfl, hv⟩
  obtain ⟨h1, h2, h3, h4, h5⟩ := State.phase2_fold c.keys (s.cyc1 c, []) h.nodup hr
  have hfr : (s.cyc2 c).1 = { s with heap := (s.cyc2 c).1.heap } := State.withHeap_trans p1 h1
  refine ⟨?_, hfr, ?_, ?_, ?_, ?_⟩
  · have : (s.cyc2 c).1.err = s.err := State.withHeap_err hfr
    rw [this, h.noerr]
  · exact h2.trans p2
  · intro k hk ob hg
    have := h3 k hk (p1Obj c.keys ob) (p3 k hk ob hg)
    rw [p2Obj_p1Obj] at this
    exact this
  · intro o ho
    exact (h4 o ho).trans (p4 o ho)
  · have h5' : (s.cyc2 c).2.map some
        = c.keys.map (fun k => ((s.cyc1 c).heap[k]?).bind (fun ob => ob.value)) := by
      simpa using h5
    rw [h5']
    apply List.map_congr_left
    intro k hk
    obtain ⟨ob, t, st, v, hg, _⟩ := h.ready k hk
    rw [p3 k hk ob hg, hg]
    rfl

/-- the collected values, positionally -/
theorem phase2_vals_length (s : State) (c : CMap) (h : CycleReady s c) :
    (s.cyc2 c).2.length = c.keys.length := by
  have := congrArg List.length (phase2_spec s c h).2.2.2.2.2
  simpa using this

theorem phase2_vals_get (s : State) (c : CMap) (h : CycleReady s c) (i : Nat) (k : Nat)
    (hk : c.keys[i]? = some k) :
    ∃ ob v, s.heap[k]? = some ob ∧ ob.value = some v ∧ (s.cyc2 c).2[i]? = some v := by
  have hm : k ∈ c.keys := List.mem_of_getElem? hk
  obtain ⟨ob, t, st, v, hg, _, _, _, hv, _⟩ := h.ready k hm
  refine ⟨ob, v, hg, hv, ?_⟩
  have := congrArg (fun l => l[i]?) (phase2_spec s c h).2.2.2.2.2
  simp only [List.getElem?_map, hk, Option.map_some, hg, Option.bind_some, hv] at this
  cases hx : (s.cyc2 c).2[i]? with
  | none => rw [hx] at this; cases this
  | some w => rw [hx] at this; simp at this; rw [this]

/-! ## `reorder` -/

theorem eraseIdx_perm_cons' {α : Type} (l : List α) (i : Nat) (a : α) (h : l[i]? = some a) :
    (a :: l.eraseIdx i).Perm l := by
  induction l generalizing i with
  | nil => simp at h
  | cons x r ih =>
    cases i with
    | zero => simp at h; subst h; simp
    | succ i =>
      simp at h
      simp only [List.eraseIdx_cons_succ]
      exact (List.Perm.swap x a _).trans ((ih i h).cons x)

/-- the hint only chooses the order in which the group's values are destroyed -/
theorem reorder_perm (hint : List Nat) (vs : List Val) : (reorder hint vs).Perm vs := by
  induction hint generalizing vs with
  | nil => simp [reorder]
  | cons h hs ih =>
    unfold reorder
    split
    · rename_i i hi
      split
      · rename_i v hv
        exact ((ih (vs.eraseIdx i)).cons v).trans (eraseIdx_perm_cons' vs i v hv)
      · exact ih vs
    · exact ih vs

theorem cs_sumList_perm {l l' : List Nat} (h : l.Perm l') : State.sumList l = State.sumList l' := by
  induction h with
  | nil => rfl
  | cons x _ ih => simp only [State.sumList, List.foldr_cons] at ih ⊢; rw [ih]
  | swap x y l => simp only [State.sumList, List.foldr_cons]; omega
  | trans _ _ ih1 ih2 => exact ih1.trans ih2

theorem sumList_reorder (hint : List Nat) (vs : List Val) (f : Val → Nat) :
    State.sumList ((reorder hint vs).map f) = State.sumList (vs.map f) :=
  cs_sumList_perm ((reorder_perm hint vs).map f)

theorem reorder_length (hint : List Nat) (vs : List Val) : (reorder hint vs).length = vs.length :=
  (reorder_perm hint vs).length_eq

theorem mem_reorder (hint : List Nat) (vs : List Val) (v : Val) : v ∈ reorder hint vs ↔ v ∈ vs :=
  (reorder_perm hint vs).mem_iff

/-! ## `dropCycle` -/

/-- `dropCycle` as one record update of the initial state -/
theorem dropCycle_eq (s : State) (c : CMap) (h : CycleReady s c) :
    s.dropCycle c = { s with
      heap := (s.cyc2 c).1.heap
      stack := (reorder s.hint (s.cyc2 c).2).map Frame.dropVal ++ [Frame.phase3 c.keys] ++ s.stack } := by
  have hfr := (phase2_spec s c h).2.1
  rw [State.dropCycle_eq_push, State.push]
  generalize s.cyc2 c = r at hfr ⊢
  rw [hfr]

/-- **`dropCycle`.**  The heap is the phase-2 heap, no error, the destructor frames (in hint order)
and the `phase3` frame are pushed, everything else is unchanged. -/
theorem dropCycle_spec (s : State) (c : CMap) (h : CycleReady s c) :
    (s.dropCycle c).heap = (s.cyc2 c).1.heap
    ∧ (s.dropCycle c).err = none
    ∧ (s.dropCycle c).stack
        = (reorder s.hint (s.cyc2 c).2).map Frame.dropVal ++ [Frame.phase3 c.keys] ++ s.stack
    ∧ (s.dropCycle c).roots = s.roots
    ∧ (s.dropCycle c).wroots = s.wroots
    ∧ (s.dropCycle c).vals = s.vals
    ∧ (s.dropCycle c).raws = s.raws
    ∧ (s.dropCycle c).log = s.log
    ∧ (s.dropCycle c).unwinding = s.unwinding
    ∧ (s.dropCycle c).hint = s.hint
    ∧ (s.dropCycle c).nextVid = s.nextVid := by
  rw [dropCycle_eq s c h]
  exact ⟨rfl, h.noerr, rfl, rfl, rfl, rfl, rfl, rfl, rfl, rfl, rfl⟩

/-- heap of `dropCycle`, slot by slot -/
theorem dropCycle_heap_length (s : State) (c : CMap) (h : CycleReady s c) :
    (s.dropCycle c).heap.length = s.heap.length := by
  rw [(dropCycle_spec s c h).1]; exact (phase2_spec s c h).2.2.1

theorem dropCycle_heap_key (s : State) (c : CMap) (h : CycleReady s c) (k : Nat) (hk : k ∈ c.keys)
    (ob : Obj) (hg : s.heap[k]? = some ob) :
    (s.dropCycle c).heap[k]? = some { ob with strong := .uninit, value := none, links := none } := by
  rw [(dropCycle_spec s c h).1]; exact (phase2_spec s c h).2.2.2.1 k hk ob hg

theorem dropCycle_heap_other (s : State) (c : CMap) (h : CycleReady s c) (o : Nat)
    (ho : o ∉ c.keys) : (s.dropCycle c).heap[o]? = s.heap[o]? := by
  rw [(dropCycle_spec s c h).1]; exact (phase2_spec s c h).2.2.2.2.1 o ho

end Cactus
