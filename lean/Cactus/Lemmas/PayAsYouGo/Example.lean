import Cactus.Lemmas.PayAsYouGo.NoAdopt
/-!
# C14 (pay-as-you-go): non-vacuity

`hN`: a never-adopting history with five objects, clones, plain `store`s of handles into values
(a chain `0 → 1 → 2`), Weak handles (one stored as a parent pointer), a destructor script that
upgrades its Weak field and clones and drops its strong field, `make_mut` (clone branch),
`try_unwrap` + drop of the unwrapped value, and a final drop that cascades through the stored
handles.  It is `noAdopt`, ends without error, destroys and releases everything, and its log has no
`traced` event — shown by evaluation and, independently, by `run_noAdopt_no_trace`.

`hA`: a history that *does* adopt (a two-cycle `0 ↔ 1` built with `link`) next to a bystander
(object 2) that is cloned and dropped: the ghost list is `[1, 0, 0, 1]`, the bystander is not in it,
the traces of the run are rooted at 0 and 1 only.
-/
namespace Cactus.PayAsYouGoExample
open Cactus

def progN : List Op := [
  .act .new, .act .new, .act .new,                 -- objects 0, 1, 2; handles [0, 1, 2]
  .setScript 1 [.upgradeField 0, .cloneField 0, .drop 0],  -- destructor of object 1's value
  .act (.downgrade 2), .act (.downgrade 0),        -- Weak handles [2, 0]
  .act (.storeWeak 1 1),                           -- object 1 holds a Weak to object 0 (parent pointer)
  .act (.store 2 1),                               -- object 1 holds the handle to object 2
  .act (.store 1 0),                               -- object 0 holds the handle to object 1: 0 → 1 → 2
  .act (.clone 0), .act (.counts 0),               -- second handle to object 0
  .act (.drop 0),                                  -- drop one of them: no cascade
  .act (.upgrade 0), .act (.drop 1),               -- upgrade the Weak to object 2, drop the result
  .act .new, .act (.clone 1), .act (.makeMut 1),   -- object 3 is shared: make_mut clones into object 4
  .act (.tryUnwrap 2), .act (.dropValue 0),        -- unwrap object 3, drop the value
  .act (.drop 1),                                  -- drop object 4
  .act (.drop 0),                                  -- last handle to object 0: cascade 0, 1, 2
  .act (.dropWeak 0)]                              -- last Weak to object 2: allocation released

def hN : List (Op × List Nat) := progN.map (fun o => (o, []))

theorem hN_noAdopt : ∀ oh ∈ hN, oh.1.noAdopt := by decide

theorem hN_noErr : (run hN).err = none := by decide +kernel

/-- everything is destroyed and released, no handle of any kind is left -/
theorem hN_all_released :
    (run hN).heap.length = 5 ∧ (run hN).heap.all (·.freed) = true ∧
      (run hN).roots = [] ∧ (run hN).wroots = [] ∧ (run hN).vals = [] ∧ (run hN).raws = [] := by
  decide +kernel

/-- the log, by evaluation: five destructors, five releases, no trace -/
theorem hN_log : (run hN).log =
    [.ret 2, .ret 1, .ret 1, .ret 2, .freed 3, .ret 1, .destroyed 3, .destroyed 4, .freed 4,
     .destroyed 0, .destroyed 1, .ret 0, .destroyed 2, .freed 1, .freed 0, .freed 2] := by
  decide +kernel

theorem hN_no_trace_eval : ∀ e ∈ (run hN).log, e.isTraced = false := by decide +kernel

/-- … and by the theorem -/
theorem hN_no_trace : ∀ e ∈ (run hN).log, ∀ o v p, e ≠ Ev.traced o v p :=
  run_noAdopt_no_trace hN hN_noAdopt

theorem hN_tables_empty :
    ∀ (o : Nat) (ob : Obj), (run hN).heap[o]? = some ob → ob.links = some [] ∨ ob.links = none :=
  run_noAdopt_tables_empty hN hN_noAdopt

/-- the theorems also cover the states *before* the final teardown, where the tables are still
there (`some []`, not `none`): the history cut before its last two operations -/
theorem hN_prefix_tables : ((run (hN.take 20)).heap.map (·.links)) =
    [some [], some [], some [], none, none] := by decide +kernel

/-! ### per-object: adoptions elsewhere -/

def progA : List Op := [
  .act .new, .act .new,                            -- objects 0, 1
  .act (.clone 0), .act (.link 2 1),               -- 1 → 0 (adopt(1, 0))
  .act (.clone 1), .act (.link 2 0),               -- 0 → 1 (adopt(0, 1)): a two-cycle
  .act .new, .act (.clone 2), .act (.drop 3),      -- bystander: object 2, cloned, clone dropped
  .act (.drop 0),                                  -- handle to 0: traces, cycle still owned
  .act (.drop 0),                                  -- handle to 1: traces, cycle collected
  .act (.drop 0)]                                  -- bystander dropped: no trace

def hA : List (Op × List Nat) := progA.map (fun o => (o, []))

theorem hA_noErr : (run hA).err = none := by decide +kernel

/-- the objects designated by the adoptions of `hA` -/
theorem hA_touched : touched hA = [1, 0, 0, 1] := by decide +kernel

/-- the traces of `hA`, by evaluation: rooted at 0 and 1, never at the bystander 2 -/
theorem hA_traces : (run hA).log.filter Ev.isTraced = [.traced 0 2 3, .traced 1 2 3] := by
  decide +kernel

/-- the per-object theorems apply to the bystander -/
theorem hA_bystander :
    (∀ ob, (run hA).heap[2]? = some ob → ob.links = some [] ∨ ob.links = none) ∧
      ∀ v p, Ev.traced 2 v p ∉ (run hA).log := by
  have h2 : 2 ∉ touched hA := by rw [hA_touched]; decide
  exact ⟨run_untouched_tables_empty hA 2 h2, fun v p hm => h2 (run_trace_root_touched hA 2 v p hm)⟩

/-- `reachable_trace_has_cause` is not vacuous: the log of `hA` has `traced` events -/
theorem hA_has_trace : ∃ (i o v p : Nat), (run hA).log[i]? = some (Ev.traced o v p) :=
  ⟨0, 0, 2, 3, by decide +kernel⟩

end Cactus.PayAsYouGoExample
