import Cactus.Lemmas.PayAsYouGo.Touched
import Cactus.Lemmas.PayAsYouGo.Scripts
/-!
# C14 (pay-as-you-go), part D: a program that never adopts never pays

`Act.noAdopt` / `Op.noAdopt`: the history never uses `adopt` or `link` (neither at top level nor in
an installed destructor script).  `ReachableN`: the states of such histories, including
mid-teardown.  In all of them every link table is empty (or moved out) and the log has no `traced`
event: `ReachableN.tables_empty`, `ReachableN.no_trace`, and for `run`:
`run_noAdopt_tables_empty`, `run_noAdopt_no_trace`.

The proof: the destructor scripts of such a history are `noAdopt` (`ScriptsQ Act.noAdopt`, carried
through all frames), so the ghost list of designated objects stays empty (`ReachableN.reachableT`),
and the per-object theorems of part C apply to every object.
-/
namespace Cactus
open State

/-- the action records no adoption -/
def Act.noAdopt : Act → Prop
  | .adopt _ _ => False
  | .link _ _ => False
  | _ => True

instance : DecidablePred Act.noAdopt := fun a => by
  cases a <;> simp only [Act.noAdopt] <;> infer_instance

/-- the operation records no adoption and installs no destructor script that does -/
def Op.noAdopt : Op → Prop
  | .act a => a.noAdopt
  | .setScript _ acts => ∀ a ∈ acts, a.noAdopt
  | .shuffle _ _ => True

instance : DecidablePred Op.noAdopt := fun o => by
  cases o <;> simp only [Op.noAdopt] <;> infer_instance

theorem Op.noAdopt_iff_S (op : Op) : op.noAdopt ↔ op.S Act.noAdopt := by
  cases op <;> exact Iff.rfl

theorem actTouched_noAdopt (s : State) {a : Act} (h : a.noAdopt) : actTouched s a = [] := by
  cases a <;> first | rfl | exact absurd h (by simp [Act.noAdopt])

theorem opTouched_noAdopt (s : State) {op : Op} (h : op.noAdopt) : opTouched s op = [] := by
  cases op with
  | act a => exact actTouched_noAdopt s h
  | setScript q acts => rfl
  | shuffle q i => rfl

/-- if all scripts in the state are `noAdopt`, the next machine step designates no object -/
theorem stepTouched_noAdopt {s : State} (h : s.ScriptsQ Act.noAdopt) : stepTouched s = [] := by
  unfold stepTouched
  split
  · rename_i hh ww a as rest herr hst
    have hf : (Frame.script hh ww (a :: as)).S Act.noAdopt :=
      h.1 _ (by rw [hst]; exact List.mem_cons_self)
    exact actTouched_noAdopt s (hf a List.mem_cons_self)
  · rfl

/-- like `Reachable`, but no operation of the history records an adoption (`adopt`, `link`), at
top level or in an installed destructor script -/
inductive ReachableN : State → Prop
  | init : ReachableN {}
  | op {s : State} (o : Op) (hint : List Nat) : ReachableN s → s.stack = [] → o.noAdopt →
      ReachableN (applyOp (s.begin hint) o)
  | step {s : State} : ReachableN s → ReachableN (step s)
  | endOp {s : State} : ReachableN s → ReachableN (endOp s)
  | outOfFuel {s : State} : ReachableN s → ReachableN (s.fail .fuel)

theorem ReachableN.reachable {s : State} (h : ReachableN s) : Reachable s := by
  induction h with
  | init => exact .init
  | op o hint _ hq _ ih => exact .op o hint ih hq
  | step _ ih => exact .step ih
  | endOp _ ih => exact .endOp ih
  | outOfFuel _ ih => exact .outOfFuel ih

/-- every destructor script in every state of a never-adopting history is `noAdopt`: scripts of
running destructors, of values about to be destroyed, of values in the heap, of unwrapped values -/
theorem ReachableN.scripts {s : State} (h : ReachableN s) : s.ScriptsQ Act.noAdopt := by
  induction h with
  | init => exact ScriptsQ_init
  | op o hint _ _ ho ih =>
    exact applyOp_scriptsQ _ o ((Op.noAdopt_iff_S o).mp ho) (begin_scriptsQ _ hint ih)
  | step _ ih => exact step_scriptsQ _ ih
  | endOp _ ih => exact endOp_scriptsQ _ ih
  | outOfFuel _ ih => exact (SLe.fail _ _).scriptsQ ih

/-- a never-adopting history designates no object -/
theorem ReachableN.reachableT {s : State} (h : ReachableN s) : ReachableT [] s := by
  induction h with
  | init => exact .init
  | @op s o hint _ hq ho ih =>
    have := ReachableT.op o hint ih hq
    rw [opTouched_noAdopt _ ho] at this
    exact this
  | @step s hr ih =>
    have := ReachableT.step ih
    rw [stepTouched_noAdopt hr.scripts] at this
    exact this
  | endOp _ ih => exact .endOp ih
  | outOfFuel _ ih => exact .outOfFuel ih

/-- **in every state of a never-adopting history — at operation boundaries and in the middle of
every teardown — every link table is empty or moved out** -/
theorem ReachableN.tables_empty {s : State} (h : ReachableN s) :
    ∀ (o : Nat) (ob : Obj), s.heap[o]? = some ob → ob.links = some [] ∨ ob.links = none :=
  fun o => h.reachableT.untouched_untabled o (by simp)

/-- **no state of a never-adopting history has a `traced` event in its log** -/
theorem ReachableN.no_trace {s : State} (h : ReachableN s) :
    ∀ e ∈ s.log, ∀ o v p, e ≠ Ev.traced o v p := by
  intro e he o v p heq
  subst heq
  have := h.reachableT.traced_touched o v p he
  cases this

/-- the invariant of part 2 of C14 in one statement: tables empty, all scripts `noAdopt` (stack
frames `dropVal v` and `script … acts`, heap values, unwrapped values), trace-free log -/
theorem ReachableN.invariant {s : State} (h : ReachableN s) :
    (∀ (o : Nat) (ob : Obj), s.heap[o]? = some ob → ob.links = some [] ∨ ob.links = none) ∧
    s.ScriptsQ Act.noAdopt ∧ (∀ e ∈ s.log, e.isTraced = false) := by
  refine ⟨h.tables_empty, h.scripts, ?_⟩
  intro e he
  exact (Ev.isTraced_false_iff e).mpr (h.no_trace e he)

theorem drain_reachableN (f : Nat) (s : State) (h : ReachableN s) : ReachableN (drain f s) := by
  induction f generalizing s with
  | zero =>
    unfold drain
    split
    · exact h
    · exact .outOfFuel h
  | succ f ih =>
    unfold drain
    split
    · exact ih _ (.step h)
    · exact h

/-- every state produced by running a never-adopting history (any fuel, any hints) is
`ReachableN` and quiescent -/
theorem foldl_execOp_reachableN (fuel : Nat) (ops : List (Op × List Nat))
    (hops : ∀ oh ∈ ops, oh.1.noAdopt) (s : State)
    (hr : ReachableN s) (hq : s.err = none → s.stack = []) :
    ReachableN (ops.foldl (fun s oh => execOp fuel s oh.1 oh.2) s)
    ∧ ((ops.foldl (fun s oh => execOp fuel s oh.1 oh.2) s).err = none →
        (ops.foldl (fun s oh => execOp fuel s oh.1 oh.2) s).stack = []) := by
  induction ops generalizing s with
  | nil => exact ⟨hr, hq⟩
  | cons oh rest ih =>
    simp only [List.foldl_cons]
    apply ih (fun x hx => hops x (List.mem_cons_of_mem _ hx))
    · unfold execOp
      split
      · exact hr
      · rename_i he
        exact .endOp (drain_reachableN fuel _ (.op oh.1 oh.2 hr (hq he) (hops oh List.mem_cons_self)))
    · exact execOp_quiescent fuel s oh.1 oh.2 hq

theorem run_reachableN (ops : List (Op × List Nat)) (h : ∀ oh ∈ ops, oh.1.noAdopt) :
    ReachableN (run ops) :=
  (foldl_execOp_reachableN defaultFuel ops h {} .init (fun _ => rfl)).1

/-- **A program that never adopts never has a non-empty table.** -/
theorem run_noAdopt_tables_empty (ops : List (Op × List Nat)) (h : ∀ oh ∈ ops, oh.1.noAdopt) :
    ∀ (o : Nat) (ob : Obj), (run ops).heap[o]? = some ob → ob.links = some [] ∨ ob.links = none :=
  (run_reachableN ops h).tables_empty

/-- **A program that never adopts never traces.** -/
theorem run_noAdopt_no_trace (ops : List (Op × List Nat)) (h : ∀ oh ∈ ops, oh.1.noAdopt) :
    ∀ e ∈ (run ops).log, ∀ o v p, e ≠ Ev.traced o v p :=
  (run_reachableN ops h).no_trace

/-! ## the ghost list of a never-adopting history is empty -/

theorem drainT_noAdopt (f : Nat) (s : State) (h : ReachableN s) : drainT f s = [] := by
  induction f generalizing s with
  | zero => rfl
  | succ f ih =>
    unfold drainT
    split
    · rw [stepTouched_noAdopt h.scripts, ih _ (.step h)]; rfl
    · rfl

theorem execOpT_noAdopt (fuel : Nat) (s : State) (op : Op) (hint : List Nat) (h : ReachableN s)
    (hq : s.err = none → s.stack = []) (ho : op.noAdopt) : execOpT fuel s op hint = [] := by
  unfold execOpT
  split
  · rfl
  · rename_i herr
    rw [opTouched_noAdopt _ ho, drainT_noAdopt fuel _ (.op op hint h (hq herr) ho)]; rfl

theorem runT_noAdopt (fuel : Nat) (ops : List (Op × List Nat)) (hops : ∀ oh ∈ ops, oh.1.noAdopt)
    (p : State × List Nat) (hr : ReachableN p.1) (hq : p.1.err = none → p.1.stack = []) :
    (runT fuel ops p).2 = p.2 := by
  induction ops generalizing p with
  | nil => rfl
  | cons oh rest ih =>
    unfold runT
    simp only [List.foldl_cons]
    have h1 := ih (fun x hx => hops x (List.mem_cons_of_mem _ hx))
      (execOp fuel p.1 oh.1 oh.2, p.2 ++ execOpT fuel p.1 oh.1 oh.2)
      (foldl_execOp_reachableN fuel [oh] (fun x hx => hops x (by
        simp only [List.mem_cons, List.not_mem_nil, or_false] at hx; subst hx; exact List.mem_cons_self))
        p.1 hr hq).1
      (execOp_quiescent fuel p.1 oh.1 oh.2 hq)
    unfold runT at h1
    rw [h1, execOpT_noAdopt fuel p.1 oh.1 oh.2 hr hq (hops oh List.mem_cons_self), List.append_nil]

/-- a never-adopting history designates no object -/
theorem touched_noAdopt (ops : List (Op × List Nat)) (h : ∀ oh ∈ ops, oh.1.noAdopt) :
    touched ops = [] :=
  runT_noAdopt defaultFuel ops h ({}, []) .init (fun _ => rfl)

end Cactus
