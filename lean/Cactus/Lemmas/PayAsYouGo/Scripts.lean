import Cactus.Lemmas.Contract
/-!
# C14 (pay-as-you-go), part B: a class of actions carried through destructor scripts

`Contract.lean` carries the class `Act.respects` through histories *including destructor scripts*
(`ScriptsC`).  Nothing in that argument depends on the class: here it is repeated for an arbitrary
predicate `Q : Act → Prop` on actions (`State.ScriptsQ Q`), reusing the class-independent relation
`State.SLe` ("no new script") of `Contract.lean`.  Part C instantiates `Q := Act.noAdopt`.
-/
namespace Cactus

variable {Q : Act → Prop}

/-- operations all of whose actions (including those of an installed destructor script) are in
the class `Q` -/
def Op.S (Q : Act → Prop) : Op → Prop
  | .act a => Q a
  | .setScript _ acts => ∀ a ∈ acts, Q a
  | .shuffle _ _ => True

/-- the destructor script of the value is in the class `Q` -/
def Val.S (Q : Act → Prop) (v : Val) : Prop := ∀ a ∈ v.script, Q a

theorem Val.S_of_script_eq {v v0 : Val} (h : v.script = v0.script) (h0 : v0.S Q) : v.S Q := by
  unfold Val.S; rw [h]; exact h0

/-- the scripts a frame will run are in the class `Q` -/
def Frame.S (Q : Act → Prop) : Frame → Prop
  | .script _ _ acts => ∀ a ∈ acts, Q a
  | .dropVal v => v.S Q
  | _ => True

namespace State

/-- every value in the heap has a destructor script in the class `Q` -/
def HeapQ (Q : Act → Prop) (s : State) : Prop :=
  ∀ (o : Nat) (ob : Obj) (v : Val), s.heap[o]? = some ob → ob.value = some v → v.S Q

/-- every destructor script in the state is in the class `Q`: scripts of running destructors,
of values about to be destroyed, of values in the heap and of unwrapped values -/
def ScriptsQ (Q : Act → Prop) (s : State) : Prop :=
  (∀ f ∈ s.stack, f.S Q) ∧ s.HeapQ Q ∧ (∀ v ∈ s.vals, v.S Q)


theorem HLe.heapQ {s s' : State} (h : HLe s s') (hC : s.HeapQ Q) : s'.HeapQ Q := by
  intro x ob' v hx hv
  obtain ⟨ob, v0, hg, hv0, hs⟩ := h x ob' v hx hv
  exact Val.S_of_script_eq hs (hC x ob v0 hg hv0)

theorem SLe.scriptsQ {s s' : State} (h : SLe s s') (hC : s.ScriptsQ Q) : s'.ScriptsQ Q := by
  refine ⟨?_, h.heap.heapQ hC.2.1, ?_⟩
  · rw [h.stack]; exact hC.1
  · rw [h.vals]; exact hC.2.2

/-! ### `ScriptsQ` under the steps that move values around -/

theorem ScriptsQ.congr {s s' : State} (h : s.ScriptsQ Q) (hh : s'.heap = s.heap)
    (hs : s'.stack = s.stack) (hv : s'.vals = s.vals) : s'.ScriptsQ Q :=
  (SLe.of_eq hh hs hv).scriptsQ h

theorem ScriptsQ.push {s : State} (h : s.ScriptsQ Q) {fs : List Frame} (hf : ∀ f ∈ fs, f.S Q) :
    (s.push fs).ScriptsQ Q := by
  refine ⟨?_, h.2.1, h.2.2⟩
  intro f hm
  rw [push_stack, List.mem_append] at hm
  rcases hm with hm | hm
  · exact hf f hm
  · exact h.1 f hm

theorem ScriptsQ.pop {s : State} {f : Frame} {rest : List Frame} (h : s.ScriptsQ Q)
    (hst : s.stack = f :: rest) : ({ s with stack := rest } : State).ScriptsQ Q ∧ f.S Q := by
  refine ⟨⟨fun g hg => h.1 g ?_, h.2.1, h.2.2⟩, h.1 f ?_⟩
  · rw [hst]; exact List.mem_cons_of_mem _ hg
  · rw [hst]; exact List.mem_cons_self

theorem ScriptsQ.alloc {s : State} (h : s.ScriptsQ Q) {v : Val} (hv : v.S Q) : (s.alloc v).ScriptsQ Q := by
  refine ⟨h.1, ?_, h.2.2⟩
  intro x ob v' hx hv'
  rw [getElem?_alloc] at hx
  split at hx
  · cases hx
    cases hv'
    exact hv
  · exact h.2.1 x ob v' hx hv'

theorem ScriptsQ.valOf {s : State} (h : s.ScriptsQ Q) {o : Nat} {ob : Obj} {v : Val}
    (hc : s.cell o = some ob) (hv : ob.value = some v) : v.S Q :=
  h.2.1 o ob v (get_of_cell hc) hv

theorem ScriptsQ.beginSingle {s : State} (h : s.ScriptsQ Q) (o : Nat) : (s.beginSingle o).ScriptsQ Q := by
  unfold State.beginSingle
  split
  · rename_i ob hc
    split
    · exact (SLe.decWeakFree s o true).scriptsQ h
    · split
      · rename_i v hv
        refine ScriptsQ.push ((SLe.setObj_none (get_of_cell hc) rfl).scriptsQ h) ?_
        intro f hf
        simp only [List.mem_cons, List.not_mem_nil, or_false] at hf
        rcases hf with rfl | rfl
        · exact h.valOf hc hv
        · trivial
      · exact (SLe.fail _ _).scriptsQ h
  · exact (SLe.fail _ _).scriptsQ h

/-- the accumulator of phase 2: the state keeps `ScriptsQ`, the collected values are in `Q` -/
theorem phase2_fold_scriptsQ (ks : List Nat) (acc : State × List Val) (h : acc.1.ScriptsQ Q)
    (hv : ∀ v ∈ acc.2, v.S Q) :
    (ks.foldl phase2One acc).1.ScriptsQ Q ∧ ∀ v ∈ (ks.foldl phase2One acc).2, v.S Q := by
  induction ks generalizing acc with
  | nil => exact ⟨h, hv⟩
  | cons k ks ih =>
    rw [List.foldl_cons]
    apply ih
    · unfold State.phase2One
      split
      · rename_i ob hc
        split
        · split
          · exact (SLe.setObj_none (get_of_cell hc) rfl).scriptsQ h
          · exact (SLe.fail _ _).scriptsQ h
        · exact h
      · exact (SLe.fail _ _).scriptsQ h
    · unfold State.phase2One
      split
      · rename_i ob hc
        split
        · split
          · rename_i v hvv
            intro v' hv'
            simp only [List.mem_append, List.mem_cons, List.not_mem_nil, or_false] at hv'
            rcases hv' with hv' | rfl
            · exact hv v' hv'
            · exact h.valOf hc hvv
          · exact hv
        · exact hv
      · exact hv

theorem ScriptsQ.dropCycle {s : State} (h : s.ScriptsQ Q) (c : CMap) : (s.dropCycle c).ScriptsQ Q := by
  unfold State.dropCycle
  have h1 : (c.foldl (phase1One c.keys) s).ScriptsQ Q :=
    (SLe.foldl _ (SLe.phase1One c.keys) c s).scriptsQ h
  obtain ⟨h2, h3⟩ := phase2_fold_scriptsQ c.keys (c.foldl (phase1One c.keys) s, []) h1
    (fun v hv => by cases hv)
  refine ScriptsQ.push h2 ?_
  intro f hf
  simp only [List.mem_append, List.mem_map, List.mem_cons, List.not_mem_nil, or_false] at hf
  rcases hf with ⟨v, hv, rfl⟩ | rfl
  · exact h3 v ((reorder_perm s.hint _).mem_iff.mp hv)
  · trivial

theorem ScriptsQ.rcDrop {s : State} (h : s.ScriptsQ Q) (o : Nat) : (s.rcDrop o).ScriptsQ Q := by
  unfold State.rcDrop
  split
  · exact (SLe.fail _ _).scriptsQ h
  · rename_i ob hc
    split
    · exact h
    · exact h
    · rename_i n hs
      split
      · exact (SLe.fail _ _).scriptsQ h
      · rename_i t ht
        have h1 : (s.setObj o { ob with strong := .cnt n }).ScriptsQ Q :=
          (SLe.setObj_keep (ob' := { ob with strong := .cnt n }) (get_of_cell hc) rfl).scriptsQ h
        simp only []
        split
        · split
          · exact h1.beginSingle o
          · exact h1
        · split
          · exact ((SLe.purgePeers _ o).scriptsQ h1).beginSingle o
          · have h2 : ∀ e, ((s.setObj o { ob with strong := .cnt n }).emit e).ScriptsQ Q :=
              fun e => (SLe.emit _ e).scriptsQ h1
            split
            · exact (SLe.fail _ _).scriptsQ (h2 _)
            · split
              · exact (SLe.fail _ _).scriptsQ (h2 _)
              · split
                · exact h2 _
                · split
                  · exact (SLe.fail _ _).scriptsQ (h2 _)
                  · split
                    · exact h2 _
                    · exact (h2 _).dropCycle _

end State
theorem State.ScriptsQ.modVal {s : State} (h : s.ScriptsQ Q) (o : Nat) (f : Val → Val)
    (hf : ∀ v, (f v).script = v.script) : (s.modVal o f).ScriptsQ Q :=
  (State.SLe.modVal hf).scriptsQ h

open State

theorem ScriptsQ_badRoot {s : State} (h : s.ScriptsQ Q) (r : Nat) : (s.badRoot r).ScriptsQ Q :=
  (SLe.badRoot s r).scriptsQ h

/-- every action keeps `ScriptsQ` (no action installs a script) -/
theorem applyAct_scriptsQ (s : State) (fh fw : List Nat) (a : Act) (h : s.ScriptsQ Q) :
    (applyAct s fh fw a).ScriptsQ Q := by
  cases a with
  | new =>
    simp only [applyAct]
    exact (h.alloc (v := { vid := s.nextVid, held := [], weaks := [], script := [], panics := false }) (fun a ha => by cases ha)).congr rfl rfl rfl
  | clone r =>
    simp only [applyAct]
    split
    · exact ((SLe.incStrong s _).scriptsQ h).congr rfl rfl rfl
    · exact ScriptsQ_badRoot h r
  | drop r =>
    simp only [applyAct]
    split
    · refine ScriptsQ.push (h.congr (s' := { s with roots := _ }) rfl rfl rfl) ?_
      intro f hf
      simp only [List.mem_cons, List.not_mem_nil, or_false] at hf
      subst hf; trivial
    · exact ScriptsQ_badRoot h r
  | adopt r1 r2 =>
    simp only [applyAct]
    split
    · exact (SLe.adopt s _ _ _).scriptsQ h
    · exact ScriptsQ_badRoot (ScriptsQ_badRoot h r1) r2
  | unadopt r1 r2 =>
    simp only [applyAct]
    split
    · exact (SLe.unadopt s _ _ _).scriptsQ h
    · exact ScriptsQ_badRoot (ScriptsQ_badRoot h r1) r2
  | store r q =>
    simp only [applyAct]
    split
    · split
      · exact h
      · apply ScriptsQ.modVal
        · exact h.congr (s := s) rfl rfl rfl
        · intro _; rfl
    · exact ScriptsQ_badRoot (ScriptsQ_badRoot h r) q
  | take q k =>
    simp only [applyAct]
    split
    · split
      · split
        · refine ScriptsQ.congr (s := s.modVal _ _) ?_ rfl rfl rfl
          apply ScriptsQ.modVal h
          intro _; rfl
        · exact h
      · exact (SLe.fail _ _).scriptsQ h
    · exact ScriptsQ_badRoot h q
  | link r q =>
    simp only [applyAct]
    split
    · split
      · exact h
      · apply ScriptsQ.modVal
        · exact ((SLe.adopt s _ _ false).scriptsQ h).congr rfl rfl rfl
        · intro _; rfl
    · exact ScriptsQ_badRoot (ScriptsQ_badRoot h r) q
  | unlink q k =>
    simp only [applyAct]
    cases h1 : s.useRoot q with
    | none => exact ScriptsQ_badRoot h q
    | some o =>
      dsimp only
      cases hv : s.valOf o with
      | none => exact (SLe.fail _ _).scriptsQ h
      | some v =>
        dsimp only
        cases hk : nthMod v.held k with
        | none => exact h
        | some t =>
          simp only []
          have h1 : (s.modVal o (fun v => { v with held := v.held.eraseIdx (idxMod v.held k) })).ScriptsQ Q :=
            ScriptsQ.modVal h _ _ (fun _ => rfl)
          refine ScriptsQ.congr
            (s := if (s.modVal o (fun v => { v with held := v.held.eraseIdx (idxMod v.held k) })).isLive t = true
              then (s.modVal o (fun v => { v with held := v.held.eraseIdx (idxMod v.held k) })).unadopt o t false
              else (s.modVal o (fun v => { v with held := v.held.eraseIdx (idxMod v.held k) })).fail (.dangling t))
            ?_ rfl rfl rfl
          split
          · exact (SLe.unadopt _ _ _ _).scriptsQ h1
          · exact (SLe.fail _ _).scriptsQ h1
  | downgrade r =>
    simp only [applyAct]
    split
    · exact ((SLe.incWeak s _).scriptsQ h).congr rfl rfl rfl
    · exact ScriptsQ_badRoot h r
  | upgrade w =>
    simp only [applyAct]
    split
    · split
      · split
        · exact (SLe.emit _ _).scriptsQ h
        · exact ((SLe.incStrong s _).scriptsQ h).congr rfl rfl rfl
      · exact (SLe.fail _ _).scriptsQ h
    · exact h
  | cloneWeak w =>
    simp only [applyAct]
    split
    · exact ((SLe.incWeak s _).scriptsQ h).congr rfl rfl rfl
    · exact h
  | dropWeak w =>
    simp only [applyAct]
    split
    · refine ScriptsQ.push (h.congr (s' := { s with wroots := _ }) rfl rfl rfl) ?_
      intro f hf
      simp only [List.mem_cons, List.not_mem_nil, or_false] at hf
      subst hf; trivial
    · exact h
  | storeWeak w q =>
    simp only [applyAct]
    split
    · apply ScriptsQ.modVal
      · exact h.congr (s := s) rfl rfl rfl
      · intro _; rfl
    · exact ScriptsQ_badRoot h q
    · exact h
  | tryUnwrap r =>
    simp only [applyAct]
    split
    · split
      · rename_i o _ ob hc
        split
        · rename_i v hs hv
          refine (SLe.emit _ _).scriptsQ ((SLe.giveUp _ _).scriptsQ ?_)
          refine ⟨h.1, h.2.1, ?_⟩
          intro v' hv'
          simp only [List.mem_append, List.mem_cons, List.not_mem_nil, or_false] at hv'
          rcases hv' with hv' | rfl
          · exact h.2.2 v' hv'
          · exact h.valOf hc hv
        · exact (SLe.fail _ _).scriptsQ h
        · exact (SLe.emit _ _).scriptsQ h
      · exact (SLe.fail _ _).scriptsQ h
    · exact ScriptsQ_badRoot h r
  | dropValue i =>
    simp only [applyAct]
    split
    · rename_i v hn
      refine ScriptsQ.push (s := { s with vals := s.vals.eraseIdx (idxMod s.vals i) }) ⟨h.1, h.2.1, ?_⟩ ?_
      · intro v' hv'
        exact h.2.2 v' (List.mem_of_mem_eraseIdx hv')
      · intro f hf
        simp only [List.mem_cons, List.not_mem_nil, or_false] at hf
        subst hf
        exact h.2.2 v (mem_of_nthMod hn)
    · exact h
  | makeMut r =>
    simp only [applyAct]
    split
    · split
      · rename_i o _ ob hc
        split
        · rename_i v hv
          have hvC : v.S Q := h.valOf hc hv
          split
          · refine ScriptsQ.push ?_ ?_
            · refine (SLe.emit _ _).scriptsQ (ScriptsQ.congr
                (s := (if v.shallow then s else s.cloneHandles v).alloc
                  (if v.shallow then { v with vid := s.nextVid, held := [], weaks := [] }
                    else { v with vid := s.nextVid }))
                ?_ rfl rfl rfl)
              cases v.shallow
              · exact ((SLe.cloneHandles s v).scriptsQ h).alloc hvC
              · exact h.alloc hvC
            · intro f hf
              simp only [List.mem_cons, List.not_mem_nil, or_false] at hf
              subst hf; trivial
          · split
            · refine (SLe.emit _ _).scriptsQ ((SLe.giveUp _ _).scriptsQ ?_)
              exact (h.alloc hvC).congr rfl rfl rfl
            · exact (SLe.emit _ _).scriptsQ h
        · exact (SLe.fail _ _).scriptsQ h
      · exact (SLe.fail _ _).scriptsQ h
    · exact ScriptsQ_badRoot h r
  | getMut r =>
    simp only [applyAct]
    split
    · split
      · exact (SLe.emit _ _).scriptsQ h
      · exact (SLe.fail _ _).scriptsQ h
    · exact ScriptsQ_badRoot h r
  | intoRaw r =>
    simp only [applyAct]
    split
    · exact h.congr rfl rfl rfl
    · exact ScriptsQ_badRoot h r
  | fromRaw i =>
    simp only [applyAct]
    split
    · exact h.congr rfl rfl rfl
    · exact h
  | incStrong i =>
    simp only [applyAct]
    split
    · split
      · exact ((SLe.incStrong s _).scriptsQ h).congr rfl rfl rfl
      · exact (SLe.fail _ _).scriptsQ h
    · exact h
  | decStrong i =>
    simp only [applyAct]
    split
    · split
      · refine ScriptsQ.push (h.congr (s' := { s with raws := _ }) rfl rfl rfl) ?_
        intro f hf
        simp only [List.mem_cons, List.not_mem_nil, or_false] at hf
        subst hf; trivial
      · exact (SLe.fail _ _).scriptsQ h
    · exact h
  | ptrEq r1 r2 =>
    simp only [applyAct]
    split
    · exact (SLe.emit _ _).scriptsQ h
    · exact ScriptsQ_badRoot (ScriptsQ_badRoot h r1) r2
  | counts r =>
    simp only [applyAct]
    split
    · split
      · exact (SLe.emit _ _).scriptsQ ((SLe.emit _ _).scriptsQ h)
      · exact (SLe.fail _ _).scriptsQ h
    · exact ScriptsQ_badRoot h r
  | wcounts w =>
    simp only [applyAct]
    split
    · split
      · split <;> exact (SLe.emit _ _).scriptsQ ((SLe.emit _ _).scriptsQ h)
      · exact (SLe.fail _ _).scriptsQ h
    · exact h
  | setPanic q =>
    simp only [applyAct]
    split
    · apply ScriptsQ.modVal h
      intro _; rfl
    · exact ScriptsQ_badRoot h q
  | setShallow q =>
    simp only [applyAct]
    split
    · apply ScriptsQ.modVal h
      intro _; rfl
    · exact ScriptsQ_badRoot h q
  | upgradeField k =>
    simp only [applyAct]
    split
    · split
      · split
        · exact (SLe.emit _ _).scriptsQ h
        · exact ((SLe.incStrong s _).scriptsQ h).congr rfl rfl rfl
      · exact (SLe.fail _ _).scriptsQ h
    · exact h
  | cloneField k =>
    simp only [applyAct]
    split
    · exact ((SLe.incStrong s _).scriptsQ h).congr rfl rfl rfl
    · exact h
  | downgradeField k =>
    simp only [applyAct]
    split
    · exact ((SLe.incWeak s _).scriptsQ h).congr rfl rfl rfl
    · exact h

/-- operations in the class keep `ScriptsQ` -/
theorem applyOp_scriptsQ (s : State) (op : Op) (hop : op.S Q) (h : s.ScriptsQ Q) :
    (applyOp s op).ScriptsQ Q := by
  cases op with
  | act a => exact applyAct_scriptsQ s [] [] a h
  | setScript q acts =>
    simp only [applyOp]
    split
    · rename_i o _
      rcases modVal_cases s o (fun v => { v with script := acts }) with ⟨e, he⟩ | ⟨ob, v, hc, hv, he⟩ <;>
        rw [he]
      · exact (SLe.fail _ _).scriptsQ h
      · refine ⟨h.1, ?_, h.2.2⟩
        intro x obx vx hx hvx
        by_cases hxo : x = o
        · subst hxo
          rw [getElem?_setObj_same _ (get_lt (get_of_cell hc))] at hx
          cases hx
          cases hvx
          exact hop
        · rw [getElem?_setObj_other s _ hxo] at hx
          exact h.2.1 x obx vx hx hvx
    · exact ScriptsQ_badRoot h q
  | shuffle q i =>
    simp only [applyOp]
    split
    · exact (SLe.setLinks _ _ _).scriptsQ h
    · exact ScriptsQ_badRoot h q

theorem State.ScriptsQ.panic {s : State} (h : s.ScriptsQ Q) : s.panic.ScriptsQ Q := by
  unfold State.panic
  split
  · exact (SLe.fail _ _).scriptsQ h
  · exact ⟨fun g hg => h.1 g (List.mem_filter.mp hg).1, h.2.1, h.2.2⟩

/-- one machine step keeps `ScriptsQ` -/
theorem step_scriptsQ (s : State) (h : s.ScriptsQ Q) : (step s).ScriptsQ Q := by
  unfold step
  split
  · exact h
  · split
    · exact h
    · rename_i f rest hst
      obtain ⟨h0, hf⟩ := h.pop hst
      split
      · exact h0.rcDrop _
      · exact (SLe.decWeakFree _ _ false).scriptsQ h0
      · rename_i v
        unfold State.dropVal
        refine ScriptsQ.push ((SLe.emit _ _).scriptsQ h0) ?_
        intro g hg
        simp only [List.mem_append, List.mem_cons, List.not_mem_nil, or_false] at hg
        rcases hg with (rfl | hg) | rfl
        · exact hf
        · split at hg
          · simp only [List.mem_cons, List.not_mem_nil, or_false] at hg
            subst hg; trivial
          · cases hg
        · trivial
      · exact h0
      · rename_i hh ww a as
        apply applyAct_scriptsQ
        refine ScriptsQ.push h0 ?_
        intro g hg
        simp only [List.mem_cons, List.not_mem_nil, or_false] at hg
        subst hg
        exact fun b hb => hf b (List.mem_cons_of_mem _ hb)
      · exact h0.panic
      · rename_i hh ww
        cases hh with
        | cons a hh =>
          refine ScriptsQ.push h0 ?_
          intro g hg
          simp only [List.mem_cons, List.not_mem_nil, or_false] at hg
          rcases hg with rfl | rfl <;> trivial
        | nil =>
          cases ww with
          | cons a ww =>
            refine ScriptsQ.push h0 ?_
            intro g hg
            simp only [List.mem_cons, List.not_mem_nil, or_false] at hg
            rcases hg with rfl | rfl <;> trivial
          | nil => exact h0
      · exact (SLe.finishSingle _ _).scriptsQ h0
      · exact (SLe.foldl _ SLe.phase3One _ _).scriptsQ h0

theorem endOp_scriptsQ (s : State) (h : s.ScriptsQ Q) : (endOp s).ScriptsQ Q := by
  unfold endOp
  split
  · exact h.congr rfl rfl rfl
  · exact h

theorem begin_scriptsQ (s : State) (hint : List Nat) (h : s.ScriptsQ Q) : (s.begin hint).ScriptsQ Q :=
  h.congr rfl rfl rfl

theorem ScriptsQ_init : ({} : State).ScriptsQ Q := by
  refine ⟨?_, ?_, ?_⟩
  · intro f hf; cases hf
  · intro o ob v hx _
    have : (({} : State).heap)[o]? = none := rfl
    rw [this] at hx; cases hx
  · intro v hv; cases hv

end Cactus
