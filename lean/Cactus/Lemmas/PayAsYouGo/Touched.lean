import Cactus.Lemmas.PayAsYouGo.Calm
/-!
# C14 (pay-as-you-go), part C: whole histories, per object

* `reachable_trace_has_cause` — in every reachable state, every `traced o _ _` event of the log was
  appended by one machine step `step s0` of a reachable state `s0` (whose log is exactly the part of
  the log before the event) running a frame `rcDrop o`, and the link table of `o` was non-empty in
  `s0`.
* `ReachableT T s` — `Reachable s` with a ghost list `T` of the objects designated so far by an
  `adopt`/`link` action (top level or inside a destructor script).
* `ReachableT.untouched_untabled` — an object never designated by a recorded adoption has an empty
  (or moved-out) link table in every state of every history;
  `ReachableT.traced_touched` — hence it never roots a trace.
* `touched ops` (the ghost list computed along `run ops`), `run_reachableT`,
  `run_untouched_tables_empty`, `run_trace_root_touched`.
-/
namespace Cactus
open State

/-! ## every `traced` event of a reachable log has a cause -/

/-- the event `traced o v p` at position `i` of `log` was appended by the step of a reachable state
in which the table of `o` was non-empty -/
def TraceCause (log : List Ev) (i o v p : Nat) : Prop :=
  ∃ s0, Reachable s0 ∧ s0.err = none ∧ (∃ rest, s0.stack = Frame.rcDrop o :: rest) ∧
    s0.log = log.take i ∧ (step s0).log = log.take (i + 1) ∧
    (step s0).log = s0.log ++ [Ev.traced o v p] ∧
    ∃ ob t, s0.cell o = some ob ∧ ob.links = some t ∧ t ≠ []

theorem TraceCause.append {log : List Ev} {i o v p : Nat} (h : TraceCause log i o v p)
    (hi : i < log.length) (new : List Ev) : TraceCause (log ++ new) i o v p := by
  obtain ⟨s0, hr, he, hs, h1, h2, h3, h4⟩ := h
  refine ⟨s0, hr, he, hs, ?_, ?_, h3, h4⟩
  · rw [h1, List.take_append_of_le_length (Nat.le_of_lt hi)]
  · rw [h2, List.take_append_of_le_length hi]

/-- all `traced` events of the log have a cause -/
def LogCaused (log : List Ev) : Prop :=
  ∀ i o v p, log[i]? = some (Ev.traced o v p) → TraceCause log i o v p

theorem LogCaused.append_quiet {log new : List Ev} (h : LogCaused log)
    (hq : ∀ e ∈ new, e.isTraced = false) : LogCaused (log ++ new) := by
  intro i o v p hi
  by_cases hlt : i < log.length
  · rw [List.getElem?_append_left hlt] at hi
    exact (h i o v p hi).append hlt new
  · rw [List.getElem?_append_right (Nat.le_of_not_lt hlt)] at hi
    have := hq _ (List.mem_of_getElem? hi)
    simp at this

theorem LogCaused.of_quiet {s s' : State} (h : LogCaused s.log) (hq : NoTraceExt s s') :
    LogCaused s'.log := by
  obtain ⟨new, hl, hn⟩ := hq
  rw [hl]
  exact h.append_quiet hn

/-- **Every trace has a cause, whole-log form.**  In every reachable state `s`, for every position
`i` of the log holding an event `traced o v p` there is a reachable state `s0`, without error and
with a frame `rcDrop o` on top of its stack, whose log is the log of `s` before position `i`, whose
machine step appended exactly that event, and in which the link table of `o` was non-empty. -/
theorem reachable_trace_has_cause {s : State} (h : Reachable s) :
    ∀ i o v p, s.log[i]? = some (Ev.traced o v p) →
      ∃ s0, Reachable s0 ∧ s0.err = none ∧ (∃ rest, s0.stack = Frame.rcDrop o :: rest) ∧
        s0.log = s.log.take i ∧ (step s0).log = s.log.take (i + 1) ∧
        (step s0).log = s0.log ++ [Ev.traced o v p] ∧
        ∃ ob t, s0.cell o = some ob ∧ ob.links = some t ∧ t ≠ [] := by
  show LogCaused s.log
  induction h with
  | init =>
    intro i o v p hi
    change ([] : List Ev)[i]? = _ at hi
    simp at hi
  | @op s o hint _ _ ih =>
    exact LogCaused.of_quiet (s := s.begin hint) ih (applyOp_calm _ o).log
  | @step s hr ih =>
    rcases step_log_cases s with hq | ⟨o, v, p, rest, herr, hst, hl, ht⟩
    · exact ih.of_quiet hq
    · rw [hl]
      intro i o' v' p' hi
      by_cases hlt : i < s.log.length
      · rw [List.getElem?_append_left hlt] at hi
        exact (ih i o' v' p' hi).append hlt _
      · have hge : s.log.length ≤ i := Nat.le_of_not_lt hlt
        rw [List.getElem?_append_right hge] at hi
        have hi0 : i - s.log.length = 0 := by
          cases hk : i - s.log.length with
          | zero => rfl
          | succ k => rw [hk] at hi; simp at hi
        rw [hi0] at hi
        simp only [List.getElem?_cons_zero, Option.some.injEq, Ev.traced.injEq] at hi
        obtain ⟨rfl, rfl, rfl⟩ := hi
        have hie : i = s.log.length := by omega
        subst hie
        refine ⟨s, hr, herr, ⟨rest, hst⟩, ?_, ?_, hl, ht⟩
        · simp
        · rw [hl, List.take_of_length_le (by simp)]
  | @endOp s _ ih => exact ih.of_quiet (endOp_calm s).log
  | @outOfFuel s _ ih => exact ih.of_quiet (Calm.fail s _).log

/-! ## reachable states with the ghost list of designated objects -/

/-- `Reachable` together with the list of the objects designated so far by a recorded adoption
(`adopt`/`link`, at top level or inside a destructor script), in chronological order -/
inductive ReachableT : List Nat → State → Prop
  | init : ReachableT [] {}
  | op {T : List Nat} {s : State} (o : Op) (hint : List Nat) : ReachableT T s → s.stack = [] →
      ReachableT (T ++ opTouched (s.begin hint) o) (applyOp (s.begin hint) o)
  | step {T : List Nat} {s : State} : ReachableT T s → ReachableT (T ++ stepTouched s) (step s)
  | endOp {T : List Nat} {s : State} : ReachableT T s → ReachableT T (endOp s)
  | outOfFuel {T : List Nat} {s : State} : ReachableT T s → ReachableT T (s.fail .fuel)

theorem ReachableT.reachable {T : List Nat} {s : State} (h : ReachableT T s) : Reachable s := by
  induction h with
  | init => exact .init
  | op o hint _ hq ih => exact .op o hint ih hq
  | step _ ih => exact .step ih
  | endOp _ ih => exact .endOp ih
  | outOfFuel _ ih => exact .outOfFuel ih

/-- the ghost list is only a decoration: every reachable state carries one -/
theorem Reachable.exists_touched {s : State} (h : Reachable s) : ∃ T, ReachableT T s := by
  induction h with
  | init => exact ⟨_, .init⟩
  | op o hint _ hq ih => obtain ⟨T, hT⟩ := ih; exact ⟨_, .op o hint hT hq⟩
  | step _ ih => obtain ⟨T, hT⟩ := ih; exact ⟨_, .step hT⟩
  | endOp _ ih => obtain ⟨T, hT⟩ := ih; exact ⟨_, .endOp hT⟩
  | outOfFuel _ ih => obtain ⟨T, hT⟩ := ih; exact ⟨_, .outOfFuel hT⟩

/-- **Per-object pay-as-you-go, tables.**  In every state of every history (adoptions allowed
elsewhere), an object that was never designated by a recorded adoption has an empty or moved-out
link table (or is not allocated yet). -/
theorem ReachableT.untouched_untabled {T : List Nat} {s : State} (h : ReachableT T s) :
    ∀ o, o ∉ T → ∀ ob, s.heap[o]? = some ob → ob.links = some [] ∨ ob.links = none := by
  show ∀ o, o ∉ T → s.Untabled o
  induction h with
  | init =>
    intro o _ ob hx
    have : (({} : State).heap)[o]? = none := rfl
    rw [this] at hx; cases hx
  | @op T s o hint _ _ ih =>
    intro x hx
    rw [List.mem_append, not_or] at hx
    exact (applyOp_calm (s.begin hint) o).tables x hx.2 (ih x hx.1)
  | @step T s _ ih =>
    intro x hx
    rw [List.mem_append, not_or] at hx
    exact step_tables s x hx.2 (ih x hx.1)
  | @endOp T s _ ih =>
    intro x hx
    exact (endOp_calm s).tables x (by simp) (ih x hx)
  | @outOfFuel T s _ ih =>
    intro x hx
    exact (Calm.fail s _).tables x (by simp) (ih x hx)

theorem State.NoTraceExt.mem_traced {s s' : State} (h : NoTraceExt s s') {o v p : Nat}
    (hm : Ev.traced o v p ∈ s'.log) : Ev.traced o v p ∈ s.log := by
  obtain ⟨new, hl, hn⟩ := h
  rw [hl] at hm
  rcases List.mem_append.mp hm with hm | hm
  · exact hm
  · have := hn _ hm
    simp at this

/-- **Per-object pay-as-you-go, traces.**  In every state of every history, every trace recorded in
the log is rooted at an object that was designated by a recorded adoption: an object never
designated never roots a trace. -/
theorem ReachableT.traced_touched {T : List Nat} {s : State} (h : ReachableT T s) :
    ∀ o v p, Ev.traced o v p ∈ s.log → o ∈ T := by
  induction h with
  | init => intro o v p hm; cases hm
  | @op T s o hint _ _ ih =>
    intro x v p hm
    exact List.mem_append_left _ (ih x v p ((applyOp_calm (s.begin hint) o).log.mem_traced hm))
  | @step T s hr ih =>
    intro x v p hm
    rcases step_log_cases s with hq | ⟨o, v', p', rest, herr, hst, hl, ht⟩
    · exact List.mem_append_left _ (ih x v p (hq.mem_traced hm))
    · rw [hl] at hm
      rcases List.mem_append.mp hm with hm | hm
      · exact List.mem_append_left _ (ih x v p hm)
      · simp only [List.mem_cons, List.not_mem_nil, or_false, Ev.traced.injEq] at hm
        obtain ⟨rfl, -, -⟩ := hm
        apply List.mem_append_left
        apply Classical.byContradiction
        intro hx
        exact ht.not_untabled (hr.untouched_untabled x hx)
  | @endOp T s _ ih =>
    intro x v p hm
    exact ih x v p ((endOp_calm s).log.mem_traced hm)
  | @outOfFuel T s _ ih =>
    intro x v p hm
    exact ih x v p ((Calm.fail s _).log.mem_traced hm)

/-! ## the ghost list computed along `run` -/

/-- objects designated by recorded adoptions of destructor scripts while the stack is drained -/
def drainT : Nat → State → List Nat
  | 0, _ => []
  | f + 1, s =>
    match s.err, s.stack with
    | none, _ :: _ => stepTouched s ++ drainT f (step s)
    | _, _ => []

/-- objects designated by recorded adoptions during one operation of a history -/
def execOpT (fuel : Nat) (s : State) (op : Op) (hint : List Nat) : List Nat :=
  match s.err with
  | some _ => []
  | none => opTouched (s.begin hint) op ++ drainT fuel (applyOp (s.begin hint) op)

/-- `run` together with the ghost list -/
def runT (fuel : Nat) (ops : List (Op × List Nat)) (p : State × List Nat) : State × List Nat :=
  ops.foldl (fun p oh => (execOp fuel p.1 oh.1 oh.2, p.2 ++ execOpT fuel p.1 oh.1 oh.2)) p

/-- **the objects designated by a recorded adoption** (`adopt r1 r2`, `link r q`: both designated
objects; at top level or inside a destructor script) in the course of the history `ops` -/
def touched (ops : List (Op × List Nat)) : List Nat := (runT defaultFuel ops ({}, [])).2

theorem drain_reachableT (f : Nat) {T : List Nat} {s : State} (h : ReachableT T s) :
    ReachableT (T ++ drainT f s) (drain f s) := by
  induction f generalizing T s with
  | zero =>
    unfold drain drainT
    rw [List.append_nil]
    split
    · exact h
    · exact .outOfFuel h
  | succ f ih =>
    unfold drain drainT
    cases herr : s.err with
    | some e => simpa using h
    | none =>
      cases hst : s.stack with
      | nil => simpa using h
      | cons g rest =>
        simp only []
        rw [← List.append_assoc]
        exact ih (.step h)

theorem execOp_reachableT (fuel : Nat) {T : List Nat} {s : State} (op : Op) (hint : List Nat)
    (h : ReachableT T s) (hq : s.err = none → s.stack = []) :
    ReachableT (T ++ execOpT fuel s op hint) (execOp fuel s op hint) := by
  unfold execOp
  split
  · rename_i e herr
    have : execOpT fuel s op hint = [] := by unfold execOpT; rw [herr]
    rw [this, List.append_nil]; exact h
  · rename_i herr
    have : execOpT fuel s op hint
        = opTouched (s.begin hint) op ++ drainT fuel (applyOp (s.begin hint) op) := by
      unfold execOpT; rw [herr]
    rw [this, ← List.append_assoc]
    exact .endOp (drain_reachableT fuel (.op op hint h (hq herr)))

theorem runT_spec (fuel : Nat) (ops : List (Op × List Nat)) (p : State × List Nat)
    (hr : ReachableT p.2 p.1) (hq : p.1.err = none → p.1.stack = []) :
    (runT fuel ops p).1 = ops.foldl (fun s oh => execOp fuel s oh.1 oh.2) p.1 ∧
      ReachableT (runT fuel ops p).2 (runT fuel ops p).1 := by
  induction ops generalizing p with
  | nil => exact ⟨rfl, hr⟩
  | cons oh rest ih =>
    unfold runT
    simp only [List.foldl_cons]
    exact ih (execOp fuel p.1 oh.1 oh.2, p.2 ++ execOpT fuel p.1 oh.1 oh.2)
      (execOp_reachableT fuel oh.1 oh.2 hr hq) (execOp_quiescent fuel p.1 oh.1 oh.2 hq)

theorem runT_fst (ops : List (Op × List Nat)) : (runT defaultFuel ops ({}, [])).1 = run ops :=
  (runT_spec defaultFuel ops ({}, []) .init (fun _ => rfl)).1

/-- the final state of a history, with the list of objects its recorded adoptions designated -/
theorem run_reachableT (ops : List (Op × List Nat)) : ReachableT (touched ops) (run ops) := by
  have := (runT_spec defaultFuel ops ({}, []) .init (fun _ => rfl)).2
  rw [runT_fst] at this
  exact this

/-- **Per-object pay-as-you-go for `run`, tables**: an object never designated by an
`adopt`/`link` of the history (top level or destructor script) ends with an empty or moved-out
table — whatever adoptions the history performs on other objects. -/
theorem run_untouched_tables_empty (ops : List (Op × List Nat)) :
    ∀ o, o ∉ touched ops → ∀ ob, (run ops).heap[o]? = some ob →
      ob.links = some [] ∨ ob.links = none :=
  (run_reachableT ops).untouched_untabled

/-- **Per-object pay-as-you-go for `run`, traces**: every trace of the history is rooted at an
object designated by one of its recorded adoptions. -/
theorem run_trace_root_touched (ops : List (Op × List Nat)) :
    ∀ o v p, Ev.traced o v p ∈ (run ops).log → o ∈ touched ops :=
  (run_reachableT ops).traced_touched

end Cactus
