import Cactus.Lemmas.Contract
/-!
# C14 (pay-as-you-go), part A: tables stay empty, logs grow quietly

Two facts about every primitive of the machine, packaged in one relation `State.Calm l s s'`:

* `tables` — every object outside the list `l` whose link table is empty (or moved out, or which is
  not allocated yet) in `s` still has an empty (or moved-out) table in `s'`;
* `log` — the log of `s'` is the log of `s` followed by events none of which is a `traced` event.

Every primitive except `adopt` is `Calm []`; `adopt a b` is `Calm [a, b]`.  The only function of
the model that appends a `traced` event is `State.rcDrop`, and it does so only in the branch taken
when the table of the dropped object is non-empty (`rcDrop_log_cases`).
-/
namespace Cactus

/-- the event is the record of a reachability trace -/
def Ev.isTraced : Ev → Bool
  | .traced _ _ _ => true
  | _ => false

@[simp] theorem Ev.isTraced_traced (o v p : Nat) : (Ev.traced o v p).isTraced = true := rfl

theorem Ev.isTraced_false_iff (e : Ev) : e.isTraced = false ↔ ∀ o v p, e ≠ Ev.traced o v p := by
  cases e <;> simp [Ev.isTraced]

namespace State

/-- the adoption bookkeeping of `o` is empty: the table is empty, or moved out, or `o` is not
allocated yet (a fresh allocation starts with an empty table) -/
def Untabled (s : State) (o : Nat) : Prop :=
  ∀ ob, s.heap[o]? = some ob → ob.links = some [] ∨ ob.links = none

/-- `o` is readable and its link table is non-empty -/
def Tabled (s : State) (o : Nat) : Prop :=
  ∃ ob t, s.cell o = some ob ∧ ob.links = some t ∧ t ≠ []

theorem Tabled.not_untabled {s : State} {o : Nat} (h : s.Tabled o) : ¬ s.Untabled o := by
  obtain ⟨ob, t, hc, hl, hne⟩ := h
  intro hu
  rcases hu ob (get_of_cell hc) with h1 | h1
  · rw [hl] at h1; cases h1; exact hne rfl
  · rw [hl] at h1; cases h1

theorem Tabled.congr {s s' : State} {o : Nat} (hh : s'.heap = s.heap) (h : s.Tabled o) : s'.Tabled o := by
  obtain ⟨ob, t, hc, hl, hne⟩ := h
  refine ⟨ob, t, ?_, hl, hne⟩
  unfold cell at hc ⊢
  rw [hh]; exact hc

/-- empty tables outside `l` stay empty -/
def TKeep (l : List Nat) (s s' : State) : Prop :=
  ∀ o, o ∉ l → s.Untabled o → s'.Untabled o

/-- the log grows by events that are not traces -/
def NoTraceExt (s s' : State) : Prop :=
  ∃ new, s'.log = s.log ++ new ∧ ∀ e ∈ new, e.isTraced = false

theorem TKeep.refl (l : List Nat) (s : State) : TKeep l s s := fun _ _ h => h

theorem TKeep.trans {l : List Nat} {s s' s'' : State} (h1 : TKeep l s s') (h2 : TKeep l s' s'') :
    TKeep l s s'' := fun o ho h => h2 o ho (h1 o ho h)

theorem TKeep.mono {l l' : List Nat} {s s' : State} (hl : ∀ x ∈ l, x ∈ l') (h : TKeep l s s') :
    TKeep l' s s' := fun o ho hu => h o (fun hm => ho (hl o hm)) hu

theorem TKeep.of_heap {l : List Nat} {s s' : State} (hh : s'.heap = s.heap) : TKeep l s s' := by
  intro o _ hu ob hx
  rw [hh] at hx
  exact hu ob hx

theorem NoTraceExt.refl (s : State) : NoTraceExt s s := ⟨[], by simp, by simp⟩

theorem NoTraceExt.trans {s s' s'' : State} (h1 : NoTraceExt s s') (h2 : NoTraceExt s' s'') : NoTraceExt s s'' := by
  obtain ⟨n1, e1, q1⟩ := h1
  obtain ⟨n2, e2, q2⟩ := h2
  refine ⟨n1 ++ n2, by rw [e2, e1, List.append_assoc], ?_⟩
  intro e he
  rcases List.mem_append.mp he with he | he
  · exact q1 e he
  · exact q2 e he

theorem NoTraceExt.of_log {s s' : State} (hl : s'.log = s.log) : NoTraceExt s s' := ⟨[], by simp [hl], by simp⟩

/-- a quiet step keeps a trace-free log trace-free -/
theorem NoTraceExt.no_trace {s s' : State} (h : NoTraceExt s s') (hs : ∀ e ∈ s.log, e.isTraced = false) :
    ∀ e ∈ s'.log, e.isTraced = false := by
  obtain ⟨n, e1, q⟩ := h
  intro e he
  rw [e1] at he
  rcases List.mem_append.mp he with he | he
  · exact hs e he
  · exact q e he

/-- tables outside `l` stay empty and the log grows quietly -/
structure Calm (l : List Nat) (s s' : State) : Prop where
  tables : TKeep l s s'
  log : NoTraceExt s s'

theorem Calm.refl (l : List Nat) (s : State) : Calm l s s := ⟨TKeep.refl l s, NoTraceExt.refl s⟩

theorem Calm.trans {l : List Nat} {s s' s'' : State} (h1 : Calm l s s') (h2 : Calm l s' s'') :
    Calm l s s'' := ⟨h1.tables.trans h2.tables, h1.log.trans h2.log⟩

theorem Calm.mono {l l' : List Nat} {s s' : State} (hl : ∀ x ∈ l, x ∈ l') (h : Calm l s s') :
    Calm l' s s' := ⟨h.tables.mono hl, h.log⟩

theorem Calm.weaken {l : List Nat} {s s' : State} (h : Calm [] s s') : Calm l s s' :=
  h.mono (fun _ hx => by cases hx)

theorem Calm.of_eq {l : List Nat} {s s' : State} (hh : s'.heap = s.heap) (hl : s'.log = s.log) :
    Calm l s s' := ⟨TKeep.of_heap hh, NoTraceExt.of_log hl⟩

/-- explicit form of `Calm.of_eq` -/
theorem Calm.upd {l : List Nat} (s s' : State) (hh : s'.heap = s.heap) (hl : s'.log = s.log) :
    Calm l s s' := Calm.of_eq hh hl

theorem Calm.fail (s : State) (e : Err) : Calm [] s (s.fail e) := Calm.of_eq (by simp) (by simp)

theorem Calm.emit (s : State) (e : Ev) (he : e.isTraced = false) : Calm [] s (s.emit e) :=
  ⟨TKeep.of_heap rfl, [e], rfl, by simpa using he⟩

theorem Calm.push (s : State) (fs : List Frame) : Calm [] s (s.push fs) := Calm.of_eq rfl rfl

theorem Calm.badRoot (s : State) (r : Nat) : Calm [] s (s.badRoot r) := by
  rcases badRoot_cases s r with e | ⟨e, he⟩
  · rw [e]; exact Calm.refl _ s
  · rw [he]; exact Calm.fail s e

theorem Calm.setObj {s : State} {o : Nat} {ob ob' : Obj} (hg : s.heap[o]? = some ob)
    (h : (ob.links = some [] ∨ ob.links = none) → (ob'.links = some [] ∨ ob'.links = none)) :
    Calm [] s (s.setObj o ob') := by
  refine ⟨?_, NoTraceExt.of_log rfl⟩
  intro x _ hu obx hx
  by_cases hxo : x = o
  · subst hxo
    rw [getElem?_setObj_same _ (get_lt hg)] at hx
    cases hx
    exact h (hu ob hg)
  · rw [getElem?_setObj_other s _ hxo] at hx
    exact hu obx hx

/-- the table is kept -/
theorem Calm.setObj_keep {s : State} {o : Nat} {ob ob' : Obj} (hg : s.heap[o]? = some ob)
    (hl : ob'.links = ob.links) : Calm [] s (s.setObj o ob') :=
  Calm.setObj hg (fun h => by rw [hl]; exact h)

/-- the table is moved out -/
theorem Calm.setObj_none {s : State} {o : Nat} {ob ob' : Obj} (hg : s.heap[o]? = some ob)
    (hl : ob'.links = none) : Calm [] s (s.setObj o ob') :=
  Calm.setObj hg (fun _ => Or.inr hl)

/-- an update of a table that maps the empty table to the empty table -/
theorem Calm.setLinks {s : State} {o : Nat} {f : Table → Table} (hf : f [] = []) :
    Calm [] s (s.setLinks o f) := by
  rcases setLinks_cases s o f with ⟨e, h⟩ | ⟨ob, t, hc, hl, h⟩ <;> rw [h]
  · exact Calm.fail s e
  · refine Calm.setObj (get_of_cell hc) ?_
    intro hu
    rcases hu with hu | hu
    · rw [hl] at hu
      cases hu
      exact Or.inl (by simp [hf])
    · rw [hl] at hu; cases hu

/-- any update of the table of `o` leaves the other tables alone -/
theorem Calm.setLinks_at (s : State) (o : Nat) (f : Table → Table) : Calm [o] s (s.setLinks o f) := by
  refine ⟨?_, NoTraceExt.of_log (by simp)⟩
  intro x hx hu obx hg
  have hxo : x ≠ o := fun h => hx (by simp [h])
  rcases setLinks_cases s o f with ⟨e, h⟩ | ⟨ob, t, hc, hl, h⟩ <;> rw [h] at hg
  · rw [fail_heap] at hg; exact hu obx hg
  · rw [getElem?_setObj_other s _ hxo] at hg
    exact hu obx hg

theorem Calm.incStrong (s : State) (o : Nat) : Calm [] s (s.incStrong o) := by
  rcases incStrong_cases s o with ⟨e, h⟩ | ⟨ob, n, hc, hs, h⟩ <;> rw [h]
  · exact Calm.fail s e
  · exact Calm.setObj_keep (get_of_cell hc) rfl

theorem Calm.incWeak (s : State) (o : Nat) : Calm [] s (s.incWeak o) := by
  rcases incWeak_cases s o with ⟨e, h⟩ | ⟨ob, hc, hw, h⟩ <;> rw [h]
  · exact Calm.fail s e
  · exact Calm.setObj_keep (get_of_cell hc) rfl

theorem Calm.decWeakFree (s : State) (o : Nat) (imp : Bool) : Calm [] s (s.decWeakFree o imp) := by
  rcases decWeakFree_cases s o imp with ⟨e, h⟩ | ⟨ob, hc, hw, h⟩ | ⟨ob, w, hc, hw, h⟩ <;> rw [h]
  · exact Calm.fail s e
  · exact (Calm.setObj_keep (ob' := { ob with weak := 0, freed := true, implicit := ob.implicit && !imp })
      (get_of_cell hc) rfl).trans (Calm.emit _ _ rfl)
  · exact Calm.setObj_keep (get_of_cell hc) rfl

theorem Calm.modVal (s : State) (o : Nat) (f : Val → Val) : Calm [] s (s.modVal o f) := by
  rcases modVal_cases s o f with ⟨e, h⟩ | ⟨ob, v, hc, hv, h⟩ <;> rw [h]
  · exact Calm.fail s e
  · exact Calm.setObj_keep (get_of_cell hc) rfl

theorem Calm.foldl {α : Type} (g : State → α → State) (hg : ∀ s a, Calm [] s (g s a)) :
    ∀ (l : List α) (s : State), Calm [] s (l.foldl g s) := by
  intro l
  induction l with
  | nil => intro s; exact Calm.refl _ s
  | cons a l ih => intro s; exact (hg s a).trans (ih (g s a))

theorem Calm.cloneHandles (s : State) (v : Val) : Calm [] s (s.cloneHandles v) := by
  unfold State.cloneHandles
  exact (Calm.foldl _ Calm.incStrong _ s).trans (Calm.foldl _ Calm.incWeak _ _)

/-- a fresh allocation has an empty table -/
theorem Calm.alloc (s : State) (v : Val) : Calm [] s (s.alloc v) := by
  refine ⟨?_, NoTraceExt.of_log rfl⟩
  intro x _ hu obx hx
  rw [getElem?_alloc] at hx
  split at hx
  · cases hx; exact Or.inl rfl
  · exact hu obx hx

/-- `adopt` writes the tables of its two arguments only -/
theorem Calm.adopt (s : State) (a b : Nat) (same : Bool) : Calm [a, b] s (s.adopt a b same) := by
  unfold State.adopt
  split
  · exact (Calm.setLinks_at s a _).mono (fun x hx => by simp at hx; simp [hx])
  · exact ((Calm.setLinks_at s a _).mono (fun x hx => by simp at hx; simp [hx])).trans
      ((Calm.setLinks_at _ b _).mono (fun x hx => by simp at hx; simp [hx]))

/-- `unadopt` on empty tables leaves them empty -/
theorem Calm.unadopt (s : State) (a b : Nat) (same : Bool) : Calm [] s (s.unadopt a b same) := by
  unfold State.unadopt
  split
  · exact Calm.setLinks rfl
  · exact (Calm.setLinks rfl).trans (Calm.setLinks rfl)

theorem Calm.purgeOne (x : Nat) (s : State) (e : Link × Nat) : Calm [] s (purgeOne x s e) := by
  unfold State.purgeOne
  split
  · exact Calm.refl _ s
  · exact Calm.setLinks rfl

theorem Calm.purgePeers (s : State) (x : Nat) : Calm [] s (s.purgePeers x) := by
  unfold State.purgePeers
  split
  · exact (Calm.foldl _ (Calm.purgeOne x) _ s).trans (Calm.setLinks rfl)
  · exact Calm.fail _ _

theorem Calm.giveUp (s : State) (o : Nat) : Calm [] s (s.giveUp o) := by
  unfold State.giveUp
  split
  · rename_i ob hc
    exact (Calm.purgePeers s o).trans
      ((Calm.setObj_none (get_of_cell hc) rfl).trans (Calm.decWeakFree _ o true))
  · exact (Calm.purgePeers s o).trans (Calm.fail _ _)

theorem Calm.beginSingle (s : State) (o : Nat) : Calm [] s (s.beginSingle o) := by
  unfold State.beginSingle
  split
  · rename_i ob hc
    split
    · exact Calm.decWeakFree s o true
    · split
      · exact (Calm.setObj_keep (ob' := { ob with strong := .uninit, value := none })
          (get_of_cell hc) rfl).trans (Calm.push _ _)
      · exact Calm.fail _ _
  · exact Calm.fail _ _

theorem Calm.finishSingle (s : State) (o : Nat) : Calm [] s (s.finishSingle o) := by
  unfold State.finishSingle
  split
  · rename_i ob hc
    split
    · exact (Calm.setObj_none (ob' := { ob with links := none }) (get_of_cell hc) rfl).trans
        (Calm.decWeakFree _ o true)
    · exact Calm.fail _ _
  · exact Calm.fail _ _

theorem Calm.phase3One (s : State) (k : Nat) : Calm [] s (s.phase3One k) := by
  unfold State.phase3One
  split
  · split
    · exact Calm.decWeakFree s k true
    · exact Calm.refl _ s
  · exact Calm.fail _ _

theorem Calm.phase1One (keys : List Nat) (s : State) (e : Nat × Nat) :
    Calm [] s (phase1One keys s e) := by
  unfold State.phase1One
  split
  · rename_i ob hc
    split
    · rename_i t st hl hs
      refine Calm.setObj (get_of_cell hc) ?_
      intro hu
      rcases hu with hu | hu
      · rw [hl] at hu; cases hu; exact Or.inl rfl
      · rw [hl] at hu; cases hu
    · exact Calm.fail _ _
    · exact Calm.fail _ _
  · exact Calm.fail _ _

theorem Calm.phase2One (acc : State × List Val) (k : Nat) : Calm [] acc.1 (phase2One acc k).1 := by
  unfold State.phase2One
  split
  · rename_i ob hc
    split
    · split
      · exact Calm.setObj_none (get_of_cell hc) rfl
      · exact Calm.fail _ _
    · exact Calm.refl _ _
  · exact Calm.fail _ _

theorem Calm.phase2_fold (ks : List Nat) (acc : State × List Val) :
    Calm [] acc.1 (ks.foldl State.phase2One acc).1 := by
  induction ks generalizing acc with
  | nil => exact Calm.refl _ _
  | cons k ks ih =>
    rw [List.foldl_cons]
    exact (Calm.phase2One acc k).trans (ih _)

theorem Calm.dropCycle (s : State) (c : CMap) : Calm [] s (s.dropCycle c) := by
  unfold State.dropCycle
  exact ((Calm.foldl _ (Calm.phase1One c.keys) c s).trans
    (Calm.phase2_fold c.keys (c.foldl (State.phase1One c.keys) s, []))).trans (Calm.push _ _)

theorem Calm.dropVal (s : State) (v : Val) : Calm [] s (s.dropVal v) := by
  unfold State.dropVal
  exact (Calm.emit _ _ rfl).trans (Calm.push _ _)

theorem Calm.panic (s : State) : Calm [] s s.panic := by
  unfold State.panic
  split
  · exact Calm.fail _ _
  · exact Calm.of_eq rfl rfl

theorem Calm.dropFields (s : State) (hs ws : List Nat) : Calm [] s (s.dropFields hs ws) := by
  cases hs with
  | cons a hs => exact Calm.push _ _
  | nil =>
    cases ws with
    | cons a ws => exact Calm.push _ _
    | nil => exact Calm.refl _ _

/-! ## `rcDrop`: tables, and the one place where a trace is logged -/

/-- `Rc::drop` never makes an empty table non-empty -/
theorem rcDrop_tables (s : State) (o : Nat) : TKeep [] s (s.rcDrop o) := by
  unfold State.rcDrop
  split
  · exact (Calm.fail _ _).tables
  · rename_i ob hc
    split
    · exact TKeep.refl _ _
    · exact TKeep.refl _ _
    · rename_i n hs
      split
      · exact (Calm.fail _ _).tables
      · rename_i t ht
        have h1 : Calm [] s (s.setObj o { ob with strong := .cnt n }) :=
          Calm.setObj_keep (ob' := { ob with strong := .cnt n }) (get_of_cell hc) rfl
        simp only []
        split
        · split
          · exact (h1.trans (Calm.beginSingle _ o)).tables
          · exact h1.tables
        · split
          · exact (h1.trans ((Calm.purgePeers _ o).trans (Calm.beginSingle _ o))).tables
          · have h2 : ∀ e, TKeep [] s ((s.setObj o { ob with strong := .cnt n }).emit e) :=
              fun e => h1.tables.trans (TKeep.of_heap rfl)
            split
            · exact (h2 _).trans (Calm.fail _ _).tables
            · split
              · exact (h2 _).trans (Calm.fail _ _).tables
              · split
                · exact h2 _
                · split
                  · exact (h2 _).trans (Calm.fail _ _).tables
                  · split
                    · exact h2 _
                    · exact (h2 _).trans (Calm.dropCycle _ _).tables

@[simp] theorem phase1One_log (keys : List Nat) (s : State) (e : Nat × Nat) :
    (phase1One keys s e).log = s.log := by
  unfold State.phase1One
  split
  · split <;> simp
  · simp

theorem foldl_log {α : Type} (g : State → α → State) (hg : ∀ s a, (g s a).log = s.log) :
    ∀ (l : List α) (s : State), (l.foldl g s).log = s.log := by
  intro l
  induction l with
  | nil => intro s; rfl
  | cons a l ih => intro s; rw [List.foldl_cons, ih, hg]

theorem phase2One_log (acc : State × List Val) (k : Nat) : (phase2One acc k).1.log = acc.1.log := by
  unfold State.phase2One
  split
  · split
    · split <;> simp
    · rfl
  · simp

theorem phase2_fold_log (ks : List Nat) (acc : State × List Val) :
    (ks.foldl phase2One acc).1.log = acc.1.log := by
  induction ks generalizing acc with
  | nil => rfl
  | cons k ks ih => rw [List.foldl_cons, ih, phase2One_log]

/-- `drop_cycle` itself logs nothing (the destructors it schedules do, later) -/
@[simp] theorem dropCycle_log (s : State) (c : CMap) : (s.dropCycle c).log = s.log := by
  unfold State.dropCycle
  simp only [push_log]
  rw [phase2_fold_log]
  exact foldl_log _ (phase1One_log c.keys) c s

/-- **the only source of `traced` events.**  `Rc::drop` of a handle to `o` either appends no
`traced` event at all, or appends exactly one event, `traced o _ _`, and then the table of `o` was
non-empty when the drop started. -/
theorem rcDrop_log_cases (s : State) (o : Nat) :
    NoTraceExt s (s.rcDrop o) ∨
      (∃ v p, (s.rcDrop o).log = s.log ++ [Ev.traced o v p]) ∧ s.Tabled o := by
  unfold State.rcDrop
  split
  · exact Or.inl (Calm.fail _ _).log
  · rename_i ob hc
    split
    · exact Or.inl (NoTraceExt.refl _)
    · exact Or.inl (NoTraceExt.refl _)
    · rename_i n hs
      split
      · exact Or.inl (Calm.fail _ _).log
      · rename_i t ht
        have h1 : Calm [] s (s.setObj o { ob with strong := .cnt n }) :=
          Calm.setObj_keep (ob' := { ob with strong := .cnt n }) (get_of_cell hc) rfl
        simp only []
        split
        · split
          · exact Or.inl (h1.trans (Calm.beginSingle _ o)).log
          · exact Or.inl h1.log
        · rename_i hne
          split
          · exact Or.inl (h1.trans ((Calm.purgePeers _ o).trans (Calm.beginSingle _ o))).log
          · right
            refine ⟨⟨(cycleRefs (s.setObj o { ob with strong := .cnt n }) o).visited.length,
              (cycleRefs (s.setObj o { ob with strong := .cnt n }) o).popped, ?_⟩, ob, t, hc, ht, ?_⟩
            · split
              · simp
              · split
                · simp
                · split
                  · simp
                  · split
                    · simp
                    · split
                      · simp
                      · simp
            · intro h
              apply hne
              rw [h]; rfl

end State

open State

/-! ## actions -/

/-- the objects whose tables the action writes by recording an adoption (`adopt`, `link`) in `s`:
the two designated objects, when both selectors designate live objects -/
def actTouched (s : State) : Act → List Nat
  | .adopt r1 r2 =>
    match s.useRoot r1, s.useRoot r2 with
    | some a, some b => [a, b]
    | _, _ => []
  | .link r q =>
    match s.useRoot r, s.useRoot q with
    | some t, some o => if idxMod s.roots r = idxMod s.roots q then [] else [o, t]
    | _, _ => []
  | _ => []

theorem actTouched_congr {s s' : State} (hh : s'.heap = s.heap) (hr : s'.roots = s.roots) (a : Act) :
    actTouched s' a = actTouched s a := by
  have hu : ∀ r, s'.useRoot r = s.useRoot r := by
    intro r; unfold State.useRoot State.isLive; rw [hh, hr]
  cases a <;> simp only [actTouched, hu, hr]

/-- **no action traces, and only `adopt`/`link` can fill a table** — and only the tables of the
two objects they designate -/
theorem applyAct_calm (s : State) (fh fw : List Nat) (a : Act) :
    Calm (actTouched s a) s (applyAct s fh fw a) := by
  cases a with
  | new =>
    simp only [applyAct, actTouched]
    exact (Calm.alloc s _).trans (Calm.of_eq rfl rfl)
  | clone r =>
    simp only [applyAct, actTouched]
    split
    · exact (Calm.incStrong s _).trans (Calm.of_eq rfl rfl)
    · exact Calm.badRoot s r
  | drop r =>
    simp only [applyAct, actTouched]
    split
    · exact Calm.of_eq rfl rfl
    · exact Calm.badRoot s r
  | adopt r1 r2 =>
    simp only [applyAct, actTouched]
    cases h1 : s.useRoot r1 <;> cases h2 : s.useRoot r2 <;> simp only []
    · exact (Calm.badRoot s r1).trans (Calm.badRoot _ r2)
    · exact (Calm.badRoot s r1).trans (Calm.badRoot _ r2)
    · exact (Calm.badRoot s r1).trans (Calm.badRoot _ r2)
    · exact Calm.adopt s _ _ _
  | unadopt r1 r2 =>
    simp only [applyAct, actTouched]
    split
    · exact Calm.unadopt s _ _ _
    · exact (Calm.badRoot s r1).trans (Calm.badRoot _ r2)
  | store r q =>
    simp only [applyAct, actTouched]
    split
    · split
      · exact Calm.refl _ s
      · exact (Calm.upd s { s with roots := s.roots.eraseIdx (idxMod s.roots r) } rfl rfl).trans
          (Calm.modVal _ _ _)
    · exact (Calm.badRoot s r).trans (Calm.badRoot _ q)
  | take q k =>
    simp only [applyAct, actTouched]
    split
    · split
      · split
        · exact (Calm.modVal s _ _).trans (Calm.of_eq rfl rfl)
        · exact Calm.refl _ s
      · exact Calm.fail _ _
    · exact Calm.badRoot s q
  | link r q =>
    simp only [applyAct, actTouched]
    cases h1 : s.useRoot r <;> cases h2 : s.useRoot q <;> simp only []
    · exact (Calm.badRoot s r).trans (Calm.badRoot _ q)
    · exact (Calm.badRoot s r).trans (Calm.badRoot _ q)
    · exact (Calm.badRoot s r).trans (Calm.badRoot _ q)
    · rename_i t o
      split
      · exact Calm.refl _ s
      · exact (Calm.adopt s o t false).trans
          ((Calm.upd (s.adopt o t false) { s.adopt o t false with
              roots := (s.adopt o t false).roots.eraseIdx (idxMod s.roots r) } rfl rfl).trans
            (Calm.modVal _ _ _).weaken)
  | unlink q k =>
    simp only [applyAct, actTouched]
    cases h1 : s.useRoot q with
    | none => exact Calm.badRoot s q
    | some o =>
      dsimp only
      cases hv : s.valOf o with
      | none => exact Calm.fail _ _
      | some v =>
        dsimp only
        cases hk : nthMod v.held k with
        | none => exact Calm.refl _ s
        | some t =>
          simp only []
          have h1 : Calm [] s (s.modVal o (fun v => { v with held := v.held.eraseIdx (idxMod v.held k) })) :=
            Calm.modVal s _ _
          refine h1.trans (Calm.trans
            (s' := if (s.modVal o (fun v => { v with held := v.held.eraseIdx (idxMod v.held k) })).isLive t = true
              then (s.modVal o (fun v => { v with held := v.held.eraseIdx (idxMod v.held k) })).unadopt o t false
              else (s.modVal o (fun v => { v with held := v.held.eraseIdx (idxMod v.held k) })).fail (.dangling t))
            ?_ (Calm.of_eq rfl rfl))
          split
          · exact Calm.unadopt _ _ _ _
          · exact Calm.fail _ _
  | downgrade r =>
    simp only [applyAct, actTouched]
    split
    · exact (Calm.incWeak s _).trans (Calm.of_eq rfl rfl)
    · exact Calm.badRoot s r
  | upgrade w =>
    simp only [applyAct, actTouched]
    split
    · split
      · split
        · exact Calm.emit _ _ (by simp [retBool, Ev.isTraced])
        · exact (Calm.incStrong s _).trans ((Calm.emit _ _ (by simp [retBool, Ev.isTraced])).trans
            (Calm.of_eq rfl rfl))
      · exact Calm.fail _ _
    · exact Calm.refl _ s
  | cloneWeak w =>
    simp only [applyAct, actTouched]
    split
    · exact (Calm.incWeak s _).trans (Calm.of_eq rfl rfl)
    · exact Calm.refl _ s
  | dropWeak w =>
    simp only [applyAct, actTouched]
    split
    · exact Calm.of_eq rfl rfl
    · exact Calm.refl _ s
  | storeWeak w q =>
    simp only [applyAct, actTouched]
    split
    · exact (Calm.upd s { s with wroots := s.wroots.eraseIdx (idxMod s.wroots w) } rfl rfl).trans
        (Calm.modVal _ _ _)
    · exact Calm.badRoot s q
    · exact Calm.refl _ s
  | tryUnwrap r =>
    simp only [applyAct, actTouched]
    split
    · split
      · split
        · rename_i v _ _
          exact (Calm.upd s { s with roots := s.roots.eraseIdx (idxMod s.roots r), vals := s.vals ++ [v] } rfl rfl).trans
            ((Calm.giveUp _ _).trans (Calm.emit _ _ (by simp [retBool, Ev.isTraced])))
        · exact Calm.fail _ _
        · exact Calm.emit _ _ (by simp [retBool, Ev.isTraced])
      · exact Calm.fail _ _
    · exact Calm.badRoot s r
  | dropValue i =>
    simp only [applyAct, actTouched]
    split
    · exact Calm.of_eq rfl rfl
    · exact Calm.refl _ s
  | makeMut r =>
    simp only [applyAct, actTouched]
    split
    · split
      · rename_i o _ ob hc
        split
        · rename_i v hv
          split
          · refine Calm.trans (s' := (if v.shallow then s else s.cloneHandles v).alloc
                (if v.shallow then { v with vid := s.nextVid, held := [], weaks := [] }
                  else { v with vid := s.nextVid })) ?_ ?_
            · cases v.shallow
              · exact (Calm.cloneHandles s v).trans (Calm.alloc _ _)
              · exact Calm.alloc _ _
            · generalize (if v.shallow then s else s.cloneHandles v).alloc
                  (if v.shallow then { v with vid := s.nextVid, held := [], weaks := [] }
                    else { v with vid := s.nextVid }) = s1
              exact (Calm.upd s1 { s1 with roots := s1.roots.set (idxMod s.roots r) s.heap.length, nextVid := s.nextVid + 1 } rfl rfl).trans
                ((Calm.emit _ _ rfl).trans (Calm.push _ _))
          · split
            · exact (Calm.alloc s v).trans
                ((Calm.upd (s.alloc v) { s.alloc v with
                    roots := (s.alloc v).roots.set (idxMod s.roots r) s.heap.length } rfl rfl).trans
                  ((Calm.giveUp _ _).trans (Calm.emit _ _ rfl)))
            · exact Calm.emit _ _ rfl
        · exact Calm.fail _ _
      · exact Calm.fail _ _
    · exact Calm.badRoot s r
  | getMut r =>
    simp only [applyAct, actTouched]
    split
    · split
      · exact Calm.emit _ _ (by simp [retBool, Ev.isTraced])
      · exact Calm.fail _ _
    · exact Calm.badRoot s r
  | intoRaw r =>
    simp only [applyAct, actTouched]
    split
    · exact Calm.of_eq rfl rfl
    · exact Calm.badRoot s r
  | fromRaw i =>
    simp only [applyAct, actTouched]
    split
    · exact Calm.of_eq rfl rfl
    · exact Calm.refl _ s
  | incStrong i =>
    simp only [applyAct, actTouched]
    split
    · split
      · exact (Calm.incStrong s _).trans (Calm.of_eq rfl rfl)
      · exact Calm.fail _ _
    · exact Calm.refl _ s
  | decStrong i =>
    simp only [applyAct, actTouched]
    split
    · split
      · exact Calm.of_eq rfl rfl
      · exact Calm.fail _ _
    · exact Calm.refl _ s
  | ptrEq r1 r2 =>
    simp only [applyAct, actTouched]
    split
    · exact Calm.emit _ _ (by simp [retBool, Ev.isTraced])
    · exact (Calm.badRoot s r1).trans (Calm.badRoot _ r2)
  | counts r =>
    simp only [applyAct, actTouched]
    split
    · split
      · exact (Calm.emit _ _ rfl).trans (Calm.emit _ _ rfl)
      · exact Calm.fail _ _
    · exact Calm.badRoot s r
  | wcounts w =>
    simp only [applyAct, actTouched]
    split
    · split
      · split <;> exact (Calm.emit _ _ rfl).trans (Calm.emit _ _ rfl)
      · exact Calm.fail _ _
    · exact Calm.refl _ s
  | setPanic q =>
    simp only [applyAct, actTouched]
    split
    · exact Calm.modVal s _ _
    · exact Calm.badRoot s q
  | setShallow q =>
    simp only [applyAct, actTouched]
    split
    · exact Calm.modVal s _ _
    · exact Calm.badRoot s q
  | upgradeField k =>
    simp only [applyAct, actTouched]
    split
    · split
      · split
        · exact Calm.emit _ _ (by simp [retBool, Ev.isTraced])
        · exact (Calm.incStrong s _).trans ((Calm.emit _ _ (by simp [retBool, Ev.isTraced])).trans
            (Calm.of_eq rfl rfl))
      · exact Calm.fail _ _
    · exact Calm.refl _ s
  | cloneField k =>
    simp only [applyAct, actTouched]
    split
    · exact (Calm.incStrong s _).trans (Calm.of_eq rfl rfl)
    · exact Calm.refl _ s
  | downgradeField k =>
    simp only [applyAct, actTouched]
    split
    · exact (Calm.incWeak s _).trans (Calm.of_eq rfl rfl)
    · exact Calm.refl _ s

/-- objects whose tables a top-level operation may fill -/
def opTouched (s : State) : Op → List Nat
  | .act a => actTouched s a
  | _ => []

/-- **top-level operations do not trace by themselves** (they only push frames), and fill only the
tables of the objects designated by an `adopt`/`link` -/
theorem applyOp_calm (s : State) (op : Op) : Calm (opTouched s op) s (applyOp s op) := by
  cases op with
  | act a => exact applyAct_calm s [] [] a
  | setScript q acts =>
    simp only [applyOp, opTouched]
    split
    · exact Calm.modVal s _ _
    · exact Calm.badRoot s q
  | shuffle q i =>
    simp only [applyOp, opTouched]
    split
    · refine Calm.setLinks ?_
      cases i <;> rfl
    · exact Calm.badRoot s q

theorem endOp_calm (s : State) : Calm [] s (endOp s) := by
  unfold endOp
  split
  · exact (Calm.upd s { s with unwinding := false } rfl rfl).trans (Calm.emit _ .panicked rfl)
  · exact Calm.refl _ s

/-! ## machine steps -/

/-- objects whose tables the next machine step may fill: those designated by an `adopt`/`link`
action at the head of the running destructor script -/
def stepTouched (s : State) : List Nat :=
  match s.err, s.stack with
  | none, .script _ _ (a :: _) :: _ => actTouched s a
  | _, _ => []

/-- one machine step never makes an empty table non-empty, except for the objects designated by
an `adopt`/`link` action of a destructor script -/
theorem step_tables (s : State) : TKeep (stepTouched s) s (step s) := by
  have hw : ∀ {s' : State}, TKeep [] s s' → TKeep (stepTouched s) s s' :=
    fun h => h.mono (fun _ hx => by cases hx)
  unfold step
  split
  · exact TKeep.refl _ _
  · rename_i herr
    split
    · exact TKeep.refl _ _
    · rename_i f rest hst
      have h0 : Calm [] s { s with stack := rest } := Calm.of_eq rfl rfl
      split
      · exact hw (h0.tables.trans (rcDrop_tables _ _))
      · exact hw (h0.trans (Calm.decWeakFree _ _ false)).tables
      · exact hw (h0.trans (Calm.dropVal _ _)).tables
      · exact hw h0.tables
      · rename_i hh ww a as
        have ht : stepTouched s = actTouched s a := by
          unfold stepTouched; rw [herr, hst]
        have hc := applyAct_calm (({ s with stack := rest } : State).push [.script hh ww as]) hh ww a
        have e : actTouched (({ s with stack := rest } : State).push [.script hh ww as]) a
            = actTouched s a := actTouched_congr rfl rfl a
        rw [e] at hc
        rw [ht]
        exact (TKeep.of_heap rfl).trans hc.tables
      · exact hw (h0.trans (Calm.panic _)).tables
      · exact hw (h0.trans (Calm.dropFields _ _ _)).tables
      · exact hw (h0.trans (Calm.finishSingle _ _)).tables
      · exact hw (h0.trans (Calm.foldl _ Calm.phase3One _ _)).tables

/-- one machine step either appends no `traced` event, or it is the step of a frame `rcDrop o`
that appends exactly `traced o _ _`, and the table of `o` was non-empty before the step -/
theorem step_log_cases (s : State) :
    NoTraceExt s (step s) ∨
      ∃ o v p rest, s.err = none ∧ s.stack = .rcDrop o :: rest ∧
        (step s).log = s.log ++ [Ev.traced o v p] ∧ s.Tabled o := by
  unfold step
  split
  · exact Or.inl (NoTraceExt.refl _)
  · rename_i herr
    split
    · exact Or.inl (NoTraceExt.refl _)
    · rename_i f rest hst
      have h0 : Calm [] s { s with stack := rest } := Calm.of_eq rfl rfl
      split
      · rename_i o
        rcases rcDrop_log_cases ({ s with stack := rest } : State) o with hq | ⟨⟨v, p, hl⟩, ht⟩
        · exact Or.inl hq
        · exact Or.inr ⟨o, v, p, rest, herr, hst, hl, ht.congr rfl⟩
      · exact Or.inl (h0.trans (Calm.decWeakFree _ _ false)).log
      · exact Or.inl (h0.trans (Calm.dropVal _ _)).log
      · exact Or.inl h0.log
      · rename_i hh ww a as
        exact Or.inl (NoTraceExt.trans (NoTraceExt.of_log rfl) (applyAct_calm _ hh ww a).log)
      · exact Or.inl (h0.trans (Calm.panic _)).log
      · exact Or.inl (h0.trans (Calm.dropFields _ _ _)).log
      · exact Or.inl (h0.trans (Calm.finishSingle _ _)).log
      · exact Or.inl (h0.trans (Calm.foldl _ Calm.phase3One _ _)).log

/-- **Every trace has a cause** (no hypothesis on `s`): the log of `step s` is the log of `s`
followed by new events, and every `traced o _ _` among the new events is rooted at an object `o`
whose link table was non-empty in `s`. -/
theorem trace_has_cause_step (s : State) :
    ∃ new, (step s).log = s.log ++ new ∧
      ∀ o v p, Ev.traced o v p ∈ new →
        ∃ ob t, s.cell o = some ob ∧ ob.links = some t ∧ t ≠ [] := by
  rcases step_log_cases s with ⟨new, hl, hq⟩ | ⟨o, v, p, rest, _, _, hl, ht⟩
  · refine ⟨new, hl, ?_⟩
    intro o v p hm
    have := hq _ hm
    simp at this
  · refine ⟨[Ev.traced o v p], hl, ?_⟩
    intro o' v' p' hm
    simp only [List.mem_cons, List.not_mem_nil, or_false] at hm
    cases hm
    exact ht

/-- the same for a top-level action: the new events contain no `traced` event at all -/
theorem trace_has_cause_applyAct (s : State) (fh fw : List Nat) (a : Act) :
    ∃ new, (applyAct s fh fw a).log = s.log ++ new ∧ ∀ o v p, Ev.traced o v p ∉ new := by
  obtain ⟨new, hl, hq⟩ := (applyAct_calm s fh fw a).log
  refine ⟨new, hl, ?_⟩
  intro o v p hm
  have := hq _ hm
  simp at this

/-- the same for a top-level operation -/
theorem trace_has_cause_applyOp (s : State) (op : Op) :
    ∃ new, (applyOp s op).log = s.log ++ new ∧ ∀ o v p, Ev.traced o v p ∉ new := by
  obtain ⟨new, hl, hq⟩ := (applyOp_calm s op).log
  refine ⟨new, hl, ?_⟩
  intro o v p hm
  have := hq _ hm
  simp at this

end Cactus
