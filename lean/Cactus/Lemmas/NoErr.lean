import Cactus.Lemmas.Final
/-!
# No library error in contract-respecting executions

`State.okErr`: the sticky error field is empty, or the machine ran out of fuel, or the process
aborted (`inc_strong`/`inc_weak` overflow guards, double panic).  In every state of every
contract-respecting execution (`ReachableP`) this holds: the library never touches released or
moved-out memory (`uaf`, `movedLinks`, `movedValue`, `doubleFree`, `underflow`, `corrupt`) and the
program never uses a dangling handle (`dangling`).
-/
namespace Cactus
open State

/-- the only errors a contract-respecting execution can end with -/
def State.okErr (s : State) : Prop := s.err = none ∨ s.err = some .fuel ∨ s.err = some .abort

namespace State

theorem okErr_of_none {s : State} (h : s.err = none) : s.okErr := Or.inl h

theorem okErr_of_err_eq {s s' : State} (h : s'.err = s.err) (hs : s.okErr) : s'.okErr := by
  unfold okErr; rw [h]; exact hs

theorem okErr_fail_abort {s : State} (h : s.okErr) : (s.fail .abort).okErr := by
  cases he : s.err with
  | none => exact Or.inr (Or.inr (fail_err_of_none s _ he))
  | some e => exact okErr_of_err_eq (fail_err_of_some s _ e he |>.trans he.symm) h

theorem okErr_fail_fuel {s : State} (h : s.okErr) : (s.fail .fuel).okErr := by
  cases he : s.err with
  | none => exact Or.inr (Or.inl (fail_err_of_none s _ he))
  | some e => exact okErr_of_err_eq (fail_err_of_some s _ e he |>.trans he.symm) h

/-! ## what the invariants say about handles -/

/-- a state without error in which all invariants hold -/
structure Safe (s : State) : Prop where
  err : s.err = none
  core : s.InvCore
  rng : s.InvR
  safe : s.InvSCore

namespace Safe
variable {s : State}

theorem invO (h : s.Safe) : s.InvO := h.core.1
theorem invB (h : s.Safe) : s.InvB := h.core.2.1
theorem invC (h : s.Safe) : s.InvC := h.core.2.2.1
theorem invW (h : s.Safe) : s.InvW := h.core.2.2.2.1
theorem invK (h : s.Safe) : s.InvK := h.core.2.2.2.2

theorem live_of_ext (h : s.Safe) {o : Nat} (hp : 0 < s.ext o + s.inHeap o) : s.isLive o = true :=
  h.safe.1 o hp

theorem live_of_root (h : s.Safe) {r o : Nat} (hr : nthMod s.roots r = some o) : s.isLive o = true :=
  h.live_of_ext (by have := ext_pos_of_mem_roots (mem_of_nthMod hr); omega)

theorem live_of_raw (h : s.Safe) {r o : Nat} (hr : nthMod s.raws r = some o) : s.isLive o = true :=
  h.live_of_ext (by have := ext_pos_of_mem_raws (mem_of_nthMod hr); omega)

theorem useRoot_eq (h : s.Safe) (r : Nat) : s.useRoot r = nthMod s.roots r := by
  unfold useRoot
  cases hr : nthMod s.roots r with
  | none => rfl
  | some o => simp [h.live_of_root hr]

theorem badRoot_eq (h : s.Safe) (r : Nat) : s.badRoot r = s := by
  unfold badRoot
  cases hr : nthMod s.roots r with
  | none => rfl
  | some o => simp [h.live_of_root hr]

/-- a live object: readable cell, positive counts, value and table present -/
theorem live_obj (h : s.Safe) {o : Nat} (hl : s.isLive o = true) :
    ∃ ob n v t, s.cell o = some ob ∧ ob.strong = .cnt (n + 1) ∧ ob.value = some v ∧ ob.links = some t
      ∧ ob.weak ≠ 0 := by
  obtain ⟨ob, n, hc, hs⟩ := (isLive_iff_cell s o).mp hl
  obtain ⟨c1, -, -, c4⟩ := h.invO o ob (get_of_cell hc)
  obtain ⟨hv, hlk, hf, -⟩ := c1 n hs
  obtain ⟨v, hv⟩ := Option.isSome_iff_exists.1 hv
  obtain ⟨t, ht⟩ := Option.isSome_iff_exists.1 hlk
  refine ⟨ob, n, v, t, hc, hs, hv, ht, fun h0 => ?_⟩
  have := c4.mpr h0
  rw [hf] at this; cases this

theorem valOf_of_live (h : s.Safe) {o : Nat} (hl : s.isLive o = true) : (s.valOf o).isSome = true := by
  obtain ⟨ob, n, v, t, hc, -, hv, -, -⟩ := h.live_obj hl
  rw [valOf_of_cell hc, hv]; rfl

theorem tableOf_of_live (h : s.Safe) {o : Nat} (hl : s.isLive o = true) : (s.tableOf o).isSome = true := by
  obtain ⟨t, ht⟩ := live_tableOf h.invO hl
  rw [ht]; rfl

/-- the target of a Weak handle (owned by the program, a stored value or a pending frame) has not
been released: its cell is readable and its weak count is positive -/
theorem weak_cell (h : s.Safe) {o : Nat} (hp : 0 < s.extW o + s.inHeapW o + s.pendW o) :
    ∃ ob, s.cell o = some ob ∧ ob.weak ≠ 0 := by
  have hlt : o < s.heap.length := by
    apply Classical.byContradiction
    intro hge
    have := (h.rng o (by omega)).2
    omega
  obtain ⟨ob, hg⟩ : ∃ ob, s.heap[o]? = some ob := ⟨s.heap[o], List.getElem?_eq_getElem hlt⟩
  have hw := h.invW o hlt
  rw [weakNat_of_get hg] at hw
  have hne : ob.weak ≠ 0 := by omega
  have hfz := (h.invO o ob hg).2.2.2
  have hf : ob.freed = false := by
    cases hf : ob.freed with
    | false => rfl
    | true => exact absurd (hfz.mp hf) hne
  exact ⟨ob, cell_of_not_freed hg hf, hne⟩

theorem weak_cell_of_wroot (h : s.Safe) {w o : Nat} (hw : nthMod s.wroots w = some o) :
    ∃ ob, s.cell o = some ob ∧ ob.weak ≠ 0 :=
  h.weak_cell (by have := extW_pos_of_mem_wroots (mem_of_nthMod hw); omega)

/-- the target of a strong handle owned by a pending frame has not been released -/
theorem cell_of_pend (h : s.Safe) {o : Nat} (hp : 0 < s.pend o) : ∃ ob, s.cell o = some ob ∧ ob.weak ≠ 0 := by
  cases hl : s.isLive o with
  | true =>
    obtain ⟨ob, _, _, _, hc, -, -, -, hw⟩ := h.live_obj hl
    exact ⟨ob, hc, hw⟩
  | false =>
    obtain ⟨ob, hg, -, -, himp⟩ := h.safe.2.1 o hp hl
    have hlt := State.get_lt hg
    have hw := h.invW o hlt
    rw [weakNat_of_get hg, implicitNat_of_get hg, himp] at hw
    have hne : ob.weak ≠ 0 := by simp at hw; omega
    have hfz := (h.invO o ob hg).2.2.2
    have hf : ob.freed = false := by
      cases hf : ob.freed with
      | false => rfl
      | true => exact absurd (hfz.mp hf) hne
    exact ⟨ob, cell_of_not_freed hg hf, hne⟩

/-- a handle stored in the value of a readable object targets a live object -/
theorem live_of_held (h : s.Safe) {o t : Nat} {v : Val} (hv : s.valOf o = some v) (ht : t ∈ v.held) :
    s.isLive t = true := by
  apply h.live_of_ext
  obtain ⟨ob, hc, hval⟩ := (valOf_eq_some_iff s o v).mp hv
  have h1 : 0 < s.H o t := by
    rw [H_of_get (get_of_cell hc), Obj.heldList_of_some hval]
    exact (count_pos_iff_mem v.held t).mpr ht
  have := H_le_inHeap s o t
  omega

end Safe

/-! ## helper facts about the primitives -/

theorem cell_isSome_incStrong (s : State) (o x : Nat) :
    ((s.incStrong o).cell x).isSome = (s.cell x).isSome := by
  rcases incStrong_cases s o with ⟨e, he⟩ | ⟨ob, n, hc, hs, he⟩ <;> rw [he]
  · simp
  · by_cases hx : x = o
    · subst hx
      rw [cell_setObj_same' _ (cell_some_lt s x ob hc), hc]
      simp [freed_of_cell hc]
    · rw [cell_setObj_other' s _ hx]

theorem cell_isSome_incWeak (s : State) (o x : Nat) :
    ((s.incWeak o).cell x).isSome = (s.cell x).isSome := by
  rcases incWeak_cases s o with ⟨e, he⟩ | ⟨ob, hc, hw, he⟩ <;> rw [he]
  · simp
  · by_cases hx : x = o
    · subst hx
      rw [cell_setObj_same' _ (cell_some_lt s x ob hc), hc]
      simp [freed_of_cell hc]
    · rw [cell_setObj_other' s _ hx]

/-- `inc_strong` on a readable cell can only abort -/
theorem okErr_incStrong {s : State} {o : Nat} (h : s.okErr) (hc : (s.cell o).isSome = true) :
    (s.incStrong o).okErr := by
  unfold incStrong
  cases hc' : s.cell o with
  | none => simp [hc'] at hc
  | some ob =>
    dsimp only
    split
    · exact okErr_of_err_eq rfl h
    · exact okErr_fail_abort h

/-- `inc_weak` on a readable cell can only abort -/
theorem okErr_incWeak {s : State} {o : Nat} (h : s.okErr) (hc : (s.cell o).isSome = true) :
    (s.incWeak o).okErr := by
  unfold incWeak
  cases hc' : s.cell o with
  | none => simp [hc'] at hc
  | some ob =>
    dsimp only
    split
    · exact okErr_fail_abort h
    · exact okErr_of_err_eq rfl h

theorem okErr_foldl_incStrong (l : List Nat) : ∀ (s : State), s.okErr →
    (∀ o ∈ l, (s.cell o).isSome = true) →
    (l.foldl incStrong s).okErr ∧ ∀ x, ((l.foldl incStrong s).cell x).isSome = (s.cell x).isSome := by
  induction l with
  | nil => intro s h _; exact ⟨h, fun _ => rfl⟩
  | cons a l ih =>
    intro s h hr
    rw [List.foldl_cons]
    obtain ⟨h1, h2⟩ := ih (s.incStrong a) (okErr_incStrong h (hr a List.mem_cons_self))
      (fun o ho => by rw [cell_isSome_incStrong]; exact hr o (List.mem_cons_of_mem _ ho))
    exact ⟨h1, fun x => by rw [h2, cell_isSome_incStrong]⟩

theorem okErr_foldl_incWeak (l : List Nat) : ∀ (s : State), s.okErr →
    (∀ o ∈ l, (s.cell o).isSome = true) → (l.foldl incWeak s).okErr := by
  induction l with
  | nil => intro s h _; exact h
  | cons a l ih =>
    intro s h hr
    rw [List.foldl_cons]
    exact ih (s.incWeak a) (okErr_incWeak h (hr a List.mem_cons_self))
      (fun o ho => by rw [cell_isSome_incWeak]; exact hr o (List.mem_cons_of_mem _ ho))

/-- `Clone for Node` on readable cells can only abort -/
theorem okErr_cloneHandles {s : State} {v : Val} (h : s.okErr)
    (hh : ∀ o ∈ v.held, (s.cell o).isSome = true) (hw : ∀ o ∈ v.weaks, (s.cell o).isSome = true) :
    (s.cloneHandles v).okErr := by
  unfold cloneHandles
  obtain ⟨h1, h2⟩ := okErr_foldl_incStrong v.held s h hh
  exact okErr_foldl_incWeak v.weaks _ h1 (fun o ho => by rw [h2]; exact hw o ho)

/-- giving up a live allocation cannot fail -/
theorem giveUp_err_of_live {s : State} {o : Nat} (herr : s.err = none) (hO : s.InvO) (hB : s.InvB)
    (hl : s.isLive o = true) : (s.giveUp o).err = none := by
  obtain ⟨ob, n, hc, hs⟩ := (isLive_iff_cell s o).mp hl
  have hg := get_of_cell hc
  have hfr := freed_of_cell hc
  obtain ⟨t, ht⟩ := live_tableOf hO hl
  obtain ⟨e1, -, -, hLO⟩ := purgePeers_of_InvB (s1 := s) hO hB hl (fun _ => rfl) ht herr
  obtain ⟨ob2, hg2, q⟩ := hLO.obj o ob hg
  have hf2 : ob2.freed = false := q.2.2.2.1.trans hfr
  have hw : ob.weak ≠ 0 := by
    intro h0
    have := ((hO o ob hg).2.2.2).mpr h0
    rw [hfr] at this; cases this
  have hw2 : ob2.weak ≠ 0 := by rw [q.2.1]; exact hw
  have hc2 : (s.purgePeers o).cell o = some ob2 := cell_of_not_freed hg2 hf2
  have hlt : o < (s.purgePeers o).heap.length := get_lt hg2
  unfold giveUp
  simp only [hc2]
  rw [decWeakFree_err (ob := { ob2 with strong := .cnt 0, value := none, links := none }) true
    (by rw [cell_setObj_same' _ hlt]; simp [hf2]) hw2]
  exact e1

end State

/-! ## the actions -/

section acts
variable {s : State} (h : s.Safe) (fh fw : List Nat)
include h

theorem applyAct_noerr_new : (applyAct s fh fw .new).err = none := h.err

theorem applyAct_noerr_clone (r : Nat) : (applyAct s fh fw (.clone r)).err = none := by
  simp only [applyAct, h.useRoot_eq, h.badRoot_eq]
  cases hr : nthMod s.roots r with
  | none => exact h.err
  | some o =>
    show (s.incStrong o).err = none
    rw [incStrong_err_of_isLive (h.live_of_root hr)]; exact h.err

theorem applyAct_noerr_drop (r : Nat) : (applyAct s fh fw (.drop r)).err = none := by
  simp only [applyAct, h.useRoot_eq, h.badRoot_eq]
  cases hr : nthMod s.roots r with
  | none => exact h.err
  | some o => exact h.err

theorem applyAct_noerr_adopt (r1 r2 : Nat) : (applyAct s fh fw (.adopt r1 r2)).err = none := by
  simp only [applyAct, h.useRoot_eq, h.badRoot_eq]
  cases h1 : nthMod s.roots r1 with
  | none => exact h.err
  | some a =>
    cases h2 : nthMod s.roots r2 with
    | none => exact h.err
    | some b =>
      exact (adopt_err_eq_none_iff _ _ _ _).mpr ⟨h.err, h.tableOf_of_live (h.live_of_root h1),
        Or.inr (h.tableOf_of_live (h.live_of_root h2))⟩

theorem applyAct_noerr_unadopt (r1 r2 : Nat) : (applyAct s fh fw (.unadopt r1 r2)).err = none := by
  simp only [applyAct, h.useRoot_eq, h.badRoot_eq]
  cases h1 : nthMod s.roots r1 with
  | none => exact h.err
  | some a =>
    cases h2 : nthMod s.roots r2 with
    | none => exact h.err
    | some b =>
      exact (unadopt_err_eq_none_iff _ _ _ _).mpr ⟨h.err, h.tableOf_of_live (h.live_of_root h1),
        Or.inr (h.tableOf_of_live (h.live_of_root h2))⟩

theorem applyAct_noerr_store (r q : Nat) : (applyAct s fh fw (.store r q)).err = none := by
  simp only [applyAct, h.useRoot_eq, h.badRoot_eq]
  cases h1 : nthMod s.roots r with
  | none => exact h.err
  | some t =>
    cases h2 : nthMod s.roots q with
    | none => exact h.err
    | some o =>
      dsimp only
      split
      · exact h.err
      · exact (modVal_err_eq_none_iff _ _ _).mpr ⟨h.err, h.valOf_of_live (h.live_of_root h2)⟩

theorem applyAct_noerr_take (q k : Nat) : (applyAct s fh fw (.take q k)).err = none := by
  simp only [applyAct, h.useRoot_eq, h.badRoot_eq]
  cases h1 : nthMod s.roots q with
  | none => exact h.err
  | some o =>
    dsimp only
    have hv := h.valOf_of_live (h.live_of_root h1)
    cases hv' : s.valOf o with
    | none => rw [hv'] at hv; cases hv
    | some v =>
      dsimp only
      cases hk : nthMod v.held k with
      | none => exact h.err
      | some t =>
        show (s.modVal o _).err = none
        rw [modVal_err _ hv']; exact h.err

theorem applyAct_noerr_link (r q : Nat) : (applyAct s fh fw (.link r q)).err = none := by
  simp only [applyAct, h.useRoot_eq, h.badRoot_eq]
  cases h1 : nthMod s.roots r with
  | none => exact h.err
  | some t =>
    cases h2 : nthMod s.roots q with
    | none => exact h.err
    | some o =>
      dsimp only
      split
      · exact h.err
      · have ht := h.live_of_root h1
        have ho := h.live_of_root h2
        have e1 : (s.adopt o t false).err = none :=
          (adopt_err_eq_none_iff _ _ _ _).mpr ⟨h.err, h.tableOf_of_live ho, Or.inr (h.tableOf_of_live ht)⟩
        have hI' := h.core.adopt ho ht false
        obtain ⟨v, hv⟩ := State.valOf_of_live hI'.1 (o := o) (by simpa using ho)
        refine (modVal_err_eq_none_iff _ _ _).mpr ⟨e1, ?_⟩
        show ((s.adopt o t false).valOf o).isSome = true
        rw [hv]; rfl

theorem applyAct_noerr_unlink (q k : Nat) : (applyAct s fh fw (.unlink q k)).err = none := by
  simp only [applyAct, h.useRoot_eq, h.badRoot_eq]
  cases h1 : nthMod s.roots q with
  | none => exact h.err
  | some o =>
    dsimp only
    have ho := h.live_of_root h1
    have hv := h.valOf_of_live ho
    cases hv' : s.valOf o with
    | none => rw [hv'] at hv; cases hv
    | some v =>
      dsimp only
      cases hk : nthMod v.held k with
      | none => exact h.err
      | some t =>
        dsimp only
        have ht := h.live_of_held hv' (mem_of_nthMod hk)
        rw [isLive_modVal, ht]
        simp only [if_true]
        refine (unadopt_err_eq_none_iff _ _ _ _).mpr ⟨?_, ?_, Or.inr ?_⟩
        · rw [modVal_err _ hv']; exact h.err
        · rw [tableOf_modVal]; exact h.tableOf_of_live ho
        · rw [tableOf_modVal]; exact h.tableOf_of_live ht

theorem applyAct_noerr_downgrade (r : Nat) : (applyAct s fh fw (.downgrade r)).err = none := by
  simp only [applyAct, h.useRoot_eq, h.badRoot_eq]
  cases hr : nthMod s.roots r with
  | none => exact h.err
  | some o =>
    obtain ⟨ob, _, _, _, hc, -, -, -, hw⟩ := h.live_obj (h.live_of_root hr)
    show (s.incWeak o).err = none
    rw [incWeak_err hc hw]; exact h.err

theorem applyAct_noerr_upgrade (w : Nat) : (applyAct s fh fw (.upgrade w)).err = none := by
  simp only [applyAct]
  cases hr : nthMod s.wroots w with
  | none => exact h.err
  | some o =>
    obtain ⟨ob, hc, -⟩ := h.weak_cell_of_wroot hr
    simp only [hc]
    split
    · exact h.err
    · rename_i hd
      show (s.incStrong o).err = none
      rw [incStrong_err_of_isLive (by rw [isLive_of_cell hc]; simpa using hd)]; exact h.err

theorem applyAct_noerr_cloneWeak (w : Nat) : (applyAct s fh fw (.cloneWeak w)).err = none := by
  simp only [applyAct]
  cases hr : nthMod s.wroots w with
  | none => exact h.err
  | some o =>
    obtain ⟨ob, hc, hw⟩ := h.weak_cell_of_wroot hr
    show (s.incWeak o).err = none
    rw [incWeak_err hc hw]; exact h.err

theorem applyAct_noerr_dropWeak (w : Nat) : (applyAct s fh fw (.dropWeak w)).err = none := by
  simp only [applyAct]
  cases hr : nthMod s.wroots w with
  | none => exact h.err
  | some o => exact h.err

theorem applyAct_noerr_storeWeak (w q : Nat) : (applyAct s fh fw (.storeWeak w q)).err = none := by
  simp only [applyAct, h.useRoot_eq, h.badRoot_eq]
  cases hr : nthMod s.wroots w with
  | none => exact h.err
  | some t =>
    cases h2 : nthMod s.roots q with
    | none => exact h.err
    | some o =>
      exact (modVal_err_eq_none_iff _ _ _).mpr ⟨h.err, h.valOf_of_live (h.live_of_root h2)⟩

theorem applyAct_noerr_tryUnwrap (r : Nat) : (applyAct s fh fw (.tryUnwrap r)).err = none := by
  simp only [applyAct, h.useRoot_eq, h.badRoot_eq]
  cases hr : nthMod s.roots r with
  | none => exact h.err
  | some o =>
    have ho := h.live_of_root hr
    obtain ⟨ob, n, v, t, hc, hs, hv, -, -⟩ := h.live_obj ho
    simp only [hc]
    split
    · rename_i v' hs' hv'
      rw [emit_err]
      exact giveUp_err_of_live (s := { s with roots := s.roots.eraseIdx (idxMod s.roots r), vals := s.vals ++ [v'] })
        h.err (InvO_of_heap_eq rfl h.invO) (InvB_of_heap_eq rfl h.invB) ho
    · rename_i hs' hv'
      rw [hv] at hv'; cases hv'
    · exact h.err

theorem applyAct_noerr_dropValue (i : Nat) : (applyAct s fh fw (.dropValue i)).err = none := by
  simp only [applyAct]
  cases hr : nthMod s.vals i with
  | none => exact h.err
  | some o => exact h.err

theorem applyAct_okErr_makeMut (r : Nat) : (applyAct s fh fw (.makeMut r)).okErr := by
  simp only [applyAct, h.useRoot_eq, h.badRoot_eq]
  cases hr : nthMod s.roots r with
  | none => exact okErr_of_none h.err
  | some o =>
    have ho := h.live_of_root hr
    obtain ⟨ob, n, v, t, hc, hs, hv, -, -⟩ := h.live_obj ho
    have hval : s.valOf o = some v := by rw [valOf_of_cell hc, hv]
    simp only [hc, hv]
    split
    · by_cases hsh : v.shallow = true
      · -- a shallow `Clone` copies no handle: no counter is touched
        simp only [hsh, if_true]
        exact okErr_of_err_eq (s := s) rfl (okErr_of_none h.err)
      simp only [hsh]
      refine okErr_of_err_eq (s := s.cloneHandles v) rfl ?_
      refine okErr_cloneHandles (okErr_of_none h.err) ?_ ?_
      · intro x hx
        exact isLive_cell_isSome (h.live_of_held hval hx)
      · intro x hx
        have hlt : o < s.heap.length := get_lt (get_of_cell hc)
        have h1 : 0 < s.inHeapW x :=
          (inHeapW_pos_iff s x).mpr ⟨o, hlt, by rw [weaksOf_of_valOf hval]; exact hx⟩
        obtain ⟨obx, hcx, -⟩ := h.weak_cell (o := x) (by omega)
        rw [hcx]; rfl
    · split
      · apply okErr_of_none
        rw [emit_err]
        obtain ⟨hO1, hB1, -⟩ := InvOBK_alloc (s := s)
          (s' := { s.alloc v with roots := (s.alloc v).roots.set (idxMod s.roots r) s.heap.length })
          (v := v) h.invO h.invB h.invK rfl (fun _ hm => hm) (fun _ hm => hm) (fun _ => rfl)
        exact giveUp_err_of_live h.err hO1 hB1 (isLive_alloc_of_isLive v ho)
      · exact okErr_of_none h.err

theorem applyAct_noerr_getMut (r : Nat) : (applyAct s fh fw (.getMut r)).err = none := by
  simp only [applyAct, h.useRoot_eq, h.badRoot_eq]
  cases hr : nthMod s.roots r with
  | none => exact h.err
  | some o =>
    obtain ⟨ob, _, _, _, hc, -⟩ := h.live_obj (h.live_of_root hr)
    simp only [hc]
    exact h.err

theorem applyAct_noerr_intoRaw (r : Nat) : (applyAct s fh fw (.intoRaw r)).err = none := by
  simp only [applyAct, h.useRoot_eq, h.badRoot_eq]
  cases hr : nthMod s.roots r with
  | none => exact h.err
  | some o => exact h.err

theorem applyAct_noerr_fromRaw (i : Nat) : (applyAct s fh fw (.fromRaw i)).err = none := by
  simp only [applyAct]
  cases hr : nthMod s.raws i with
  | none => exact h.err
  | some o => exact h.err

theorem applyAct_noerr_incStrong (i : Nat) : (applyAct s fh fw (.incStrong i)).err = none := by
  simp only [applyAct]
  cases hr : nthMod s.raws i with
  | none => exact h.err
  | some o =>
    have ho := h.live_of_raw hr
    simp only [ho, if_true]
    show (s.incStrong o).err = none
    rw [incStrong_err_of_isLive ho]; exact h.err

theorem applyAct_noerr_decStrong (i : Nat) : (applyAct s fh fw (.decStrong i)).err = none := by
  simp only [applyAct]
  cases hr : nthMod s.raws i with
  | none => exact h.err
  | some o =>
    have ho := h.live_of_raw hr
    simp only [ho, if_true]
    exact h.err

theorem applyAct_noerr_ptrEq (r1 r2 : Nat) : (applyAct s fh fw (.ptrEq r1 r2)).err = none := by
  simp only [applyAct, h.useRoot_eq, h.badRoot_eq]
  cases h1 : nthMod s.roots r1 with
  | none => exact h.err
  | some a =>
    cases h2 : nthMod s.roots r2 with
    | none => exact h.err
    | some b => exact h.err

theorem applyAct_noerr_counts (r : Nat) : (applyAct s fh fw (.counts r)).err = none := by
  simp only [applyAct, h.useRoot_eq, h.badRoot_eq]
  cases hr : nthMod s.roots r with
  | none => exact h.err
  | some o =>
    obtain ⟨ob, _, _, _, hc, -⟩ := h.live_obj (h.live_of_root hr)
    simp only [hc]
    exact h.err

theorem applyAct_noerr_wcounts (w : Nat) : (applyAct s fh fw (.wcounts w)).err = none := by
  simp only [applyAct]
  cases hr : nthMod s.wroots w with
  | none => exact h.err
  | some o =>
    obtain ⟨ob, hc, -⟩ := h.weak_cell_of_wroot hr
    simp only [hc]
    split <;> exact h.err

theorem applyAct_noerr_setPanic (q : Nat) : (applyAct s fh fw (.setPanic q)).err = none := by
  simp only [applyAct, h.useRoot_eq, h.badRoot_eq]
  cases hr : nthMod s.roots q with
  | none => exact h.err
  | some o =>
    exact (modVal_err_eq_none_iff _ _ _).mpr ⟨h.err, h.valOf_of_live (h.live_of_root hr)⟩

theorem applyAct_noerr_setShallow (q : Nat) : (applyAct s fh fw (.setShallow q)).err = none := by
  simp only [applyAct, h.useRoot_eq, h.badRoot_eq]
  cases hr : nthMod s.roots q with
  | none => exact h.err
  | some o =>
    exact (modVal_err_eq_none_iff _ _ _).mpr ⟨h.err, h.valOf_of_live (h.live_of_root hr)⟩

theorem applyAct_noerr_upgradeField (k : Nat) (hw : ∀ o ∈ fw, (s.cell o).isSome = true) :
    (applyAct s fh fw (.upgradeField k)).err = none := by
  simp only [applyAct]
  cases hr : nthMod fw k with
  | none => exact h.err
  | some o =>
    obtain ⟨ob, hc⟩ := Option.isSome_iff_exists.1 (hw o (mem_of_nthMod hr))
    simp only [hc]
    split
    · exact h.err
    · rename_i hd
      show (s.incStrong o).err = none
      rw [incStrong_err_of_isLive (by rw [isLive_of_cell hc]; simpa using hd)]; exact h.err

theorem applyAct_okErr_cloneField (k : Nat) (hf : ∀ o ∈ fh, (s.cell o).isSome = true) :
    (applyAct s fh fw (.cloneField k)).okErr := by
  simp only [applyAct]
  cases hr : nthMod fh k with
  | none => exact okErr_of_none h.err
  | some o =>
    exact okErr_of_err_eq (s := s.incStrong o) rfl
      (okErr_incStrong (okErr_of_none h.err) (hf o (mem_of_nthMod hr)))

theorem applyAct_okErr_downgradeField (k : Nat) (hf : ∀ o ∈ fh, (s.cell o).isSome = true) :
    (applyAct s fh fw (.downgradeField k)).okErr := by
  simp only [applyAct]
  cases hr : nthMod fh k with
  | none => exact okErr_of_none h.err
  | some o =>
    exact okErr_of_err_eq (s := s.incWeak o) rfl
      (okErr_incWeak (okErr_of_none h.err) (hf o (mem_of_nthMod hr)))

end acts

/-- **no action reports a library error or uses a dangling handle** (it may abort); `fh`/`fw` are
the fields of the value whose destructor is running -/
theorem applyAct_okErr (s : State) (fh fw : List Nat) (a : Act) (hI : s.Inv) (hR : s.InvR)
    (hS : s.InvS) (he : s.err = none)
    (hf : ∀ o ∈ fh, (s.cell o).isSome = true) (hw : ∀ o ∈ fw, (s.cell o).isSome = true) :
    (applyAct s fh fw a).okErr := by
  have h : s.Safe := ⟨he, hI he, hR, hS he⟩
  cases a with
  | new => exact okErr_of_none (applyAct_noerr_new h fh fw)
  | clone r => exact okErr_of_none (applyAct_noerr_clone h fh fw r)
  | drop r => exact okErr_of_none (applyAct_noerr_drop h fh fw r)
  | adopt r1 r2 => exact okErr_of_none (applyAct_noerr_adopt h fh fw r1 r2)
  | unadopt r1 r2 => exact okErr_of_none (applyAct_noerr_unadopt h fh fw r1 r2)
  | store r q => exact okErr_of_none (applyAct_noerr_store h fh fw r q)
  | take q k => exact okErr_of_none (applyAct_noerr_take h fh fw q k)
  | link r q => exact okErr_of_none (applyAct_noerr_link h fh fw r q)
  | unlink q k => exact okErr_of_none (applyAct_noerr_unlink h fh fw q k)
  | downgrade r => exact okErr_of_none (applyAct_noerr_downgrade h fh fw r)
  | upgrade w => exact okErr_of_none (applyAct_noerr_upgrade h fh fw w)
  | cloneWeak w => exact okErr_of_none (applyAct_noerr_cloneWeak h fh fw w)
  | dropWeak w => exact okErr_of_none (applyAct_noerr_dropWeak h fh fw w)
  | storeWeak w q => exact okErr_of_none (applyAct_noerr_storeWeak h fh fw w q)
  | tryUnwrap r => exact okErr_of_none (applyAct_noerr_tryUnwrap h fh fw r)
  | dropValue i => exact okErr_of_none (applyAct_noerr_dropValue h fh fw i)
  | makeMut r => exact applyAct_okErr_makeMut h fh fw r
  | getMut r => exact okErr_of_none (applyAct_noerr_getMut h fh fw r)
  | intoRaw r => exact okErr_of_none (applyAct_noerr_intoRaw h fh fw r)
  | fromRaw i => exact okErr_of_none (applyAct_noerr_fromRaw h fh fw i)
  | incStrong i => exact okErr_of_none (applyAct_noerr_incStrong h fh fw i)
  | decStrong i => exact okErr_of_none (applyAct_noerr_decStrong h fh fw i)
  | ptrEq r1 r2 => exact okErr_of_none (applyAct_noerr_ptrEq h fh fw r1 r2)
  | counts r => exact okErr_of_none (applyAct_noerr_counts h fh fw r)
  | wcounts w => exact okErr_of_none (applyAct_noerr_wcounts h fh fw w)
  | setPanic q => exact okErr_of_none (applyAct_noerr_setPanic h fh fw q)
  | setShallow q => exact okErr_of_none (applyAct_noerr_setShallow h fh fw q)
  | upgradeField k => exact okErr_of_none (applyAct_noerr_upgradeField h fh fw k hw)
  | cloneField k => exact applyAct_okErr_cloneField h fh fw k hf
  | downgradeField k => exact applyAct_okErr_downgradeField h fh fw k hf

/-- a top-level operation never reports a library error or uses a dangling handle -/
theorem applyOp_okErr (s : State) (op : Op) (hI : s.Inv) (hR : s.InvR) (hS : s.InvS)
    (he : s.err = none) : (applyOp s op).okErr := by
  have h : s.Safe := ⟨he, hI he, hR, hS he⟩
  cases op with
  | act a => exact applyAct_okErr s [] [] a hI hR hS he (fun _ hm => by cases hm) (fun _ hm => by cases hm)
  | setScript q acts =>
    apply okErr_of_none
    simp only [applyOp, h.useRoot_eq, h.badRoot_eq]
    cases hr : nthMod s.roots q with
    | none => exact h.err
    | some o =>
      exact (modVal_err_eq_none_iff _ _ _).mpr ⟨h.err, h.valOf_of_live (h.live_of_root hr)⟩
  | shuffle q i =>
    apply okErr_of_none
    simp only [applyOp, h.useRoot_eq, h.badRoot_eq]
    cases hr : nthMod s.roots q with
    | none => exact h.err
    | some o =>
      exact (setLinks_err_eq_none_iff _ _ _).mpr ⟨h.err, h.tableOf_of_live (h.live_of_root hr)⟩

/-! ## `ScriptOK`: a running destructor body sits above the drop glue of its own fields -/

def Frame.isScript : Frame → Bool
  | .script _ _ _ => true
  | _ => false

/-- for every `script h w acts` frame, the frames *below* it own a strong handle to every element
of `h` and a Weak handle to every element of `w` (they are the fields of the value being
destroyed; `dropVal v` pushes the body right above `dropFields v.held v.weaks`) -/
def scriptOK : List Frame → Prop
  | [] => True
  | .script h w _ :: rest =>
    (∀ o ∈ h, 0 < State.sumList (rest.map (Frame.strongTo o)))
    ∧ (∀ o ∈ w, 0 < State.sumList (rest.map (Frame.weakTo o)))
    ∧ scriptOK rest
  | .rcDrop _ :: rest => scriptOK rest
  | .weakDrop _ :: rest => scriptOK rest
  | .dropVal _ :: rest => scriptOK rest
  | .panic :: rest => scriptOK rest
  | .dropFields _ _ :: rest => scriptOK rest
  | .finishSingle _ :: rest => scriptOK rest
  | .phase3 _ :: rest => scriptOK rest

def State.ScriptOK (s : State) : Prop := scriptOK s.stack

theorem scriptOK_cons_of_not_script {f : Frame} (hf : f.isScript = false) (rest : List Frame) :
    scriptOK (f :: rest) ↔ scriptOK rest := by
  cases f <;> first | rfl | (simp [Frame.isScript] at hf)

theorem scriptOK_tail {f : Frame} {rest : List Frame} (h : scriptOK (f :: rest)) : scriptOK rest := by
  cases f <;> first | exact h | exact h.2.2

theorem scriptOK_append (fs rest : List Frame) (hfs : ∀ f ∈ fs, f.isScript = false) :
    scriptOK (fs ++ rest) ↔ scriptOK rest := by
  induction fs with
  | nil => rfl
  | cons f fs ih =>
    rw [List.cons_append, scriptOK_cons_of_not_script (hfs f List.mem_cons_self)]
    exact ih (fun g hg => hfs g (List.mem_cons_of_mem _ hg))

theorem scriptOK_of_no_script (l : List Frame) (h : ∀ f ∈ l, f.isScript = false) : scriptOK l := by
  have := (scriptOK_append l [] h).mpr trivial
  simpa using this

theorem scriptOK_script {hh ww : List Nat} {acts : List Act} {rest : List Frame}
    (h : scriptOK (.script hh ww acts :: rest)) (acts' : List Act) :
    scriptOK (.script hh ww acts' :: rest) := h

namespace State

/-- `s'` has the stack of `s` with some non-`script` frames pushed on top -/
def Ext (s s' : State) : Prop :=
  ∃ fs : List Frame, s'.stack = fs ++ s.stack ∧ ∀ f ∈ fs, f.isScript = false

theorem Ext.refl (s : State) : s.Ext s := ⟨[], rfl, fun _ h => by cases h⟩

theorem Ext.of_eq {s s' : State} (h : s'.stack = s.stack) : s.Ext s' :=
  ⟨[], by simpa using h, fun _ h => by cases h⟩

theorem Ext.trans {a b c : State} (h1 : a.Ext b) (h2 : b.Ext c) : a.Ext c := by
  obtain ⟨f1, e1, n1⟩ := h1
  obtain ⟨f2, e2, n2⟩ := h2
  refine ⟨f2 ++ f1, by rw [e2, e1, List.append_assoc], fun f hf => ?_⟩
  rcases List.mem_append.mp hf with hf | hf
  · exact n2 f hf
  · exact n1 f hf

theorem Ext.push {s s' : State} (h : s.Ext s') (fs : List Frame) (hfs : ∀ f ∈ fs, f.isScript = false) :
    s.Ext (s'.push fs) :=
  h.trans ⟨fs, rfl, hfs⟩

theorem Ext.scriptOK {s s' : State} (h : s.Ext s') (hs : s.ScriptOK) : s'.ScriptOK := by
  obtain ⟨fs, e, n⟩ := h
  unfold ScriptOK
  rw [e]
  exact (scriptOK_append fs _ n).mpr hs

/-! ### the library functions only push non-`script` frames -/

@[simp] theorem cloneHandles_stack (s : State) (v : Val) : (s.cloneHandles v).stack = s.stack :=
  cloneHandles_invariant (fun s => s.stack) incStrong_stack incWeak_stack s v

@[simp] theorem giveUp_stack (s : State) (o : Nat) : (s.giveUp o).stack = s.stack := by
  unfold giveUp
  split <;> simp

theorem beginSingle_ext (s : State) (o : Nat) : s.Ext (s.beginSingle o) := by
  unfold beginSingle
  split
  · split
    · exact Ext.of_eq (by simp)
    · split
      · exact (Ext.of_eq (by simp)).push _ (by simp [Frame.isScript])
      · exact Ext.of_eq (by simp)
  · exact Ext.of_eq (by simp)

theorem phase1One_stack (keys : List Nat) (s : State) (e : Nat × Nat) :
    (phase1One keys s e).stack = s.stack := by
  unfold phase1One
  split
  · split <;> simp
  · simp

theorem foldl_phase1One_stack (keys : List Nat) (l : CMap) (s : State) :
    (l.foldl (phase1One keys) s).stack = s.stack := by
  induction l generalizing s with
  | nil => rfl
  | cons e l ih => rw [List.foldl_cons, ih, phase1One_stack]

theorem phase2One_stack (acc : State × List Val) (k : Nat) : (phase2One acc k).1.stack = acc.1.stack := by
  unfold phase2One
  split
  · split
    · split <;> simp
    · rfl
  · simp

theorem foldl_phase2One_stack (l : List Nat) (acc : State × List Val) :
    (l.foldl phase2One acc).1.stack = acc.1.stack := by
  induction l generalizing acc with
  | nil => rfl
  | cons e l ih => rw [List.foldl_cons, ih, phase2One_stack]

theorem dropCycle_ext (s : State) (c : CMap) : s.Ext (s.dropCycle c) := by
  rw [dropCycle_eq_push]
  refine (Ext.of_eq ?_).push _ ?_
  · show (c.keys.foldl phase2One (c.foldl (phase1One c.keys) s, [])).1.stack = s.stack
    rw [foldl_phase2One_stack, foldl_phase1One_stack]
  · intro f hf
    rcases List.mem_append.mp hf with hf | hf
    · obtain ⟨v, _, rfl⟩ := List.mem_map.mp hf
      rfl
    · simp only [List.mem_singleton] at hf
      subst hf; rfl

theorem rcDrop_ext (s : State) (o : Nat) : s.Ext (s.rcDrop o) := by
  unfold rcDrop
  split
  · exact Ext.of_eq (by simp)
  · split
    · exact Ext.refl _
    · exact Ext.refl _
    · split
      · exact Ext.of_eq (by simp)
      · dsimp only
        split
        · split
          · exact (Ext.of_eq (by simp)).trans (beginSingle_ext _ _)
          · exact Ext.of_eq (by simp)
        · split
          · exact (Ext.of_eq (by simp)).trans (beginSingle_ext _ _)
          · split
            · exact Ext.of_eq (by simp)
            · split
              · exact Ext.of_eq (by simp)
              · split
                · exact Ext.of_eq (by simp)
                · split
                  · exact Ext.of_eq (by simp)
                  · split
                    · exact Ext.of_eq (by simp)
                    · exact (Ext.of_eq (by simp)).trans (dropCycle_ext _ _)

theorem phase3One_stack (s : State) (k : Nat) : (phase3One s k).stack = s.stack := by
  unfold phase3One
  split
  · split <;> simp
  · simp

theorem foldl_phase3One_stack (l : List Nat) (s : State) : (l.foldl phase3One s).stack = s.stack := by
  induction l generalizing s with
  | nil => rfl
  | cons e l ih => rw [List.foldl_cons, ih, phase3One_stack]

theorem finishSingle_stack (s : State) (o : Nat) : (s.finishSingle o).stack = s.stack := by
  unfold finishSingle
  split
  · split <;> simp
  · simp

theorem panic_scriptOK (s : State) (h : s.ScriptOK) : s.panic.ScriptOK := by
  unfold panic
  split
  · exact (Ext.of_eq (by simp)).scriptOK h
  · apply scriptOK_of_no_script
    intro g hg
    have hc := (List.mem_filter.mp hg).2
    cases g <;> first | rfl | (simp [Frame.isCleanup] at hc)

end State

/-- an action only pushes cleanup frames (`rcDrop`, `weakDrop`, `dropVal`) -/
theorem applyAct_ext (s : State) (fh fw : List Nat) (a : Act) : s.Ext (applyAct s fh fw a) := by
  cases a with
  | drop r =>
    simp only [applyAct]
    split
    · exact (Ext.of_eq rfl).push _ (by simp [Frame.isScript])
    · exact Ext.of_eq (by simp)
  | dropWeak w =>
    simp only [applyAct]
    split
    · exact (Ext.of_eq rfl).push _ (by simp [Frame.isScript])
    · exact Ext.refl _
  | dropValue i =>
    simp only [applyAct]
    split
    · exact (Ext.of_eq rfl).push _ (by simp [Frame.isScript])
    · exact Ext.refl _
  | decStrong i =>
    simp only [applyAct]
    split
    · split
      · exact (Ext.of_eq rfl).push _ (by simp [Frame.isScript])
      · exact Ext.of_eq (by simp)
    · exact Ext.refl _
  | makeMut r =>
    simp only [applyAct]
    split
    · split
      · split
        · split
          · exact (Ext.of_eq (by simp; split <;> simp)).push _ (by simp [Frame.isScript])
          · split
            · exact Ext.of_eq (by simp)
            · exact Ext.of_eq (by simp)
        · exact Ext.of_eq (by simp)
      · exact Ext.of_eq (by simp)
    · exact Ext.of_eq (by simp)
  | _ => exact Ext.of_eq (by simp only [applyAct]; (repeat' split) <;> simp)

theorem applyOp_ext (s : State) (op : Op) : s.Ext (applyOp s op) := by
  cases op with
  | act a => exact applyAct_ext s [] [] a
  | setScript q acts => exact Ext.of_eq (by simp only [applyOp]; split <;> simp)
  | shuffle q i => exact Ext.of_eq (by simp only [applyOp]; split <;> simp)

/-- `ScriptOK` is preserved by every machine step (unconditionally) -/
theorem step_scriptOK (s : State) (hF : s.ScriptOK) : (step s).ScriptOK := by
  unfold step
  split
  · exact hF
  · split
    · exact hF
    · rename_i f rest hst
      have hF' : scriptOK (f :: rest) := by unfold State.ScriptOK at hF; rwa [hst] at hF
      have hrest : ({ s with stack := rest } : State).ScriptOK := scriptOK_tail hF'
      split
      · exact (rcDrop_ext _ _).scriptOK hrest
      · exact (Ext.of_eq (by simp [State.weakDrop])).scriptOK hrest
      · -- dropVal
        rename_i v
        unfold State.ScriptOK State.dropVal
        simp only [push_stack, emit_stack, List.append_assoc, List.cons_append, List.nil_append]
        refine ⟨fun o ho => ?_, fun o ho => ?_, ?_⟩
        · have := (count_pos_iff_mem v.held o).mpr ho
          split <;> simp <;> omega
        · have := (count_pos_iff_mem v.weaks o).mpr ho
          split <;> simp <;> omega
        · split
          · exact hrest
          · exact hrest
      · exact hrest
      · -- script (a :: as)
        rename_i hh ww a as
        refine (applyAct_ext _ hh ww a).scriptOK ?_
        exact scriptOK_script hF' as
      · exact panic_scriptOK _ hrest
      · -- dropFields
        rename_i hh ww
        refine State.Ext.scriptOK ?_ hrest
        cases hh with
        | cons x xs => exact (Ext.refl _).push _ (by simp [Frame.isScript])
        | nil =>
          cases ww with
          | cons x xs => exact (Ext.refl _).push _ (by simp [Frame.isScript])
          | nil => exact Ext.refl _
      · exact (Ext.of_eq (finishSingle_stack _ _)).scriptOK hrest
      · exact (Ext.of_eq (foldl_phase3One_stack _ _)).scriptOK hrest

theorem applyOp_scriptOK (s : State) (op : Op) (hF : s.ScriptOK) : (applyOp s op).ScriptOK :=
  (applyOp_ext s op).scriptOK hF

theorem scriptOK_init : ({} : State).ScriptOK := trivial

theorem reachableP_scriptOK {s : State} (h : ReachableP s) : s.ScriptOK := by
  induction h with
  | init => exact scriptOK_init
  | @op s o hint _ _ _ ih => exact applyOp_scriptOK _ o ih
  | step _ _ ih => exact step_scriptOK _ ih
  | @endOp s _ ih =>
    unfold State.ScriptOK; rw [endOp_stack]; exact ih
  | @outOfFuel s _ ih =>
    unfold State.ScriptOK; rw [fail_stack]; exact ih

/-! ## an error, once set, is never changed -/

namespace State

theorem errE_incStrong {s : State} {o : Nat} {e : Err} (h : s.err = some e) : (s.incStrong o).err = some e := by
  rcases incStrong_cases s o with ⟨e', he⟩ | ⟨ob, n, _, _, he⟩ <;> rw [he]
  · exact fail_err_of_some s e' e h
  · exact h

theorem errE_incWeak {s : State} {o : Nat} {e : Err} (h : s.err = some e) : (s.incWeak o).err = some e := by
  rcases incWeak_cases s o with ⟨e', he⟩ | ⟨ob, _, _, he⟩ <;> rw [he]
  · exact fail_err_of_some s e' e h
  · exact h

theorem errE_modVal {s : State} {o : Nat} {f : Val → Val} {e : Err} (h : s.err = some e) :
    (s.modVal o f).err = some e := by
  rcases modVal_cases s o f with ⟨e', he⟩ | ⟨ob, v, _, _, he⟩ <;> rw [he]
  · exact fail_err_of_some s e' e h
  · exact h

theorem errE_decWeakFree {s : State} {o : Nat} {imp : Bool} {e : Err} (h : s.err = some e) :
    (s.decWeakFree o imp).err = some e := by
  rcases decWeakFree_cases s o imp with ⟨e', he⟩ | ⟨ob, _, _, he⟩ | ⟨ob, w, _, _, he⟩ <;> rw [he]
  · exact fail_err_of_some s e' e h
  · exact h
  · exact h

theorem errE_setLinks {s : State} {o : Nat} {f : Table → Table} {e : Err} (h : s.err = some e) :
    (s.setLinks o f).err = some e := setLinks_err_of_some' o f h

theorem errE_adopt {s : State} {a b : Nat} {same : Bool} {e : Err} (h : s.err = some e) :
    (s.adopt a b same).err = some e := by
  unfold adopt
  split
  · exact errE_setLinks h
  · exact errE_setLinks (errE_setLinks h)

theorem errE_unadopt {s : State} {a b : Nat} {same : Bool} {e : Err} (h : s.err = some e) :
    (s.unadopt a b same).err = some e := by
  unfold unadopt
  split
  · exact errE_setLinks h
  · exact errE_setLinks (errE_setLinks h)

theorem errE_badRoot {s : State} {r : Nat} {e : Err} (h : s.err = some e) : (s.badRoot r).err = some e := by
  rcases badRoot_cases s r with he | ⟨e', he⟩ <;> rw [he]
  · exact h
  · exact fail_err_of_some s e' e h

theorem errE_giveUp {s : State} {o : Nat} {e : Err} (h : s.err = some e) : (s.giveUp o).err = some e := by
  unfold giveUp
  have h1 := purgePeers_err_of_some s o e h
  split
  · exact errE_decWeakFree (by simpa using h1)
  · exact fail_err_of_some _ _ e h1

theorem errE_cloneHandles {s : State} {v : Val} {e : Err} (h : s.err = some e) :
    (s.cloneHandles v).err = some e := by
  have key : ∀ (l : List Nat) (g : State → Nat → State), (∀ s o, s.err = some e → (g s o).err = some e) →
      ∀ s : State, s.err = some e → (l.foldl g s).err = some e := by
    intro l g hg
    induction l with
    | nil => intro s h; exact h
    | cons a l ih => intro s h; exact ih _ (hg s a h)
  unfold cloneHandles
  exact key _ _ (fun s o h => errE_incWeak h) _ (key _ _ (fun s o h => errE_incStrong h) _ h)

end State

/-- closes goals `(f … s).err = some e` from `s.err = some e` for compositions of the primitives -/
macro "stickyE" : tactic => `(tactic|
  repeat (first
    | assumption
    | apply fail_err_of_some
    | apply errE_incStrong | apply errE_incWeak | apply errE_modVal | apply errE_setLinks | apply errE_adopt
    | apply errE_unadopt | apply errE_badRoot | apply errE_giveUp | apply errE_cloneHandles
    | dsimp only [emit_err, push_err, setObj_err, alloc_err]))

theorem applyAct_err_of_some (s : State) (fh fw : List Nat) (a : Act) {e : Err} (h : s.err = some e) :
    (applyAct s fh fw a).err = some e := by
  cases a <;> simp only [applyAct] <;> (repeat' split) <;> stickyE

theorem applyOp_err_of_some (s : State) (op : Op) {e : Err} (h : s.err = some e) :
    (applyOp s op).err = some e := by
  cases op with
  | act a => exact applyAct_err_of_some s [] [] a h
  | setScript q acts => simp only [applyOp]; split <;> stickyE
  | shuffle q i => simp only [applyOp]; split <;> stickyE

/-! ## the frames -/

namespace State

theorem beginSingle_err_of_cnt {sp : State} {o : Nat} {ob2 : Obj} {k : Nat} {v : Val}
    (hc : sp.cell o = some ob2) (hs : ob2.strong = .cnt k) (hv : ob2.value = some v) :
    (sp.beginSingle o).err = sp.err := by
  rw [beginSingle_of_cnt hc hs hv]; rfl

/-- the trace branch of `Rc::drop` cannot fail in a state satisfying the invariants -/
theorem traceBranch_noerr (s1 : State) (o : Nat) (herr : s1.err = none) (hI : s1.InvCore)
    (ho : s1.isLive o = true) : (s1.traceBranch o).err = none := by
  obtain ⟨hbad, hfuel⟩ := cycleRefs_ok s1 o hI.1 hI.2.1 ho
  unfold State.traceBranch
  simp only [hbad, hfuel]
  generalize he : Ev.traced o (cycleRefs s1 o).visited.length (cycleRefs s1 o).popped = e
  have hI2 : (s1.emit e).InvCore := State.InvCore_emit hI e
  have hcr : cycleRefs (s1.emit e) o = cycleRefs s1 o := cycleRefs_emit s1 e o
  have ho2 : (s1.emit e).isLive o = true := ho
  have herr2 : (s1.emit e).err = none := herr
  have hfu := firstUnreadable_none (s1.emit e) o hI2.1 hI2.2.1 ho2
  rw [hcr] at hfu
  simp only [hfu]
  by_cases hemp : (cycleRefs s1 o).cmap.isEmpty = true
  · simp only [hemp]
    exact herr2
  · have hemp' : (cycleRefs s1 o).cmap.isEmpty = false := by simpa using hemp
    simp only [hemp']
    cases hext : hasExternalOwners (s1.emit e) (cycleRefs s1 o).cmap with
    | true => exact herr2
    | false =>
      have hR := cycleReady_of_inv (s1.emit e) o hI2.1 hI2.2.1 herr2 ho2 (by rw [hcr]; exact hext)
      have := (dropCycle_spec _ _ hR).2.1
      rw [hcr] at this
      simpa using this

/-- `<Rc as Drop>::drop` of a handle owned by a pending frame cannot fail -/
theorem rcDrop_noerr {s : State} (h : s.Safe) {o : Nat} {rest : List Frame}
    (hst : s.stack = .rcDrop o :: rest) : (({ s with stack := rest } : State).rcDrop o).err = none := by
  have hp : 0 < s.pend o := by rw [pend_pop_rcDrop hst o, if_pos rfl]; omega
  obtain ⟨ob, hc, -⟩ := h.cell_of_pend hp
  have hc0 : ({ s with stack := rest } : State).cell o = some ob := hc
  have hg : s.heap[o]? = some ob := get_of_cell hc
  have hlt : o < ({ s with stack := rest } : State).heap.length := get_lt hg
  have hfr := freed_of_cell hc
  cases hs : ob.strong with
  | uninit =>
    unfold rcDrop; simp only [hc0, hs]; exact h.err
  | cnt n =>
    cases n with
    | zero => unfold rcDrop; simp only [hc0, hs]; exact h.err
    | succ n =>
      obtain ⟨hvS, hlS, -, -⟩ := (h.invO o ob hg).1 n hs
      obtain ⟨v, hv⟩ := Option.isSome_iff_exists.1 hvS
      obtain ⟨t, hl⟩ := Option.isSome_iff_exists.1 hlS
      have hlive : s.isLive o = true := by rw [isLive_of_get hg]; simp [hfr, hs]
      cases n with
      | zero =>
        have hc1 : (({ s with stack := rest } : State).setObj o { ob with strong := .cnt 0 }).cell o
            = some { ob with strong := .cnt 0 } := by
          rw [cell_setObj_same' _ hlt]; simp [hfr]
        cases hemp : t.isEmpty with
        | true =>
          rw [rcDrop_eq_single_empty _ o ob t hc0 hs hl hemp,
            beginSingle_err_of_cnt hc1 rfl (v := v) hv]
          exact h.err
        | false =>
          rw [rcDrop_eq_single_purge _ o ob t hc0 hs hl hemp]
          have ht : s.tableOf o = some t := by rw [tableOf_of_get hg]; simp [hfr, hl]
          have hT : ∀ p, (({ s with stack := rest } : State).setObj o { ob with strong := .cnt 0 }).tableOf p
              = s.tableOf p := by
            intro p
            rw [tableOf_setObj_of_links_eq (s := ({ s with stack := rest } : State))
              (ob' := { ob with strong := .cnt 0 }) hg rfl rfl p]
            rfl
          obtain ⟨e1, -, -, hLO⟩ := purgePeers_of_InvB h.invO h.invB hlive hT ht
            (show (({ s with stack := rest } : State).setObj o { ob with strong := .cnt 0 }).err = none from h.err)
          obtain ⟨ob2, hg2, q1, -, q3, q4, -⟩ := hLO.obj o _ (get_of_cell hc1)
          have hc2 := cell_of_not_freed hg2 (q4.trans hfr)
          rw [beginSingle_err_of_cnt hc2 q1 (q3.trans hv)]
          exact e1
      | succ n =>
        cases hemp : t.isEmpty with
        | true =>
          rw [rcDrop_eq_dec_empty _ o ob n t hc0 hs hl hemp]
          exact h.err
        | false =>
          rw [State.rcDrop_eq_traceBranch _ o ob n t hc0 hs hl hemp]
          have hI1 := rcDrop_inv_dec_state h.err hst (fun _ => h.core) hc hs
          refine traceBranch_noerr _ o h.err hI1 ?_
          rw [isLive_of_get (getElem?_setObj_same _ hlt)]
          simp [hfr]

theorem weakDrop_noerr {s : State} (h : s.Safe) {o : Nat} {rest : List Frame}
    (hst : s.stack = .weakDrop o :: rest) : (({ s with stack := rest } : State).weakDrop o).err = none := by
  have hp : 0 < s.pendW o := by
    have := pendW_of_stack_cons hst o
    simp at this; omega
  obtain ⟨ob, hc, hw⟩ := h.weak_cell (o := o) (by omega)
  have hc0 : ({ s with stack := rest } : State).cell o = some ob := hc
  unfold weakDrop
  rw [decWeakFree_err false hc0 hw]
  exact h.err

theorem finishSingle_noerr {s : State} (h : s.Safe) {o : Nat} {rest : List Frame}
    (hst : s.stack = .finishSingle o :: rest) :
    (({ s with stack := rest } : State).finishSingle o).err = none := by
  obtain ⟨ob, hg, -, hl, himp⟩ := h.invK.1 o (by rw [hst]; exact List.mem_cons_self)
  have hc : s.cell o = some ob := cell_of_implicit h.invO h.invW hg himp
  have hc0 : ({ s with stack := rest } : State).cell o = some ob := hc
  have hfr := freed_of_cell hc
  have hw : ob.weak ≠ 0 := by
    intro h0
    have := ((h.invO o ob hg).2.2.2).mpr h0
    rw [hfr] at this; cases this
  have hlt : o < ({ s with stack := rest } : State).heap.length := get_lt hg
  unfold finishSingle
  simp only [hc0, hl]
  rw [decWeakFree_err (ob := { ob with links := none }) true
    (by rw [cell_setObj_same' _ hlt]; simp [hfr]) hw]
  exact h.err

theorem phase3_noerr {s : State} (h : s.Safe) {ks : List Nat} {rest : List Frame}
    (hst : s.stack = .phase3 ks :: rest) :
    (ks.foldl phase3One ({ s with stack := rest } : State)).err = none := by
  have h0 : ({ s with stack := rest } : State).InvCore := pop_InvCore hst (by simp) (by simp) h.core
  rw [(InvCore_phase3_fold ks _ h0 (fun k hk => ?_) (fun k => ?_)).2]
  · exact h.err
  · exact h.invK.2.1 ks (by rw [hst]; exact List.mem_cons_self) k hk
  · have h1 := h.invK.2.2 k
    rw [owed_of_stack_cons hst k, Frame.owes_phase3] at h1
    exact h1

/-- the state in which a destructor body runs its next action -/
theorem script_push_safe {s : State} (h : s.Safe) {hh ww : List Nat} {acts acts' : List Act}
    {rest : List Frame} (hst : s.stack = .script hh ww acts :: rest) :
    (({ s with stack := rest } : State).push [.script hh ww acts']).Safe where
  err := h.err
  core := script_push_invCore hst h.core
  rng := script_push_invR hst h.rng
  safe := by
    refine h.safe.of_live_eq (fun _ => rfl) (fun o _ h0 => h0) ?_ (fun o hw => hw) ?_
    · intro o _ _
      rw [pend_push, pend_of_stack_cons hst o]; simp
    · intro o
      have h3 := h.safe.2.2 o
      rw [hst] at h3
      simpa using h3

end State

/-- **no machine step reports a library error or uses a dangling handle** -/
theorem step_okErr (s : State) (hI : s.Inv) (hR : s.InvR) (hS : s.InvS) (_hP : s.P)
    (hF : s.ScriptOK) (he : s.err = none) : (step s).okErr := by
  have h : s.Safe := ⟨he, hI he, hR, hS he⟩
  unfold step
  split
  · rename_i e he'; rw [he] at he'; cases he'
  split
  · exact okErr_of_none he
  · rename_i f rest hst
    split
    · exact okErr_of_none (rcDrop_noerr h hst)
    · exact okErr_of_none (weakDrop_noerr h hst)
    · exact okErr_of_none he
    · exact okErr_of_none he
    · -- a destructor body runs its next action
      rename_i hh ww a as
      have h1 := script_push_safe (acts' := as) h hst
      have hF' : scriptOK (.script hh ww (a :: as) :: rest) := by
        unfold State.ScriptOK at hF; rwa [hst] at hF
      refine applyAct_okErr _ hh ww a (fun _ => h1.core) h1.rng (fun _ => h1.safe) h1.err ?_ ?_
      · intro o ho
        have hp : 0 < s.pend o := by
          rw [pend_of_stack_cons hst o]
          have := hF'.1 o ho
          simp only [Frame.strongTo_script]
          show 0 < 0 + State.sumList (rest.map (Frame.strongTo o))
          omega
        obtain ⟨ob, hc, -⟩ := h.cell_of_pend hp
        show (s.cell o).isSome = true
        rw [hc]; rfl
      · intro o ho
        have hp : 0 < s.pendW o := by
          rw [pendW_of_stack_cons hst o]
          have := hF'.2.1 o ho
          simp only [Frame.weakTo_script]
          show 0 < 0 + State.sumList (rest.map (Frame.weakTo o))
          omega
        obtain ⟨ob, hc, -⟩ := h.weak_cell (o := o) (by omega)
        show (s.cell o).isSome = true
        rw [hc]; rfl
    · -- panic: may abort
      unfold State.panic
      dsimp only
      split
      · exact okErr_fail_abort (okErr_of_none he)
      · exact okErr_of_none he
    · -- dropFields
      rename_i hh ww
      apply okErr_of_none
      cases hh with
      | cons x xs => exact he
      | nil =>
        cases ww with
        | cons x xs => exact he
        | nil => exact he
    · exact okErr_of_none (finishSingle_noerr h hst)
    · exact okErr_of_none (phase3_noerr h hst)

/-! ## every reachable state -/

/-- **in a contract-respecting execution the machine never reports a library error and the
program never uses a dangling handle**: the only possible errors are `fuel` and `abort` -/
theorem reachableP_okErr {s : State} (h : ReachableP s) : s.okErr := by
  induction h with
  | init => exact Or.inl rfl
  | @op s o hint hr hq _ ih =>
    cases he : s.err with
    | none =>
      have he0 : (s.begin hint).err = none := he
      have hI : (s.begin hint).Inv := begin_inv s hint (reachable_Inv hr.reachable)
      have hRr : (s.begin hint).InvR := begin_invR s hint (reachable_InvR hr.reachable he)
      have hS : (s.begin hint).InvS := begin_invS s hint (reachableP_invS hr)
      exact applyOp_okErr _ o hI hRr hS he0
    | some e =>
      have he0 : (s.begin hint).err = some e := he
      exact okErr_of_err_eq (s := s) ((applyOp_err_of_some _ o he0).trans he.symm) ih
  | @step s hr _ ih =>
    cases he : s.err with
    | none =>
      exact step_okErr s (reachable_Inv hr.reachable) (reachable_InvR hr.reachable he)
        (reachableP_invS hr) (reachableP_P hr) (reachableP_scriptOK hr) he
    | some e => rw [step_of_err he]; exact ih
  | @endOp s _ ih => exact okErr_of_err_eq (endOp_err s) ih
  | @outOfFuel s _ ih => exact okErr_fail_fuel ih

/-- no library error, no dangling handle -/
theorem reachableP_no_library_error {s : State} (h : ReachableP s) (o : Nat) :
    s.err ≠ some (.uaf o) ∧ s.err ≠ some (.movedLinks o) ∧ s.err ≠ some (.movedValue o)
    ∧ s.err ≠ some (.doubleFree o) ∧ s.err ≠ some (.underflow o) ∧ s.err ≠ some (.corrupt o)
    ∧ s.err ≠ some (.dangling o) := by
  rcases reachableP_okErr h with he | he | he <;> rw [he] <;> simp

namespace State
end State
end Cactus
