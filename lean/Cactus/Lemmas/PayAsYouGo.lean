import Cactus.Lemmas.PayAsYouGo.Calm
import Cactus.Lemmas.PayAsYouGo.Scripts
import Cactus.Lemmas.PayAsYouGo.Touched
import Cactus.Lemmas.PayAsYouGo.NoAdopt
import Cactus.Lemmas.PayAsYouGo.Example
/-!
# C14 — pay-as-you-go, whole-history theorems

* `PayAsYouGo/Calm.lean` — per primitive / action / step: tables stay empty, logs grow quietly;
  `rcDrop_log_cases`, `trace_has_cause_step`, `trace_has_cause_applyAct`, `trace_has_cause_applyOp`,
  `applyAct_calm`, `step_tables`.
* `PayAsYouGo/Scripts.lean` — a class of actions carried through destructor scripts (`ScriptsQ`).
* `PayAsYouGo/Touched.lean` — `reachable_trace_has_cause`; per object: `ReachableT`,
  `ReachableT.untouched_untabled`, `ReachableT.traced_touched`, `touched`,
  `run_untouched_tables_empty`, `run_trace_root_touched`.
* `PayAsYouGo/NoAdopt.lean` — `Act.noAdopt`, `Op.noAdopt`, `ReachableN`,
  `run_noAdopt_tables_empty`, `run_noAdopt_no_trace`, `touched_noAdopt`.
* `PayAsYouGo/Example.lean` — non-vacuity.
-/
