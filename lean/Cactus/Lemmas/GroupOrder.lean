import Cactus.Lemmas.Final
/-!
# C09 — the order in which the values of a collected group are destroyed is irrelevant

The one remaining layout dependence of the collector is the order of the `dropVal` frames pushed
by `dropCycle` (chosen by `hint` through `reorder`).  For *quiet* values (no destructor script,
no panic) whose strong handles all designate dead, still allocated objects, running the block of
`dropVal` frames has a closed form: every Weak handle owned by the values is released
(`releaseWeaks`), one `destroyed` event per value is logged, nothing else changes.  The closed
form depends on the block only through the *multiset* of released Weak handles and the multiset of
destroyed `vid`s, hence it is the same for every order of the block, up to the order of the
events appended to the log.
-/
namespace Cactus
open State

/-! ## Definitions -/

/-- a value whose destructor does nothing observable but dropping its fields -/
def Val.quiet (v : Val) : Prop := v.script = [] ∧ v.panics = false

def runSteps : Nat → State → State
  | 0, s => s
  | n + 1, s => runSteps n (step s)

/-- release the Weak handles `ws`, one after the other -/
def releaseWeaks (s : State) (ws : List Nat) : State := ws.foldl (fun s t => s.weakDrop t) s

/-- what `k` releases of Weak handles do to an allocation -/
def relObj (ob : Obj) (k : Nat) : Obj :=
  if k = 0 then ob
  else if k < ob.weak then { ob with weak := ob.weak - k }
  else { ob with weak := 0, freed := true }

/-- the weak-count side condition: every released allocation is allocated, not yet released and
can still give up as many weak references as the list asks for -/
def GoodW (h : List Obj) (ws : List Nat) : Prop :=
  ∀ t ∈ ws, ∃ ob, h[t]? = some ob ∧ ob.freed = false ∧ ws.count t ≤ ob.weak

/-- side conditions of a block: `GoodW` for the Weak handles, and every strong handle designates a
readable cell whose strong count is dead and which is not released by the block itself (it still
owns a weak reference besides the ones the block releases — for a collected group this is the
implicit weak reference released by `phase3` after the block) -/
def Ready (h : List Obj) (hs ws : List Nat) : Prop :=
  GoodW h ws ∧
  ∀ t ∈ hs, ∃ ob, h[t]? = some ob ∧ ob.freed = false ∧ ob.strong.isDead = true ∧ ws.count t < ob.weak

/-- weak count of a slot of a heap -/
def wk (h : List Obj) (t : Nat) : Nat :=
  match h[t]? with
  | some ob => ob.weak
  | none => 0

/-- number of `freed` events (0 or 1) for each allocation: the release that brings the count to 0
emits it -/
def freedCount (h : List Obj) (ws : List Nat) : Ev → Nat
  | .freed u => if 0 < ws.count u ∧ ws.count u = wk h u then 1 else 0
  | _ => 0

/-- the events appended by `releaseWeaks` -/
def freedLog (s : State) (ws : List Nat) : List Ev := (releaseWeaks s ws).log.drop s.log.length

/-! ## Interleavings of log events and releases -/

inductive Item
  | ev (e : Ev)
  | rel (t : Nat)

def Item.run (s : State) : Item → State
  | .ev e => s.emit e
  | .rel t => s.weakDrop t

def runItems (s : State) (is : List Item) : State := is.foldl Item.run s

def rels : List Item → List Nat
  | [] => []
  | .ev _ :: is => rels is
  | .rel t :: is => t :: rels is

def evs : List Item → List Ev
  | [] => []
  | .ev e :: is => e :: evs is
  | .rel _ :: is => evs is

theorem rels_append (a b : List Item) : rels (a ++ b) = rels a ++ rels b := by
  induction a with
  | nil => rfl
  | cons x a ih => cases x <;> simp [rels, ih]

theorem evs_append (a b : List Item) : evs (a ++ b) = evs a ++ evs b := by
  induction a with
  | nil => rfl
  | cons x a ih => cases x <;> simp [evs, ih]

@[simp] theorem rels_map_rel (ws : List Nat) : rels (ws.map Item.rel) = ws := by
  induction ws with
  | nil => rfl
  | cons x a ih => simp [rels, ih]

@[simp] theorem evs_map_rel (ws : List Nat) : evs (ws.map Item.rel) = [] := by
  induction ws with
  | nil => rfl
  | cons x a ih => simp [evs, ih]

theorem runItems_append (s : State) (a b : List Item) :
    runItems s (a ++ b) = runItems (runItems s a) b := by
  simp [runItems, List.foldl_append]

theorem releaseWeaks_eq_runItems (s : State) (ws : List Nat) :
    releaseWeaks s ws = runItems s (ws.map Item.rel) := by
  simp [releaseWeaks, runItems, List.foldl_map, Item.run]

/-! ## One release -/

theorem relObj_succ (ob : Obj) (c : Nat) (h : c + 1 ≤ ob.weak) :
    relObj (relObj ob 1) c = relObj ob (c + 1) := by
  by_cases hc : c = 0
  · subst hc; simp [relObj]
  · have h1 : 1 < ob.weak := by omega
    have e1 : relObj ob 1 = { ob with weak := ob.weak - 1 } := by simp [relObj, h1]
    rw [e1]
    unfold relObj
    simp only [hc, if_false, Nat.add_one_ne_zero]
    by_cases h2 : c + 1 < ob.weak
    · have h3 : c < ob.weak - 1 := by omega
      simp only [h2, h3, if_true]
      have : ob.weak - 1 - c = ob.weak - (c + 1) := by omega
      rw [this]
    · have h3 : ¬ c < ob.weak - 1 := by omega
      simp only [h2, h3, if_false]

/-- a release that neither underflows nor hits a released allocation, as one record update -/
theorem weakDrop_good (s : State) (t : Nat) (ob : Obj) (hg : s.heap[t]? = some ob)
    (hf : ob.freed = false) (hw : 1 ≤ ob.weak) :
    s.weakDrop t = { s with heap := s.heap.set t (relObj ob 1),
                            log := s.log ++ (if ob.weak = 1 then [Ev.freed t] else []) } := by
  have hc : s.cell t = some ob := by simp [cell, hg, hf]
  unfold weakDrop decWeakFree
  simp only [hc]
  split
  · rename_i h0; omega
  · rename_i h1
    simp [setObj, emit, relObj, h1]
  · rename_i w h2
    simp [setObj, relObj, h2]

/-! ## Closed form of an interleaving -/

theorem goodW_step (h : List Obj) (t : Nat) (ws : List Nat) (ob : Obj) (hg : h[t]? = some ob)
    (hgood : GoodW h (t :: ws)) : GoodW (h.set t (relObj ob 1)) ws := by
  intro u hu
  obtain ⟨ob', hg', hf', hc'⟩ := hgood u (List.mem_cons_of_mem _ hu)
  by_cases hut : u = t
  · subst hut
    rw [hg] at hg'; cases hg'
    have hlt : u < h.length := (List.getElem?_eq_some_iff.mp hg).1
    have hpos : 0 < ws.count u := List.count_pos_iff.mpr hu
    simp only [List.count_cons_self] at hc'
    have h1 : 1 < ob.weak := by omega
    refine ⟨{ ob with weak := ob.weak - 1 }, ?_, hf', ?_⟩
    · simp [relObj, h1, hlt]
    · show ws.count u ≤ ob.weak - 1; omega
  · refine ⟨ob', ?_, hf', ?_⟩
    · rw [List.getElem?_set_ne (fun h => hut h.symm)]; exact hg'
    · rw [List.count_cons_of_ne (fun h => hut h.symm)] at hc'; exact hc'

theorem goodW_head (h : List Obj) (t : Nat) (ws : List Nat) (hgood : GoodW h (t :: ws)) :
    ∃ ob, h[t]? = some ob ∧ ob.freed = false ∧ ws.count t + 1 ≤ ob.weak := by
  obtain ⟨ob, hg, hf, hc⟩ := hgood t (List.mem_cons_self ..)
  simp only [List.count_cons_self] at hc
  exact ⟨ob, hg, hf, hc⟩

/-- the state after an interleaving `is` of log events and releases -/
structure ItemsSpec (s s' : State) (is : List Item) : Prop where
  ctl : s' = { s with heap := s'.heap, log := s'.log }
  heap : ∀ i, s'.heap[i]? = (s.heap[i]?).map (fun ob => relObj ob ((rels is).count i))
  log : ∃ l, s'.log = s.log ++ l ∧ ∀ e, l.count e = (evs is).count e + freedCount s.heap (rels is) e

theorem freedCount_step (h : List Obj) (t : Nat) (ws : List Nat) (ob : Obj) (hg : h[t]? = some ob)
    (hc : ws.count t + 1 ≤ ob.weak) (e : Ev) :
    (if ob.weak = 1 then [Ev.freed t] else []).count e + freedCount (h.set t (relObj ob 1)) ws e
      = freedCount h (t :: ws) e := by
  have hlt : t < h.length := (List.getElem?_eq_some_iff.mp hg).1
  cases e with
  | freed u =>
    by_cases hut : u = t
    · subst hut
      have hwk : wk h u = ob.weak := by simp [wk, hg]
      have hwk' : wk (h.set u (relObj ob 1)) u = ob.weak - 1 := by
        simp only [wk, List.getElem?_set_self hlt]
        unfold relObj
        by_cases h1 : 1 < ob.weak
        · simp [h1]
        · have : ob.weak = 1 := by omega
          simp [this]
      simp only [freedCount, hwk, hwk', List.count_cons_self]
      generalize ws.count u = c at hc ⊢
      by_cases h1 : ob.weak = 1
      · rw [if_pos h1]
        simp only [List.count_cons_self, List.count_nil]
        split <;> split <;> omega
      · rw [if_neg h1]
        simp only [List.count_nil]
        split <;> split <;> omega
    · have hwk' : wk (h.set t (relObj ob 1)) u = wk h u := by
        simp only [wk, List.getElem?_set_ne (fun h => hut h.symm)]
      have hne : ¬ (Ev.freed t = Ev.freed u) := by
        intro h; cases h; exact hut rfl
      simp only [freedCount, hwk', List.count_cons_of_ne (fun h => hut h.symm)]
      split <;> simp [hne]
  | destroyed v => simp [freedCount]; split <;> simp
  | traced a b c => simp [freedCount]; split <;> simp
  | ret c => simp [freedCount]; split <;> simp
  | panicked => simp [freedCount]; split <;> simp

theorem runItems_spec (is : List Item) :
    ∀ s : State, GoodW s.heap (rels is) → ItemsSpec s (runItems s is) is := by
  induction is with
  | nil =>
    intro s _
    refine ⟨rfl, ?_, [], by simp [runItems], ?_⟩
    · intro i; cases hi : s.heap[i]? <;> simp [runItems, rels, relObj, hi]
    · intro e; cases e <;> simp [evs, rels, freedCount]
  | cons x is ih =>
    intro s hgood
    cases x with
    | ev e0 =>
      have h1 := ih (s.emit e0) hgood
      have hrun : runItems s (Item.ev e0 :: is) = runItems (s.emit e0) is := rfl
      rw [hrun]
      obtain ⟨l, hl, hcnt⟩ := h1.log
      refine ⟨h1.ctl, h1.heap, e0 :: l, ?_, ?_⟩
      · rw [hl]; simp
      · intro e
        rw [List.count_cons, hcnt e]
        simp only [evs, rels, List.count_cons, emit_heap]
        omega
    | rel t =>
      obtain ⟨ob, hg, hf, hc⟩ := goodW_head _ _ _ hgood
      have hstep := weakDrop_good s t ob hg hf (by omega)
      have hrun : runItems s (Item.rel t :: is) = runItems (s.weakDrop t) is := rfl
      rw [hrun]
      have hgood' : GoodW (s.weakDrop t).heap (rels is) := by
        rw [hstep]; exact goodW_step _ _ _ _ hg hgood
      have h1 := ih (s.weakDrop t) hgood'
      have hlt : t < s.heap.length := (List.getElem?_eq_some_iff.mp hg).1
      obtain ⟨l, hl, hcnt⟩ := h1.log
      refine ⟨?_, ?_, (if ob.weak = 1 then [Ev.freed t] else []) ++ l, ?_, ?_⟩
      · have h2 := h1.ctl
        generalize runItems (s.weakDrop t) is = s' at h2 ⊢
        rw [hstep] at h2; exact h2
      · intro i
        rw [h1.heap i, hstep]
        show ((s.heap.set t (relObj ob 1))[i]?).map _ = _
        by_cases hit : i = t
        · subst hit
          simp only [List.getElem?_set_self hlt, hg, Option.map_some, rels, List.count_cons_self]
          rw [relObj_succ ob _ hc]
        · rw [List.getElem?_set_ne (fun h => hit h.symm)]
          simp only [rels, List.count_cons_of_ne (fun h => hit h.symm)]
      · rw [hl, hstep]; simp
      · intro e
        rw [List.count_append, hcnt e]
        have := freedCount_step s.heap t (rels is) ob hg hc e
        rw [hstep]
        show _ + (_ + freedCount (s.heap.set t (relObj ob 1)) (rels is) e) = _
        simp only [evs, rels]
        omega

/-! ## Permutation invariance -/

theorem GoodW.perm {h : List Obj} {ws ws' : List Nat} (hg : GoodW h ws) (hp : ws.Perm ws') :
    GoodW h ws' := by
  intro t ht
  obtain ⟨ob, h1, h2, h3⟩ := hg t (hp.mem_iff.mpr ht)
  exact ⟨ob, h1, h2, by rw [← hp.count_eq]; exact h3⟩

theorem freedCount_perm (h : List Obj) {ws ws' : List Nat} (hp : ws.Perm ws') (e : Ev) :
    freedCount h ws e = freedCount h ws' e := by
  cases e <;> simp [freedCount, hp.count_eq]

theorem ctl_aux (s s1 s2 : State) (c1 : s1 = { s with heap := s1.heap, log := s1.log })
    (c2 : s2 = { s with heap := s2.heap, log := s2.log }) (hh : s2.heap = s1.heap) :
    s2 = { s1 with log := s2.log } := by
  rw [c2, c1]
  simp only [hh]

/-- two interleavings with the same multiset of releases and the same multiset of events give the
same state up to the order of the log -/
theorem runItems_perm (s : State) (is is' : List Item) (hgood : GoodW s.heap (rels is))
    (hr : (rels is).Perm (rels is')) (he : (evs is).Perm (evs is')) :
    (runItems s is').heap = (runItems s is).heap
    ∧ runItems s is' = { runItems s is with log := (runItems s is').log }
    ∧ (runItems s is').log.Perm (runItems s is).log := by
  have h1 := runItems_spec is s hgood
  have h2 := runItems_spec is' s (hgood.perm hr)
  have hh : (runItems s is').heap = (runItems s is).heap := by
    apply List.ext_getElem?
    intro i
    rw [h1.heap i, h2.heap i, hr.count_eq]
  refine ⟨hh, ctl_aux s _ _ h1.ctl h2.ctl hh, ?_⟩
  obtain ⟨l1, hl1, hc1⟩ := h1.log
  obtain ⟨l2, hl2, hc2⟩ := h2.log
  rw [hl1, hl2]
  apply List.Perm.append_left
  rw [List.perm_iff_count]
  intro e
  rw [hc1 e, hc2 e, he.count_eq, freedCount_perm _ hr]

/-- `releaseWeaks` is invariant under permutation of the released handles, on the heap and on the
multiset of log events (all other components are equal too) -/
theorem releaseWeaks_perm (s : State) (ws ws' : List Nat) (hgood : GoodW s.heap ws)
    (hp : ws.Perm ws') :
    (releaseWeaks s ws').heap = (releaseWeaks s ws).heap
    ∧ releaseWeaks s ws' = { releaseWeaks s ws with log := (releaseWeaks s ws').log }
    ∧ (releaseWeaks s ws').log.Perm (releaseWeaks s ws).log := by
  rw [releaseWeaks_eq_runItems, releaseWeaks_eq_runItems]
  apply runItems_perm
  · simpa using hgood
  · simpa using hp
  · simp

/-- closed form of `releaseWeaks` -/
theorem releaseWeaks_spec (s : State) (ws : List Nat) (hgood : GoodW s.heap ws) :
    releaseWeaks s ws = { s with heap := (releaseWeaks s ws).heap, log := (releaseWeaks s ws).log }
    ∧ (∀ i, (releaseWeaks s ws).heap[i]? = (s.heap[i]?).map (fun ob => relObj ob (ws.count i)))
    ∧ (releaseWeaks s ws).log = s.log ++ freedLog s ws
    ∧ ∀ e, (freedLog s ws).count e = freedCount s.heap ws e := by
  have h1 := runItems_spec (ws.map Item.rel) s (by simpa using hgood)
  rw [← releaseWeaks_eq_runItems] at h1
  obtain ⟨l, hl, hc⟩ := h1.log
  have hfl : freedLog s ws = l := by simp [freedLog, hl]
  refine ⟨h1.ctl, ?_, ?_, ?_⟩
  · intro i; have := h1.heap i; simpa using this
  · rw [hfl]; exact hl
  · intro e; rw [hfl, hc e]; simp

/-- two releases of different objects commute exactly on the heap; two releases of the same
object are literally the same sequence -/
theorem weakDrop_comm_heap (s : State) (a b : Nat) (hgood : GoodW s.heap [a, b]) :
    ((s.weakDrop a).weakDrop b).heap = ((s.weakDrop b).weakDrop a).heap :=
  (releaseWeaks_perm s [b, a] [a, b] (hgood.perm (List.Perm.swap b a [])) (List.Perm.swap a b [])).1

/-! ## Running a block of `dropVal` frames -/

theorem runSteps_add (m n : Nat) (s : State) : runSteps (m + n) s = runSteps n (runSteps m s) := by
  induction m generalizing s with
  | zero => simp [runSteps]
  | succ m ih => rw [Nat.succ_add]; exact ih (step s)

/-- what one quiet value does: log `destroyed`, release its Weak handles -/
def dropValQuiet (s : State) (v : Val) : State :=
  releaseWeaks (s.emit (.destroyed v.vid)) v.weaks

/-- closed form of the effect of a block of quiet values (in the given order) -/
def blockResult (s : State) (vs : List Val) : State := vs.foldl dropValQuiet s

def itemsOf (v : Val) : List Item := .ev (.destroyed v.vid) :: v.weaks.map .rel

def blockItems (vs : List Val) : List Item := (vs.map itemsOf).flatten

theorem blockResult_eq_runItems (s : State) (vs : List Val) :
    blockResult s vs = runItems s (blockItems vs) := by
  induction vs generalizing s with
  | nil => rfl
  | cons v vs ih =>
    show blockResult (dropValQuiet s v) vs = _
    rw [ih]
    simp only [blockItems, List.map_cons, List.flatten_cons, runItems_append]
    congr 1
    simp [dropValQuiet, itemsOf, releaseWeaks_eq_runItems, runItems, Item.run]

theorem rels_blockItems (vs : List Val) : rels (blockItems vs) = (vs.map (·.weaks)).flatten := by
  induction vs with
  | nil => rfl
  | cons v vs ih =>
    simp only [blockItems, List.map_cons, List.flatten_cons, rels_append] at ih ⊢
    rw [ih]; simp [itemsOf, rels]

theorem evs_blockItems (vs : List Val) :
    evs (blockItems vs) = vs.map (fun v => Ev.destroyed v.vid) := by
  induction vs with
  | nil => rfl
  | cons v vs ih =>
    simp only [blockItems, List.map_cons, List.flatten_cons, evs_append] at ih ⊢
    rw [ih]; simp [itemsOf, evs]

/-- dropping a handle to a dead, readable object returns before touching anything
(`C16_drop_dead_noop`) -/
theorem rcDrop_dead_noop (s : State) (o : Nat) (ob : Obj)
    (hc : s.cell o = some ob) (hd : ob.strong.isDead = true) : s.rcDrop o = s := by
  unfold State.rcDrop
  simp only [hc]
  cases hs : ob.strong with
  | uninit => rfl
  | cnt n =>
    cases n with
    | zero => rfl
    | succ n => simp [hs, Strong.isDead] at hd

/-- dropping the strong handles of a value: each is a handle to a dead, readable object, so
`<Rc as Drop>::drop` returns at once -/
theorem run_held (rest : List Frame) (ws : List Nat) (hs : List Nat) :
    ∀ s : State, s.err = none → s.stack = .dropFields hs ws :: rest →
      (∀ t ∈ hs, ∃ ob, s.cell t = some ob ∧ ob.strong.isDead = true) →
      ∃ n, runSteps n s = { s with stack := .dropFields [] ws :: rest } := by
  induction hs with
  | nil =>
    intro s _ hst _
    refine ⟨0, ?_⟩
    show s = _
    rw [← hst]
  | cons h hs ih =>
    intro s he hst hd
    obtain ⟨ob, hc, hdead⟩ := hd h (List.mem_cons_self ..)
    have h1 : step s = { s with stack := .rcDrop h :: .dropFields hs ws :: rest } := by
      simp [step, he, hst, State.dropFields, push]
    have h2 : step (step s) = { s with stack := .dropFields hs ws :: rest } := by
      rw [h1]
      simp only [step, he]
      exact rcDrop_dead_noop _ h ob hc hdead
    obtain ⟨n, hn⟩ := ih (step (step s)) (by rw [h2]; exact he) (by rw [h2])
      (by rw [h2]; intro t ht; exact hd t (List.mem_cons_of_mem _ ht))
    refine ⟨n + 2, ?_⟩
    rw [Nat.add_comm, runSteps_add]
    show runSteps n (step (step s)) = _
    rw [hn, h2]

/-- dropping the Weak handles of a value -/
theorem run_weaks (rest : List Frame) (ws : List Nat) :
    ∀ s : State, s.err = none → s.stack = .dropFields [] ws :: rest → GoodW s.heap ws →
      ∃ n, runSteps n s = releaseWeaks { s with stack := rest } ws := by
  induction ws with
  | nil =>
    intro s he hst _
    refine ⟨1, ?_⟩
    show step s = _
    simp [step, he, hst, State.dropFields, releaseWeaks]
  | cons w ws ih =>
    intro s he hst hgood
    obtain ⟨ob, hg, hf, hc⟩ := goodW_head _ _ _ hgood
    have h1 : step s = { s with stack := .weakDrop w :: .dropFields [] ws :: rest } := by
      simp [step, he, hst, State.dropFields, push]
    have h2 : step (step s)
        = ({ s with stack := .dropFields [] ws :: rest } : State).weakDrop w := by
      rw [h1]; simp only [step, he]
    have h3 := weakDrop_good { s with stack := .dropFields [] ws :: rest } w ob hg hf (by omega)
    have h4 := weakDrop_good { s with stack := rest } w ob hg hf (by omega)
    rw [h3] at h2
    obtain ⟨n, hn⟩ := ih (step (step s)) (by rw [h2]; exact he) (by rw [h2])
      (by rw [h2]; exact goodW_step _ _ _ _ hg hgood)
    refine ⟨n + 2, ?_⟩
    rw [Nat.add_comm, runSteps_add]
    show runSteps n (step (step s)) = _
    rw [hn, h2]
    show _ = releaseWeaks (({ s with stack := rest } : State).weakDrop w) ws
    rw [h4]

/-- one quiet value -/
theorem run_dropVal (s : State) (v : Val) (rest : List Frame) (he : s.err = none)
    (hst : s.stack = .dropVal v :: rest) (hq : v.quiet) (hr : Ready s.heap v.held v.weaks) :
    ∃ n, runSteps n s = dropValQuiet { s with stack := rest } v := by
  have h1 : step s = { s with stack := .script v.held v.weaks [] :: .dropFields v.held v.weaks :: rest,
                              log := s.log ++ [.destroyed v.vid] } := by
    simp [step, he, hst, State.dropVal, push, emit, hq.1, hq.2]
  have h2 : step (step s) = { s with stack := .dropFields v.held v.weaks :: rest,
                                     log := s.log ++ [.destroyed v.vid] } := by
    rw [h1]; simp [step, he]
  obtain ⟨n1, hn1⟩ := run_held rest v.weaks v.held (step (step s)) (by rw [h2]; exact he)
    (by rw [h2]) (by
      rw [h2]
      intro t ht
      obtain ⟨ob, hg, hf, hd, _⟩ := hr.2 t ht
      exact ⟨ob, by simp [cell, hg, hf], hd⟩)
  obtain ⟨n2, hn2⟩ := run_weaks rest v.weaks (runSteps n1 (step (step s)))
    (by rw [hn1, h2]; exact he) (by rw [hn1]) (by rw [hn1, h2]; exact hr.1)
  refine ⟨2 + n1 + n2, ?_⟩
  rw [runSteps_add, runSteps_add]
  show runSteps n2 (runSteps n1 (step (step s))) = _
  rw [hn2, hn1, h2]
  rfl

/-! ### the control stack is not read by a release -/

theorem weakDrop_setStack (s : State) (x : List Frame) (t : Nat) :
    ({ s with stack := x } : State).weakDrop t = { s.weakDrop t with stack := x } := by
  simp only [weakDrop, decWeakFree, cell, fail, setObj, emit]
  repeat' split
  all_goals rfl

theorem releaseWeaks_setStack (ws : List Nat) (s : State) (x : List Frame) :
    releaseWeaks { s with stack := x } ws = { releaseWeaks s ws with stack := x } := by
  induction ws generalizing s with
  | nil => rfl
  | cons w ws ih =>
    show releaseWeaks (({ s with stack := x } : State).weakDrop w) ws = _
    rw [weakDrop_setStack, ih]
    rfl

theorem dropValQuiet_setStack (s : State) (x : List Frame) (v : Val) :
    dropValQuiet { s with stack := x } v = { dropValQuiet s v with stack := x } := by
  unfold dropValQuiet
  exact releaseWeaks_setStack v.weaks (s.emit (.destroyed v.vid)) x

theorem blockResult_setStack (vs : List Val) (s : State) (x : List Frame) :
    blockResult { s with stack := x } vs = { blockResult s vs with stack := x } := by
  induction vs generalizing s with
  | nil => rfl
  | cons v vs ih =>
    show blockResult (dropValQuiet { s with stack := x } v) vs = _
    rw [dropValQuiet_setStack, ih]
    rfl

/-! ### transporting the side conditions over a value -/

theorem relObj_lt (ob : Obj) (c : Nat) (h : c < ob.weak) :
    (relObj ob c).freed = ob.freed ∧ (relObj ob c).weak = ob.weak - c
      ∧ (relObj ob c).strong = ob.strong := by
  unfold relObj
  by_cases hc : c = 0
  · subst hc; simp
  · simp [hc, h]

theorem Ready.left {h : List Obj} {hs1 hs2 w1 w2 : List Nat}
    (hr : Ready h (hs1 ++ hs2) (w1 ++ w2)) : Ready h hs1 w1 := by
  constructor
  · intro t ht
    obtain ⟨ob, h1, h2, h3⟩ := hr.1 t (List.mem_append_left _ ht)
    rw [List.count_append] at h3
    exact ⟨ob, h1, h2, by omega⟩
  · intro t ht
    obtain ⟨ob, h1, h2, h3, h4⟩ := hr.2 t (List.mem_append_left _ ht)
    rw [List.count_append] at h4
    exact ⟨ob, h1, h2, h3, by omega⟩

theorem Ready.right {h h' : List Obj} {hs1 hs2 w1 w2 : List Nat}
    (hr : Ready h (hs1 ++ hs2) (w1 ++ w2))
    (hh : ∀ i, h'[i]? = (h[i]?).map (fun ob => relObj ob (w1.count i))) : Ready h' hs2 w2 := by
  constructor
  · intro t ht
    obtain ⟨ob, h1, h2, h3⟩ := hr.1 t (List.mem_append_right _ ht)
    rw [List.count_append] at h3
    have hpos : 0 < w2.count t := List.count_pos_iff.mpr ht
    obtain ⟨e1, e2, _⟩ := relObj_lt ob (w1.count t) (by omega)
    refine ⟨relObj ob (w1.count t), by rw [hh t, h1]; rfl, by rw [e1]; exact h2, by rw [e2]; omega⟩
  · intro t ht
    obtain ⟨ob, h1, h2, h3, h4⟩ := hr.2 t (List.mem_append_right _ ht)
    rw [List.count_append] at h4
    obtain ⟨e1, e2, e3⟩ := relObj_lt ob (w1.count t) (by omega)
    refine ⟨relObj ob (w1.count t), by rw [hh t, h1]; rfl, by rw [e1]; exact h2,
      by rw [e3]; exact h3, by rw [e2]; omega⟩

/-- closed form of one quiet value -/
theorem dropValQuiet_spec (s : State) (v : Val) (hgood : GoodW s.heap v.weaks) :
    dropValQuiet s v = { s with heap := (dropValQuiet s v).heap, log := (dropValQuiet s v).log }
    ∧ ∀ i, (dropValQuiet s v).heap[i]? = (s.heap[i]?).map (fun ob => relObj ob (v.weaks.count i)) := by
  have h := releaseWeaks_spec (s.emit (.destroyed v.vid)) v.weaks hgood
  exact ⟨h.1, h.2.1⟩

/-- **Running a block.**  The machine runs a block of `dropVal` frames of quiet values whose
strong handles are inert to completion, and the result is the closed form `blockResult`. -/
theorem run_block (vs : List Val) :
    ∀ (s : State) (rest : List Frame), s.err = none → s.stack = vs.map Frame.dropVal ++ rest →
      (∀ v ∈ vs, v.quiet) →
      Ready s.heap (vs.map (·.held)).flatten (vs.map (·.weaks)).flatten →
      ∃ n, runSteps n s = blockResult { s with stack := rest } vs := by
  induction vs with
  | nil =>
    intro s rest _ hst _ _
    refine ⟨0, ?_⟩
    show s = { s with stack := rest }
    rw [← show s.stack = rest from hst]
  | cons v vs ih =>
    intro s rest he hst hq hr
    simp only [List.map_cons, List.flatten_cons] at hr
    obtain ⟨n1, hn1⟩ := run_dropVal s v (vs.map Frame.dropVal ++ rest) he hst
      (hq v (List.mem_cons_self ..)) hr.left
    have hsp := dropValQuiet_spec { s with stack := vs.map Frame.dropVal ++ rest } v hr.left.1
    have hctl := hsp.1
    obtain ⟨s1, hs1⟩ : ∃ s1, s1 = dropValQuiet { s with stack := vs.map Frame.dropVal ++ rest } v :=
      ⟨_, rfl⟩
    rw [← hs1] at hn1 hsp hctl
    have hst1 : s1.stack = vs.map Frame.dropVal ++ rest := by rw [hctl]
    have he1 : s1.err = none := by rw [hctl]; exact he
    obtain ⟨n2, hn2⟩ := ih s1 rest he1 hst1 (fun v hv => hq v (List.mem_cons_of_mem _ hv))
      (hr.right hsp.2)
    refine ⟨n1 + n2, ?_⟩
    rw [runSteps_add, hn1, hn2]
    show _ = blockResult (dropValQuiet { s with stack := rest } v) vs
    congr 1
    rw [hs1, dropValQuiet_setStack s _ v, dropValQuiet_setStack s rest v]

/-! ## The block in closed form, and its independence of the order -/

/-- the Weak handles released / the strong handles dropped by a block -/
def blockWeaks (vs : List Val) : List Nat := (vs.map (·.weaks)).flatten
def blockHeld (vs : List Val) : List Nat := (vs.map (·.held)).flatten

theorem blockWeaks_perm {vs vs' : List Val} (hp : vs.Perm vs') :
    (blockWeaks vs).Perm (blockWeaks vs') := (hp.map _).flatten
theorem blockHeld_perm {vs vs' : List Val} (hp : vs.Perm vs') :
    (blockHeld vs).Perm (blockHeld vs') := (hp.map _).flatten

theorem Ready.perm {h : List Obj} {hs hs' ws ws' : List Nat} (hr : Ready h hs ws)
    (hph : hs.Perm hs') (hpw : ws.Perm ws') : Ready h hs' ws' := by
  refine ⟨hr.1.perm hpw, ?_⟩
  intro t ht
  obtain ⟨ob, h1, h2, h3, h4⟩ := hr.2 t (hph.mem_iff.mpr ht)
  exact ⟨ob, h1, h2, h3, by rw [← hpw.count_eq]; exact h4⟩

/-- **Closed form of a block**: all components but heap and log are untouched, the heap is the
heap after releasing the Weak handles of the block (in any order), and the log is extended by a
permutation of the `destroyed` events of the values and the `freed` events of the releases. -/
theorem blockResult_spec (s : State) (vs : List Val) (hgood : GoodW s.heap (blockWeaks vs)) :
    blockResult s vs = { s with heap := (blockResult s vs).heap, log := (blockResult s vs).log }
    ∧ (blockResult s vs).heap = (releaseWeaks s (blockWeaks vs)).heap
    ∧ ∃ l, (blockResult s vs).log = s.log ++ l
        ∧ l.Perm (vs.map (fun v => Ev.destroyed v.vid) ++ freedLog s (blockWeaks vs)) := by
  have h1 := runItems_spec (blockItems vs) s (by rw [rels_blockItems]; exact hgood)
  rw [← blockResult_eq_runItems] at h1
  obtain ⟨h2c, h2h, _, h2l⟩ := releaseWeaks_spec s (blockWeaks vs) hgood
  refine ⟨h1.ctl, ?_, ?_⟩
  · apply List.ext_getElem?
    intro i
    rw [h1.heap i, h2h i, rels_blockItems]; rfl
  · obtain ⟨l, hl, hc⟩ := h1.log
    refine ⟨l, hl, ?_⟩
    rw [List.perm_iff_count]
    intro e
    rw [hc e, List.count_append, h2l e, evs_blockItems, rels_blockItems]; rfl

/-- **Main theorem.**  A block of `dropVal` frames of quiet values whose strong handles designate
dead readable cells runs to completion; the final state has the rest of the stack, no error, the
heap obtained by releasing all Weak handles of the block, unchanged handle tables, and a log
extended by a permutation of the `destroyed` events and the `freed` events of the releases. -/
theorem dropVal_block (s : State) (vs : List Val) (rest : List Frame)
    (herr : s.err = none) (hstack : s.stack = vs.map Frame.dropVal ++ rest)
    (hq : ∀ v ∈ vs, v.quiet) (hr : Ready s.heap (blockHeld vs) (blockWeaks vs)) :
    ∃ n s', runSteps n s = s' ∧ s' = blockResult { s with stack := rest } vs
      ∧ s'.stack = rest ∧ s'.err = none
      ∧ s'.heap = (releaseWeaks { s with stack := rest } (blockWeaks vs)).heap
      ∧ s'.roots = s.roots ∧ s'.wroots = s.wroots ∧ s'.vals = s.vals ∧ s'.raws = s.raws
      ∧ s'.unwinding = s.unwinding ∧ s'.hint = s.hint ∧ s'.nextVid = s.nextVid
      ∧ ∃ l, s'.log = s.log ++ l
          ∧ l.Perm (vs.map (fun v => Ev.destroyed v.vid)
                      ++ freedLog { s with stack := rest } (blockWeaks vs)) := by
  obtain ⟨n, hn⟩ := run_block vs s rest herr hstack hq hr
  obtain ⟨hc, hh, hl⟩ := blockResult_spec { s with stack := rest } vs hr.1
  refine ⟨n, _, hn, rfl, ?_, ?_, hh, ?_, ?_, ?_, ?_, ?_, ?_, ?_, hl⟩
  all_goals rw [hc]
  exact herr

/-- **C09, order of destruction.**  Two blocks that are permutations of each other, run from the
same state, end in states with equal heaps, equal handle tables, equal stack and no error, and
logs that are permutations of each other. -/
theorem group_order_irrelevant (s : State) (vs vs' : List Val) (rest : List Frame)
    (hp : vs.Perm vs') (herr : s.err = none) (hstack : s.stack = vs.map Frame.dropVal ++ rest)
    (hq : ∀ v ∈ vs, v.quiet) (hr : Ready s.heap (blockHeld vs) (blockWeaks vs)) :
    ∃ n n' s1 s2, runSteps n s = s1
      ∧ runSteps n' { s with stack := vs'.map Frame.dropVal ++ rest } = s2
      ∧ s1.heap = s2.heap ∧ s1.roots = s2.roots ∧ s1.wroots = s2.wroots ∧ s1.vals = s2.vals
      ∧ s1.raws = s2.raws ∧ s1.stack = rest ∧ s2.stack = rest ∧ s1.err = none ∧ s2.err = none
      ∧ s2 = { s1 with log := s2.log }
      ∧ s1.log.Perm s2.log := by
  have hr' : Ready s.heap (blockHeld vs') (blockWeaks vs') :=
    hr.perm (blockHeld_perm hp) (blockWeaks_perm hp)
  obtain ⟨n, s1, hn, hs1, h1⟩ := dropVal_block s vs rest herr hstack hq hr
  obtain ⟨n', s2, hn', hs2, h2⟩ :=
    dropVal_block { s with stack := vs'.map Frame.dropVal ++ rest } vs' rest herr rfl
      (fun v hv => hq v (hp.mem_iff.mpr hv)) hr'
  have hs2' : s2 = blockResult { s with stack := rest } vs' := hs2
  have hperm := runItems_perm { s with stack := rest } (blockItems vs) (blockItems vs')
    (by rw [rels_blockItems]; exact hr.1)
    (by rw [rels_blockItems, rels_blockItems]; exact blockWeaks_perm hp)
    (by rw [evs_blockItems, evs_blockItems]; exact hp.map _)
  rw [← blockResult_eq_runItems, ← blockResult_eq_runItems, ← hs1, ← hs2'] at hperm
  obtain ⟨e1, e2, e3⟩ := hperm
  refine ⟨n, n', s1, s2, hn, hn', e1.symm, ?_, ?_, ?_, ?_, h1.1, h2.1, h1.2.1, h2.2.1, e2, e3.symm⟩
  all_goals rw [e2]

/-- the instance that matters: the order chosen by two different layout hints -/
theorem group_order_irrelevant_reorder (s : State) (hint hint' : List Nat) (xs : List Val)
    (rest : List Frame) (herr : s.err = none)
    (hstack : s.stack = (reorder hint xs).map Frame.dropVal ++ rest)
    (hq : ∀ v ∈ xs, v.quiet) (hr : Ready s.heap (blockHeld xs) (blockWeaks xs)) :
    ∃ n n' s1 s2, runSteps n s = s1
      ∧ runSteps n' { s with stack := (reorder hint' xs).map Frame.dropVal ++ rest } = s2
      ∧ s1.heap = s2.heap ∧ s1.roots = s2.roots ∧ s1.wroots = s2.wroots ∧ s1.vals = s2.vals
      ∧ s1.raws = s2.raws ∧ s1.stack = rest ∧ s2.stack = rest ∧ s1.err = none ∧ s2.err = none
      ∧ s2 = { s1 with log := s2.log }
      ∧ s1.log.Perm s2.log :=
  group_order_irrelevant s (reorder hint xs) (reorder hint' xs) rest
    ((reorder_perm hint xs).trans (reorder_perm hint' xs).symm) herr hstack
    (fun v hv => hq v ((mem_reorder hint xs v).mp hv))
    (hr.perm (blockHeld_perm (reorder_perm hint xs).symm) (blockWeaks_perm (reorder_perm hint xs).symm))

/-! ## The side conditions follow from the invariants -/

theorem blockWeaks_le_pendW (s : State) (vs : List Val) (rest : List Frame)
    (hst : s.stack = vs.map Frame.dropVal ++ rest) (t : Nat) :
    (blockWeaks vs).count t ≤ s.pendW t := by
  have : sumList ((vs.map Frame.dropVal).map (Frame.weakTo t)) = (blockWeaks vs).count t := by
    rw [blockWeaks, List.count_flatten, sumList_eq_sum]
    simp only [List.map_map]
    rfl
  rw [pendW, hst, List.map_append, sumList_append, this]
  omega

theorem blockHeld_le_pend (s : State) (vs : List Val) (rest : List Frame)
    (hst : s.stack = vs.map Frame.dropVal ++ rest) (t : Nat) :
    (blockHeld vs).count t ≤ s.pend t := by
  have : sumList ((vs.map Frame.dropVal).map (Frame.strongTo t)) = (blockHeld vs).count t := by
    rw [blockHeld, List.count_flatten, sumList_eq_sum]
    simp only [List.map_map]
    rfl
  rw [pend, hst, List.map_append, sumList_append, this]
  omega

/-- In a state satisfying the invariants (every `ReachableP` state without error does), a block
of `dropVal` frames on top of the stack whose strong handles all designate non-live objects
(`full_group_closed`: under `Full` the values of a collected group hold handles to members only)
satisfies the side conditions of `dropVal_block`: Weak handles of frames are counted in `pendW`
(`InvW`), a counted weak reference keeps the allocation (`InvO`), and a dead target of a pending
strong handle still owns its implicit weak reference (`InvS`). -/
theorem ready_of_inv (s : State) (vs : List Val) (rest : List Frame)
    (hcore : s.InvCore) (hR : s.InvR) (hS : s.InvSCore)
    (hst : s.stack = vs.map Frame.dropVal ++ rest)
    (hdead : ∀ t ∈ blockHeld vs, s.isLive t = false) :
    Ready s.heap (blockHeld vs) (blockWeaks vs) := by
  obtain ⟨hO, _, _, hW, _⟩ := hcore
  constructor
  · intro t ht
    have hpos : 0 < (blockWeaks vs).count t := List.count_pos_iff.mpr ht
    have hle := blockWeaks_le_pendW s vs rest hst t
    have hlt : t < s.heap.length := by
      apply Nat.lt_of_not_le
      intro hge
      have := (hR t hge).2
      omega
    have hw := hW t hlt
    obtain ⟨ob, hg⟩ : ∃ ob, s.heap[t]? = some ob := ⟨s.heap[t], List.getElem?_eq_getElem hlt⟩
    have hwn : s.weakNat t = ob.weak := by simp [weakNat, hg]
    have hfr := (hO t ob hg).2.2.2
    refine ⟨ob, hg, ?_, by omega⟩
    cases hf : ob.freed with
    | false => rfl
    | true => have := hfr.mp hf; omega
  · intro t ht
    have hpos : 0 < (blockHeld vs).count t := List.count_pos_iff.mpr ht
    have hle := blockHeld_le_pend s vs rest hst t
    obtain ⟨ob, hg, hu, _, himp⟩ := hS.2.1 t (by omega) (hdead t ht)
    have hlt : t < s.heap.length := (List.getElem?_eq_some_iff.mp hg).1
    have hw := hW t hlt
    have hwn : s.weakNat t = ob.weak := by simp [weakNat, hg]
    have hin : s.implicitNat t = 1 := by simp [implicitNat, hg, himp]
    have hlw := blockWeaks_le_pendW s vs rest hst t
    have hfr := (hO t ob hg).2.2.2
    refine ⟨ob, hg, ?_, by rw [hu]; rfl, by omega⟩
    cases hf : ob.freed with
    | false => rfl
    | true => have := hfr.mp hf; omega

/-! ## The strict side condition is needed

If a Weak handle of one value is the *last* weak reference of an allocation to which another
value of the block holds a strong handle, the order does matter: releasing first frees the
allocation and the later `<Rc as Drop>::drop` reads released memory.  (Impossible for a collected
group: its members keep their implicit weak reference until `phase3`, after the block.) -/

example :
    let dead : Obj := { strong := .uninit, weak := 1, links := none, value := none, freed := false }
    let v1 : Val := { vid := 1, held := [], weaks := [0], script := [], panics := false }
    let v2 : Val := { vid := 2, held := [0], weaks := [], script := [], panics := false }
    (runSteps 9 { heap := [dead], stack := [.dropVal v1, .dropVal v2] }).err = some (.uaf 0)
    ∧ (runSteps 9 { heap := [dead], stack := [.dropVal v2, .dropVal v1] }).err = none := by
  decide

end Cactus
