import Cactus.Lemmas.Count
import Cactus.Lemmas.Orphan
import Cactus.Lemmas.CycleStruct
/-!
# Invariant preservation: the trace path of `Rc::drop` and the group teardown `dropCycle`

* `Teardown s s' ks vs` is an abstract description of what `dropCycle` does to a state (the members
  `ks` become uninit with value and table moved out, the values `vs` go to `dropVal` frames, a
  `phase3 ks` frame is pushed, survivors have no recorded adoption from/to a member).
* `Teardown.invCore`: such a step preserves `InvCore`.
* `dropCycle_teardown`: `dropCycle` after a passed orphan test is such a step.
* `dropCycle_inv`, `trace_branch_inv`: the results.
-/
namespace Cactus
open State

/-! ## sums -/

/-- a sum over `List.range n` of a function supported on a duplicate-free list of indices -/
theorem sumList_range_indicator (n : Nat) (ks : List Nat) (g : Nat → Nat) (hnd : ks.Nodup)
    (hlt : ∀ k ∈ ks, k < n) :
    sumList ((List.range n).map (fun a => if a ∈ ks then g a else 0)) = sumList (ks.map g) := by
  induction ks with
  | nil => simp
  | cons k ks ih =>
    have hnd' : k ∉ ks ∧ ks.Nodup := by simpa using hnd
    have ih' := ih hnd'.2 (fun k' hk' => hlt k' (List.mem_cons_of_mem _ hk'))
    have hu := sumList_range_update n k (fun a => if a ∈ ks then g a else 0)
      (fun a => if a ∈ k :: ks then g a else 0) (hlt k List.mem_cons_self)
      (fun i _ hik => by simp [hik])
    have h1 : (if k ∈ ks then g k else 0) = 0 := if_neg hnd'.1
    have h2 : (if k ∈ k :: ks then g k else 0) = g k := if_pos List.mem_cons_self
    rw [h1, h2] at hu
    simp only [List.map_cons, sumList_cons]
    omega

/-- summing over values that are given positionally as optional images of indices -/
theorem sumList_map_of_map_some {α : Type} (vs : List Val) (ks : List α) (φ : α → Option Val)
    (f : Val → Nat) (h : vs.map some = ks.map φ) :
    sumList (vs.map f) = sumList (ks.map (fun k => ((φ k).map f).getD 0)) := by
  have e : vs.map f = (vs.map some).map (fun o => (o.map f).getD 0) := by
    rw [List.map_map]; rfl
  rw [e, h, List.map_map]; rfl

theorem sumList_strongTo_dropVal (vs : List Val) (t : Nat) :
    sumList ((vs.map Frame.dropVal).map (Frame.strongTo t))
      = sumList (vs.map (fun v => v.held.count t)) := by
  rw [List.map_map]; rfl

theorem sumList_weakTo_dropVal (vs : List Val) (t : Nat) :
    sumList ((vs.map Frame.dropVal).map (Frame.weakTo t))
      = sumList (vs.map (fun v => v.weaks.count t)) := by
  rw [List.map_map]; rfl

theorem sumList_owes_dropVal (vs : List Val) (t : Nat) :
    sumList ((vs.map Frame.dropVal).map (Frame.owes t)) = 0 := by
  rw [List.map_map]
  exact sumList_map_const_zero vs

/-! ## abstract teardown step -/

/-- `s'` arises from `s` by tearing down the group `ks` whose values are `vs` -/
structure Teardown (s s' : State) (ks : List Nat) (vs : List Val) : Prop where
  nodup : ks.Nodup
  live : ∀ k ∈ ks, s.isLive k = true
  len : s'.heap.length = s.heap.length
  key : ∀ k ∈ ks, ∀ ob, s.heap[k]? = some ob → s'.heap[k]? = some (p2Obj ob)
  other : ∀ o, o ∉ ks → s'.heap[o]? = s.heap[o]?
  vals : vs.map some = ks.map (fun k => (s.heap[k]?).bind (fun ob => ob.value))
  stack : ∃ vs' : List Val, vs'.Perm vs ∧
    s'.stack = vs'.map Frame.dropVal ++ [Frame.phase3 ks] ++ s.stack
  roots : s'.roots = s.roots
  wroots : s'.wroots = s.wroots
  pvals : s'.vals = s.vals
  raws : s'.raws = s.raws
  clean : ∀ a, s.isLive a = true → a ∉ ks → ∀ m ∈ ks, s.F a m = 0 ∧ s.B a m = 0

namespace Teardown

variable {s s' : State} {ks : List Nat} {vs : List Val}

theorem key_obj (h : Teardown s s' ks vs) {k : Nat} (hk : k ∈ ks) :
    ∃ ob n, s.heap[k]? = some ob ∧ ob.freed = false ∧ ob.strong = .cnt (n + 1)
      ∧ s'.heap[k]? = some (p2Obj ob) := by
  obtain ⟨ob, n, hg, hf, hs⟩ := (State.isLive_iff s k).mp (h.live k hk)
  exact ⟨ob, n, hg, hf, hs, h.key k hk ob hg⟩

theorem key_not_live (h : Teardown s s' ks vs) {k : Nat} (hk : k ∈ ks) : s'.isLive k = false := by
  obtain ⟨ob, n, -, -, -, hg'⟩ := h.key_obj hk
  rw [State.isLive_of_get hg']
  simp [p2Obj]

theorem isLive_other (h : Teardown s s' ks vs) {a : Nat} (ha : a ∉ ks) :
    s'.isLive a = s.isLive a := by
  simp only [State.isLive, h.other a ha]

theorem isLive_iff (h : Teardown s s' ks vs) (a : Nat) :
    s'.isLive a = true ↔ s.isLive a = true ∧ a ∉ ks := by
  by_cases ha : a ∈ ks
  · simp [h.key_not_live ha, ha]
  · simp [h.isLive_other ha, ha]

theorem tableOf_other (h : Teardown s s' ks vs) {a : Nat} (ha : a ∉ ks) :
    s'.tableOf a = s.tableOf a := by
  simp only [State.tableOf, State.cell, h.other a ha]

theorem tableOf_key (h : Teardown s s' ks vs) {k : Nat} (hk : k ∈ ks) : s'.tableOf k = none := by
  obtain ⟨ob, n, -, -, -, hg'⟩ := h.key_obj hk
  rw [State.tableOf_of_get hg']
  show (if ob.freed then none else none) = none
  cases ob.freed <;> rfl

theorem tbl_other (h : Teardown s s' ks vs) {a : Nat} (ha : a ∉ ks) : s'.tbl a = s.tbl a := by
  simp only [State.tbl, h.tableOf_other ha]

theorem strongNat_other (h : Teardown s s' ks vs) {a : Nat} (ha : a ∉ ks) :
    s'.strongNat a = s.strongNat a := by
  simp only [State.strongNat, h.other a ha]

theorem weakNat_eq (h : Teardown s s' ks vs) (a : Nat) : s'.weakNat a = s.weakNat a := by
  by_cases ha : a ∈ ks
  · obtain ⟨ob, n, hg, -, -, hg'⟩ := h.key_obj ha
    rw [State.weakNat_of_get hg', State.weakNat_of_get hg]; rfl
  · simp only [State.weakNat, h.other a ha]

theorem implicitNat_eq (h : Teardown s s' ks vs) (a : Nat) :
    s'.implicitNat a = s.implicitNat a := by
  by_cases ha : a ∈ ks
  · obtain ⟨ob, n, hg, -, -, hg'⟩ := h.key_obj ha
    rw [State.implicitNat_of_get hg', State.implicitNat_of_get hg]; rfl
  · simp only [State.implicitNat, h.other a ha]

theorem key_lt (h : Teardown s s' ks vs) : ∀ k ∈ ks, k < s.heap.length :=
  fun k hk => State.isLive_lt (h.live k hk)

/-- generic form of "the members' values left the heap" -/
theorem sum_split (h : Teardown s s' ks vs) (f : Val → Nat) (g g' : Nat → Nat)
    (hkey : ∀ a ∈ ks, g' a = 0) (hother : ∀ a, a ∉ ks → g' a = g a)
    (hg : ∀ k, g k = (((s.heap[k]?).bind (fun ob => ob.value)).map f).getD 0) :
    sumList ((List.range s'.heap.length).map g') + sumList (vs.map f)
      = sumList ((List.range s.heap.length).map g) := by
  rw [h.len]
  have hpt : ∀ a, a < s.heap.length → g a = g' a + (if a ∈ ks then g a else 0) := by
    intro a _
    by_cases ha : a ∈ ks
    · simp [ha, hkey a ha]
    · simp [ha, hother a ha]
  have e1 := sumList_range_congr s.heap.length
    (fun a => g' a + (if a ∈ ks then g a else 0)) g hpt
  rw [sumList_map_add, sumList_range_indicator _ _ _ h.nodup h.key_lt] at e1
  have e2 := sumList_map_of_map_some vs ks _ f h.vals
  have e3 : (fun k => (((s.heap[k]?).bind (fun ob => ob.value)).map f).getD 0) = g := by
    funext k; exact (hg k).symm
  rw [e3] at e2
  omega

theorem inHeap_eq (h : Teardown s s' ks vs) (t : Nat) :
    s'.inHeap t + sumList (vs.map (fun v => v.held.count t)) = s.inHeap t := by
  unfold State.inHeap
  apply h.sum_split (fun v => v.held.count t)
  · intro a ha
    obtain ⟨ob, n, -, -, -, hg'⟩ := h.key_obj ha
    rw [State.heldOf_of_get hg']; rfl
  · intro a ha
    simp only [State.heldOf, h.other a ha]
  · intro k
    unfold State.heldOf
    cases s.heap[k]? with
    | none => rfl
    | some ob => cases hv : ob.value <;> simp [hv]

theorem inHeapW_eq (h : Teardown s s' ks vs) (t : Nat) :
    s'.inHeapW t + sumList (vs.map (fun v => v.weaks.count t)) = s.inHeapW t := by
  unfold State.inHeapW
  apply h.sum_split (fun v => v.weaks.count t)
  · intro a ha
    obtain ⟨ob, n, -, -, -, hg'⟩ := h.key_obj ha
    rw [State.weaksOf_of_get hg']; rfl
  · intro a ha
    simp only [State.weaksOf, h.other a ha]
  · intro k
    unfold State.weaksOf
    cases s.heap[k]? with
    | none => rfl
    | some ob => cases hv : ob.value <;> simp [hv]

theorem pend_eq (h : Teardown s s' ks vs) (t : Nat) :
    s'.pend t = sumList (vs.map (fun v => v.held.count t)) + s.pend t := by
  obtain ⟨vs', hp, hst⟩ := h.stack
  unfold State.pend
  rw [hst, List.map_append, List.map_append, sumList_append, sumList_append,
    sumList_strongTo_dropVal, sumList_map_perm hp]
  simp

theorem pendW_eq (h : Teardown s s' ks vs) (t : Nat) :
    s'.pendW t = sumList (vs.map (fun v => v.weaks.count t)) + s.pendW t := by
  obtain ⟨vs', hp, hst⟩ := h.stack
  unfold State.pendW
  rw [hst, List.map_append, List.map_append, sumList_append, sumList_append,
    sumList_weakTo_dropVal, sumList_map_perm hp]
  simp

theorem owed_eq (h : Teardown s s' ks vs) (t : Nat) :
    s'.owed t = ks.count t + s.owed t := by
  obtain ⟨vs', hp, hst⟩ := h.stack
  unfold State.owed
  rw [hst, List.map_append, List.map_append, sumList_append, sumList_append,
    sumList_owes_dropVal]
  simp

theorem finishSingle_mem (h : Teardown s s' ks vs) {o : Nat}
    (hm : Frame.finishSingle o ∈ s'.stack) : Frame.finishSingle o ∈ s.stack := by
  obtain ⟨vs', -, hst⟩ := h.stack
  rw [hst] at hm
  simpa using hm

theorem phase3_mem (h : Teardown s s' ks vs) {ks' : List Nat}
    (hm : Frame.phase3 ks' ∈ s'.stack) : ks' = ks ∨ Frame.phase3 ks' ∈ s.stack := by
  obtain ⟨vs', -, hst⟩ := h.stack
  rw [hst] at hm
  simpa using hm

/-! ### the five clauses -/

theorem invO (h : Teardown s s' ks vs) (hO : s.InvO) : s'.InvO := by
  intro o ob' hg'
  by_cases ho : o ∈ ks
  · obtain ⟨ob, n, hg, hf, hs, hk'⟩ := h.key_obj ho
    rw [hk'] at hg'
    cases hg'
    obtain ⟨-, -, -, h4⟩ := hO o ob hg
    refine ⟨?_, ?_, ?_, h4⟩
    · intro m hm; simp [p2Obj] at hm
    · intro hm; simp [p2Obj] at hm
    · intro _; exact ⟨rfl, Or.inl rfl⟩
  · rw [h.other o ho] at hg'
    exact hO o ob' hg'

theorem invB (h : Teardown s s' ks vs) (hO : s.InvO) (hB : s.InvB) : s'.InvB := by
  refine ⟨?_, ?_⟩
  · intro o t ht
    by_cases ho : o ∈ ks
    · rw [h.tableOf_key ho] at ht; cases ht
    · rw [h.tableOf_other ho] at ht
      obtain ⟨hwf, hent⟩ := hB.1 o t ht
      refine ⟨hwf, ?_⟩
      intro e he
      refine ⟨(hent e he).1, ?_⟩
      intro hk
      have hl := (hent e he).2 hk
      rw [h.isLive_iff]
      refine ⟨hl, ?_⟩
      intro hm
      -- `e` names the member `e.1.ptr` from the table of the non-member `o`
      have htbl : s.tbl o = t := State.tbl_eq_of_tableOf ht
      by_cases hlo : s.isLive o = true
      · obtain ⟨hF, hBk⟩ := h.clean o hlo ho e.1.ptr hm
        obtain ⟨⟨p, kd⟩, c⟩ := e
        cases kd with
        | loop => exact hk rfl
        | fwd =>
          have : 0 < s.F o p := (State.F_pos_iff hB o p).mpr ⟨c, by rw [htbl]; exact he⟩
          simp only at hF
          omega
        | bwd =>
          have : 0 < s.B o p := (State.B_pos_iff hB o p).mpr ⟨c, by rw [htbl]; exact he⟩
          simp only at hBk
          omega
      · -- a dead object with a readable table has an empty table
        obtain ⟨ob, hg, hf, hlk⟩ := (State.tableOf_eq_some_iff s o t).mp ht
        obtain ⟨h1, h2, h3, -⟩ := hO o ob hg
        have hdead : ob.strong.isDead = true := by
          have := State.isLive_of_get hg
          rw [hf] at this
          cases hd : ob.strong.isDead with
          | true => rfl
          | false => rw [hd] at this; exact absurd this hlo
        rcases (Strong.isDead_eq_true_iff _).mp hdead with h0 | hu
        · rw [(h2 h0).2] at hlk; cases hlk
        · rcases (h3 hu).2 with hn | ⟨hn, -⟩
          · rw [hn] at hlk; cases hlk
          · rw [hn] at hlk
            cases hlk
            cases he
  · intro a b ha hb
    obtain ⟨hla, hka⟩ := (h.isLive_iff a).mp ha
    obtain ⟨hlb, hkb⟩ := (h.isLive_iff b).mp hb
    have := hB.2 a b hla hlb
    simp only [State.F, State.B, h.tbl_other hka, h.tbl_other hkb] at this ⊢
    exact this

theorem invC (h : Teardown s s' ks vs) (hC : s.InvC) : s'.InvC := by
  intro t ht
  obtain ⟨hl, hk⟩ := (h.isLive_iff t).mp ht
  have h0 := hC t hl
  have h1 := h.strongNat_other hk
  have h2 := State.ext_congr h.roots h.raws h.pvals t
  have h3 := h.inHeap_eq t
  have h4 := h.pend_eq t
  omega

theorem invW (h : Teardown s s' ks vs) (hW : s.InvW) : s'.InvW := by
  intro t ht
  rw [h.len] at ht
  have h0 := hW t ht
  have h1 := h.weakNat_eq t
  have h2 := State.extW_congr h.wroots h.pvals t
  have h3 := h.inHeapW_eq t
  have h4 := h.pendW_eq t
  have h5 := h.implicitNat_eq t
  omega

/-- a member is not referred to by an older continuation frame -/
theorem owed_key (h : Teardown s s' ks vs) (hK : s.InvK) {k : Nat} (hk : k ∈ ks) :
    s.owed k = 0 := by
  obtain ⟨ob, n, hg, -, hs, -⟩ := h.key_obj hk
  apply Classical.byContradiction
  intro hne
  have hpos : 0 < s.owed k := by omega
  rcases (State.owed_pos_iff s k).mp hpos with hf | ⟨ks', hp, hm⟩
  · obtain ⟨ob', hg', hu, -⟩ := hK.1 k hf
    rw [hg] at hg'; cases hg'
    rw [hs] at hu; cases hu
  · obtain ⟨ob', hg', hu, -⟩ := hK.2.1 ks' hp k hm
    rw [hg] at hg'; cases hg'
    rw [hs] at hu; cases hu

theorem invK (h : Teardown s s' ks vs) (hO : s.InvO) (hK : s.InvK) : s'.InvK := by
  -- an object that is uninit in `s` is not a member
  have hnot : ∀ o ob, s.heap[o]? = some ob → ob.strong = .uninit → o ∉ ks := by
    intro o ob hg hu ho
    obtain ⟨ob', n, hg', -, hs, -⟩ := h.key_obj ho
    rw [hg] at hg'; cases hg'
    rw [hs] at hu; cases hu
  refine ⟨?_, ?_, ?_⟩
  · intro o hm
    obtain ⟨ob, hg, hu, rest⟩ := hK.1 o (h.finishSingle_mem hm)
    exact ⟨ob, by rw [h.other o (hnot o ob hg hu)]; exact hg, hu, rest⟩
  · intro ks' hm k hk
    rcases h.phase3_mem hm with rfl | hm'
    · obtain ⟨ob, n, hg, -, hs, hg'⟩ := h.key_obj hk
      obtain ⟨h1, -⟩ := hO k ob hg
      exact ⟨p2Obj ob, hg', rfl, rfl, (h1 n hs).2.2.2⟩
    · obtain ⟨ob, hg, hu, rest⟩ := hK.2.1 ks' hm' k hk
      exact ⟨ob, by rw [h.other k (hnot k ob hg hu)]; exact hg, hu, rest⟩
  · intro o
    rw [h.owed_eq]
    by_cases ho : o ∈ ks
    · have h1 : ks.count o = 1 := by rw [h.nodup.count, if_pos ho]
      have h2 := h.owed_key hK ho
      omega
    · have h1 : ks.count o = 0 := List.count_eq_zero.mpr ho
      have h2 := hK.2.2 o
      omega

/-- **an abstract teardown step preserves the invariant** -/
theorem invCore (h : Teardown s s' ks vs) (hI : s.InvCore) : s'.InvCore := by
  obtain ⟨hO, hB, hC, hW, hK⟩ := hI
  exact ⟨h.invO hO, h.invB hO hB, h.invC hC, h.invW hW, h.invK hO hK⟩

end Teardown

/-! ## `dropCycle` is a teardown step -/

/-- in a state satisfying the invariants, a passed orphan test makes the map ready for teardown -/
theorem cycleReady_of_inv (s : State) (o : Nat) (hO : s.InvO) (hB : s.InvB) (herr : s.err = none)
    (ho : s.isLive o = true) (hext : hasExternalOwners s (cycleRefs s o).cmap = false) :
    CycleReady s (cycleRefs s o).cmap where
  nodup := keys_nodup s o hO hB ho
  noerr := herr
  ready := by
    intro k hk
    obtain ⟨ob, n, hg, hf, hs⟩ := (State.isLive_iff s k).mp (keys_live s o hO hB ho k hk)
    obtain ⟨h1, -⟩ := hO k ob hg
    obtain ⟨hv, hl, -, -⟩ := h1 n hs
    have hle := strong_le_cmap s o hO hB ho hext k hk
    rw [State.strongNat_of_get hg, hs] at hle
    cases hvv : ob.value with
    | none => rw [hvv] at hv; cases hv
    | some v =>
      cases hll : ob.links with
      | none => rw [hll] at hl; cases hl
      | some t => exact ⟨ob, t, n + 1, v, hg, hf, hll, hs, hvv, hle⟩

theorem dropCycle_teardown (s : State) (o : Nat) (hO : s.InvO) (hB : s.InvB) (herr : s.err = none)
    (ho : s.isLive o = true) (hne : (cycleRefs s o).cmap.isEmpty = false)
    (hext : hasExternalOwners s (cycleRefs s o).cmap = false) :
    Teardown s (s.dropCycle (cycleRefs s o).cmap) (cycleRefs s o).cmap.keys
      (s.cyc2 (cycleRefs s o).cmap).2 := by
  have hR := cycleReady_of_inv s o hO hB herr ho hext
  have hsp := dropCycle_spec s _ hR
  exact {
    nodup := hR.nodup
    live := keys_live s o hO hB ho
    len := dropCycle_heap_length s _ hR
    key := fun k hk ob hg => dropCycle_heap_key s _ hR k hk ob hg
    other := fun a ha => dropCycle_heap_other s _ hR a ha
    vals := (phase2_spec s _ hR).2.2.2.2.2
    stack := ⟨_, reorder_perm s.hint _, hsp.2.2.1⟩
    roots := hsp.2.2.2.1
    wroots := hsp.2.2.2.2.1
    pvals := hsp.2.2.2.2.2.1
    raws := hsp.2.2.2.2.2.2.1
    clean := by
      intro a ha hak m hm
      have hkv := keys_eq_visited s o hO hB ho hne hext
      have := survivors_clean s o hO hB ho hne hext a ha (fun hv => hak ((hkv a).mpr hv)) m
        ((hkv m).mp hm)
      exact ⟨this.1, this.2.1⟩ }

/-- **`dropCycle` preserves the invariant** (core of the trace path of `Rc::drop`) -/
theorem dropCycle_inv (s2 : State) (o : Nat) (hI : s2.InvCore) (herr : s2.err = none)
    (ho : s2.isLive o = true) (hne : (cycleRefs s2 o).cmap.isEmpty = false)
    (hext : hasExternalOwners s2 (cycleRefs s2 o).cmap = false) :
    (s2.dropCycle (cycleRefs s2 o).cmap).InvCore :=
  (dropCycle_teardown s2 o hI.1 hI.2.1 herr ho hne hext).invCore hI

/-- the five clauses separately -/
theorem dropCycle_InvO (s2 : State) (o : Nat) (hI : s2.InvCore) (herr : s2.err = none)
    (ho : s2.isLive o = true) (hne : (cycleRefs s2 o).cmap.isEmpty = false)
    (hext : hasExternalOwners s2 (cycleRefs s2 o).cmap = false) :
    (s2.dropCycle (cycleRefs s2 o).cmap).InvO := (dropCycle_inv s2 o hI herr ho hne hext).1
theorem dropCycle_InvB (s2 : State) (o : Nat) (hI : s2.InvCore) (herr : s2.err = none)
    (ho : s2.isLive o = true) (hne : (cycleRefs s2 o).cmap.isEmpty = false)
    (hext : hasExternalOwners s2 (cycleRefs s2 o).cmap = false) :
    (s2.dropCycle (cycleRefs s2 o).cmap).InvB := (dropCycle_inv s2 o hI herr ho hne hext).2.1
theorem dropCycle_InvC (s2 : State) (o : Nat) (hI : s2.InvCore) (herr : s2.err = none)
    (ho : s2.isLive o = true) (hne : (cycleRefs s2 o).cmap.isEmpty = false)
    (hext : hasExternalOwners s2 (cycleRefs s2 o).cmap = false) :
    (s2.dropCycle (cycleRefs s2 o).cmap).InvC := (dropCycle_inv s2 o hI herr ho hne hext).2.2.1
theorem dropCycle_InvW (s2 : State) (o : Nat) (hI : s2.InvCore) (herr : s2.err = none)
    (ho : s2.isLive o = true) (hne : (cycleRefs s2 o).cmap.isEmpty = false)
    (hext : hasExternalOwners s2 (cycleRefs s2 o).cmap = false) :
    (s2.dropCycle (cycleRefs s2 o).cmap).InvW := (dropCycle_inv s2 o hI herr ho hne hext).2.2.2.1
theorem dropCycle_InvK (s2 : State) (o : Nat) (hI : s2.InvCore) (herr : s2.err = none)
    (ho : s2.isLive o = true) (hne : (cycleRefs s2 o).cmap.isEmpty = false)
    (hext : hasExternalOwners s2 (cycleRefs s2 o).cmap = false) :
    (s2.dropCycle (cycleRefs s2 o).cmap).InvK := (dropCycle_inv s2 o hI herr ho hne hext).2.2.2.2

/-! ## the trace only reads the heap -/

theorem traceLoop_congr {s s' : State} (h : ∀ n, s'.tableOf n = s.tableOf n) (f : Nat)
    (wl vis : List Nat) (m : CMap) (p : Nat) :
    traceLoop s' f wl vis m p = traceLoop s f wl vis m p := by
  induction f generalizing wl vis m p with
  | zero => rw [traceLoop_zero, traceLoop_zero]
  | succ f ih =>
    cases wl with
    | nil => rfl
    | cons n wl =>
      by_cases hn : n ∈ vis
      · rw [traceLoop_skip s' f n wl vis m p hn, traceLoop_skip s f n wl vis m p hn]
        exact ih _ _ _ _
      · cases ht : s.tableOf n with
        | none =>
          rw [traceLoop_bad s' f n wl vis m p hn ((h n).trans ht),
            traceLoop_bad s f n wl vis m p hn ht]
        | some t =>
          rw [traceLoop_scan s' f n wl vis m p t hn ((h n).trans ht),
            traceLoop_scan s f n wl vis m p t hn ht]
          exact ih _ _ _ _

theorem cycleRefs_congr {s s' : State} (h : s'.heap = s.heap) (x : Nat) :
    cycleRefs s' x = cycleRefs s x := by
  unfold cycleRefs
  have hf : traceFuel s' = traceFuel s := by unfold traceFuel; rw [h]
  rw [hf]
  exact traceLoop_congr (fun n => State.tableOf_congr h n) _ _ _ _ _

@[simp] theorem cycleRefs_emit (s : State) (e : Ev) (x : Nat) :
    cycleRefs (s.emit e) x = cycleRefs s x :=
  cycleRefs_congr (s := s) (s' := s.emit e) rfl x

/-! ## `emit` preserves the invariant -/

theorem State.InvCore_emit {s : State} (hI : s.InvCore) (e : Ev) : (s.emit e).InvCore := hI

/-! ## the trace branch of `Rc::drop` -/

/-- what `<Rc as Drop>::drop` does after the decrement when the object keeps other handles and has
a non-empty link table (mirrors `State.rcDrop`) -/
def State.traceBranch (s1 : State) (o : Nat) : State :=
  let tr := cycleRefs s1 o
  let s2 := s1.emit (.traced o tr.visited.length tr.popped)
  match tr.bad with
  | some b => s2.fail (s2.linksErr b)
  | none =>
    if tr.outOfFuel then s2.fail .fuel
    else if tr.cmap.isEmpty then s2
    else
      match firstUnreadable s2 tr.cmap with
      | some b => s2.fail (.uaf b)
      | none => if hasExternalOwners s2 tr.cmap then s2 else s2.dropCycle tr.cmap

theorem State.rcDrop_eq_traceBranch (s0 : State) (o : Nat) (ob : Obj) (n : Nat) (t : Table)
    (hc : s0.cell o = some ob) (hs : ob.strong = .cnt (n + 2)) (hl : ob.links = some t)
    (ht : t.isEmpty = false) :
    s0.rcDrop o = (s0.setObj o { ob with strong := .cnt (n + 1) }).traceBranch o := by
  unfold State.rcDrop State.traceBranch
  simp only [hc, hs, hl, ht]
  rw [if_neg Bool.false_ne_true, if_neg (Nat.succ_ne_zero n)]
  rfl

/-- **the trace branch of `Rc::drop` preserves the invariant** -/
theorem trace_branch_inv (s1 : State) (o : Nat) (herr : s1.err = none) (hI : s1.InvCore)
    (ho : s1.isLive o = true) : (s1.traceBranch o).Inv := by
  obtain ⟨hbad, hfuel⟩ := cycleRefs_ok s1 o hI.1 hI.2.1 ho
  unfold State.traceBranch
  simp only [hbad, hfuel]
  generalize he : Ev.traced o (cycleRefs s1 o).visited.length (cycleRefs s1 o).popped = e
  have hI2 : (s1.emit e).InvCore := State.InvCore_emit hI e
  have hcr : cycleRefs (s1.emit e) o = cycleRefs s1 o := cycleRefs_emit s1 e o
  have ho2 : (s1.emit e).isLive o = true := ho
  have herr2 : (s1.emit e).err = none := herr
  have hfu := firstUnreadable_none (s1.emit e) o hI2.1 hI2.2.1 ho2
  rw [hcr] at hfu
  simp only [hfu]
  by_cases hemp : (cycleRefs s1 o).cmap.isEmpty = true
  · simp only [hemp]
    exact fun _ => hI2
  · have hemp' : (cycleRefs s1 o).cmap.isEmpty = false := by simpa using hemp
    simp only [hemp']
    cases hext : hasExternalOwners (s1.emit e) (cycleRefs s1 o).cmap with
    | true => exact fun _ => hI2
    | false =>
      intro _
      have := dropCycle_inv (s1.emit e) o hI2 herr2 ho2 (by rw [hcr]; exact hemp')
        (by rw [hcr]; exact hext)
      rw [hcr] at this
      simpa using this

end Cactus
