import Cactus.Lemmas.Inv.ActsSimple
import Cactus.Lemmas.Inv.ActsLinks
import Cactus.Lemmas.Inv.ActsConsume
import Cactus.Lemmas.Inv.Frames
import Cactus.Lemmas.Inv.DropSingle
import Cactus.Lemmas.Inv.DropCycle
import Cactus.Spec.Reach
/-!
# The invariant holds in every reachable state

* `applyAct_inv`, `applyOp_inv`, `step_inv`, `endOp_inv`, `begin_inv`, `fail_inv`: every transition
  of the machine preserves `Inv` (the transitions that allocate need `InvR` of the source state);
* errors are sticky (`applyAct_err_none`, `applyOp_err_none`, `step_err_none`, `endOp_err`);
* `reachable_invAll`: `InvAll` in every reachable state, given preservation of `InvR`
  (`RangeFacts`, proved in `Cactus/Lemmas/Inv/Range.lean`).
-/
namespace Cactus
open State

/-! ## the actions -/

theorem applyAct_inv (s : State) (fh fw : List Nat) (a : Act) (h : s.Inv) (hR : s.InvR) :
    (applyAct s fh fw a).Inv := by
  cases a with
  | new => exact applyAct_inv_new s fh fw h hR
  | clone r => exact applyAct_inv_clone s fh fw r h
  | drop r => exact applyAct_inv_drop s fh fw r h
  | adopt r1 r2 => exact applyAct_inv_adopt s fh fw r1 r2 h
  | unadopt r1 r2 => exact applyAct_inv_unadopt s fh fw r1 r2 h
  | store r q => exact applyAct_inv_store s fh fw r q h
  | take q k => exact applyAct_inv_take s fh fw q k h
  | link r q => exact applyAct_inv_link s fh fw r q h
  | unlink q k => exact applyAct_inv_unlink s fh fw q k h
  | downgrade r => exact applyAct_inv_downgrade s fh fw r h
  | upgrade w => exact applyAct_inv_upgrade s fh fw w h
  | cloneWeak w => exact applyAct_inv_cloneWeak s fh fw w h
  | dropWeak w => exact applyAct_inv_dropWeak s fh fw w h
  | storeWeak w q => exact applyAct_inv_storeWeak s fh fw w q h
  | tryUnwrap r => exact applyAct_inv_tryUnwrap s fh fw r h
  | dropValue i => exact applyAct_inv_dropValue s fh fw i h
  | makeMut r => exact applyAct_inv_makeMut s fh fw r h hR
  | getMut r => exact applyAct_inv_getMut s fh fw r h
  | intoRaw r => exact applyAct_inv_intoRaw s fh fw r h
  | fromRaw i => exact applyAct_inv_fromRaw s fh fw i h
  | incStrong i => exact applyAct_inv_incStrong s fh fw i h
  | decStrong i => exact applyAct_inv_decStrong s fh fw i h
  | ptrEq r1 r2 => exact applyAct_inv_ptrEq s fh fw r1 r2 h
  | counts r => exact applyAct_inv_counts s fh fw r h
  | wcounts w => exact applyAct_inv_wcounts s fh fw w h
  | setPanic q => exact applyAct_inv_setPanic s fh fw q h
  | setShallow q => exact applyAct_inv_setShallow s fh fw q h
  | upgradeField k => exact applyAct_inv_upgradeField s fh fw k h
  | cloneField k => exact applyAct_inv_cloneField s fh fw k h
  | downgradeField k => exact applyAct_inv_downgradeField s fh fw k h

theorem applyOp_inv (s : State) (op : Op) (h : s.Inv) (hR : s.InvR) : (applyOp s op).Inv := by
  cases op with
  | act a => exact applyAct_inv s [] [] a h hR
  | setScript q acts => exact applyOp_inv_setScript s q acts h
  | shuffle q i => exact applyOp_inv_shuffle s q i h

/-! ## errors are sticky -/

namespace State

theorem ne_incStrong {s : State} {o : Nat} (h : s.err ≠ none) : (s.incStrong o).err ≠ none :=
  fun h' => h ((incStrong_err_eq_none_iff s o).mp h').1
theorem ne_incWeak {s : State} {o : Nat} (h : s.err ≠ none) : (s.incWeak o).err ≠ none :=
  fun h' => h ((incWeak_err_eq_none_iff s o).mp h').1
theorem ne_modVal {s : State} {o : Nat} {f : Val → Val} (h : s.err ≠ none) : (s.modVal o f).err ≠ none :=
  fun h' => h ((modVal_err_eq_none_iff s o f).mp h').1
theorem ne_setLinks {s : State} {o : Nat} {f : Table → Table} (h : s.err ≠ none) :
    (s.setLinks o f).err ≠ none :=
  fun h' => h ((setLinks_err_eq_none_iff s o f).mp h').1
theorem ne_adopt {s : State} {a b : Nat} {same : Bool} (h : s.err ≠ none) : (s.adopt a b same).err ≠ none :=
  fun h' => h ((adopt_err_eq_none_iff s a b same).mp h').1
theorem ne_unadopt {s : State} {a b : Nat} {same : Bool} (h : s.err ≠ none) :
    (s.unadopt a b same).err ≠ none :=
  fun h' => h ((unadopt_err_eq_none_iff s a b same).mp h').1
theorem ne_badRoot {s : State} {r : Nat} (h : s.err ≠ none) : (s.badRoot r).err ≠ none := by
  rcases badRoot_cases s r with e | ⟨e, he⟩
  · rw [e]; exact h
  · rw [he]; exact fail_err_ne_none s e
theorem ne_giveUp {s : State} {o : Nat} (h : s.err ≠ none) : (s.giveUp o).err ≠ none :=
  fun h' => h (giveUp_err_none h')
theorem ne_cloneHandles {s : State} {v : Val} (h : s.err ≠ none) : (s.cloneHandles v).err ≠ none :=
  fun h' => h (cloneHandles_err_none h')

end State

/-- closes goals `(f … s).err ≠ none` from `s.err ≠ none` for compositions of the primitives -/
macro "sticky" : tactic => `(tactic|
  repeat (first
    | assumption
    | exact fail_err_ne_none _ _
    | apply ne_incStrong | apply ne_incWeak | apply ne_modVal | apply ne_setLinks | apply ne_adopt
    | apply ne_unadopt | apply ne_badRoot | apply ne_giveUp | apply ne_cloneHandles
    | dsimp only [emit_err, push_err, setObj_err, alloc_err]))

theorem applyAct_err_ne_none (s : State) (fh fw : List Nat) (a : Act) (h : s.err ≠ none) :
    (applyAct s fh fw a).err ≠ none := by
  cases a <;> simp only [applyAct] <;> (repeat' split) <;> sticky

theorem applyAct_err_none {s : State} {fh fw : List Nat} {a : Act}
    (h : (applyAct s fh fw a).err = none) : s.err = none := by
  cases he : s.err with
  | none => rfl
  | some e => exact absurd h (applyAct_err_ne_none s fh fw a (by rw [he]; exact Option.some_ne_none e))

theorem applyOp_err_ne_none (s : State) (op : Op) (h : s.err ≠ none) : (applyOp s op).err ≠ none := by
  cases op with
  | act a => exact applyAct_err_ne_none s [] [] a h
  | setScript q acts => simp only [applyOp]; split <;> sticky
  | shuffle q i => simp only [applyOp]; split <;> sticky

theorem applyOp_err_none {s : State} {op : Op} (h : (applyOp s op).err = none) : s.err = none := by
  cases he : s.err with
  | none => rfl
  | some e => exact absurd h (applyOp_err_ne_none s op (by rw [he]; exact Option.some_ne_none e))

theorem step_of_err {s : State} {e : Err} (h : s.err = some e) : step s = s := by
  unfold step; simp only [h]

theorem step_err_none {s : State} (h : (step s).err = none) : s.err = none := by
  cases he : s.err with
  | none => rfl
  | some e => rw [step_of_err he, he] at h; cases h

theorem endOp_err (s : State) : (endOp s).err = s.err := by
  unfold endOp; split <;> rfl

/-! ## one machine step -/

/-- the `rcDrop` frame, by cases on the target's state -/
theorem step_inv_rcDrop {s : State} {o : Nat} {rest : List Frame}
    (hst : s.stack = .rcDrop o :: rest) (herr : s.err = none) (h : s.Inv) :
    (({ s with stack := rest } : State).rcDrop o).Inv := by
  cases hc : s.cell o with
  | none => exact rcDrop_inv_uaf hc
  | some ob =>
    cases hs : ob.strong with
    | uninit => exact rcDrop_inv_dead herr hst h hc (by rw [hs]; rfl)
    | cnt n =>
      cases n with
      | zero => exact rcDrop_inv_dead herr hst h hc (by rw [hs]; rfl)
      | succ n =>
        cases hl : ob.links with
        | none => exact rcDrop_inv_nolinks hc hs hl
        | some t =>
          cases n with
          | zero =>
            cases hemp : t.isEmpty with
            | true => exact rcDrop_inv_last_empty herr hst h hc hs hl hemp
            | false => exact rcDrop_inv_last_links herr hst h hc hs hl hemp
          | succ n =>
            cases hemp : t.isEmpty with
            | true => exact rcDrop_inv_dec herr hst h hc hs hl hemp
            | false =>
              have hc0 : ({ s with stack := rest } : State).cell o = some ob := by simpa using hc
              rw [State.rcDrop_eq_traceBranch _ o ob n t hc0 hs hl hemp]
              have hI := rcDrop_inv_dec_state herr hst h hc hs
              refine trace_branch_inv _ o herr hI ?_
              have hlt : o < ({ s with stack := rest } : State).heap.length := get_lt (get_of_cell hc)
              rw [isLive_of_get (getElem?_setObj_same _ hlt)]
              simp [freed_of_cell hc]

/-- pushing the rest of a running destructor body: the frame owns nothing -/
theorem script_push_invCore {s : State} {hh ww : List Nat} {acts acts' : List Act} {rest : List Frame}
    (hst : s.stack = .script hh ww acts :: rest) (hI : s.InvCore) :
    (({ s with stack := rest } : State).push [.script hh ww acts']).InvCore := by
  refine InvCore_same_heap hI rfl ?_ ?_ ?_ ?_ ?_
  · intro t
    have := pend_of_stack_cons hst t
    simp only [ext_push, pend_push, List.map_cons, List.map_nil, sumList_singleton, Frame.strongTo_script] at this ⊢
    show s.ext t + (0 + ({ s with stack := rest } : State).pend t) = _
    omega
  · intro t
    have := pendW_of_stack_cons hst t
    simp only [extW_push, pendW_push, List.map_cons, List.map_nil, sumList_singleton, Frame.weakTo_script] at this ⊢
    show s.extW t + (0 + ({ s with stack := rest } : State).pendW t) = _
    omega
  · intro o hm
    simp only [push_stack, List.cons_append, List.nil_append, List.mem_cons, reduceCtorEq, false_or] at hm
    rw [hst]; exact List.mem_cons_of_mem _ hm
  · intro ks hm
    simp only [push_stack, List.cons_append, List.nil_append, List.mem_cons, reduceCtorEq, false_or] at hm
    rw [hst]; exact List.mem_cons_of_mem _ hm
  · intro o
    have := owed_of_stack_cons hst o
    simp only [owed_push, List.map_cons, List.map_nil, sumList_singleton, Frame.owes_script] at this ⊢
    omega

theorem script_push_invR {s : State} {hh ww : List Nat} {acts acts' : List Act} {rest : List Frame}
    (hst : s.stack = .script hh ww acts :: rest) (hR : s.InvR) :
    (({ s with stack := rest } : State).push [.script hh ww acts']).InvR := by
  intro t ht
  obtain ⟨h1, h2⟩ := hR t ht
  have p1 := pend_of_stack_cons hst t
  have p2 := pendW_of_stack_cons hst t
  simp only [Frame.strongTo_script, Frame.weakTo_script] at p1 p2
  simp only [ext_push, extW_push, inHeap_push, inHeapW_push, pend_push, pendW_push, List.map_cons,
    List.map_nil, sumList_singleton, Frame.strongTo_script, Frame.weakTo_script]
  constructor
  · show s.ext t + s.inHeap t + (0 + ({ s with stack := rest } : State).pend t) = 0
    omega
  · show s.extW t + s.inHeapW t + (0 + ({ s with stack := rest } : State).pendW t) = 0
    omega

theorem step_inv (s : State) (h : s.Inv) (hR : s.InvR) : (step s).Inv := by
  by_cases h1 : ∃ o rest, s.stack = .rcDrop o :: rest
  · obtain ⟨o, rest, hst⟩ := h1
    cases herr : s.err with
    | some e => rw [step_of_err herr]; exact h
    | none =>
      have e : step s = ({ s with stack := rest } : State).rcDrop o := by
        unfold step; simp only [herr, hst]
      rw [e]; exact step_inv_rcDrop hst herr h
  · by_cases h2 : ∃ hh ww a as rest, s.stack = .script hh ww (a :: as) :: rest
    · obtain ⟨hh, ww, a, as, rest, hst⟩ := h2
      cases herr : s.err with
      | some e => rw [step_of_err herr]; exact h
      | none =>
        have e : step s = applyAct (({ s with stack := rest } : State).push [.script hh ww as]) hh ww a := by
          unfold step; simp only [herr, hst]
        rw [e]
        exact applyAct_inv _ hh ww a (fun _ => script_push_invCore hst (h herr)) (script_push_invR hst hR)
    · exact step_inv_frames h (fun f rest hst =>
        ⟨fun o e => h1 ⟨o, rest, by rw [hst, e]⟩, fun hh ww a as e => h2 ⟨hh, ww, a, as, rest, by rw [hst, e]⟩⟩)

/-! ## operation boundaries -/

theorem endOp_inv (s : State) (h : s.Inv) : (endOp s).Inv := by
  unfold endOp
  split
  · exact fun herr => InvCore_congr (h herr) rfl rfl (fun _ => rfl) (fun _ => rfl)
  · exact h

theorem begin_inv (s : State) (hint : List Nat) (h : s.Inv) : (s.begin hint).Inv :=
  fun herr => InvCore_congr (h herr) rfl rfl (fun _ => rfl) (fun _ => rfl)

theorem fail_inv (s : State) (e : Err) : (s.fail e).Inv := Inv_fail s e

/-! ## every reachable state -/

theorem InvCore_init : ({} : State).InvCore := by
  refine ⟨?_, ⟨?_, ?_⟩, ?_, ?_, ?_, ?_, ?_⟩
  · intro o ob h; simp at h
  · intro o t h; simp [tableOf, cell] at h
  · intro a b h; simp [isLive] at h
  · intro t h; simp [isLive] at h
  · intro t h; simp at h
  · intro o h; simp at h
  · intro ks h; simp at h
  · intro o; simp [owed]

theorem InvR_init : ({} : State).InvR := by
  intro t _
  simp [ext, extW, inHeap, inHeapW, pend, pendW, sumList]

/-- preservation of `InvR` (no handle designates an unallocated index) by the transitions; proved
in `Cactus/Lemmas/Inv/Range.lean` -/
structure RangeFacts : Prop where
  applyOp : ∀ (s : State) (op : Op), s.InvR → (applyOp s op).err = none → (applyOp s op).InvR
  step : ∀ s : State, s.InvR → (step s).err = none → (step s).InvR
  endOp : ∀ s : State, s.InvR → (endOp s).err = none → (endOp s).InvR
  begin : ∀ (s : State) (hint : List Nat), s.InvR → (s.begin hint).err = none → (s.begin hint).InvR

/-- **the unconditional invariant holds in every reachable state** -/
theorem reachable_invAll (rf : RangeFacts) {s : State} (h : Reachable s) : s.InvAll := by
  induction h with
  | init => exact fun _ => ⟨InvCore_init, InvR_init⟩
  | @op s o hint _ _ ih =>
    intro he
    have h0 : (s.begin hint).err = none := applyOp_err_none he
    obtain ⟨hI, hRs⟩ := ih h0
    have hRb := rf.begin s hint hRs h0
    exact ⟨applyOp_inv _ o (begin_inv s hint (fun _ => hI)) hRb he, rf.applyOp _ o hRb he⟩
  | @step s _ ih =>
    intro he
    obtain ⟨hI, hRs⟩ := ih (step_err_none he)
    exact ⟨step_inv s (fun _ => hI) hRs he, rf.step s hRs he⟩
  | @endOp s _ ih =>
    intro he
    obtain ⟨hI, hRs⟩ := ih (by rw [← endOp_err s]; exact he)
    exact ⟨endOp_inv s (fun _ => hI) he, rf.endOp s hRs he⟩
  | @outOfFuel s _ _ =>
    intro he
    exact absurd he (fail_err_ne_none s _)

end Cactus
