import Cactus.Lemmas.Count
import Cactus.Lemmas.CycleStruct
import Cactus.Spec.Reach
/-!
# `InvR` (no handle designates an unallocated index) is preserved by every transition
-/
namespace Cactus

/-- every handle in the list designates an index below `n` -/
def Below (n : Nat) (l : List Nat) : Prop := ∀ o ∈ l, o < n

/-- the handles owned by a value are below `n` -/
def Val.Below (n : Nat) (v : Val) : Prop := Cactus.Below n v.held ∧ Cactus.Below n v.weaks

@[simp] theorem Below_nil (n : Nat) : Below n [] := by intro o ho; cases ho
@[simp] theorem Below_append (n : Nat) (l₁ l₂ : List Nat) : Below n (l₁ ++ l₂) ↔ Below n l₁ ∧ Below n l₂ := by
  simp only [Below, List.mem_append]
  constructor
  · intro h; exact ⟨fun o ho => h o (Or.inl ho), fun o ho => h o (Or.inr ho)⟩
  · rintro ⟨h1, h2⟩ o (ho | ho)
    · exact h1 o ho
    · exact h2 o ho
@[simp] theorem Below_cons (n a : Nat) (l : List Nat) : Below n (a :: l) ↔ a < n ∧ Below n l := by
  simp [Below]
theorem Below.mono {n m : Nat} {l : List Nat} (h : Below n l) (hnm : n ≤ m) : Below m l :=
  fun o ho => Nat.lt_of_lt_of_le (h o ho) hnm
theorem Below.eraseIdx {n : Nat} {l : List Nat} (h : Below n l) (i : Nat) : Below n (l.eraseIdx i) :=
  fun o ho => h o (List.mem_of_mem_eraseIdx ho)
theorem Below.set {n : Nat} {l : List Nat} (h : Below n l) (i : Nat) {a : Nat} (ha : a < n) :
    Below n (l.set i a) := by
  intro o ho
  rcases List.mem_or_eq_of_mem_set ho with ho | rfl
  · exact h o ho
  · exact ha
theorem Below.count_eq_zero {n : Nat} {l : List Nat} (h : Below n l) {t : Nat} (ht : n ≤ t) : l.count t = 0 := by
  rw [List.count_eq_zero]
  intro hm
  have := h t hm; omega
theorem Below.of_count {n : Nat} {l : List Nat} (h : ∀ t, n ≤ t → l.count t = 0) : Below n l := by
  intro o ho
  false_or_by_contra
  have h1 := h o (by omega)
  have h2 := (count_pos_iff_mem l o).mpr ho
  omega
theorem Below.of_nthMod {n : Nat} {l : List Nat} (h : Below n l) {i o : Nat} (ho : nthMod l i = some o) : o < n :=
  h o (mem_of_nthMod ho)

theorem Val.Below.mono {n m : Nat} {v : Val} (h : v.Below n) (hnm : n ≤ m) : v.Below m :=
  ⟨h.1.mono hnm, h.2.mono hnm⟩
theorem Val.Below.count {n : Nat} {v : Val} (h : v.Below n) {t : Nat} (ht : n ≤ t) :
    v.held.count t = 0 ∧ v.weaks.count t = 0 := ⟨h.1.count_eq_zero ht, h.2.count_eq_zero ht⟩
theorem Val.Below.of_count {n : Nat} {v : Val} (h : ∀ t, n ≤ t → v.held.count t = 0 ∧ v.weaks.count t = 0) :
    v.Below n := ⟨Cactus.Below.of_count (fun t ht => (h t ht).1), Cactus.Below.of_count (fun t ht => (h t ht).2)⟩

/-- the handles owned by a frame are below `n` -/
def Frame.Below (n : Nat) (f : Frame) : Prop :=
  ∀ t, n ≤ t → Frame.strongTo t f = 0 ∧ Frame.weakTo t f = 0

theorem Frame.Below.mono {n m : Nat} {f : Frame} (h : f.Below n) (hnm : n ≤ m) : f.Below m :=
  fun t ht => h t (by omega)
theorem Frame.below_rcDrop {n o : Nat} (h : o < n) : (Frame.rcDrop o).Below n := by
  intro t ht; have : o ≠ t := by omega
  simp [this]
theorem Frame.below_weakDrop {n o : Nat} (h : o < n) : (Frame.weakDrop o).Below n := by
  intro t ht; have : o ≠ t := by omega
  simp [this]
theorem Frame.below_dropVal {n : Nat} {v : Val} (h : v.Below n) : (Frame.dropVal v).Below n := by
  intro t ht; simpa using h.count ht
theorem Frame.below_dropFields {n : Nat} {hs ws : List Nat} (h1 : Cactus.Below n hs) (h2 : Cactus.Below n ws) :
    (Frame.dropFields hs ws).Below n := by
  intro t ht; simp [h1.count_eq_zero ht, h2.count_eq_zero ht]
@[simp] theorem Frame.below_script (n : Nat) (h w : List Nat) (as : List Act) : (Frame.script h w as).Below n := by
  intro t _; simp
@[simp] theorem Frame.below_panic (n : Nat) : Frame.panic.Below n := by intro t _; simp
@[simp] theorem Frame.below_finishSingle (n o : Nat) : (Frame.finishSingle o).Below n := by intro t _; simp
@[simp] theorem Frame.below_phase3 (n : Nat) (ks : List Nat) : (Frame.phase3 ks).Below n := by intro t _; simp

theorem Frame.Below.rcDrop_lt {n o : Nat} (h : (Frame.rcDrop o).Below n) : o < n := by
  false_or_by_contra
  have := (h o (by omega)).1; simp at this
theorem Frame.Below.weakDrop_lt {n o : Nat} (h : (Frame.weakDrop o).Below n) : o < n := by
  false_or_by_contra
  have := (h o (by omega)).2; simp at this
theorem Frame.Below.dropVal_below {n : Nat} {v : Val} (h : (Frame.dropVal v).Below n) : v.Below n :=
  Val.Below.of_count (fun t ht => by simpa using h t ht)
theorem Frame.Below.dropFields_below {n : Nat} {hs ws : List Nat} (h : (Frame.dropFields hs ws).Below n) :
    Cactus.Below n hs ∧ Cactus.Below n ws :=
  ⟨Cactus.Below.of_count (fun t ht => by simpa using (h t ht).1), Cactus.Below.of_count (fun t ht => by simpa using (h t ht).2)⟩

namespace State

/-! ## basic consequences and transfer principles -/

theorem InvR.of_le {s s' : State} (h : s.InvR) (hl : s.heap.length ≤ s'.heap.length)
    (hle : ∀ t, s'.heap.length ≤ t →
      s'.ext t + s'.inHeap t + s'.pend t ≤ s.ext t + s.inHeap t + s.pend t ∧
      s'.extW t + s'.inHeapW t + s'.pendW t ≤ s.extW t + s.inHeapW t + s.pendW t) : s'.InvR := by
  intro t ht
  have h1 := h t (by omega)
  have h2 := hle t ht
  omega

/-- same heap length, same six quantities -/
theorem InvR.of_eq {s s' : State} (h : s.InvR) (hl : s'.heap.length = s.heap.length)
    (h1 : ∀ t, s'.ext t = s.ext t) (h2 : ∀ t, s'.inHeap t = s.inHeap t) (h3 : ∀ t, s'.pend t = s.pend t)
    (h4 : ∀ t, s'.extW t = s.extW t) (h5 : ∀ t, s'.inHeapW t = s.inHeapW t)
    (h6 : ∀ t, s'.pendW t = s.pendW t) : s'.InvR := by
  intro t ht
  rw [h1, h2, h3, h4, h5, h6]
  exact h t (by omega)

theorem InvR.ext_zero {s : State} (h : s.InvR) {t : Nat} (ht : s.heap.length ≤ t) : s.ext t = 0 := by
  have := h t ht; omega
theorem InvR.extW_zero {s : State} (h : s.InvR) {t : Nat} (ht : s.heap.length ≤ t) : s.extW t = 0 := by
  have := h t ht; omega
theorem InvR.inHeap_zero {s : State} (h : s.InvR) {t : Nat} (ht : s.heap.length ≤ t) : s.inHeap t = 0 := by
  have := h t ht; omega
theorem InvR.inHeapW_zero {s : State} (h : s.InvR) {t : Nat} (ht : s.heap.length ≤ t) : s.inHeapW t = 0 := by
  have := h t ht; omega
theorem InvR.pend_zero {s : State} (h : s.InvR) {t : Nat} (ht : s.heap.length ≤ t) : s.pend t = 0 := by
  have := h t ht; omega
theorem InvR.pendW_zero {s : State} (h : s.InvR) {t : Nat} (ht : s.heap.length ≤ t) : s.pendW t = 0 := by
  have := h t ht; omega

theorem InvR.lt_of_ext_pos {s : State} (h : s.InvR) {o : Nat} (ho : 0 < s.ext o) : o < s.heap.length := by
  false_or_by_contra
  have := h.ext_zero (t := o) (by omega); omega
theorem InvR.lt_of_extW_pos {s : State} (h : s.InvR) {o : Nat} (ho : 0 < s.extW o) : o < s.heap.length := by
  false_or_by_contra
  have := h.extW_zero (t := o) (by omega); omega

theorem InvR.lt_of_mem_roots {s : State} (h : s.InvR) {o : Nat} (ho : o ∈ s.roots) : o < s.heap.length :=
  h.lt_of_ext_pos (ext_pos_of_mem_roots ho)
theorem InvR.lt_of_mem_raws {s : State} (h : s.InvR) {o : Nat} (ho : o ∈ s.raws) : o < s.heap.length :=
  h.lt_of_ext_pos (ext_pos_of_mem_raws ho)
theorem InvR.lt_of_mem_wroots {s : State} (h : s.InvR) {o : Nat} (ho : o ∈ s.wroots) : o < s.heap.length :=
  h.lt_of_extW_pos (extW_pos_of_mem_wroots ho)

/-- handles of a value stored in the heap are in range -/
theorem InvR.heldOf_count {s : State} (h : s.InvR) (a : Nat) {t : Nat} (ht : s.heap.length ≤ t) :
    (s.heldOf a).count t = 0 := by
  have h1 := H_le_inHeap s a t
  have h2 := h.inHeap_zero ht
  rw [H_def] at h1; omega
theorem InvR.weaksOf_count {s : State} (h : s.InvR) (a : Nat) {t : Nat} (ht : s.heap.length ≤ t) :
    (s.weaksOf a).count t = 0 := by
  have h1 := count_weaksOf_le_inHeapW s a t
  have h2 := h.inHeapW_zero ht
  omega

theorem InvR.held_of_get {s : State} (h : s.InvR) {a : Nat} {ob : Obj} {v : Val}
    (hg : s.heap[a]? = some ob) (hv : ob.value = some v) {t : Nat} (ht : s.heap.length ≤ t) :
    v.held.count t = 0 ∧ v.weaks.count t = 0 := by
  have h1 := h.heldOf_count a ht
  have h2 := h.weaksOf_count a ht
  rw [heldOf_of_get hg, Obj.heldList_of_some hv] at h1
  rw [weaksOf_of_get hg, Obj.weakList_of_some hv] at h2
  exact ⟨h1, h2⟩

theorem InvR.held_of_cell {s : State} (h : s.InvR) {a : Nat} {ob : Obj} {v : Val}
    (hc : s.cell a = some ob) (hv : ob.value = some v) {t : Nat} (ht : s.heap.length ≤ t) :
    v.held.count t = 0 ∧ v.weaks.count t = 0 := h.held_of_get (get_of_cell hc) hv ht

/-- handles owned by a frame on the stack are in range -/
theorem InvR.strongTo_zero {s : State} (h : s.InvR) {f : Frame} (hf : f ∈ s.stack) {t : Nat}
    (ht : s.heap.length ≤ t) : Frame.strongTo t f = 0 := by
  have h1 := strongTo_le_pend hf t
  have h2 := h.pend_zero ht; omega
theorem InvR.weakTo_zero {s : State} (h : s.InvR) {f : Frame} (hf : f ∈ s.stack) {t : Nat}
    (ht : s.heap.length ≤ t) : Frame.weakTo t f = 0 := by
  have h1 := weakTo_le_pendW hf t
  have h2 := h.pendW_zero ht; omega

/-! ## primitives that move no handle -/

theorem InvR.fail {s : State} (h : s.InvR) (e : Err) : (s.fail e).InvR := by
  intro t ht; simpa using h t (by simpa using ht)
theorem InvR.emit {s : State} (h : s.InvR) (e : Ev) : (s.emit e).InvR := by
  intro t ht; simpa using h t (by simpa using ht)
theorem InvR.badRoot {s : State} (h : s.InvR) (r : Nat) : (s.badRoot r).InvR := by
  intro t ht; simpa using h t (by simpa using ht)
theorem InvR.setLinks {s : State} (h : s.InvR) (o : Nat) (f : Table → Table) : (s.setLinks o f).InvR := by
  intro t ht; simpa using h t (by simpa using ht)
theorem InvR.adopt {s : State} (h : s.InvR) (a b : Nat) (same : Bool) : (s.adopt a b same).InvR := by
  intro t ht; simpa using h t (by simpa using ht)
theorem InvR.unadopt {s : State} (h : s.InvR) (a b : Nat) (same : Bool) : (s.unadopt a b same).InvR := by
  intro t ht; simpa using h t (by simpa using ht)
theorem InvR.incStrong {s : State} (h : s.InvR) (o : Nat) : (s.incStrong o).InvR := by
  intro t ht; simpa using h t (by simpa using ht)
theorem InvR.incWeak {s : State} (h : s.InvR) (o : Nat) : (s.incWeak o).InvR := by
  intro t ht; simpa using h t (by simpa using ht)
theorem InvR.decWeakFree {s : State} (h : s.InvR) (o : Nat) (imp : Bool) : (s.decWeakFree o imp).InvR := by
  intro t ht; simpa using h t (by simpa using ht)

/-! ## `InvR` in terms of `Below` -/

theorem InvR.roots_below {s : State} (h : s.InvR) : Below s.heap.length s.roots :=
  fun _ ho => h.lt_of_mem_roots ho
theorem InvR.raws_below {s : State} (h : s.InvR) : Below s.heap.length s.raws :=
  fun _ ho => h.lt_of_mem_raws ho
theorem InvR.wroots_below {s : State} (h : s.InvR) : Below s.heap.length s.wroots :=
  fun _ ho => h.lt_of_mem_wroots ho
theorem InvR.vals_below {s : State} (h : s.InvR) {v : Val} (hv : v ∈ s.vals) : v.Below s.heap.length := by
  refine Val.Below.of_count (fun t ht => ?_)
  have h1 := h.ext_zero ht
  have h2 := h.extW_zero ht
  have h3 := le_sumList_map_of_mem (fun v : Val => v.held.count t) hv
  have h4 := le_sumList_map_of_mem (fun v : Val => v.weaks.count t) hv
  simp only [ext, extW] at h1 h2
  constructor <;> omega
theorem InvR.val_below_of_get {s : State} (h : s.InvR) {a : Nat} {ob : Obj} {v : Val}
    (hg : s.heap[a]? = some ob) (hv : ob.value = some v) : v.Below s.heap.length :=
  Val.Below.of_count (fun _ ht => h.held_of_get hg hv ht)
theorem InvR.val_below_of_cell {s : State} (h : s.InvR) {a : Nat} {ob : Obj} {v : Val}
    (hc : s.cell a = some ob) (hv : ob.value = some v) : v.Below s.heap.length :=
  h.val_below_of_get (get_of_cell hc) hv
theorem InvR.val_below_of_valOf {s : State} (h : s.InvR) {a : Nat} {v : Val}
    (hv : s.valOf a = some v) : v.Below s.heap.length := by
  obtain ⟨ob, hc, hv'⟩ := (valOf_eq_some_iff s a v).mp hv
  exact h.val_below_of_cell hc hv'
theorem InvR.frame_below {s : State} (h : s.InvR) {f : Frame} (hf : f ∈ s.stack) : f.Below s.heap.length :=
  fun _ ht => ⟨h.strongTo_zero hf ht, h.weakTo_zero hf ht⟩
theorem InvR.top_below {s : State} (h : s.InvR) {f : Frame} {rest : List Frame} (hs : s.stack = f :: rest) :
    f.Below s.heap.length := h.frame_below (by simp [hs])

/-- only the program's handle lists change -/
theorem InvR.withProg {s : State} (h : s.InvR) (s' : State) (hheap : s'.heap = s.heap)
    (hstack : s'.stack = s.stack)
    (hr : Below s.heap.length s'.roots) (hw : Below s.heap.length s'.wroots)
    (hraws : Below s.heap.length s'.raws) (hvals : ∀ v ∈ s'.vals, v.Below s.heap.length) : s'.InvR := by
  intro t ht
  rw [hheap] at ht
  have h1 := h t ht
  rw [inHeap_congr hheap, inHeapW_congr hheap, pend_congr hstack, pendW_congr hstack]
  have e1 : s'.ext t = 0 := by
    simp only [ext, hr.count_eq_zero ht, hraws.count_eq_zero ht]
    simp only [Nat.zero_add]
    exact (sumList_map_eq_zero_iff _ _).mpr (fun v hv => ((hvals v hv).count ht).1)
  have e2 : s'.extW t = 0 := by
    simp only [extW, hw.count_eq_zero ht]
    simp only [Nat.zero_add]
    exact (sumList_map_eq_zero_iff _ _).mpr (fun v hv => ((hvals v hv).count ht).2)
  omega

/-! ## heap updates -/

/-- overwriting an object by one whose value (if any) owns handles in range -/
theorem InvR.setObj {s : State} (h : s.InvR) {a : Nat} {ob : Obj} (ob' : Obj)
    (hg : s.heap[a]? = some ob) (hv : ∀ v', ob'.value = some v' → v'.Below s.heap.length) :
    (s.setObj a ob').InvR := by
  intro t ht
  have ht' : s.heap.length ≤ t := by simpa using ht
  have h0 := h t ht'
  have h1 := inHeap_setObj' ob' hg t
  have h2 := inHeapW_setObj' ob' hg t
  have h3 : ob'.heldList.count t = 0 ∧ ob'.weakList.count t = 0 := by
    cases hv' : ob'.value with
    | none => simp [Obj.heldList_of_none hv', Obj.weakList_of_none hv']
    | some v' =>
      rw [Obj.heldList_of_some hv', Obj.weakList_of_some hv']
      exact (hv v' hv').count ht'
  simp; omega

theorem InvR.setObj_of_value {s : State} (h : s.InvR) {a : Nat} {ob : Obj} (ob' : Obj)
    (hg : s.heap[a]? = some ob) (hv : ob'.value = none ∨ ob'.value = ob.value) : (s.setObj a ob').InvR := by
  refine h.setObj ob' hg (fun v' hv' => ?_)
  rcases hv with hv | hv
  · rw [hv] at hv'; cases hv'
  · exact h.val_below_of_get hg (hv ▸ hv')

theorem InvR.setObj_of_cell {s : State} (h : s.InvR) {a : Nat} {ob : Obj} (ob' : Obj)
    (hc : s.cell a = some ob) (hv : ob'.value = none ∨ ob'.value = ob.value) : (s.setObj a ob').InvR :=
  h.setObj_of_value ob' (get_of_cell hc) hv

theorem InvR.setStrong {s : State} (h : s.InvR) (o : Nat) (st : Strong) : (s.setStrong o st).InvR := by
  intro t ht; simpa using h t (by simpa using ht)

theorem InvR.modVal {s : State} (h : s.InvR) (o : Nat) (f : Val → Val)
    (hf : ∀ v, v.Below s.heap.length → (f v).Below s.heap.length) : (s.modVal o f).InvR := by
  rcases modVal_cases s o f with ⟨e, he⟩ | ⟨ob, v, hc, hv, he⟩ <;> rw [he]
  · exact h.fail e
  · refine h.setObj _ (get_of_cell hc) (fun v' hv' => ?_)
    cases hv'
    exact hf v (h.val_below_of_cell hc hv)

/-- allocating a value whose handles are in range -/
theorem InvR.alloc {s : State} (h : s.InvR) (v : Val) (hv : v.Below (s.heap.length + 1)) : (s.alloc v).InvR := by
  intro t ht
  rw [alloc_heap_length] at ht
  have h1 := h t (by omega)
  have h2 := hv.count ht
  simp; omega

/-! ## stack updates -/

theorem InvR.push {s : State} (h : s.InvR) (fs : List Frame) (hfs : ∀ f ∈ fs, f.Below s.heap.length) :
    (s.push fs).InvR := by
  intro t ht
  have ht' : s.heap.length ≤ t := ht
  have h1 := h t ht'
  have h2 : sumList (fs.map (Frame.strongTo t)) = 0 :=
    (sumList_map_eq_zero_iff _ _).mpr (fun f hf => (hfs f hf t ht').1)
  have h3 : sumList (fs.map (Frame.weakTo t)) = 0 :=
    (sumList_map_eq_zero_iff _ _).mpr (fun f hf => (hfs f hf t ht').2)
  simp [h2, h3]; omega

/-- replacing the stack by frames whose handles are in range -/
theorem InvR.withStack {s : State} (h : s.InvR) (st : List Frame) (hst : ∀ f ∈ st, f.Below s.heap.length) :
    ({ s with stack := st } : State).InvR := by
  intro t ht
  have ht' : s.heap.length ≤ t := ht
  have h1 := h t ht'
  have h2 : sumList (st.map (Frame.strongTo t)) = 0 :=
    (sumList_map_eq_zero_iff _ _).mpr (fun f hf => (hst f hf t ht').1)
  have h3 : sumList (st.map (Frame.weakTo t)) = 0 :=
    (sumList_map_eq_zero_iff _ _).mpr (fun f hf => (hst f hf t ht').2)
  simp [h2, h3]; omega

theorem InvR.pop {s : State} (h : s.InvR) {f : Frame} {rest : List Frame} (hs : s.stack = f :: rest) :
    ({ s with stack := rest } : State).InvR :=
  h.withStack rest (fun g hg => h.frame_below (by simp [hs, hg]))

/-! ## library functions -/

theorem InvR.foldl {α : Type} (f : State → α → State) (hf : ∀ s a, s.InvR → (f s a).InvR)
    (l : List α) {s : State} (h : s.InvR) : (l.foldl f s).InvR := by
  induction l generalizing s with
  | nil => exact h
  | cons a l ih => exact ih (hf s a h)

theorem InvR.purgeOne {s : State} (h : s.InvR) (x : Nat) (e : Link × Nat) : (purgeOne x s e).InvR := by
  unfold State.purgeOne
  split
  · exact h
  · exact h.setLinks _ _

theorem InvR.purgePeers {s : State} (h : s.InvR) (x : Nat) : (s.purgePeers x).InvR := by
  unfold State.purgePeers
  split
  · exact (InvR.foldl (State.purgeOne x) (fun s e hs => hs.purgeOne x e) _ h).setLinks _ _
  · exact h.fail _

theorem InvR.giveUp {s : State} (h : s.InvR) (o : Nat) : (s.giveUp o).InvR := by
  unfold State.giveUp
  split
  · rename_i ob hc
    refine InvR.decWeakFree ?_ o true
    exact (h.purgePeers o).setObj_of_cell _ hc (Or.inl rfl)
  · exact (h.purgePeers o).fail _

theorem InvR.beginSingle {s : State} (h : s.InvR) (o : Nat) : (s.beginSingle o).InvR := by
  unfold State.beginSingle
  split
  · rename_i ob hc
    split
    · exact h.decWeakFree o true
    · split
      · rename_i v hv
        refine (h.setObj_of_cell _ hc (Or.inl rfl)).push _ (fun f hf => ?_)
        simp only [List.mem_cons, List.mem_nil_iff, or_false] at hf
        rcases hf with rfl | rfl
        · exact Frame.below_dropVal (by simpa using h.val_below_of_cell hc hv)
        · simp
      · exact h.fail _
  · exact h.fail _

theorem InvR.finishSingle {s : State} (h : s.InvR) (o : Nat) : (s.finishSingle o).InvR := by
  unfold State.finishSingle
  split
  · rename_i ob hc
    split
    · refine InvR.decWeakFree ?_ o true
      exact h.setObj_of_cell _ hc (Or.inr rfl)
    · exact h.fail _
  · exact h.fail _

theorem InvR.phase3One {s : State} (h : s.InvR) (k : Nat) : (s.phase3One k).InvR := by
  unfold State.phase3One
  split
  · split
    · exact h.decWeakFree k true
    · exact h
  · exact h.fail _

theorem InvR.cloneHandles {s : State} (h : s.InvR) (v : Val) : (s.cloneHandles v).InvR := by
  unfold State.cloneHandles
  exact InvR.foldl State.incWeak (fun s a hs => hs.incWeak a) _
    (InvR.foldl State.incStrong (fun s a hs => hs.incStrong a) _ h)

theorem cloneHandles_heap_length (s : State) (v : Val) : (s.cloneHandles v).heap.length = s.heap.length := by
  unfold State.cloneHandles
  have h1 : ∀ (l : List Nat) (s : State), (l.foldl State.incStrong s).heap.length = s.heap.length := by
    intro l; induction l with
    | nil => intro s; rfl
    | cons a l ih => intro s; simp [ih]
  have h2 : ∀ (l : List Nat) (s : State), (l.foldl State.incWeak s).heap.length = s.heap.length := by
    intro l; induction l with
    | nil => intro s; rfl
    | cons a l ih => intro s; simp [ih]
  rw [h2, h1]

theorem InvR.weakDrop {s : State} (h : s.InvR) (o : Nat) : (s.weakDrop o).InvR := h.decWeakFree o false

theorem InvR.dropVal {s : State} (h : s.InvR) (v : Val) (hv : v.Below s.heap.length) : (s.dropVal v).InvR := by
  unfold State.dropVal
  refine (h.emit _).push _ (fun f hf => ?_)
  simp only [List.mem_append, List.mem_cons, List.mem_nil_iff, or_false] at hf
  rcases hf with (rfl | hf) | rfl
  · simp
  · split at hf
    · simp at hf; subst hf; simp
    · cases hf
  · exact Frame.below_dropFields hv.1 hv.2

theorem InvR.dropFields {s : State} (h : s.InvR) (hs ws : List Nat)
    (h1 : Below s.heap.length hs) (h2 : Below s.heap.length ws) : (s.dropFields hs ws).InvR := by
  cases hs with
  | cons a hs =>
    rw [Below_cons] at h1
    refine h.push _ (fun f hf => ?_)
    simp only [List.mem_cons, List.mem_nil_iff, or_false] at hf
    rcases hf with rfl | rfl
    · exact Frame.below_rcDrop h1.1
    · exact Frame.below_dropFields h1.2 h2
  | nil =>
    cases ws with
    | cons a ws =>
      rw [Below_cons] at h2
      refine h.push _ (fun f hf => ?_)
      simp only [List.mem_cons, List.mem_nil_iff, or_false] at hf
      rcases hf with rfl | rfl
      · exact Frame.below_weakDrop h2.1
      · exact Frame.below_dropFields (Below_nil _) h2.2
    | nil => exact h

theorem InvR.panic {s : State} (h : s.InvR) : s.panic.InvR := by
  unfold State.panic
  split
  · exact h.fail _
  · intro t ht
    have := h t ht
    simpa [sumList_strongTo_filter_cleanup, sumList_weakTo_filter_cleanup, ← pend_def, ← pendW_def] using this

/-! ## `dropCycle` -/

theorem InvR.phase1One {s : State} (h : s.InvR) (keys : List Nat) (e : Nat × Nat) :
    (State.phase1One keys s e).InvR := by
  unfold State.phase1One
  split
  · rename_i ob hc
    split
    · exact h.setObj_of_cell _ hc (Or.inr rfl)
    · exact h.fail _
    · exact h.fail _
  · exact h.fail _

/-- phase 2 moves values out of the heap into the list of collected values -/
theorem phase2One_invR (acc : State × List Val) (k : Nat) (h : acc.1.InvR)
    (hv : ∀ v ∈ acc.2, v.Below acc.1.heap.length) :
    (phase2One acc k).1.InvR ∧ ∀ v ∈ (phase2One acc k).2, v.Below (phase2One acc k).1.heap.length := by
  unfold State.phase2One
  split
  · rename_i ob hc
    split
    · split
      · rename_i v0 hv0
        refine ⟨h.setObj_of_cell _ hc (Or.inl rfl), fun v hm => ?_⟩
        simp only [List.mem_append, List.mem_cons, List.mem_nil_iff, or_false] at hm
        rcases hm with hm | rfl
        · simpa using hv v hm
        · simpa using h.val_below_of_cell hc hv0
      · exact ⟨h.fail _, by simpa using hv⟩
    · exact ⟨h, hv⟩
  · exact ⟨h.fail _, by simpa using hv⟩

theorem phase2_fold_invR (l : List Nat) (acc : State × List Val) (h : acc.1.InvR)
    (hv : ∀ v ∈ acc.2, v.Below acc.1.heap.length) :
    (l.foldl phase2One acc).1.InvR
      ∧ ∀ v ∈ (l.foldl phase2One acc).2, v.Below (l.foldl phase2One acc).1.heap.length := by
  induction l generalizing acc with
  | nil => exact ⟨h, hv⟩
  | cons k l ih =>
    obtain ⟨h1, h2⟩ := phase2One_invR acc k h hv
    exact ih _ h1 h2

theorem InvR.dropCycle {s : State} (h : s.InvR) (c : CMap) : (s.dropCycle c).InvR := by
  rw [dropCycle_eq_push]
  have h1 : (s.cyc1 c).InvR := InvR.foldl _ (fun s e hs => hs.phase1One c.keys e) _ h
  obtain ⟨h2, h3⟩ := phase2_fold_invR c.keys (s.cyc1 c, []) h1 (by simp)
  refine InvR.push h2 _ (fun f hf => ?_)
  simp only [List.mem_append, List.mem_map, List.mem_cons, List.mem_nil_iff, or_false] at hf
  rcases hf with ⟨v, hv, rfl⟩ | rfl
  · exact Frame.below_dropVal (h3 v ((mem_reorder _ _ _).mp hv))
  · simp

theorem InvR.rcDrop {s : State} (h : s.InvR) (o : Nat) : (s.rcDrop o).InvR := by
  unfold State.rcDrop
  split
  · exact h.fail _
  · rename_i ob hc
    split
    · exact h
    · exact h
    · rename_i n hn
      split
      · exact h.fail _
      · rename_i t hl
        have h1 : (s.setObj o { ob with strong := .cnt n }).InvR := h.setObj_of_cell _ hc (Or.inr rfl)
        revert h1
        generalize s.setObj o { ob with strong := .cnt n } = s1
        intro h1
        dsimp only
        split
        · split
          · exact h1.beginSingle o
          · exact h1
        · split
          · exact (h1.purgePeers o).beginSingle o
          · have h2 := h1.emit (Ev.traced o (cycleRefs s1 o).visited.length (cycleRefs s1 o).popped)
            split
            · exact h2.fail _
            · split
              · exact h2.fail _
              · split
                · exact h2
                · split
                  · exact h2.fail _
                  · split
                    · exact h2
                    · exact h2.dropCycle _

/-- replace the program's handle lists, keeping heap and stack -/
theorem InvR.withRoots {s : State} (h : s.InvR) (r : List Nat) (hr : Below s.heap.length r) :
    ({ s with roots := r } : State).InvR :=
  h.withProg _ rfl rfl hr h.wroots_below h.raws_below (fun _ hv => h.vals_below hv)
theorem InvR.withWroots {s : State} (h : s.InvR) (r : List Nat) (hr : Below s.heap.length r) :
    ({ s with wroots := r } : State).InvR :=
  h.withProg _ rfl rfl h.roots_below hr h.raws_below (fun _ hv => h.vals_below hv)
theorem InvR.withRaws {s : State} (h : s.InvR) (r : List Nat) (hr : Below s.heap.length r) :
    ({ s with raws := r } : State).InvR :=
  h.withProg _ rfl rfl h.roots_below h.wroots_below hr (fun _ hv => h.vals_below hv)

theorem InvR.lt_of_useRoot {s : State} {r o : Nat} (hu : s.useRoot r = some o) : o < s.heap.length :=
  isLive_lt (useRoot_some hu).2

theorem Val.below_addHeld {n t : Nat} {v : Val} (hv : v.Below n) (ht : t < n) :
    Val.Below n { v with held := v.held ++ [t] } :=
  ⟨by simp only [Below_append, Below_cons, Below_nil, and_true]; exact ⟨hv.1, ht⟩, hv.2⟩
theorem Val.below_addWeak {n t : Nat} {v : Val} (hv : v.Below n) (ht : t < n) :
    Val.Below n { v with weaks := v.weaks ++ [t] } :=
  ⟨hv.1, by simp only [Below_append, Below_cons, Below_nil, and_true]; exact ⟨hv.2, ht⟩⟩
theorem Val.below_eraseHeld {n : Nat} {v : Val} (hv : v.Below n) (i : Nat) :
    Val.Below n { v with held := v.held.eraseIdx i } := ⟨hv.1.eraseIdx i, hv.2⟩

end State

open State

/-! ## user-level actions -/

section acts
variable (s : State) (fh fw : List Nat) (h : s.InvR)
include h

theorem applyAct_invR_new : (applyAct s fh fw .new).InvR := by
  simp only [applyAct]
  have h1 := h.alloc { vid := s.nextVid, held := [], weaks := [], script := [], panics := false }
    ⟨Below_nil _, Below_nil _⟩
  refine h1.withProg _ rfl rfl ?_ h1.wroots_below h1.raws_below (fun _ hv => h1.vals_below hv)
  simp only [Below_append, Below_cons, Below_nil, and_true]
  exact ⟨h1.roots_below, by simp⟩

theorem applyAct_invR_clone (r : Nat) : (applyAct s fh fw (.clone r)).InvR := by
  cases hu : s.useRoot r with
  | none => simp only [applyAct, hu]; exact h.badRoot r
  | some o =>
    simp only [applyAct, hu]
    have hlt := InvR.lt_of_useRoot hu
    have h1 := h.incStrong o
    refine h1.withRoots _ ?_
    simp only [Below_append, Below_cons, Below_nil, and_true]
    exact ⟨h1.roots_below, by simpa using hlt⟩

theorem applyAct_invR_drop (r : Nat) : (applyAct s fh fw (.drop r)).InvR := by
  cases hu : s.useRoot r with
  | none => simp only [applyAct, hu]; exact h.badRoot r
  | some o =>
    simp only [applyAct, hu]
    have hlt := InvR.lt_of_useRoot hu
    refine InvR.push (h.withRoots _ (h.roots_below.eraseIdx _)) _ (fun f hf => ?_)
    simp only [List.mem_cons, List.mem_nil_iff, or_false] at hf
    subst hf
    exact Frame.below_rcDrop hlt

theorem applyAct_invR_adopt (r1 r2 : Nat) : (applyAct s fh fw (.adopt r1 r2)).InvR := by
  cases hu1 : s.useRoot r1 <;> cases hu2 : s.useRoot r2 <;> simp only [applyAct, hu1, hu2]
  · exact (h.badRoot r1).badRoot r2
  · exact (h.badRoot r1).badRoot r2
  · exact (h.badRoot r1).badRoot r2
  · exact h.adopt _ _ _

theorem applyAct_invR_unadopt (r1 r2 : Nat) : (applyAct s fh fw (.unadopt r1 r2)).InvR := by
  cases hu1 : s.useRoot r1 <;> cases hu2 : s.useRoot r2 <;> simp only [applyAct, hu1, hu2]
  · exact (h.badRoot r1).badRoot r2
  · exact (h.badRoot r1).badRoot r2
  · exact (h.badRoot r1).badRoot r2
  · exact h.unadopt _ _ _

theorem applyAct_invR_store (r q : Nat) : (applyAct s fh fw (.store r q)).InvR := by
  cases hu1 : s.useRoot r <;> cases hu2 : s.useRoot q <;> simp only [applyAct, hu1, hu2]
  · exact (h.badRoot r).badRoot q
  · exact (h.badRoot r).badRoot q
  · exact (h.badRoot r).badRoot q
  · rename_i t o
    have hlt := InvR.lt_of_useRoot hu1
    split
    · exact h
    · exact InvR.modVal (h.withRoots _ (h.roots_below.eraseIdx _)) o _
        (fun v hv => Val.below_addHeld hv hlt)

theorem applyAct_invR_take (q k : Nat) : (applyAct s fh fw (.take q k)).InvR := by
  cases hu : s.useRoot q with
  | none => simp only [applyAct, hu]; exact h.badRoot q
  | some o =>
    cases hv : s.valOf o with
    | none => simp only [applyAct, hu, hv]; exact h.fail _
    | some v =>
      cases hn : nthMod v.held k with
      | none => simp only [applyAct, hu, hv, hn]; exact h
      | some t =>
        simp only [applyAct, hu, hv, hn]
        have hlt : t < s.heap.length := (h.val_below_of_valOf hv).1.of_nthMod hn
        have h1 := h.modVal o (fun v => { v with held := v.held.eraseIdx (idxMod v.held k) })
          (fun v hv => Val.below_eraseHeld hv _)
        refine h1.withRoots _ ?_
        simp only [Below_append, Below_cons, Below_nil, and_true]
        exact ⟨h1.roots_below, by simpa using hlt⟩

theorem applyAct_invR_link (r q : Nat) : (applyAct s fh fw (.link r q)).InvR := by
  cases hu1 : s.useRoot r <;> cases hu2 : s.useRoot q <;> simp only [applyAct, hu1, hu2]
  · exact (h.badRoot r).badRoot q
  · exact (h.badRoot r).badRoot q
  · exact (h.badRoot r).badRoot q
  · rename_i t o
    have hlt := InvR.lt_of_useRoot hu1
    split
    · exact h
    · have h1 := h.adopt o t false
      exact InvR.modVal (h1.withRoots _ (h1.roots_below.eraseIdx _)) o _
        (fun v hv => Val.below_addHeld hv (by simpa using hlt))

theorem applyAct_invR_unlink (q k : Nat) : (applyAct s fh fw (.unlink q k)).InvR := by
  cases hu : s.useRoot q with
  | none => simp only [applyAct, hu]; exact h.badRoot q
  | some o =>
    cases hv : s.valOf o with
    | none => simp only [applyAct, hu, hv]; exact h.fail _
    | some v =>
      cases hn : nthMod v.held k with
      | none => simp only [applyAct, hu, hv, hn]; exact h
      | some t =>
        simp only [applyAct, hu, hv, hn]
        have hlt : t < s.heap.length := (h.val_below_of_valOf hv).1.of_nthMod hn
        have h1 := h.modVal o (fun v => { v with held := v.held.eraseIdx (idxMod v.held k) })
          (fun v hv => Val.below_eraseHeld hv _)
        split
        · have h2 := h1.unadopt o t false
          refine h2.withRoots _ ?_
          simp only [Below_append, Below_cons, Below_nil, and_true]
          exact ⟨h2.roots_below, by simpa using hlt⟩
        · have h2 := h1.fail (.dangling t)
          refine h2.withRoots _ ?_
          simp only [Below_append, Below_cons, Below_nil, and_true]
          exact ⟨h2.roots_below, by simpa using hlt⟩

theorem applyAct_invR_downgrade (r : Nat) : (applyAct s fh fw (.downgrade r)).InvR := by
  cases hu : s.useRoot r with
  | none => simp only [applyAct, hu]; exact h.badRoot r
  | some o =>
    simp only [applyAct, hu]
    have hlt := InvR.lt_of_useRoot hu
    have h1 := h.incWeak o
    refine h1.withWroots _ ?_
    simp only [Below_append, Below_cons, Below_nil, and_true]
    exact ⟨h1.wroots_below, by simpa using hlt⟩

theorem applyAct_invR_upgrade (w : Nat) : (applyAct s fh fw (.upgrade w)).InvR := by
  cases hn : nthMod s.wroots w with
  | none => simp only [applyAct, hn]; exact h
  | some o =>
    have hlt : o < s.heap.length := h.wroots_below.of_nthMod hn
    cases hc : s.cell o with
    | none => simp only [applyAct, hn, hc]; exact h.fail _
    | some ob =>
      simp only [applyAct, hn, hc]
      split
      · exact h.emit _
      · have h1 := (h.incStrong o).emit (retBool true)
        refine h1.withRoots _ ?_
        simp only [Below_append, Below_cons, Below_nil, and_true]
        exact ⟨h1.roots_below, by simpa using hlt⟩

theorem applyAct_invR_cloneWeak (w : Nat) : (applyAct s fh fw (.cloneWeak w)).InvR := by
  cases hn : nthMod s.wroots w with
  | none => simp only [applyAct, hn]; exact h
  | some o =>
    simp only [applyAct, hn]
    have hlt : o < s.heap.length := h.wroots_below.of_nthMod hn
    have h1 := h.incWeak o
    refine h1.withWroots _ ?_
    simp only [Below_append, Below_cons, Below_nil, and_true]
    exact ⟨h1.wroots_below, by simpa using hlt⟩

theorem applyAct_invR_dropWeak (w : Nat) : (applyAct s fh fw (.dropWeak w)).InvR := by
  cases hn : nthMod s.wroots w with
  | none => simp only [applyAct, hn]; exact h
  | some o =>
    simp only [applyAct, hn]
    have hlt : o < s.heap.length := h.wroots_below.of_nthMod hn
    refine InvR.push (h.withWroots _ (h.wroots_below.eraseIdx _)) _ (fun f hf => ?_)
    simp only [List.mem_cons, List.mem_nil_iff, or_false] at hf
    subst hf
    exact Frame.below_weakDrop hlt

theorem applyAct_invR_storeWeak (w q : Nat) : (applyAct s fh fw (.storeWeak w q)).InvR := by
  cases hn : nthMod s.wroots w <;> cases hu : s.useRoot q <;> simp only [applyAct, hn, hu]
  · exact h
  · exact h
  · exact h.badRoot q
  · rename_i t o
    have hlt : t < s.heap.length := h.wroots_below.of_nthMod hn
    exact InvR.modVal (h.withWroots _ (h.wroots_below.eraseIdx _)) o _
      (fun v hv => Val.below_addWeak hv hlt)

theorem applyAct_invR_tryUnwrap (r : Nat) : (applyAct s fh fw (.tryUnwrap r)).InvR := by
  cases hu : s.useRoot r with
  | none => simp only [applyAct, hu]; exact h.badRoot r
  | some o =>
    cases hc : s.cell o with
    | none => simp only [applyAct, hu, hc]; exact h.fail _
    | some ob =>
      simp only [applyAct, hu, hc]
      split
      · rename_i v hs hv
        refine InvR.emit (InvR.giveUp ?_ o) _
        refine h.withProg _ rfl rfl (h.roots_below.eraseIdx _) h.wroots_below h.raws_below (fun v' hv' => ?_)
        simp only [List.mem_append, List.mem_cons, List.mem_nil_iff, or_false] at hv'
        rcases hv' with hv' | rfl
        · exact h.vals_below hv'
        · exact h.val_below_of_cell hc hv
      · exact h.fail _
      · exact h.emit _

theorem applyAct_invR_dropValue (i : Nat) : (applyAct s fh fw (.dropValue i)).InvR := by
  cases hn : nthMod s.vals i with
  | none => simp only [applyAct, hn]; exact h
  | some v =>
    simp only [applyAct, hn]
    have hv : v.Below s.heap.length := h.vals_below (mem_of_nthMod hn)
    refine InvR.push ?_ _ (fun f hf => ?_)
    · refine h.withProg _ rfl rfl h.roots_below h.wroots_below h.raws_below (fun v' hv' => ?_)
      exact h.vals_below (List.mem_of_mem_eraseIdx hv')
    · simp only [List.mem_cons, List.mem_nil_iff, or_false] at hf
      subst hf
      exact Frame.below_dropVal hv

theorem applyAct_invR_makeMut (r : Nat) : (applyAct s fh fw (.makeMut r)).InvR := by
  cases hu : s.useRoot r with
  | none => simp only [applyAct, hu]; exact h.badRoot r
  | some o =>
    have hlt := InvR.lt_of_useRoot hu
    cases hc : s.cell o with
    | none => simp only [applyAct, hu, hc]; exact h.fail _
    | some ob =>
      cases hv : ob.value with
      | none => simp only [applyAct, hu, hc, hv]; exact h.fail _
      | some v =>
        simp only [applyAct, hu, hc, hv]
        have hvb : v.Below s.heap.length := h.val_below_of_cell hc hv
        split
        · by_cases hsh : v.shallow = true
          · simp only [if_pos hsh]
            have h2 := h.alloc { v with vid := s.nextVid, held := [], weaks := [] }
              ⟨Below_nil _, Below_nil _⟩
            refine InvR.push (InvR.emit ?_ _) _ (fun f hf => ?_)
            · refine h2.withProg _ rfl rfl ?_ h2.wroots_below h2.raws_below (fun _ hv => h2.vals_below hv)
              exact h2.roots_below.set _ (by simp)
            · simp only [List.mem_cons, List.mem_nil_iff, or_false] at hf
              subst hf
              exact Frame.below_rcDrop (by simp; omega)
          simp only [if_neg hsh]
          have h1 := h.cloneHandles v
          have hl := cloneHandles_heap_length s v
          have h2 := h1.alloc { v with vid := s.nextVid }
            ⟨hvb.1.mono (by omega), hvb.2.mono (by omega)⟩
          refine InvR.push (InvR.emit ?_ _) _ (fun f hf => ?_)
          · refine h2.withProg _ rfl rfl ?_ h2.wroots_below h2.raws_below (fun _ hv => h2.vals_below hv)
            exact h2.roots_below.set _ (by simp [hl])
          · simp only [List.mem_cons, List.mem_nil_iff, or_false] at hf
            subst hf
            exact Frame.below_rcDrop (by simp [hl]; omega)
        · split
          · have h2 := h.alloc v ⟨hvb.1.mono (by omega), hvb.2.mono (by omega)⟩
            refine InvR.emit (InvR.giveUp ?_ o) _
            exact h2.withRoots _ (h2.roots_below.set _ (by simp))
          · exact h.emit _

theorem applyAct_invR_getMut (r : Nat) : (applyAct s fh fw (.getMut r)).InvR := by
  cases hu : s.useRoot r with
  | none => simp only [applyAct, hu]; exact h.badRoot r
  | some o =>
    cases hc : s.cell o with
    | none => simp only [applyAct, hu, hc]; exact h.fail _
    | some ob => simp only [applyAct, hu, hc]; exact h.emit _

theorem applyAct_invR_intoRaw (r : Nat) : (applyAct s fh fw (.intoRaw r)).InvR := by
  cases hu : s.useRoot r with
  | none => simp only [applyAct, hu]; exact h.badRoot r
  | some o =>
    simp only [applyAct, hu]
    have hlt := InvR.lt_of_useRoot hu
    refine h.withProg _ rfl rfl (h.roots_below.eraseIdx _) h.wroots_below ?_ (fun _ hv => h.vals_below hv)
    simp only [Below_append, Below_cons, Below_nil, and_true]
    exact ⟨h.raws_below, hlt⟩

theorem applyAct_invR_fromRaw (i : Nat) : (applyAct s fh fw (.fromRaw i)).InvR := by
  cases hn : nthMod s.raws i with
  | none => simp only [applyAct, hn]; exact h
  | some o =>
    simp only [applyAct, hn]
    have hlt : o < s.heap.length := h.raws_below.of_nthMod hn
    refine h.withProg _ rfl rfl ?_ h.wroots_below (h.raws_below.eraseIdx _) (fun _ hv => h.vals_below hv)
    simp only [Below_append, Below_cons, Below_nil, and_true]
    exact ⟨h.roots_below, hlt⟩

theorem applyAct_invR_incStrong (i : Nat) : (applyAct s fh fw (.incStrong i)).InvR := by
  cases hn : nthMod s.raws i with
  | none => simp only [applyAct, hn]; exact h
  | some o =>
    simp only [applyAct, hn]
    have hlt : o < s.heap.length := h.raws_below.of_nthMod hn
    split
    · have h1 := h.incStrong o
      refine h1.withRaws _ ?_
      simp only [Below_append, Below_cons, Below_nil, and_true]
      exact ⟨h1.raws_below, by simpa using hlt⟩
    · exact h.fail _

theorem applyAct_invR_decStrong (i : Nat) : (applyAct s fh fw (.decStrong i)).InvR := by
  cases hn : nthMod s.raws i with
  | none => simp only [applyAct, hn]; exact h
  | some o =>
    simp only [applyAct, hn]
    have hlt : o < s.heap.length := h.raws_below.of_nthMod hn
    split
    · refine InvR.push (h.withRaws _ (h.raws_below.eraseIdx _)) _ (fun f hf => ?_)
      simp only [List.mem_cons, List.mem_nil_iff, or_false] at hf
      subst hf
      exact Frame.below_rcDrop hlt
    · exact h.fail _

theorem applyAct_invR_ptrEq (r1 r2 : Nat) : (applyAct s fh fw (.ptrEq r1 r2)).InvR := by
  cases hu1 : s.useRoot r1 <;> cases hu2 : s.useRoot r2 <;> simp only [applyAct, hu1, hu2]
  · exact (h.badRoot r1).badRoot r2
  · exact (h.badRoot r1).badRoot r2
  · exact (h.badRoot r1).badRoot r2
  · exact h.emit _

theorem applyAct_invR_counts (r : Nat) : (applyAct s fh fw (.counts r)).InvR := by
  cases hu : s.useRoot r with
  | none => simp only [applyAct, hu]; exact h.badRoot r
  | some o =>
    cases hc : s.cell o with
    | none => simp only [applyAct, hu, hc]; exact h.fail _
    | some ob => simp only [applyAct, hu, hc]; exact (h.emit _).emit _

theorem applyAct_invR_wcounts (w : Nat) : (applyAct s fh fw (.wcounts w)).InvR := by
  cases hn : nthMod s.wroots w with
  | none => simp only [applyAct, hn]; exact h
  | some o =>
    cases hc : s.cell o with
    | none => simp only [applyAct, hn, hc]; exact h.fail _
    | some ob =>
      simp only [applyAct, hn, hc]
      split <;> exact (h.emit _).emit _

theorem applyAct_invR_setPanic (q : Nat) : (applyAct s fh fw (.setPanic q)).InvR := by
  cases hu : s.useRoot q with
  | none => simp only [applyAct, hu]; exact h.badRoot q
  | some o =>
    simp only [applyAct, hu]
    exact h.modVal o _ (fun v hv => hv)

theorem applyAct_invR_setShallow (q : Nat) : (applyAct s fh fw (.setShallow q)).InvR := by
  cases hu : s.useRoot q with
  | none => simp only [applyAct, hu]; exact h.badRoot q
  | some o =>
    simp only [applyAct, hu]
    exact h.modVal o _ (fun v hv => hv)

theorem applyAct_invR_upgradeField (k : Nat) : (applyAct s fh fw (.upgradeField k)).InvR := by
  cases hn : nthMod fw k with
  | none => simp only [applyAct, hn]; exact h
  | some o =>
    cases hc : s.cell o with
    | none => simp only [applyAct, hn, hc]; exact h.fail _
    | some ob =>
      have hlt : o < s.heap.length := cell_some_lt s o ob hc
      simp only [applyAct, hn, hc]
      split
      · exact h.emit _
      · have h1 := (h.incStrong o).emit (retBool true)
        refine h1.withRoots _ ?_
        simp only [Below_append, Below_cons, Below_nil, and_true]
        exact ⟨h1.roots_below, by simpa using hlt⟩

theorem applyAct_invR_cloneField (k : Nat) (he : (applyAct s fh fw (.cloneField k)).err = none) :
    (applyAct s fh fw (.cloneField k)).InvR := by
  cases hn : nthMod fh k with
  | none => simp only [applyAct, hn]; exact h
  | some o =>
    simp only [applyAct, hn] at he ⊢
    have hlt : o < s.heap.length := isLive_lt ((incStrong_err_eq_none_iff s o).mp he).2
    have h1 := h.incStrong o
    refine h1.withRoots _ ?_
    simp only [Below_append, Below_cons, Below_nil, and_true]
    exact ⟨h1.roots_below, by simpa using hlt⟩

theorem applyAct_invR_downgradeField (k : Nat)
    (he : (applyAct s fh fw (.downgradeField k)).err = none) :
    (applyAct s fh fw (.downgradeField k)).InvR := by
  cases hn : nthMod fh k with
  | none => simp only [applyAct, hn]; exact h
  | some o =>
    simp only [applyAct, hn] at he ⊢
    obtain ⟨-, ob, hc, -⟩ := (incWeak_err_eq_none_iff s o).mp he
    have hlt : o < s.heap.length := cell_some_lt s o ob hc
    have h1 := h.incWeak o
    refine h1.withWroots _ ?_
    simp only [Below_append, Below_cons, Below_nil, and_true]
    exact ⟨h1.wroots_below, by simpa using hlt⟩

end acts

theorem applyAct_invR (s : State) (fh fw : List Nat) (a : Act) (h : s.InvR)
    (he : (applyAct s fh fw a).err = none) : (applyAct s fh fw a).InvR := by
  cases a with
  | new => exact applyAct_invR_new s fh fw h
  | clone r => exact applyAct_invR_clone s fh fw h r
  | drop r => exact applyAct_invR_drop s fh fw h r
  | adopt r1 r2 => exact applyAct_invR_adopt s fh fw h r1 r2
  | unadopt r1 r2 => exact applyAct_invR_unadopt s fh fw h r1 r2
  | store r q => exact applyAct_invR_store s fh fw h r q
  | take q k => exact applyAct_invR_take s fh fw h q k
  | link r q => exact applyAct_invR_link s fh fw h r q
  | unlink q k => exact applyAct_invR_unlink s fh fw h q k
  | downgrade r => exact applyAct_invR_downgrade s fh fw h r
  | upgrade w => exact applyAct_invR_upgrade s fh fw h w
  | cloneWeak w => exact applyAct_invR_cloneWeak s fh fw h w
  | dropWeak w => exact applyAct_invR_dropWeak s fh fw h w
  | storeWeak w q => exact applyAct_invR_storeWeak s fh fw h w q
  | tryUnwrap r => exact applyAct_invR_tryUnwrap s fh fw h r
  | dropValue i => exact applyAct_invR_dropValue s fh fw h i
  | makeMut r => exact applyAct_invR_makeMut s fh fw h r
  | getMut r => exact applyAct_invR_getMut s fh fw h r
  | intoRaw r => exact applyAct_invR_intoRaw s fh fw h r
  | fromRaw i => exact applyAct_invR_fromRaw s fh fw h i
  | incStrong i => exact applyAct_invR_incStrong s fh fw h i
  | decStrong i => exact applyAct_invR_decStrong s fh fw h i
  | ptrEq r1 r2 => exact applyAct_invR_ptrEq s fh fw h r1 r2
  | counts r => exact applyAct_invR_counts s fh fw h r
  | wcounts w => exact applyAct_invR_wcounts s fh fw h w
  | setPanic q => exact applyAct_invR_setPanic s fh fw h q
  | setShallow q => exact applyAct_invR_setShallow s fh fw h q
  | upgradeField k => exact applyAct_invR_upgradeField s fh fw h k
  | cloneField k => exact applyAct_invR_cloneField s fh fw h k he
  | downgradeField k => exact applyAct_invR_downgradeField s fh fw h k he

theorem applyOp_invR (s : State) (op : Op) (h : s.InvR) (he : (applyOp s op).err = none) :
    (applyOp s op).InvR := by
  cases op with
  | act a => exact applyAct_invR s [] [] a h he
  | setScript q acts =>
    cases hu : s.useRoot q with
    | none => simp only [applyOp, hu]; exact h.badRoot q
    | some o => simp only [applyOp, hu]; exact h.modVal o _ (fun v hv => hv)
  | shuffle q i =>
    cases hu : s.useRoot q with
    | none => simp only [applyOp, hu]; exact h.badRoot q
    | some o => simp only [applyOp, hu]; exact h.setLinks o _

theorem step_invR (s : State) (h : s.InvR) (he : (step s).err = none) : (step s).InvR := by
  obtain ⟨heap, roots, wroots, vals, raws, stack, log, err, unwinding, hint, nextVid⟩ := s
  unfold step at he ⊢
  cases err with
  | some e => exact h
  | none =>
    cases stack with
    | nil => exact h
    | cons f rest =>
      have h0 := h.pop (f := f) (rest := rest) rfl
      have hf := h.top_below (f := f) (rest := rest) rfl
      cases f with
      | rcDrop o => exact h0.rcDrop o
      | weakDrop o => exact h0.weakDrop o
      | dropVal v => exact h0.dropVal v hf.dropVal_below
      | script hh w acts =>
        cases acts with
        | nil => exact h0
        | cons a as =>
          refine applyAct_invR _ hh w a (InvR.push h0 _ (fun f hf => ?_)) he
          simp only [List.mem_cons, List.mem_nil_iff, or_false] at hf
          subst hf
          simp
      | panic => exact h0.panic
      | dropFields hh w => exact h0.dropFields hh w hf.dropFields_below.1 hf.dropFields_below.2
      | finishSingle o => exact h0.finishSingle o
      | phase3 ks => exact InvR.foldl State.phase3One (fun s k hs => hs.phase3One k) ks h0

theorem endOp_invR (s : State) (h : s.InvR) : (endOp s).InvR := by
  unfold endOp
  split
  · refine InvR.emit ?_ _
    exact h.withProg _ rfl rfl h.roots_below h.wroots_below h.raws_below (fun _ hv => h.vals_below hv)
  · exact h

theorem begin_invR (s : State) (hint : List Nat) (h : s.InvR) : (s.begin hint).InvR :=
  h.withProg _ rfl rfl h.roots_below h.wroots_below h.raws_below (fun _ hv => h.vals_below hv)

end Cactus
