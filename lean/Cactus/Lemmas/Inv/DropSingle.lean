import Cactus.Lemmas.Inv.Purge
/-!
# Invariant preservation for the non-trace paths of `Rc::drop`

`s` is a state whose top frame is `.rcDrop o`; `step` pops the frame (`s0 := { s with stack := rest }`)
and runs `s0.rcDrop o`.  The popped frame owned one strong handle to `o`.
-/
namespace Cactus
namespace State

/-! ## popping the `rcDrop` frame -/

section pop
variable {s : State} {o : Nat} {rest : List Frame} (hst : s.stack = .rcDrop o :: rest)
include hst

theorem pend_pop_rcDrop (t : Nat) :
    s.pend t = (if o = t then 1 else 0) + sumList (rest.map (Frame.strongTo t)) := by
  simp [pend, hst]
theorem pendW_pop_rcDrop (t : Nat) : s.pendW t = sumList (rest.map (Frame.weakTo t)) := by
  simp [pendW, hst]
theorem owed_pop_rcDrop (t : Nat) : s.owed t = sumList (rest.map (Frame.owes t)) := by
  simp [owed, hst]
theorem mem_stack_of_mem_rest {f : Frame} (h : f ∈ rest) : f ∈ s.stack := by
  rw [hst]; exact List.mem_cons_of_mem _ h

end pop

/-- an object that a pending continuation frame owes is not live -/
theorem owed_eq_zero_of_isLive {s : State} (hK : s.InvK) {o : Nat} (hl : s.isLive o = true) :
    s.owed o = 0 := by
  apply Classical.byContradiction
  intro hne
  have hpos : 0 < s.owed o := by omega
  obtain ⟨ob, n, hg, -, hs⟩ := (isLive_eq_true_iff s o).1 hl
  rcases (owed_pos_iff s o).1 hpos with h | ⟨ks, h, hk⟩
  · obtain ⟨ob', hg', hu, -⟩ := hK.1 o h
    rw [hg] at hg'; cases hg'; rw [hs] at hu; cases hu
  · obtain ⟨ob', hg', hu, -⟩ := hK.2.1 ks h o hk
    rw [hg] at hg'; cases hg'; rw [hs] at hu; cases hu

/-! ## (a) released allocation -/

theorem rcDrop_inv_uaf {s : State} {o : Nat} {rest : List Frame} (hc : s.cell o = none) :
    (({ s with stack := rest } : State).rcDrop o).Inv := by
  intro herr'
  have hc0 : ({ s with stack := rest } : State).cell o = none := by simpa using hc
  unfold rcDrop at herr'
  simp only [hc0] at herr'
  exact absurd herr' (fail_err_ne_none _ _)

/-! ## (b) dead target -/

/-- the popped state satisfies every clause that does not count the popped handle -/
theorem rcDrop_inv_dead {s : State} {o : Nat} {rest : List Frame} {ob : Obj}
    (herr : s.err = none) (hst : s.stack = .rcDrop o :: rest) (h : s.Inv)
    (hc : s.cell o = some ob) (hd : ob.strong.isDead = true) :
    (({ s with stack := rest } : State).rcDrop o).Inv := by
  obtain ⟨hO, hB, hC, hW, hK⟩ := h herr
  have hc0 : ({ s with stack := rest } : State).cell o = some ob := by simpa using hc
  have hres : ({ s with stack := rest } : State).rcDrop o = { s with stack := rest } := by
    unfold rcDrop
    simp only [hc0]
    rcases (Strong.isDead_eq_true_iff ob.strong).1 hd with h0 | h0 <;> simp [h0]
  rw [hres]
  intro _
  have hnl : s.isLive o = false := by rw [isLive_of_cell hc, hd]; rfl
  refine ⟨hO, ?_, ?_, ?_, ?_⟩
  · refine ⟨fun a t ht => ?_, fun a b ha hb => ?_⟩
    · simp only [tableOf_withStack] at ht
      obtain ⟨hw, he⟩ := hB.1 a t ht
      exact ⟨hw, fun e hm => ⟨(he e hm).1, fun hk => by simpa using (he e hm).2 hk⟩⟩
    · simp only [isLive_withStack] at ha hb
      simpa using hB.2 a b ha hb
  · intro t ht
    simp only [isLive_withStack] at ht
    have hne : o ≠ t := fun e => by subst e; rw [hnl] at ht; cases ht
    have := hC t ht
    rw [pend_pop_rcDrop hst t, if_neg hne] at this
    simpa using this
  · intro t ht
    have := hW t ht
    rw [pendW_pop_rcDrop hst t] at this
    simpa using this
  · refine ⟨fun o' hm => hK.1 o' (mem_stack_of_mem_rest hst hm),
      fun ks hm => hK.2.1 ks (mem_stack_of_mem_rest hst hm), fun x => ?_⟩
    have := hK.2.2 x
    rw [owed_pop_rcDrop hst x] at this
    simpa using this

/-! ## (c) decrement of a count `≥ 2` -/

/-- the state in which the trace runs -/
theorem rcDrop_inv_dec_state {s : State} {o : Nat} {rest : List Frame} {ob : Obj} {n : Nat}
    (herr : s.err = none) (hst : s.stack = .rcDrop o :: rest) (h : s.Inv)
    (hc : s.cell o = some ob) (hs : ob.strong = .cnt (n + 2)) :
    (({ s with stack := rest } : State).setObj o { ob with strong := .cnt (n + 1) }).InvCore := by
  obtain ⟨hO, hB, hC, hW, hK⟩ := h herr
  have hg : s.heap[o]? = some ob := get_of_cell hc
  have hg0 : ({ s with stack := rest } : State).heap[o]? = some ob := hg
  have hlt : o < ({ s with stack := rest } : State).heap.length := get_lt hg
  have hT : ∀ x, (({ s with stack := rest } : State).setObj o { ob with strong := .cnt (n + 1) }).tableOf x
      = s.tableOf x := by
    intro x; rw [tableOf_setObj_of_links_eq (ob' := { ob with strong := .cnt (n + 1) }) hg0 rfl rfl x]; simp
  have hL : ∀ x, (({ s with stack := rest } : State).setObj o { ob with strong := .cnt (n + 1) }).isLive x
      = s.isLive x := by
    intro x; rw [isLive_setObj_of_eq (ob' := { ob with strong := .cnt (n + 1) }) hg0 rfl (by simp [hs]) x]; simp
  have hF : ∀ x y, (({ s with stack := rest } : State).setObj o { ob with strong := .cnt (n + 1) }).F x y
      = s.F x y := by
    intro x y; rw [F_setObj_of_links_eq (ob' := { ob with strong := .cnt (n + 1) }) hg0 rfl rfl x y]; simp
  have hBb : ∀ x y, (({ s with stack := rest } : State).setObj o { ob with strong := .cnt (n + 1) }).B x y
      = s.B x y := by
    intro x y; rw [B_setObj_of_links_eq (ob' := { ob with strong := .cnt (n + 1) }) hg0 rfl rfl x y]; simp
  refine ⟨?_, ?_, ?_, ?_, ?_⟩
  · intro a oa ha
    by_cases hao : a = o
    · subst hao
      rw [getElem?_setObj_same _ hlt] at ha
      cases ha
      obtain ⟨h1, -, -, h4⟩ := hO a ob hg
      refine ⟨fun m _ => h1 (n + 1) hs, fun h0 => by simp at h0, fun h0 => by simp at h0, h4⟩
    · rw [getElem?_setObj_other _ _ hao] at ha
      exact hO a oa ha
  · refine ⟨fun a t ht => ?_, fun a b ha hb => ?_⟩
    · rw [hT] at ht
      obtain ⟨hw, he⟩ := hB.1 a t ht
      exact ⟨hw, fun e hm => ⟨(he e hm).1, fun hk => by rw [hL]; exact (he e hm).2 hk⟩⟩
    · rw [hL] at ha hb
      rw [hF, hBb]; exact hB.2 a b ha hb
  · intro t ht
    rw [hL] at ht
    have h1 := hC t ht
    rw [pend_pop_rcDrop hst t] at h1
    have h2 : (({ s with stack := rest } : State).setObj o { ob with strong := .cnt (n + 1) }).inHeap t
        = s.inHeap t := by
      rw [inHeap_setObj_of_value_eq (ob' := { ob with strong := .cnt (n + 1) }) hg0 rfl t]; simp
    rw [h2]
    simp only [ext_setObj, ext_withStack, pend_setObj, pend_withStack]
    by_cases hto : o = t
    · subst hto
      rw [strongNat_setObj_same _ hlt]
      rw [strongNat_of_get hg, hs] at h1
      simp at h1 ⊢
      omega
    · rw [strongNat_setObj_other _ _ (Ne.symm hto)]
      simp only [hto, if_false] at h1
      simpa using h1
  · intro t ht
    have h1 := hW t (by simpa using ht)
    rw [pendW_pop_rcDrop hst t] at h1
    rw [weakNat_setObj_of_weak_eq (ob' := { ob with strong := .cnt (n + 1) }) hg0 rfl t, inHeapW_setObj_of_value_eq (ob' := { ob with strong := .cnt (n + 1) }) hg0 rfl t,
      implicitNat_setObj_of_implicit_eq (ob' := { ob with strong := .cnt (n + 1) }) hg0 rfl t]
    simpa using h1
  · refine ⟨fun o' hm => ?_, fun ks hm k hk => ?_, fun x => ?_⟩
    · obtain ⟨ob', hg', hu, hr⟩ := hK.1 o' (mem_stack_of_mem_rest hst hm)
      have hne : o' ≠ o := fun e => by subst e; rw [hg] at hg'; cases hg'; rw [hs] at hu; cases hu
      exact ⟨ob', by rw [getElem?_setObj_other _ _ hne]; exact hg', hu, hr⟩
    · obtain ⟨ob', hg', hu, hr⟩ := hK.2.1 ks (mem_stack_of_mem_rest hst hm) k hk
      have hne : k ≠ o := fun e => by subst e; rw [hg] at hg'; cases hg'; rw [hs] at hu; cases hu
      exact ⟨ob', by rw [getElem?_setObj_other _ _ hne]; exact hg', hu, hr⟩
    · have := hK.2.2 x
      rw [owed_pop_rcDrop hst x] at this
      simpa using this

theorem rcDrop_inv_dec {s : State} {o : Nat} {rest : List Frame} {ob : Obj} {n : Nat} {t : Table}
    (herr : s.err = none) (hst : s.stack = .rcDrop o :: rest) (h : s.Inv)
    (hc : s.cell o = some ob) (hs : ob.strong = .cnt (n + 2)) (hl : ob.links = some t)
    (hemp : t.isEmpty = true) :
    (({ s with stack := rest } : State).rcDrop o).Inv := by
  have hc0 : ({ s with stack := rest } : State).cell o = some ob := by simpa using hc
  have hres : ({ s with stack := rest } : State).rcDrop o
      = ({ s with stack := rest } : State).setObj o { ob with strong := .cnt (n + 1) } := by
    unfold rcDrop
    simp only [hc0, hs, hl, hemp, if_true]
    simp
  rw [hres]
  intro _
  exact rcDrop_inv_dec_state herr hst h hc hs

/-! ## (d), (e) the last handle: purge, then `beginSingle` -/

/-- `beginSingle` on an object whose strong count has just reached zero -/
theorem beginSingle_of_cnt {sp : State} {o : Nat} {ob2 : Obj} {k : Nat} {v : Val}
    (hc : sp.cell o = some ob2) (hs : ob2.strong = .cnt k) (hv : ob2.value = some v) :
    sp.beginSingle o
      = (sp.setObj o { ob2 with strong := .uninit, value := none }).push [.dropVal v, .finishSingle o] := by
  unfold beginSingle
  simp only [hc, hs, hv]

/-- common part of (d) and (e): the purge loop (trivial when the table is empty) followed by
`beginSingle` preserves the invariant -/
theorem rcDrop_inv_last_aux {s : State} {o : Nat} {rest : List Frame} {ob : Obj}
    (herr : s.err = none) (hst : s.stack = .rcDrop o :: rest) (h : s.Inv)
    (hc : s.cell o = some ob) (hs : ob.strong = .cnt 1) :
    (((({ s with stack := rest } : State).setObj o { ob with strong := .cnt 0 }).purgePeers o).beginSingle o).Inv := by
  obtain ⟨hO, hB, hC, hW, hK⟩ := h herr
  have hg : s.heap[o]? = some ob := get_of_cell hc
  have hfr : ob.freed = false := freed_of_cell hc
  have hlive : s.isLive o = true := by rw [isLive_of_get hg]; simp [hfr, hs]
  obtain ⟨hvS, hlS, -, himp⟩ := (hO o ob hg).1 0 hs
  obtain ⟨v, hv⟩ : ∃ v, ob.value = some v := Option.isSome_iff_exists.1 hvS
  obtain ⟨t, hl⟩ : ∃ t, ob.links = some t := Option.isSome_iff_exists.1 hlS
  have ht : s.tableOf o = some t := by rw [tableOf_of_get hg]; simp [hfr, hl]
  have hweakO := (hO o ob hg).2.2.2
  -- name the intermediate states
  generalize hs1 : (({ s with stack := rest } : State).setObj o { ob with strong := .cnt 0 }) = s1
  generalize hsp : s1.purgePeers o = sp
  have hg0 : ({ s with stack := rest } : State).heap[o]? = some ob := hg
  have hlt : o < ({ s with stack := rest } : State).heap.length := get_lt hg
  have hg1 : s1.heap[o]? = some { ob with strong := .cnt 0 } := by
    rw [← hs1]; exact getElem?_setObj_same _ hlt
  have hg1' : ∀ a, a ≠ o → s1.heap[a]? = s.heap[a]? := by
    intro a ha; rw [← hs1, getElem?_setObj_other _ _ ha]
  have hT : ∀ p, s1.tableOf p = s.tableOf p := by
    intro p; rw [← hs1, tableOf_setObj_of_links_eq (ob' := { ob with strong := .cnt 0 }) hg0 rfl rfl p]; simp
  have herr1 : s1.err = none := by rw [← hs1]; exact herr
  obtain ⟨e1, ftabo, ftab, hLO⟩ := purgePeers_of_InvB hO hB hlive hT ht herr1
  rw [hsp] at e1 ftabo ftab hLO
  -- counting functions of `sp`
  have fext : ∀ x, sp.ext x = s.ext x := by intro x; rw [← hsp, ← hs1]; simp
  have fextW : ∀ x, sp.extW x = s.extW x := by intro x; rw [← hsp, ← hs1]; simp
  have fpend : ∀ x, sp.pend x = sumList (rest.map (Frame.strongTo x)) := by
    intro x; rw [← hsp, ← hs1]; simp
  have fpendW : ∀ x, sp.pendW x = sumList (rest.map (Frame.weakTo x)) := by
    intro x; rw [← hsp, ← hs1]; simp
  have fowed : ∀ x, sp.owed x = sumList (rest.map (Frame.owes x)) := by
    intro x; rw [← hsp, ← hs1]; simp
  have fstack : sp.stack = rest := by rw [← hsp, ← hs1]; simp
  have flen : sp.heap.length = s.heap.length := by rw [← hsp, ← hs1]; simp
  have finH : ∀ x, sp.inHeap x = s.inHeap x := by
    intro x; rw [← hsp, ← hs1, inHeap_purgePeers,
      inHeap_setObj_of_value_eq (ob' := { ob with strong := .cnt 0 }) hg0 rfl x]; simp
  have finHW : ∀ x, sp.inHeapW x = s.inHeapW x := by
    intro x; rw [← hsp, ← hs1, inHeapW_purgePeers,
      inHeapW_setObj_of_value_eq (ob' := { ob with strong := .cnt 0 }) hg0 rfl x]; simp
  have fweak : ∀ x, sp.weakNat x = s.weakNat x := by
    intro x; rw [← hsp, ← hs1, weakNat_purgePeers,
      weakNat_setObj_of_weak_eq (ob' := { ob with strong := .cnt 0 }) hg0 rfl x]; simp
  have fimp : ∀ x, sp.implicitNat x = s.implicitNat x := by
    intro x; rw [← hsp, ← hs1, implicitNat_purgePeers,
      implicitNat_setObj_of_implicit_eq (ob' := { ob with strong := .cnt 0 }) hg0 rfl x]; simp
  have fstrong : ∀ x, x ≠ o → sp.strongNat x = s.strongNat x := by
    intro x hx; rw [← hsp, ← hs1, strongNat_purgePeers, strongNat_setObj_other _ _ hx]; simp
  have flive : ∀ x, x ≠ o → sp.isLive x = s.isLive x := by
    intro x hx; rw [← hsp, ← hs1, isLive_purgePeers, isLive_setObj_other _ _ hx]; simp
  -- objects of `sp`
  obtain ⟨ob2, hg2, q1, q2, q3, q4, q5, -, -⟩ := hLO.obj o _ hg1
  have q1' : ob2.strong = .cnt 0 := q1
  have q2' : ob2.weak = ob.weak := q2
  have q3' : ob2.value = some v := q3.trans hv
  have q4' : ob2.freed = false := q4.trans hfr
  have q5' : ob2.implicit = true := q5.trans himp
  have q6' : ob2.links = some [] := by
    have := tableOf_of_get hg2; rw [ftabo, q4'] at this; simpa using this.symm
  have fobj : ∀ a, a ≠ o → ∀ oa : Obj, s.heap[a]? = some oa →
      ∃ oa' : Obj, sp.heap[a]? = some oa' ∧ oa.EqButLinks oa' ∧ (oa.links = some [] → oa'.links = some []) := by
    intro a ha oa hga
    obtain ⟨oa', hga', q⟩ := hLO.obj a oa (by rw [hg1' a ha]; exact hga)
    refine ⟨oa', hga', q, fun hnil => ?_⟩
    by_cases hf : oa.freed = true
    · rw [q.2.2.2.2.2.2 hf]; exact hnil
    · have hf' : oa.freed = false := by simpa using hf
      have h1 : s.tableOf a = some [] := by rw [tableOf_of_get hga]; simp [hf', hnil]
      obtain ⟨tp', htp', -, -, -, -, hent⟩ := (ftab a ha).2 [] h1
      have hnil' : tp' = [] := by
        cases tp' with
        | nil => rfl
        | cons e r => obtain ⟨c, hc⟩ := hent e (by simp); cases hc
      have h2 := tableOf_of_get hga'
      rw [htp', q.2.2.2.1, hf', hnil'] at h2
      simpa using h2.symm
  have fobj' : ∀ a, a ≠ o → ∀ oa' : Obj, sp.heap[a]? = some oa' →
      ∃ oa : Obj, s.heap[a]? = some oa ∧ oa.EqButLinks oa' ∧ (oa.links = some [] → oa'.links = some []) := by
    intro a ha oa' hga'
    have hlt' : a < s.heap.length := by rw [← flen]; exact get_lt hga'
    obtain ⟨oa, hga⟩ : ∃ oa, s.heap[a]? = some oa := ⟨s.heap[a], List.getElem?_eq_getElem hlt'⟩
    obtain ⟨oa'', hga'', q, qn⟩ := fobj a ha oa hga
    rw [hga'] at hga''; cases hga''
    exact ⟨oa, hga, q, qn⟩
  -- the result
  have hc2 : sp.cell o = some ob2 := cell_of_not_freed hg2 q4'
  rw [beginSingle_of_cnt hc2 q1' q3']
  intro _
  have hlt2 : o < sp.heap.length := get_lt hg2
  generalize hob3 : ({ ob2 with strong := Strong.uninit, value := none } : Obj) = ob3
  have r1 : ob3.strong = .uninit := by rw [← hob3]
  have r2 : ob3.weak = ob.weak := by rw [← hob3]; exact q2'
  have r3 : ob3.value = none := by rw [← hob3]
  have r4 : ob3.freed = false := by rw [← hob3]; exact q4'
  have r5 : ob3.implicit = true := by rw [← hob3]; exact q5'
  have r6 : ob3.links = some [] := by rw [← hob3]; exact q6'
  have g3o : ((sp.setObj o ob3).push [.dropVal v, .finishSingle o]).heap[o]? = some ob3 := by
    rw [push_heap]; exact getElem?_setObj_same _ hlt2
  have g3 : ∀ a, a ≠ o → ((sp.setObj o ob3).push [.dropVal v, .finishSingle o]).heap[a]? = sp.heap[a]? := by
    intro a ha; rw [push_heap]; exact getElem?_setObj_other _ _ ha
  have t3o : ((sp.setObj o ob3).push [.dropVal v, .finishSingle o]).tableOf o = some [] := by
    rw [tableOf_of_get g3o, r4, r6]; rfl
  have t3 : ∀ a, a ≠ o → ((sp.setObj o ob3).push [.dropVal v, .finishSingle o]).tableOf a = sp.tableOf a := by
    intro a ha; rw [tableOf_push, tableOf_setObj_other _ _ ha]
  have l3o : ((sp.setObj o ob3).push [.dropVal v, .finishSingle o]).isLive o = false := by
    rw [isLive_of_get g3o, r1]; simp
  have l3 : ∀ a, a ≠ o → ((sp.setObj o ob3).push [.dropVal v, .finishSingle o]).isLive a = s.isLive a := by
    intro a ha; rw [isLive_push, isLive_setObj_other _ _ ha, flive a ha]
  have l3' : ∀ a, ((sp.setObj o ob3).push [.dropVal v, .finishSingle o]).isLive a = true →
      a ≠ o ∧ s.isLive a = true := by
    intro a hla
    have ha : a ≠ o := fun e => by subst e; rw [l3o] at hla; cases hla
    exact ⟨ha, by rw [← l3 a ha]; exact hla⟩
  have hv3 : ob3.heldList = [] := Obj.heldList_of_none r3
  have hw3 : ob3.weakList = [] := Obj.weakList_of_none r3
  have hv2 : ob2.heldList = v.held := Obj.heldList_of_some q3'
  have hw2 : ob2.weakList = v.weaks := Obj.weakList_of_some q3'
  refine ⟨?_, ?_, ?_, ?_, ?_⟩
  · -- InvO
    intro a oa' ha
    by_cases hao : a = o
    · subst hao
      rw [g3o] at ha; cases ha
      refine ⟨fun m hm => (by rw [r1] at hm; cases hm), fun h0 => (by rw [r1] at h0; cases h0),
        fun _ => ⟨r3, Or.inr ⟨r6, r5⟩⟩, ?_⟩
      rw [r4, r2, ← hfr]; exact hweakO
    · rw [g3 a hao] at ha
      obtain ⟨oa, hga, ⟨p1, p2, p3, p4, p5, p6, -⟩, pn⟩ := fobj' a hao oa' ha
      obtain ⟨c1, c2, c3, c4⟩ := hO a oa hga
      rw [p1, p2, p3, p4, p5, p6]
      refine ⟨c1, fun h0 => ⟨(c2 h0).1, ?_⟩, fun hu => ⟨(c3 hu).1, ?_⟩, c4⟩
      · have := (c2 h0).2
        rw [this] at p6
        cases hx : oa'.links with
        | none => rfl
        | some _ => rw [hx] at p6; cases p6
      · rcases (c3 hu).2 with hn | ⟨hn, hi⟩
        · left
          rw [hn] at p6
          cases hx : oa'.links with
          | none => rfl
          | some _ => rw [hx] at p6; cases p6
        · exact Or.inr ⟨pn hn, hi⟩
  · -- InvB
    refine ⟨fun a ta hta => ?_, fun a b ha hb => ?_⟩
    · by_cases hao : a = o
      · subst hao
        rw [t3o] at hta; cases hta
        exact ⟨Table.WF_nil, fun e he => by cases he⟩
      · rw [t3 a hao] at hta
        cases hsa : s.tableOf a with
        | none => rw [((ftab a hao).1).2 hsa] at hta; cases hta
        | some tp =>
          obtain ⟨tp', htp', hwf', hz1, hz2, -, hent⟩ := (ftab a hao).2 tp hsa
          rw [htp'] at hta; cases hta
          refine ⟨hwf', fun e he => ?_⟩
          obtain ⟨c, hc⟩ := hent e he
          obtain ⟨b1, b2⟩ := (hB.1 a tp hsa).2 _ hc
          refine ⟨b1, fun hk => ?_⟩
          have hne : e.1.ptr ≠ o := by
            intro heq
            have hpos : 0 < ta.get e.1 := by
              rw [Table.mem_get ta hwf' e.1 e.2 he]; exact hwf'.2 e he
            obtain ⟨⟨ep, ek⟩, ec⟩ := e
            simp only at heq hk hpos
            subst heq
            cases ek with
            | fwd => omega
            | bwd => omega
            | loop => exact hk rfl
          rw [l3 _ hne]; exact b2 hk
    · obtain ⟨hao, hla⟩ := l3' a ha
      obtain ⟨hbo, hlb⟩ := l3' b hb
      have key : ∀ x y, x ≠ o → y ≠ o → s.isLive x = true → ∀ k : Kind,
          (((sp.setObj o ob3).push [.dropVal v, .finishSingle o]).tbl x).get ⟨y, k⟩ = (s.tbl x).get ⟨y, k⟩ := by
        intro x y hx hy hlx k
        obtain ⟨tp, htp⟩ := live_tableOf hO hlx
        obtain ⟨tp', htp', -, -, -, hoth, -⟩ := (ftab x hx).2 tp htp
        rw [tbl_def, tbl_def, t3 x hx, htp', htp]
        exact hoth ⟨y, k⟩ (by simp [hy]) (by simp [hy])
      rw [F_def, B_def, key a b hao hbo hla, key b a hbo hao hlb]
      exact hB.2 a b hla hlb
  · -- InvC
    intro x hx
    obtain ⟨hxo, hlx⟩ := l3' x hx
    have h1 := hC x hlx
    rw [pend_pop_rcDrop hst x, if_neg (Ne.symm hxo)] at h1
    have h2 := inHeap_setObj (s := sp) ob3 hg2 x
    rw [heldOf_of_get hg2, hv2, hv3] at h2
    rw [strongNat_push, strongNat_setObj_other _ _ hxo, fstrong x hxo, ext_push, ext_setObj, fext,
      inHeap_push, pend_push, pend_setObj, fpend]
    simp only [List.map_cons, List.map_nil, sumList_cons, sumList_nil, Frame.strongTo_dropVal,
      Frame.strongTo_finishSingle]
    rw [finH] at h2
    simp at h2
    omega
  · -- InvW
    intro x hx
    have h1 := hW x (by simpa [flen] using hx)
    rw [pendW_pop_rcDrop hst x] at h1
    have h2 := inHeapW_setObj (s := sp) ob3 hg2 x
    rw [weaksOf_of_get hg2, hw2, hw3] at h2
    have h3 : (sp.setObj o ob3).weakNat x = sp.weakNat x :=
      weakNat_setObj_of_weak_eq (ob' := ob3) hg2 (r2.trans q2'.symm) x
    have h4 : (sp.setObj o ob3).implicitNat x = sp.implicitNat x :=
      implicitNat_setObj_of_implicit_eq (ob' := ob3) hg2 (r5.trans q5'.symm) x
    rw [weakNat_push, h3, fweak, extW_push, extW_setObj, fextW, inHeapW_push, pendW_push, pendW_setObj,
      fpendW, implicitNat_push, h4, fimp]
    simp only [List.map_cons, List.map_nil, sumList_cons, sumList_nil, Frame.weakTo_dropVal,
      Frame.weakTo_finishSingle]
    rw [finHW] at h2
    simp at h2
    omega
  · -- InvK
    have hstk : ((sp.setObj o ob3).push [.dropVal v, .finishSingle o]).stack
        = .dropVal v :: .finishSingle o :: rest := by
      rw [push_stack, setObj_stack, fstack]; rfl
    refine ⟨fun o' hm => ?_, fun ks hm k hk => ?_, fun x => ?_⟩
    · rw [hstk] at hm
      simp only [List.mem_cons, reduceCtorEq, false_or, Frame.finishSingle.injEq] at hm
      rcases hm with rfl | hm
      · exact ⟨ob3, g3o, r1, r6, r5⟩
      · obtain ⟨ob', hg', hu, hn, hi⟩ := hK.1 o' (mem_stack_of_mem_rest hst hm)
        have hne : o' ≠ o := fun e => by subst e; rw [hg] at hg'; cases hg'; rw [hs] at hu; cases hu
        obtain ⟨oa', hga', ⟨p1, -, -, -, p5, -, -⟩, pn⟩ := fobj o' hne ob' hg'
        exact ⟨oa', by rw [g3 o' hne]; exact hga', p1.trans hu, pn hn, p5.trans hi⟩
    · rw [hstk] at hm
      simp only [List.mem_cons, reduceCtorEq, false_or] at hm
      obtain ⟨ob', hg', hu, hn, hi⟩ := hK.2.1 ks (mem_stack_of_mem_rest hst hm) k hk
      have hne : k ≠ o := fun e => by subst e; rw [hg] at hg'; cases hg'; rw [hs] at hu; cases hu
      obtain ⟨oa', hga', ⟨p1, -, -, -, p5, p6, -⟩, -⟩ := fobj k hne ob' hg'
      refine ⟨oa', by rw [g3 k hne]; exact hga', p1.trans hu, ?_, p5.trans hi⟩
      rw [hn] at p6
      cases hx : oa'.links with
      | none => rfl
      | some _ => rw [hx] at p6; cases p6
    · have h1 := hK.2.2 x
      have h0 := owed_eq_zero_of_isLive hK hlive
      rw [owed_pop_rcDrop hst] at h1 h0
      rw [owed_push, owed_setObj, fowed]
      simp only [List.map_cons, List.map_nil, sumList_cons, sumList_nil, Frame.owes_dropVal,
        Frame.owes_finishSingle]
      by_cases hxo : o = x
      · subst hxo; simp; omega
      · simp [hxo]; omega

/-- (e) last handle, non-empty table -/
theorem rcDrop_inv_last_links {s : State} {o : Nat} {rest : List Frame} {ob : Obj} {t : Table}
    (herr : s.err = none) (hst : s.stack = .rcDrop o :: rest) (h : s.Inv)
    (hc : s.cell o = some ob) (hs : ob.strong = .cnt 1) (hl : ob.links = some t)
    (hne : t.isEmpty = false) :
    (({ s with stack := rest } : State).rcDrop o).Inv := by
  have hc0 : ({ s with stack := rest } : State).cell o = some ob := by simpa using hc
  have hres : ({ s with stack := rest } : State).rcDrop o
      = ((({ s with stack := rest } : State).setObj o { ob with strong := .cnt 0 }).purgePeers o).beginSingle o := by
    unfold rcDrop
    simp only [hc0, hs, hl, hne]
    simp
  rw [hres]
  exact rcDrop_inv_last_aux herr hst h hc hs

/-- (d) last handle, empty table -/
theorem rcDrop_inv_last_empty {s : State} {o : Nat} {rest : List Frame} {ob : Obj} {t : Table}
    (herr : s.err = none) (hst : s.stack = .rcDrop o :: rest) (h : s.Inv)
    (hc : s.cell o = some ob) (hs : ob.strong = .cnt 1) (hl : ob.links = some t)
    (hemp : t.isEmpty = true) :
    (({ s with stack := rest } : State).rcDrop o).Inv := by
  have htn : t = [] := by simpa using hemp
  subst htn
  have hc0 : ({ s with stack := rest } : State).cell o = some ob := by simpa using hc
  have hg : s.heap[o]? = some ob := get_of_cell hc
  have hlt : o < ({ s with stack := rest } : State).heap.length := get_lt hg
  have htab : (({ s with stack := rest } : State).setObj o { ob with strong := .cnt 0 }).tableOf o = some [] := by
    rw [tableOf_setObj_same _ hlt]; simp [freed_of_cell hc, hl]
  have hres : ({ s with stack := rest } : State).rcDrop o
      = ((({ s with stack := rest } : State).setObj o { ob with strong := .cnt 0 }).purgePeers o).beginSingle o := by
    rw [purgePeers_of_nil htab]
    unfold rcDrop
    simp only [hc0, hs, hl]
    simp
  rw [hres]
  exact rcDrop_inv_last_aux herr hst h hc hs

/-- the remaining (impossible under `InvO`) branch: a live object whose table has been moved out -/
theorem rcDrop_inv_nolinks {s : State} {o : Nat} {rest : List Frame} {ob : Obj} {n : Nat}
    (hc : s.cell o = some ob) (hs : ob.strong = .cnt (n + 1)) (hl : ob.links = none) :
    (({ s with stack := rest } : State).rcDrop o).Inv := by
  intro herr'
  have hc0 : ({ s with stack := rest } : State).cell o = some ob := by simpa using hc
  unfold rcDrop at herr'
  simp only [hc0, hs, hl] at herr'
  exact absurd herr' (fail_err_ne_none _ _)

end State
end Cactus
