import Cactus.Lemmas.Inv.DropSingle
import Cactus.Lemmas.Inv.Frames
import Cactus.Lemmas.Inv.ActsSimple
/-!
# Invariant preservation for the two consuming actions `try_unwrap` and `make_mut`

* `giveUp_invCore`: the common tail of both (`giveUp o`: purge peers, kill the object, release the
  implicit weak), from a state in which the counting clauses hold *up to the handles of the value
  `v` still stored in `o`* (they have already been handed to somebody else);
* `InvOBK_alloc`, `InvCore_alloc`: a fresh allocation whose value takes over handles;
* `cloneHandles_ghost`: the effect of `cloneHandles` on the counters, expressed through a ghost
  state that owns the cloned handles as roots;
* `applyAct_inv_tryUnwrap`, `applyAct_inv_makeMut`.
-/
namespace Cactus
namespace State

/-! ## `giveUp` -/

theorem giveUp_invCore {s : State} {o : Nat} {ob : Obj} {v : Val}
    (herr : s.err = none) (hO : s.InvO) (hB : s.InvB) (hK : s.InvK)
    (hc : s.cell o = some ob) (hs : ob.strong = .cnt 1) (hv : ob.value = some v)
    (hC : ∀ t, s.isLive t = true → t ≠ o →
      s.strongNat t + v.held.count t = s.ext t + s.inHeap t + s.pend t)
    (hW : ∀ t, t < s.heap.length →
      s.weakNat t + v.weaks.count t = s.extW t + s.inHeapW t + s.pendW t + s.implicitNat t) :
    (s.giveUp o).InvCore ∧ (s.giveUp o).err = none := by
  have hg : s.heap[o]? = some ob := get_of_cell hc
  have hfr : ob.freed = false := freed_of_cell hc
  have hlive : s.isLive o = true := by rw [isLive_of_get hg]; simp [hfr, hs]
  obtain ⟨-, hlS, -, himp⟩ := (hO o ob hg).1 0 hs
  obtain ⟨t, hl⟩ : ∃ t, ob.links = some t := Option.isSome_iff_exists.1 hlS
  have ht : s.tableOf o = some t := by rw [tableOf_of_get hg]; simp [hfr, hl]
  have hweakO := (hO o ob hg).2.2.2
  obtain ⟨e1, ftabo, ftab, hLO⟩ := purgePeers_of_InvB (s1 := s) hO hB hlive (fun _ => rfl) ht herr
  generalize hsp : s.purgePeers o = sp at e1 ftabo ftab hLO
  -- counting functions of `sp`
  have fext : ∀ x, sp.ext x = s.ext x := by intro x; rw [← hsp]; exact ext_purgePeers _ _ _
  have fextW : ∀ x, sp.extW x = s.extW x := by intro x; rw [← hsp]; exact extW_purgePeers _ _ _
  have fpend : ∀ x, sp.pend x = s.pend x := by intro x; rw [← hsp]; exact pend_purgePeers _ _ _
  have fpendW : ∀ x, sp.pendW x = s.pendW x := by intro x; rw [← hsp]; exact pendW_purgePeers _ _ _
  have fowed : ∀ x, sp.owed x = s.owed x := by intro x; rw [← hsp]; exact owed_purgePeers _ _ _
  have fstack : sp.stack = s.stack := by rw [← hsp]; exact purgePeers_stack _ _
  have flen : sp.heap.length = s.heap.length := by rw [← hsp]; exact purgePeers_heap_length _ _
  have finH : ∀ x, sp.inHeap x = s.inHeap x := by intro x; rw [← hsp]; exact inHeap_purgePeers _ _ _
  have finHW : ∀ x, sp.inHeapW x = s.inHeapW x := by intro x; rw [← hsp]; exact inHeapW_purgePeers _ _ _
  have fweak : ∀ x, sp.weakNat x = s.weakNat x := by intro x; rw [← hsp]; exact weakNat_purgePeers _ _ _
  have fimp : ∀ x, sp.implicitNat x = s.implicitNat x := by
    intro x; rw [← hsp]; exact implicitNat_purgePeers _ _ _
  have fstrong : ∀ x, sp.strongNat x = s.strongNat x := by
    intro x; rw [← hsp]; exact strongNat_purgePeers _ _ _
  have flive : ∀ x, sp.isLive x = s.isLive x := by intro x; rw [← hsp]; exact isLive_purgePeers _ _ _
  -- objects of `sp`
  obtain ⟨ob2, hg2, q1, q2, q3, q4, q5, -, -⟩ := hLO.obj o _ hg
  have q1' : ob2.strong = .cnt 1 := q1.trans hs
  have q3' : ob2.value = some v := q3.trans hv
  have q4' : ob2.freed = false := q4.trans hfr
  have q5' : ob2.implicit = true := q5.trans himp
  have fobj : ∀ a, a ≠ o → ∀ oa : Obj, s.heap[a]? = some oa →
      ∃ oa' : Obj, sp.heap[a]? = some oa' ∧ oa.EqButLinks oa' ∧ (oa.links = some [] → oa'.links = some []) := by
    intro a ha oa hga
    obtain ⟨oa', hga', q⟩ := hLO.obj a oa hga
    refine ⟨oa', hga', q, fun hnil => ?_⟩
    by_cases hf : oa.freed = true
    · rw [q.2.2.2.2.2.2 hf]; exact hnil
    · have hf' : oa.freed = false := by simpa using hf
      have h1 : s.tableOf a = some [] := by rw [tableOf_of_get hga]; simp [hf', hnil]
      obtain ⟨tp', htp', -, -, -, -, hent⟩ := (ftab a ha).2 [] h1
      have hnil' : tp' = [] := by
        cases tp' with
        | nil => rfl
        | cons e r => obtain ⟨c, hc⟩ := hent e (by simp); cases hc
      have h2 := tableOf_of_get hga'
      rw [htp', q.2.2.2.1, hf', hnil'] at h2
      simpa using h2.symm
  have fobj' : ∀ a, a ≠ o → ∀ oa' : Obj, sp.heap[a]? = some oa' →
      ∃ oa : Obj, s.heap[a]? = some oa ∧ oa.EqButLinks oa' ∧ (oa.links = some [] → oa'.links = some []) := by
    intro a ha oa' hga'
    have hlt' : a < s.heap.length := by rw [← flen]; exact get_lt hga'
    obtain ⟨oa, hga⟩ : ∃ oa, s.heap[a]? = some oa := ⟨s.heap[a], List.getElem?_eq_getElem hlt'⟩
    obtain ⟨oa'', hga'', q, qn⟩ := fobj a ha oa hga
    rw [hga'] at hga''; cases hga''
    exact ⟨oa, hga, q, qn⟩
  -- the result
  have hc2 : sp.cell o = some ob2 := cell_of_not_freed hg2 q4'
  have hgu : s.giveUp o
      = (sp.setObj o { ob2 with strong := .cnt 0, value := none, links := none }).decWeakFree o true := by
    unfold giveUp; rw [hsp]; simp only [hc2]
  rw [hgu]
  have hlt2 : o < sp.heap.length := get_lt hg2
  generalize hob3 : ({ ob2 with strong := Strong.cnt 0, value := none, links := none } : Obj) = ob3
  have r1 : ob3.strong = .cnt 0 := by rw [← hob3]
  have r2 : ob3.weak = ob.weak := by rw [← hob3]; exact q2
  have r3 : ob3.value = none := by rw [← hob3]
  have r4 : ob3.freed = false := by rw [← hob3]; exact q4'
  have r5 : ob3.implicit = true := by rw [← hob3]; exact q5'
  have r6 : ob3.links = none := by rw [← hob3]
  have g3o : (sp.setObj o ob3).heap[o]? = some ob3 := getElem?_setObj_same _ hlt2
  have g3 : ∀ a, a ≠ o → (sp.setObj o ob3).heap[a]? = sp.heap[a]? := by
    intro a ha; exact getElem?_setObj_other _ _ ha
  have t3o : (sp.setObj o ob3).tableOf o = none := by
    rw [tableOf_of_get g3o, r4, r6]; rfl
  have t3 : ∀ a, a ≠ o → (sp.setObj o ob3).tableOf a = sp.tableOf a := by
    intro a ha; exact tableOf_setObj_other _ _ ha
  have l3o : (sp.setObj o ob3).isLive o = false := by
    rw [isLive_of_get g3o, r1]; simp
  have l3 : ∀ a, a ≠ o → (sp.setObj o ob3).isLive a = s.isLive a := by
    intro a ha; rw [isLive_setObj_other _ _ ha, flive a]
  have l3' : ∀ a, (sp.setObj o ob3).isLive a = true → a ≠ o ∧ s.isLive a = true := by
    intro a hla
    have ha : a ≠ o := fun e => by subst e; rw [l3o] at hla; cases hla
    exact ⟨ha, by rw [← l3 a ha]; exact hla⟩
  have hv3 : ob3.heldList = [] := Obj.heldList_of_none r3
  have hw3 : ob3.weakList = [] := Obj.weakList_of_none r3
  have hv2 : ob2.heldList = v.held := Obj.heldList_of_some q3'
  have hw2 : ob2.weakList = v.weaks := Obj.weakList_of_some q3'
  have hO3 : (sp.setObj o ob3).InvO := by
    intro a oa' ha
    by_cases hao : a = o
    · subst hao
      rw [g3o] at ha; cases ha
      refine ⟨fun m hm => (by rw [r1] at hm; cases hm), fun _ => ⟨r3, r6⟩,
        fun h0 => (by rw [r1] at h0; cases h0), ?_⟩
      rw [r4, r2, ← hfr]; exact hweakO
    · rw [g3 a hao] at ha
      obtain ⟨oa, hga, ⟨p1, p2, p3, p4, p5, p6, -⟩, pn⟩ := fobj' a hao oa' ha
      obtain ⟨c1, c2, c3, c4⟩ := hO a oa hga
      rw [p1, p2, p3, p4, p5, p6]
      refine ⟨c1, fun h0 => ⟨(c2 h0).1, ?_⟩, fun hu => ⟨(c3 hu).1, ?_⟩, c4⟩
      · have := (c2 h0).2
        rw [this] at p6
        cases hx : oa'.links with
        | none => rfl
        | some _ => rw [hx] at p6; cases p6
      · rcases (c3 hu).2 with hn | ⟨hn, hi⟩
        · left
          rw [hn] at p6
          cases hx : oa'.links with
          | none => rfl
          | some _ => rw [hx] at p6; cases p6
        · exact Or.inr ⟨pn hn, hi⟩
  have hB3 : (sp.setObj o ob3).InvB := by
    refine ⟨fun a ta hta => ?_, fun a b ha hb => ?_⟩
    · by_cases hao : a = o
      · subst hao
        rw [t3o] at hta; cases hta
      · rw [t3 a hao] at hta
        cases hsa : s.tableOf a with
        | none => rw [((ftab a hao).1).2 hsa] at hta; cases hta
        | some tp =>
          obtain ⟨tp', htp', hwf', hz1, hz2, -, hent⟩ := (ftab a hao).2 tp hsa
          rw [htp'] at hta; cases hta
          refine ⟨hwf', fun e he => ?_⟩
          obtain ⟨c, hc⟩ := hent e he
          obtain ⟨b1, b2⟩ := (hB.1 a tp hsa).2 _ hc
          refine ⟨b1, fun hk => ?_⟩
          have hne : e.1.ptr ≠ o := by
            intro heq
            have hpos : 0 < ta.get e.1 := by
              rw [Table.mem_get ta hwf' e.1 e.2 he]; exact hwf'.2 e he
            obtain ⟨⟨ep, ek⟩, ec⟩ := e
            simp only at heq hk hpos
            subst heq
            cases ek with
            | fwd => omega
            | bwd => omega
            | loop => exact hk rfl
          rw [l3 _ hne]; exact b2 hk
    · obtain ⟨hao, hla⟩ := l3' a ha
      obtain ⟨hbo, hlb⟩ := l3' b hb
      have key : ∀ x y, x ≠ o → y ≠ o → s.isLive x = true → ∀ k : Kind,
          ((sp.setObj o ob3).tbl x).get ⟨y, k⟩ = (s.tbl x).get ⟨y, k⟩ := by
        intro x y hx hy hlx k
        obtain ⟨tp, htp⟩ := live_tableOf hO hlx
        obtain ⟨tp', htp', -, -, -, hoth, -⟩ := (ftab x hx).2 tp htp
        rw [tbl_def, tbl_def, t3 x hx, htp', htp]
        exact hoth ⟨y, k⟩ (by simp [hy]) (by simp [hy])
      rw [F_def, B_def, key a b hao hbo hla, key b a hbo hao hlb]
      exact hB.2 a b hla hlb
  have hC3 : (sp.setObj o ob3).InvC := by
    intro x hx
    obtain ⟨hxo, hlx⟩ := l3' x hx
    have h1 := hC x hlx hxo
    have h2 := inHeap_setObj (s := sp) ob3 hg2 x
    rw [heldOf_of_get hg2, hv2, hv3, finH] at h2
    rw [strongNat_setObj_other _ _ hxo, fstrong x, ext_setObj, fext, pend_setObj, fpend]
    simp at h2
    omega
  have hW3 : ∀ x, x < (sp.setObj o ob3).heap.length →
      (sp.setObj o ob3).weakNat x = (sp.setObj o ob3).extW x + (sp.setObj o ob3).inHeapW x
        + (sp.setObj o ob3).pendW x + (sp.setObj o ob3).implicitNat x := by
    intro x hx
    have h1 := hW x (by simpa [flen] using hx)
    have h2 := inHeapW_setObj (s := sp) ob3 hg2 x
    rw [weaksOf_of_get hg2, hw2, hw3, finHW] at h2
    have h3 : (sp.setObj o ob3).weakNat x = sp.weakNat x :=
      weakNat_setObj_of_weak_eq (ob' := ob3) hg2 (r2.trans q2.symm) x
    have h4 : (sp.setObj o ob3).implicitNat x = sp.implicitNat x :=
      implicitNat_setObj_of_implicit_eq (ob' := ob3) hg2 (r5.trans q5'.symm) x
    rw [h3, fweak, extW_setObj, fextW, pendW_setObj, fpendW, h4, fimp]
    simp at h2
    omega
  have hK3 : (sp.setObj o ob3).InvK := by
    refine ⟨fun o' hm => ?_, fun ks hm k hk => ?_, fun x => ?_⟩
    · rw [setObj_stack, fstack] at hm
      obtain ⟨ob', hg', hu, hn, hi⟩ := hK.1 o' hm
      have hne : o' ≠ o := fun e => by subst e; rw [hg] at hg'; cases hg'; rw [hs] at hu; cases hu
      obtain ⟨oa', hga', ⟨p1, -, -, -, p5, -, -⟩, pn⟩ := fobj o' hne ob' hg'
      exact ⟨oa', by rw [g3 o' hne]; exact hga', p1.trans hu, pn hn, p5.trans hi⟩
    · rw [setObj_stack, fstack] at hm
      obtain ⟨ob', hg', hu, hn, hi⟩ := hK.2.1 ks hm k hk
      have hne : k ≠ o := fun e => by subst e; rw [hg] at hg'; cases hg'; rw [hs] at hu; cases hu
      obtain ⟨oa', hga', ⟨p1, -, -, -, p5, p6, -⟩, -⟩ := fobj k hne ob' hg'
      refine ⟨oa', by rw [g3 k hne]; exact hga', p1.trans hu, ?_, p5.trans hi⟩
      rw [hn] at p6
      cases hx : oa'.links with
      | none => rfl
      | some _ => rw [hx] at p6; cases p6
    · rw [owed_setObj, fowed]; exact hK.2.2 x
  have howed : (sp.setObj o ob3).owed o = 0 := by
    rw [owed_setObj, fowed]; exact owed_eq_zero_of_isLive hK hlive
  obtain ⟨hres, herr'⟩ := InvCore_decWeakFree true g3o hO3 hB3 hC3 hK3
    (fun x hx _ => hW3 x hx) (by simpa using hW3 o (by rw [setObj_heap_length]; exact hlt2))
    (fun _ => ⟨r5, by rw [r1]; rfl, r6, howed⟩)
  exact ⟨hres, by rw [herr', setObj_err]; exact e1⟩

theorem giveUp_err_none {s : State} {o : Nat} (h : (s.giveUp o).err = none) : s.err = none := by
  unfold giveUp at h
  split at h
  · have := ((decWeakFree_err_eq_none_iff _ _ _).mp h).1
    exact purgePeers_err_none s o this
  · exact absurd h (fail_err_ne_none _ _)

/-- the state change of a successful `try_unwrap` -/
theorem tryUnwrap_invCore {s : State} {i o : Nat} {ob : Obj} {v : Val} (herr : s.err = none)
    (hI : s.InvCore) (hr : s.roots[i]? = some o) (hc : s.cell o = some ob) (hs : ob.strong = .cnt 1)
    (hv : ob.value = some v) :
    (({ s with roots := s.roots.eraseIdx i, vals := s.vals ++ [v] } : State).giveUp o).InvCore := by
  obtain ⟨hO, hB, hC, hW, hK⟩ := hI
  refine (giveUp_invCore (s := { s with roots := s.roots.eraseIdx i, vals := s.vals ++ [v] })
    (ob := ob) (v := v) herr (InvO_of_heap_eq rfl hO) (InvB_of_heap_eq rfl hB)
    (InvK_of_sub rfl (fun _ hm => hm) (fun _ hm => hm) (fun _ => Nat.le_refl _) hK) hc hs hv ?_ ?_).1
  · intro t ht hto
    have h1 := hC t ht
    have h2 := ext_withRootsVals_eraseIdx_append s i v t
    rw [hr] at h2
    have hne : ¬ (some o = some t) := fun e => hto (Option.some.inj e).symm
    rw [if_neg hne] at h2
    show s.strongNat t + v.held.count t = _ + s.inHeap t + s.pend t
    omega
  · intro t ht
    have h1 := hW t ht
    show s.weakNat t + v.weaks.count t = _ + s.inHeapW t + s.pendW t + s.implicitNat t
    rw [extW_withRootsVals, extW_withVals_append]
    omega

/-! ## a fresh allocation -/

/-- the clauses that do not count, for a fresh allocation (any value) -/
theorem InvOBK_alloc {s s' : State} {v : Val} (hO : s.InvO) (hB : s.InvB) (hK : s.InvK)
    (hh : s'.heap = (s.alloc v).heap)
    (hF : ∀ o, Frame.finishSingle o ∈ s'.stack → Frame.finishSingle o ∈ s.stack)
    (hP : ∀ ks, Frame.phase3 ks ∈ s'.stack → Frame.phase3 ks ∈ s.stack)
    (hOw : ∀ o, s'.owed o = s.owed o) : s'.InvO ∧ s'.InvB ∧ s'.InvK := by
  have hnl : s.isLive s.heap.length = false := isLive_of_ge (Nat.le_refl _)
  have hgn : s.heap[s.heap.length]? = none := get_none_iff.mpr (Nat.le_refl _)
  have hL : ∀ x, s'.isLive x = true ↔ s.isLive x = true ∨ x = s.heap.length := fun x => by
    rw [isLive_congr hh]; exact isLive_alloc_iff s v x
  refine ⟨?_, ⟨?_, ?_⟩, ?_, ?_, ?_⟩
  · intro x obx hx
    rw [hh, getElem?_alloc] at hx
    by_cases hxl : x = s.heap.length
    · simp only [if_pos hxl, Option.some.injEq] at hx
      subst hx
      simp
    · simp only [if_neg hxl] at hx
      exact hO x obx hx
  · intro x t ht
    rw [tableOf_congr hh] at ht
    by_cases hxl : x = s.heap.length
    · subst hxl
      rw [tableOf_alloc_new] at ht
      cases ht
      exact ⟨Table.WF_nil, fun e hm => by cases hm⟩
    · rw [tableOf_alloc_old s v hxl] at ht
      obtain ⟨wf, hent⟩ := hB.1 x t ht
      refine ⟨wf, fun e hm => ⟨(hent e hm).1, fun hk => ?_⟩⟩
      exact (hL _).mpr (Or.inl ((hent e hm).2 hk))
  · intro a b ha hb
    rw [F_congr hh, B_congr hh, F_alloc, B_alloc]
    rcases (hL a).mp ha with ha | ha
    · rcases (hL b).mp hb with hb | hb
      · exact hB.2 a b ha hb
      · subst hb
        rw [F_eq_zero_of_not_live hB a hnl, B_of_get_none hgn]
    · subst ha
      rw [F_of_get_none hgn]
      rcases (hL b).mp hb with hb | hb
      · rw [B_eq_zero_of_not_live hB b hnl]
      · subst hb; rw [B_of_get_none hgn]
  · intro x hm
    obtain ⟨obx, hx, r⟩ := hK.1 x (hF x hm)
    exact ⟨obx, by rw [hh]; exact get_alloc_of_get v hx, r⟩
  · intro ks hm k hk
    obtain ⟨obx, hx, r⟩ := hK.2.1 ks (hP ks hm) k hk
    exact ⟨obx, by rw [hh]; exact get_alloc_of_get v hx, r⟩
  · intro x; rw [hOw]; exact hK.2.2 x

/-- a fresh allocation whose value takes over handles from the program: one handle to the new
object appears, the handles of `v` leave the program (or a frame) and enter the heap -/
theorem InvCore_alloc {s s' : State} {v : Val} (h : InvCore s)
    (hRC : s.ext s.heap.length + s.inHeap s.heap.length + s.pend s.heap.length = 0)
    (hRW : s.extW s.heap.length + s.inHeapW s.heap.length + s.pendW s.heap.length = 0)
    (hh : s'.heap = (s.alloc v).heap)
    (hC : ∀ t, s'.ext t + s'.pend t + v.held.count t
      = s.ext t + s.pend t + (if s.heap.length = t then 1 else 0))
    (hW : ∀ t, s'.extW t + s'.pendW t + v.weaks.count t = s.extW t + s.pendW t)
    (hF : ∀ o, Frame.finishSingle o ∈ s'.stack → Frame.finishSingle o ∈ s.stack)
    (hP : ∀ ks, Frame.phase3 ks ∈ s'.stack → Frame.phase3 ks ∈ s.stack)
    (hOw : ∀ o, s'.owed o = s.owed o) : InvCore s' := by
  obtain ⟨hO, hB, hCc, hWw, hK⟩ := h
  obtain ⟨hO', hB', hK'⟩ := InvOBK_alloc (v := v) hO hB hK hh hF hP hOw
  have hnl : s.isLive s.heap.length = false := isLive_of_ge (Nat.le_refl _)
  have hgn : s.heap[s.heap.length]? = none := get_none_iff.mpr (Nat.le_refl _)
  have hL : ∀ x, s'.isLive x = true ↔ s.isLive x = true ∨ x = s.heap.length := fun x => by
    rw [isLive_congr hh]; exact isLive_alloc_iff s v x
  refine ⟨hO', hB', ?_, ?_, hK'⟩
  · intro t ht
    rw [strongNat_congr hh, strongNat_alloc, inHeap_congr hh, inHeap_alloc]
    have h2 := hC t
    rcases (hL t).mp ht with ht | ht
    · have h1 := hCc t ht
      omega
    · subst ht
      rw [strongNat_of_get_none hgn]
      simp only [if_true] at h2 ⊢
      omega
  · intro t ht
    have hlen : s'.heap.length = s.heap.length + 1 := by rw [hh, alloc_heap_length]
    rw [hlen] at ht
    rw [weakNat_congr hh, weakNat_alloc, inHeapW_congr hh, inHeapW_alloc,
      implicitNat_congr hh, implicitNat_alloc]
    have h2 := hW t
    by_cases htl : s.heap.length = t
    · subst htl
      rw [weakNat_of_get_none hgn, implicitNat_of_get_none hgn]
      simp only [if_true]
      omega
    · have h1 := hWw t (by omega)
      simp only [if_neg htl]
      omega

/-! ## `cloneHandles` -/

theorem incStrong_heap_congr {s g : State} (hh : g.heap = s.heap) (o : Nat) :
    (g.incStrong o).heap = (s.incStrong o).heap := by
  unfold incStrong
  rw [cell_congr hh]
  split
  · split
    · simp [setObj, hh]
    · simp [hh]
  · simp [hh]

theorem incWeak_heap_congr {s g : State} (hh : g.heap = s.heap) (o : Nat) :
    (g.incWeak o).heap = (s.incWeak o).heap := by
  unfold incWeak
  rw [cell_congr hh]
  split
  · split
    · simp [hh]
    · simp [setObj, hh]
  · simp [hh]

/-- anything invariant under `incStrong`/`incWeak` is invariant under the folds -/
theorem foldl_incStrong_invariant {α : Sort _} (g : State → α) (hg : ∀ s o, g (s.incStrong o) = g s)
    (l : List Nat) (s : State) : g (l.foldl incStrong s) = g s := by
  induction l generalizing s with
  | nil => rfl
  | cons a l ih => rw [List.foldl_cons, ih, hg]

theorem foldl_incWeak_invariant {α : Sort _} (g : State → α) (hg : ∀ s o, g (s.incWeak o) = g s)
    (l : List Nat) (s : State) : g (l.foldl incWeak s) = g s := by
  induction l generalizing s with
  | nil => rfl
  | cons a l ih => rw [List.foldl_cons, ih, hg]

theorem cloneHandles_invariant {α : Sort _} (g : State → α) (hg : ∀ s o, g (s.incStrong o) = g s)
    (hg' : ∀ s o, g (s.incWeak o) = g s) (s : State) (v : Val) : g (s.cloneHandles v) = g s := by
  unfold cloneHandles
  rw [foldl_incWeak_invariant g hg', foldl_incStrong_invariant g hg]

theorem foldl_incStrong_err_none (l : List Nat) (s : State) (h : (l.foldl incStrong s).err = none) :
    s.err = none := by
  induction l generalizing s with
  | nil => exact h
  | cons a l ih => exact ((incStrong_err_eq_none_iff s a).mp (ih _ h)).1

theorem foldl_incWeak_err_none (l : List Nat) (s : State) (h : (l.foldl incWeak s).err = none) :
    s.err = none := by
  induction l generalizing s with
  | nil => exact h
  | cons a l ih => exact ((incWeak_err_eq_none_iff s a).mp (ih _ h)).1

theorem cloneHandles_err_none {s : State} {v : Val} (h : (s.cloneHandles v).err = none) :
    s.err = none :=
  foldl_incStrong_err_none _ _ (foldl_incWeak_err_none _ _ h)

/-- the strong half of `cloneHandles`: a ghost state `g` (same heap and stack as `s`, satisfying the
invariant) stays in step when it is given every cloned handle as an additional program handle -/
theorem foldl_incStrong_ghost (l : List Nat) : ∀ (s g : State), g.InvCore → g.heap = s.heap →
    g.stack = s.stack → (l.foldl incStrong s).err = none →
    ∀ g' : State, g'.heap = (l.foldl incStrong s).heap → g'.stack = s.stack →
      (∀ t, g'.ext t = g.ext t + l.count t) → (∀ t, g'.extW t = g.extW t) → g'.InvCore := by
  induction l with
  | nil =>
    intro s g hI hh hst _ g' hh' hst' he hw
    exact InvCore_congr hI (hh'.trans hh.symm) (hst'.trans hst.symm) (fun t => by simpa using he t) hw
  | cons a l ih =>
    intro s g hI hh hst herr g' hh' hst' he hw
    rw [List.foldl_cons] at herr hh'
    have herr1 := foldl_incStrong_err_none l _ herr
    obtain ⟨-, hl⟩ := (incStrong_err_eq_none_iff s a).mp herr1
    have hlg : g.isLive a = true := by rw [isLive_congr hh]; exact hl
    have hI1 : ({ g with heap := (s.incStrong a).heap, roots := g.roots ++ [a] } : State).InvCore :=
      InvCore_incStrong hI hlg (incStrong_heap_congr hh a).symm rfl
        (fun t => by
          have := ext_withRoots_append g a t
          exact this) (fun t => rfl)
    refine ih (s.incStrong a) _ hI1 rfl (by rw [incStrong_stack]; exact hst) herr g' hh'
      (by rw [incStrong_stack]; exact hst') (fun t => ?_) (fun t => by rw [hw]; rfl)
    have h1 : ({ g with heap := (s.incStrong a).heap, roots := g.roots ++ [a] } : State).ext t
        = g.ext t + (if a = t then 1 else 0) := ext_withRoots_append g a t
    rw [he, h1, List.count_cons]
    simp only [beq_iff_eq]
    omega

theorem foldl_incWeak_ghost (l : List Nat) : ∀ (s g : State), g.InvCore → g.heap = s.heap →
    g.stack = s.stack → (l.foldl incWeak s).err = none →
    ∀ g' : State, g'.heap = (l.foldl incWeak s).heap → g'.stack = s.stack →
      (∀ t, g'.ext t = g.ext t) → (∀ t, g'.extW t = g.extW t + l.count t) → g'.InvCore := by
  induction l with
  | nil =>
    intro s g hI hh hst _ g' hh' hst' he hw
    exact InvCore_congr hI (hh'.trans hh.symm) (hst'.trans hst.symm) he (fun t => by simpa using hw t)
  | cons a l ih =>
    intro s g hI hh hst herr g' hh' hst' he hw
    rw [List.foldl_cons] at herr hh'
    have herr1 := foldl_incWeak_err_none l _ herr
    obtain ⟨-, ob, hc, hw0⟩ := (incWeak_err_eq_none_iff s a).mp herr1
    have hcg : g.cell a = some ob := by rw [cell_congr hh]; exact hc
    have hI1 : ({ g with heap := (s.incWeak a).heap, wroots := g.wroots ++ [a] } : State).InvCore :=
      InvCore_incWeak hI hcg hw0 (incWeak_heap_congr hh a).symm rfl (fun t => rfl)
        (fun t => by
          have := extW_withWroots_append g a t
          exact this)
    refine ih (s.incWeak a) _ hI1 rfl (by rw [incWeak_stack]; exact hst) herr g' hh'
      (by rw [incWeak_stack]; exact hst') (fun t => by rw [he]; rfl) (fun t => ?_)
    have h1 : ({ g with heap := (s.incWeak a).heap, wroots := g.wroots ++ [a] } : State).extW t
        = g.extW t + (if a = t then 1 else 0) := extW_withWroots_append g a t
    rw [hw, h1, List.count_cons]
    simp only [beq_iff_eq]
    omega

/-- `cloneHandles`: if it succeeds, the state with the cloned handles booked as program handles
satisfies the invariant -/
theorem cloneHandles_ghost {s : State} {v : Val} (hI : s.InvCore)
    (herr : (s.cloneHandles v).err = none) (g' : State)
    (hh : g'.heap = (s.cloneHandles v).heap) (hst : g'.stack = s.stack)
    (he : ∀ t, g'.ext t = s.ext t + v.held.count t)
    (hw : ∀ t, g'.extW t = s.extW t + v.weaks.count t) : g'.InvCore := by
  unfold cloneHandles at herr hh
  have herr1 := foldl_incWeak_err_none _ _ herr
  have hI1 : ({ s with heap := (v.held.foldl incStrong s).heap, roots := s.roots ++ v.held } : State).InvCore :=
    foldl_incStrong_ghost v.held s s hI rfl rfl herr1 _ rfl rfl
      (fun t => by
        have := ext_withRoots_gen s (s.roots ++ v.held) t
        rw [count_append] at this
        show ({ s with roots := s.roots ++ v.held } : State).ext t = _
        omega) (fun t => rfl)
  refine foldl_incWeak_ghost v.weaks (v.held.foldl incStrong s) _ hI1 rfl ?_ herr g' hh ?_ ?_ ?_
  · exact (foldl_incStrong_invariant (fun s => s.stack) (fun s o => incStrong_stack s o) v.held s).symm
  · rw [hst]
    exact (foldl_incStrong_invariant (fun s => s.stack) (fun s o => incStrong_stack s o) v.held s).symm
  · intro t
    rw [he]
    have := ext_withRoots_gen s (s.roots ++ v.held) t
    rw [count_append] at this
    show _ = ({ s with roots := s.roots ++ v.held } : State).ext t
    omega
  · intro t
    rw [hw]; rfl

/-! ## the state changes of `make_mut` -/

theorem ext_of_roots_set {s s' : State} {i o new : Nat} (hr : s.roots[i]? = some o)
    (hroots : s'.roots = s.roots.set i new) (hraws : s'.raws = s.raws) (hvals : s'.vals = s.vals)
    (t : Nat) :
    s'.ext t + (if o = t then 1 else 0) = s.ext t + (if new = t then 1 else 0) := by
  have hlt : i < s.roots.length := (List.getElem?_eq_some_iff.mp hr).1
  have := count_set_add s.roots i new t hlt
  rw [hr] at this
  simp only [Option.some.injEq] at this
  simp only [ext, hroots, hraws, hvals]
  omega

theorem extW_of_eq {s s' : State} (hw : s'.wroots = s.wroots) (hvals : s'.vals = s.vals) (t : Nat) :
    s'.extW t = s.extW t := by
  simp only [extW, hw, hvals]

/-- clone branch: the value is cloned into a fresh allocation, the handle is redirected and the old
handle is dropped; `s2` is the resulting state, described field by field -/
theorem makeMut_clone_invCore {s s2 : State} {i o : Nat} {v v' : Val} (hI : s.InvCore) (hR : s.InvR)
    (herr : (s.cloneHandles v).err = none) (hr : s.roots[i]? = some o) (hval : s.valOf o = some v)
    (hvh : v'.held = v.held) (hvw : v'.weaks = v.weaks)
    (hheap : s2.heap = ((s.cloneHandles v).alloc v').heap)
    (hroots : s2.roots = (s.cloneHandles v).roots.set i s.heap.length)
    (hraws : s2.raws = (s.cloneHandles v).raws) (hvals : s2.vals = (s.cloneHandles v).vals)
    (hwroots : s2.wroots = (s.cloneHandles v).wroots)
    (hstack : s2.stack = .rcDrop o :: (s.cloneHandles v).stack) : s2.InvCore := by
  have croots : (s.cloneHandles v).roots = s.roots :=
    cloneHandles_invariant (fun s => s.roots) incStrong_roots incWeak_roots s v
  have cwroots : (s.cloneHandles v).wroots = s.wroots :=
    cloneHandles_invariant (fun s => s.wroots) incStrong_wroots incWeak_wroots s v
  have cvals : (s.cloneHandles v).vals = s.vals :=
    cloneHandles_invariant (fun s => s.vals) incStrong_vals incWeak_vals s v
  have craws : (s.cloneHandles v).raws = s.raws :=
    cloneHandles_invariant (fun s => s.raws) incStrong_raws incWeak_raws s v
  have cstack : (s.cloneHandles v).stack = s.stack :=
    cloneHandles_invariant (fun s => s.stack) incStrong_stack incWeak_stack s v
  have clen : (s.cloneHandles v).heap.length = s.heap.length :=
    cloneHandles_invariant (fun s => s.heap.length) incStrong_heap_length incWeak_heap_length s v
  have cinH : ∀ t, (s.cloneHandles v).inHeap t = s.inHeap t := fun t =>
    cloneHandles_invariant (fun s => s.inHeap t) (fun s o => inHeap_incStrong s o t)
      (fun s o => inHeap_incWeak s o t) s v
  have cinHW : ∀ t, (s.cloneHandles v).inHeapW t = s.inHeapW t := fun t =>
    cloneHandles_invariant (fun s => s.inHeapW t) (fun s o => inHeapW_incStrong s o t)
      (fun s o => inHeapW_incWeak s o t) s v
  rw [croots] at hroots
  rw [craws] at hraws
  rw [cvals] at hvals
  rw [cwroots] at hwroots
  rw [cstack] at hstack
  -- the ghost state: the cloned handles are program handles
  obtain ⟨G, hGdef⟩ : ∃ G : State,
      G = { s with heap := (s.cloneHandles v).heap, roots := s.roots ++ v.held, wroots := s.wroots ++ v.weaks } :=
    ⟨_, rfl⟩
  have hGheap : G.heap = (s.cloneHandles v).heap := by rw [hGdef]
  have hGstack : G.stack = s.stack := by rw [hGdef]
  have hGext : ∀ t, G.ext t = s.ext t + v.held.count t := by
    intro t
    have := ext_withRoots_gen s (s.roots ++ v.held) t
    rw [count_append] at this
    have e : G.ext t = ({ s with roots := s.roots ++ v.held } : State).ext t := by rw [hGdef]; rfl
    omega
  have hGextW : ∀ t, G.extW t = s.extW t + v.weaks.count t := by
    intro t
    have := extW_withWroots_gen s (s.wroots ++ v.weaks) t
    rw [count_append] at this
    have e : G.extW t = ({ s with wroots := s.wroots ++ v.weaks } : State).extW t := by rw [hGdef]; rfl
    omega
  have hG : G.InvCore := cloneHandles_ghost (s := s) (v := v) hI herr G hGheap hGstack hGext hGextW
  have hGlen : G.heap.length = s.heap.length := by rw [hGheap]; exact clen
  have hGinH : ∀ t, G.inHeap t = s.inHeap t := fun t => (inHeap_congr hGheap t).trans (cinH t)
  have hGinHW : ∀ t, G.inHeapW t = s.inHeapW t := fun t => (inHeapW_congr hGheap t).trans (cinHW t)
  have hGpend : ∀ t, G.pend t = s.pend t := pend_congr hGstack
  have hGpendW : ∀ t, G.pendW t = s.pendW t := pendW_congr hGstack
  have hGowed : ∀ t, G.owed t = s.owed t := owed_congr hGstack
  obtain ⟨hR1, hR2⟩ := hR s.heap.length (Nat.le_refl _)
  have hvL : v.held.count s.heap.length ≤ s.inHeap s.heap.length := by
    have := H_le_inHeap s o s.heap.length
    rwa [H_def, heldOf_of_valOf hval] at this
  have hvLW : v.weaks.count s.heap.length ≤ s.inHeapW s.heap.length := by
    have := count_weaksOf_le_inHeapW s o s.heap.length
    rwa [weaksOf_of_valOf hval] at this
  have hp : ∀ t, s2.pend t = (if o = t then 1 else 0) + s.pend t := by
    intro t; simp only [pend_def, hstack, List.map_cons, sumList_cons, Frame.strongTo_rcDrop]
  have hpW : ∀ t, s2.pendW t = s.pendW t := by
    intro t; simp only [pendW_def, hstack, List.map_cons, sumList_cons, Frame.weakTo_rcDrop]; omega
  have hpO : ∀ t, s2.owed t = s.owed t := by
    intro t; simp only [owed_def, hstack, List.map_cons, sumList_cons, Frame.owes_rcDrop]; omega
  refine InvCore_alloc (s := G) (v := v') hG ?_ ?_ ?_ ?_ ?_ ?_ ?_ ?_
  · rw [hGlen, hGext, hGinH, hGpend]
    omega
  · rw [hGlen, hGextW, hGinHW, hGpendW]
    omega
  · rw [hheap]; simp only [alloc_heap, hGheap]
  · intro t
    rw [hGlen, hGext, hvh, hGpend, hp]
    have h1 := ext_of_roots_set (s := s) (s' := s2) (new := s.heap.length) hr hroots hraws hvals t
    omega
  · intro t
    rw [hGextW, hvw, hGpendW, hpW]
    have h1 := extW_of_eq (s := s) (s' := s2) hwroots hvals t
    omega
  · intro x hm
    rw [hstack] at hm
    rw [hGstack]
    simpa using hm
  · intro ks hm
    rw [hstack] at hm
    rw [hGstack]
    simpa using hm
  · intro x
    rw [hpO, hGowed]

/-- clone branch with a shallow `Clone`: the fresh value holds no handle, so no counter changes;
the handle is redirected to the fresh allocation and the old handle is dropped -/
theorem makeMut_clone_shallow_invCore {s s2 : State} {i o : Nat} {v' : Val} (hI : s.InvCore)
    (hR : s.InvR) (hr : s.roots[i]? = some o)
    (hvh : v'.held = []) (hvw : v'.weaks = [])
    (hheap : s2.heap = (s.alloc v').heap)
    (hroots : s2.roots = s.roots.set i s.heap.length)
    (hraws : s2.raws = s.raws) (hvals : s2.vals = s.vals)
    (hwroots : s2.wroots = s.wroots)
    (hstack : s2.stack = .rcDrop o :: s.stack) : s2.InvCore := by
  obtain ⟨hR1, hR2⟩ := hR s.heap.length (Nat.le_refl _)
  have hp : ∀ t, s2.pend t = (if o = t then 1 else 0) + s.pend t := by
    intro t; simp only [pend_def, hstack, List.map_cons, sumList_cons, Frame.strongTo_rcDrop]
  have hpW : ∀ t, s2.pendW t = s.pendW t := by
    intro t; simp only [pendW_def, hstack, List.map_cons, sumList_cons, Frame.weakTo_rcDrop]; omega
  have hpO : ∀ t, s2.owed t = s.owed t := by
    intro t; simp only [owed_def, hstack, List.map_cons, sumList_cons, Frame.owes_rcDrop]; omega
  refine InvCore_alloc (s := s) (v := v') hI hR1 hR2 hheap ?_ ?_ ?_ ?_ ?_
  · intro t
    rw [hvh, hp]
    have h1 := ext_of_roots_set (s := s) (s' := s2) (new := s.heap.length) hr hroots hraws hvals t
    simp only [List.count_nil]
    omega
  · intro t
    rw [hvw, hpW]
    have h1 := extW_of_eq (s := s) (s' := s2) hwroots hvals t
    simp only [List.count_nil]
    omega
  · intro x hm
    rw [hstack] at hm
    simpa using hm
  · intro ks hm
    rw [hstack] at hm
    simpa using hm
  · intro x
    rw [hpO]

/-- steal branch: the value moves to a fresh allocation, the old one is given up to its Weaks -/
theorem makeMut_steal_invCore {s : State} {i o : Nat} {ob : Obj} {v : Val} (herr : s.err = none)
    (hI : s.InvCore) (hR : s.InvR) (hr : s.roots[i]? = some o) (hc : s.cell o = some ob)
    (hs : ob.strong = .cnt 1) (hv : ob.value = some v) :
    (({ s.alloc v with roots := (s.alloc v).roots.set i s.heap.length } : State).giveUp o).InvCore := by
  obtain ⟨hO, hB, hC, hW, hK⟩ := hI
  obtain ⟨hR1, hR2⟩ := hR s.heap.length (Nat.le_refl _)
  have hgn : s.heap[s.heap.length]? = none := get_none_iff.mpr (Nat.le_refl _)
  have hlt : o < s.heap.length := get_lt (get_of_cell hc)
  obtain ⟨hO1, hB1, hK1⟩ := InvOBK_alloc (s := s)
    (s' := { s.alloc v with roots := (s.alloc v).roots.set i s.heap.length }) (v := v) hO hB hK rfl
    (fun _ hm => hm) (fun _ hm => hm) (fun _ => rfl)
  have hc1 : ({ s.alloc v with roots := (s.alloc v).roots.set i s.heap.length } : State).cell o = some ob := by
    show (s.alloc v).cell o = some ob
    rw [cell_alloc_old s v (Nat.ne_of_lt hlt)]; exact hc
  refine (giveUp_invCore (s := { s.alloc v with roots := (s.alloc v).roots.set i s.heap.length })
    (ob := ob) (v := v) herr hO1 hB1 hK1 hc1 hs hv ?_ ?_).1
  · intro t ht hto
    have hl : (s.alloc v).isLive t = true := ht
    have h1 := ext_of_roots_set (s := s)
      (s' := { s.alloc v with roots := (s.alloc v).roots.set i s.heap.length }) (new := s.heap.length)
      hr rfl rfl rfl t
    rw [if_neg (Ne.symm hto)] at h1
    show (s.alloc v).strongNat t + _ = _ + (s.alloc v).inHeap t + s.pend t
    rw [strongNat_alloc, inHeap_alloc]
    rcases (isLive_alloc_iff s v t).mp hl with hl | hl
    · have h2 := hC t hl
      omega
    · subst hl
      rw [strongNat_of_get_none hgn]
      simp only [if_true] at h1 ⊢
      omega
  · intro t ht
    have ht' : t < s.heap.length + 1 := by
      have : ({ s.alloc v with roots := (s.alloc v).roots.set i s.heap.length } : State).heap.length
          = s.heap.length + 1 := alloc_heap_length s v
      omega
    show (s.alloc v).weakNat t + _ = s.extW t + (s.alloc v).inHeapW t + s.pendW t + (s.alloc v).implicitNat t
    rw [weakNat_alloc, inHeapW_alloc, implicitNat_alloc]
    by_cases htl : s.heap.length = t
    · subst htl
      rw [weakNat_of_get_none hgn, implicitNat_of_get_none hgn]
      simp only [if_true]
      omega
    · have h1 := hW t (by omega)
      simp only [if_neg htl]
      omega

end State

open State

/-! ## `Rc::try_unwrap` -/

theorem applyAct_inv_tryUnwrap (s : State) (fh fw : List Nat) (r : Nat) (h : s.Inv) :
    (applyAct s fh fw (.tryUnwrap r)).Inv := by
  simp only [applyAct]
  cases hu : s.useRoot r with
  | none => exact Inv_badRoot h r
  | some o =>
    dsimp only
    cases hc : s.cell o with
    | none => exact Inv_fail _ _
    | some ob =>
      dsimp only
      split
      · rename_i v hs hv
        intro herr
        rw [emit_err] at herr
        have herr1 := giveUp_err_none herr
        have herr0 : s.err = none := herr1
        exact tryUnwrap_invCore herr0 (h herr0) (useRoot_some hu).1 hc hs hv
      · exact Inv_fail _ _
      · exact Inv_emit h _

/-! ## `Rc::make_mut` -/

theorem applyAct_inv_makeMut (s : State) (fh fw : List Nat) (r : Nat) (h : s.Inv) (hR : s.InvR) :
    (applyAct s fh fw (.makeMut r)).Inv := by
  simp only [applyAct]
  cases hu : s.useRoot r with
  | none => exact Inv_badRoot h r
  | some o =>
    dsimp only
    cases hc : s.cell o with
    | none => exact Inv_fail _ _
    | some ob =>
      dsimp only
      cases hv : ob.value with
      | none => exact Inv_fail _ _
      | some v =>
        dsimp only
        have hval : s.valOf o = some v := by rw [valOf_of_cell hc, hv]
        by_cases hsh : v.shallow = true
        · simp only [if_pos hsh]
          split
          · intro herr
            have herr0 : s.err = none := herr
            exact makeMut_clone_shallow_invCore
              (v' := { v with vid := s.nextVid, held := [], weaks := [] }) (h herr0) hR
              (useRoot_some hu).1 rfl rfl rfl rfl rfl rfl rfl rfl
          · rename_i hs1
            have hs : ob.strong = .cnt 1 := Decidable.not_not.mp hs1
            split
            · intro herr
              rw [emit_err] at herr
              have herr1 := giveUp_err_none herr
              have herr0 : s.err = none := herr1
              exact makeMut_steal_invCore herr0 (h herr0) hR (useRoot_some hu).1 hc hs hv
            · exact Inv_emit h _
        simp only [if_neg hsh]
        split
        · intro herr
          have herr1 : (s.cloneHandles v).err = none := herr
          have herr0 := cloneHandles_err_none herr1
          exact makeMut_clone_invCore (v' := { v with vid := s.nextVid }) (h herr0) hR herr1
            (useRoot_some hu).1 hval rfl rfl rfl rfl rfl rfl rfl rfl
        · rename_i hs1
          have hs : ob.strong = .cnt 1 := Decidable.not_not.mp hs1
          split
          · intro herr
            rw [emit_err] at herr
            have herr1 := giveUp_err_none herr
            have herr0 : s.err = none := herr1
            exact makeMut_steal_invCore herr0 (h herr0) hR (useRoot_some hu).1 hc hs hv
          · exact Inv_emit h _

end Cactus
