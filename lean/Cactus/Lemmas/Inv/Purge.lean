import Cactus.Lemmas.Count
import Cactus.Lemmas.Orphan
/-!
# Specification of the purge loop `State.purgePeers`

`s.purgePeers x` folds `purgeOne x` over `x`'s own table and then clears that table.  The effect on
the table of a peer `p ≠ x` is the pure function `Table.purgeBy x p · t`; all fields of all objects
other than `links`, and all non-heap fields of the state, are untouched (`State.LinksOnly`).
-/
namespace Cactus

/-! ## the pure effect on one peer table -/

namespace Table

/-- effect of the purge loop of `x` over the entries `l` on the table `tp` of the peer `p` -/
def purgeBy (x p : Nat) (tp : Table) (l : List (Link × Nat)) : Table :=
  l.foldl (fun tp e => if e.1.ptr = p then (tp.remove ⟨x, .fwd⟩ e.2).remove ⟨x, .bwd⟩ e.2 else tp) tp

/-- total amount removed from `p`'s `⟨x,.fwd⟩` and `⟨x,.bwd⟩` counts -/
def purgeAmt (p : Nat) (l : List (Link × Nat)) : Nat :=
  State.sumList (l.map (fun e => if e.1.ptr = p then e.2 else 0))

@[simp] theorem purgeBy_nil (x p : Nat) (tp : Table) : purgeBy x p tp [] = tp := rfl

theorem purgeBy_cons (x p : Nat) (tp : Table) (e : Link × Nat) (l : List (Link × Nat)) :
    purgeBy x p tp (e :: l) =
      purgeBy x p (if e.1.ptr = p then (tp.remove ⟨x, .fwd⟩ e.2).remove ⟨x, .bwd⟩ e.2 else tp) l := rfl

@[simp] theorem purgeAmt_nil (p : Nat) : purgeAmt p [] = 0 := rfl

theorem purgeAmt_cons (p : Nat) (e : Link × Nat) (l : List (Link × Nat)) :
    purgeAmt p (e :: l) = (if e.1.ptr = p then e.2 else 0) + purgeAmt p l := rfl

theorem le_purgeAmt {p : Nat} {k : Kind} {c : Nat} {l : List (Link × Nat)} (h : (⟨p, k⟩, c) ∈ l) :
    c ≤ purgeAmt p l := by
  have := State.le_sumList_map_of_mem (fun e : Link × Nat => if e.1.ptr = p then e.2 else 0) h
  simpa [purgeAmt] using this

theorem WF_purgeBy (x p : Nat) (l : List (Link × Nat)) (tp : Table) (hw : tp.WF) :
    (purgeBy x p tp l).WF := by
  induction l generalizing tp with
  | nil => exact hw
  | cons e l ih =>
    rw [purgeBy_cons]
    apply ih
    split
    · exact WF_remove _ (WF_remove _ hw _ _) _ _
    · exact hw

theorem get_purgeBy_other (x p : Nat) (l : List (Link × Nat)) (tp : Table) (hw : tp.WF) (k : Link)
    (h1 : k ≠ ⟨x, .fwd⟩) (h2 : k ≠ ⟨x, .bwd⟩) : (purgeBy x p tp l).get k = tp.get k := by
  induction l generalizing tp with
  | nil => rfl
  | cons e l ih =>
    rw [purgeBy_cons]
    split
    · rw [ih _ (WF_remove _ (WF_remove _ hw _ _) _ _),
        get_remove _ (WF_remove _ hw _ _), if_neg h2, get_remove _ hw, if_neg h1]
    · exact ih _ hw

theorem get_purgeBy_fwd (x p : Nat) (l : List (Link × Nat)) (tp : Table) (hw : tp.WF) :
    (purgeBy x p tp l).get ⟨x, .fwd⟩ = tp.get ⟨x, .fwd⟩ - purgeAmt p l := by
  induction l generalizing tp with
  | nil => simp
  | cons e l ih =>
    rw [purgeBy_cons, purgeAmt_cons]
    split
    · rw [ih _ (WF_remove _ (WF_remove _ hw _ _) _ _),
        get_remove _ (WF_remove _ hw _ _), if_neg (by simp), get_remove _ hw, if_pos rfl]
      omega
    · rw [ih _ hw]; omega

theorem get_purgeBy_bwd (x p : Nat) (l : List (Link × Nat)) (tp : Table) (hw : tp.WF) :
    (purgeBy x p tp l).get ⟨x, .bwd⟩ = tp.get ⟨x, .bwd⟩ - purgeAmt p l := by
  induction l generalizing tp with
  | nil => simp
  | cons e l ih =>
    rw [purgeBy_cons, purgeAmt_cons]
    split
    · rw [ih _ (WF_remove _ (WF_remove _ hw _ _) _ _),
        get_remove _ (WF_remove _ hw _ _), if_pos rfl, get_remove _ hw, if_neg (by simp)]
      omega
    · rw [ih _ hw]; omega

theorem mem_purgeBy (x p : Nat) (l : List (Link × Nat)) (tp : Table) (k : Link) (c : Nat)
    (h : (k, c) ∈ purgeBy x p tp l) : ∃ c', (k, c') ∈ tp := by
  induction l generalizing tp c with
  | nil => exact ⟨c, h⟩
  | cons e l ih =>
    rw [purgeBy_cons] at h
    obtain ⟨c1, h1⟩ := ih _ _ h
    split at h1
    · obtain ⟨c2, h2⟩ := mem_remove _ _ _ _ _ h1
      exact mem_remove _ _ _ _ _ h2
    · exact ⟨c1, h1⟩

/-- no entry of `l` names `p`: nothing happens to `p`'s table -/
theorem purgeBy_of_not_named (x p : Nat) (l : List (Link × Nat)) (tp : Table)
    (h : ∀ e ∈ l, e.1.ptr ≠ p) : purgeBy x p tp l = tp := by
  induction l generalizing tp with
  | nil => rfl
  | cons e l ih =>
    rw [purgeBy_cons, if_neg (h e (by simp))]
    exact ih _ (fun e' he' => h e' (by simp [he']))

end Table

/-! ## states that differ in link tables only -/

/-- `ob'` is `ob` up to the content of a present, not released link table -/
def Obj.EqButLinks (ob ob' : Obj) : Prop :=
  ob'.strong = ob.strong ∧ ob'.weak = ob.weak ∧ ob'.value = ob.value ∧ ob'.freed = ob.freed
    ∧ ob'.implicit = ob.implicit ∧ ob'.links.isSome = ob.links.isSome
    ∧ (ob.freed = true → ob'.links = ob.links)

theorem Obj.EqButLinks.refl (ob : Obj) : ob.EqButLinks ob :=
  ⟨rfl, rfl, rfl, rfl, rfl, rfl, fun _ => rfl⟩

theorem Obj.EqButLinks.trans {a b c : Obj} (h1 : a.EqButLinks b) (h2 : b.EqButLinks c) :
    a.EqButLinks c := by
  obtain ⟨a1, a2, a3, a4, a5, a6, a7⟩ := h1
  obtain ⟨b1, b2, b3, b4, b5, b6, b7⟩ := h2
  refine ⟨b1.trans a1, b2.trans a2, b3.trans a3, b4.trans a4, b5.trans a5, b6.trans a6, ?_⟩
  intro hf
  rw [b7 (a4.trans hf), a7 hf]

namespace State

/-- `s'` is `s` up to the contents of readable link tables (and the error field) -/
structure LinksOnly (s s' : State) : Prop where
  heap_length : s'.heap.length = s.heap.length
  obj : ∀ (o : Nat) (ob : Obj), s.heap[o]? = some ob → ∃ ob' : Obj, s'.heap[o]? = some ob' ∧ ob.EqButLinks ob'
  roots : s'.roots = s.roots
  wroots : s'.wroots = s.wroots
  vals : s'.vals = s.vals
  raws : s'.raws = s.raws
  stack : s'.stack = s.stack
  log : s'.log = s.log
  unwinding : s'.unwinding = s.unwinding
  hint : s'.hint = s.hint
  nextVid : s'.nextVid = s.nextVid

theorem LinksOnly.refl (s : State) : s.LinksOnly s :=
  ⟨rfl, fun _ ob h => ⟨ob, h, Obj.EqButLinks.refl ob⟩, rfl, rfl, rfl, rfl, rfl, rfl, rfl, rfl, rfl⟩

theorem LinksOnly.trans {a b c : State} (h1 : a.LinksOnly b) (h2 : b.LinksOnly c) : a.LinksOnly c := by
  refine ⟨h2.heap_length.trans h1.heap_length, ?_, h2.roots.trans h1.roots, h2.wroots.trans h1.wroots,
    h2.vals.trans h1.vals, h2.raws.trans h1.raws, h2.stack.trans h1.stack, h2.log.trans h1.log,
    h2.unwinding.trans h1.unwinding, h2.hint.trans h1.hint, h2.nextVid.trans h1.nextVid⟩
  intro o ob h
  obtain ⟨ob1, g1, e1⟩ := h1.obj o ob h
  obtain ⟨ob2, g2, e2⟩ := h2.obj o ob1 g1
  exact ⟨ob2, g2, e1.trans e2⟩

theorem LinksOnly.fail (s : State) (e : Err) : s.LinksOnly (s.fail e) :=
  ⟨by simp, fun _ ob h => ⟨ob, by simpa using h, Obj.EqButLinks.refl ob⟩,
    by simp, by simp, by simp, by simp, by simp, by simp, by simp, by simp, by simp⟩

theorem LinksOnly.setLinks (s : State) (o : Nat) (f : Table → Table) : s.LinksOnly (s.setLinks o f) := by
  rcases setLinks_cases s o f with ⟨e, he⟩ | ⟨ob, t, hc, hl, he⟩ <;> rw [he]
  · exact LinksOnly.fail s e
  · refine ⟨by simp, ?_, rfl, rfl, rfl, rfl, rfl, rfl, rfl, rfl, rfl⟩
    intro a oa ha
    by_cases hao : a = o
    · subst hao
      have hg := get_of_cell hc
      rw [hg] at ha; cases ha
      refine ⟨_, getElem?_setObj_same _ (get_lt hg), rfl, rfl, rfl, rfl, rfl, by simp [hl], ?_⟩
      intro hf; rw [freed_of_cell hc] at hf; cases hf
    · exact ⟨oa, by rw [getElem?_setObj_other s _ hao]; exact ha, Obj.EqButLinks.refl oa⟩

/-! ## the fold -/

@[simp] theorem foldl_purgeOne_nil (x : Nat) (u : State) : ([] : List (Link × Nat)).foldl (purgeOne x) u = u := rfl

theorem foldl_purgeOne_cons (x : Nat) (u : State) (e : Link × Nat) (l : List (Link × Nat)) :
    (e :: l).foldl (purgeOne x) u = l.foldl (purgeOne x) (purgeOne x u e) := rfl

theorem tableOf_purgeOne (x : Nat) (u : State) (e : Link × Nat) (p : Nat) (hp : p ≠ x) :
    (purgeOne x u e).tableOf p =
      (u.tableOf p).map (fun tp => if e.1.ptr = p then (tp.remove ⟨x, .fwd⟩ e.2).remove ⟨x, .bwd⟩ e.2 else tp) := by
  unfold purgeOne
  split
  · next h =>
    have : ¬ e.1.ptr = p := fun h' => hp (h'.symm.trans h)
    simp [this]
  · rw [tableOf_setLinks]
    by_cases h : p = e.1.ptr
    · subst h; simp
    · have h' : ¬ e.1.ptr = p := fun e => h e.symm
      simp [h, h']

theorem tableOf_purgeOne_self (x : Nat) (u : State) (e : Link × Nat) :
    (purgeOne x u e).tableOf x = u.tableOf x := by
  unfold purgeOne
  split
  · rfl
  · next h => rw [tableOf_setLinks, if_neg (fun h' => h h'.symm)]

theorem tableOf_foldl_purgeOne (x p : Nat) (hp : p ≠ x) (l : List (Link × Nat)) (u : State) :
    (l.foldl (purgeOne x) u).tableOf p = (u.tableOf p).map (fun tp => Table.purgeBy x p tp l) := by
  induction l generalizing u with
  | nil => simp
  | cons e l ih =>
    rw [foldl_purgeOne_cons, ih, tableOf_purgeOne x u e p hp]
    cases u.tableOf p <;> simp [Table.purgeBy_cons]

theorem tableOf_foldl_purgeOne_self (x : Nat) (l : List (Link × Nat)) (u : State) :
    (l.foldl (purgeOne x) u).tableOf x = u.tableOf x := by
  induction l generalizing u with
  | nil => rfl
  | cons e l ih => rw [foldl_purgeOne_cons, ih, tableOf_purgeOne_self]

theorem tableOf_purgeOne_isSome (x : Nat) (u : State) (e : Link × Nat) (p : Nat) :
    ((purgeOne x u e).tableOf p).isSome = (u.tableOf p).isSome := by
  unfold purgeOne; split <;> simp

theorem err_foldl_purgeOne (x : Nat) (l : List (Link × Nat)) (u : State) (he : u.err = none)
    (hr : ∀ e ∈ l, e.1.ptr ≠ x → (u.tableOf e.1.ptr).isSome = true) :
    (l.foldl (purgeOne x) u).err = none := by
  induction l generalizing u with
  | nil => exact he
  | cons e l ih =>
    rw [foldl_purgeOne_cons]
    apply ih
    · unfold purgeOne
      split
      · exact he
      · next h => rw [setLinks_err_eq_none_iff]; exact ⟨he, hr e (by simp) h⟩
    · intro e' he' hx
      rw [tableOf_purgeOne_isSome]
      exact hr e' (by simp [he']) hx

/-- errors are sticky -/
theorem err_foldl_purgeOne_of_some (x : Nat) (l : List (Link × Nat)) (u : State) (e0 : Err)
    (he : u.err = some e0) : (l.foldl (purgeOne x) u).err = some e0 := by
  induction l generalizing u with
  | nil => exact he
  | cons e l ih =>
    rw [foldl_purgeOne_cons]
    apply ih
    unfold purgeOne
    split
    · exact he
    · exact setLinks_err_of_some' _ _ he

theorem LinksOnly.purgeOne (x : Nat) (u : State) (e : Link × Nat) : u.LinksOnly (purgeOne x u e) := by
  unfold State.purgeOne; split
  · exact LinksOnly.refl u
  · exact LinksOnly.setLinks u _ _

theorem LinksOnly.foldl_purgeOne (x : Nat) (l : List (Link × Nat)) (u : State) :
    u.LinksOnly (l.foldl (State.purgeOne x) u) := by
  induction l generalizing u with
  | nil => exact LinksOnly.refl u
  | cons e l ih => exact (LinksOnly.purgeOne x u e).trans (ih _)

theorem LinksOnly.purgePeers (s : State) (x : Nat) : s.LinksOnly (s.purgePeers x) := by
  unfold State.purgePeers
  split
  · exact (LinksOnly.foldl_purgeOne x _ s).trans (LinksOnly.setLinks _ _ _)
  · exact LinksOnly.fail s _

/-- anything invariant under `setLinks` and `fail` is invariant under `purgePeers` -/
theorem purgePeers_invariant {α : Sort _} (g : State → α) (hg : ∀ s o f, g (s.setLinks o f) = g s)
    (hf : ∀ s e, g (s.fail e) = g s) (s : State) (x : Nat) : g (s.purgePeers x) = g s := by
  have hfold : ∀ (l : List (Link × Nat)) (u : State), g (l.foldl (purgeOne x) u) = g u := by
    intro l
    induction l with
    | nil => intro u; rfl
    | cons e l ih =>
      intro u
      rw [foldl_purgeOne_cons, ih]
      unfold purgeOne; split
      · rfl
      · exact hg _ _ _
  unfold purgePeers
  split
  · rw [hg, hfold]
  · exact hf _ _

/-! ### corollaries: the counting functions are unchanged, unconditionally -/

@[simp] theorem purgePeers_heap_length (s : State) (x : Nat) : (s.purgePeers x).heap.length = s.heap.length :=
  (LinksOnly.purgePeers s x).heap_length
@[simp] theorem purgePeers_roots (s : State) (x : Nat) : (s.purgePeers x).roots = s.roots :=
  (LinksOnly.purgePeers s x).roots
@[simp] theorem purgePeers_wroots (s : State) (x : Nat) : (s.purgePeers x).wroots = s.wroots :=
  (LinksOnly.purgePeers s x).wroots
@[simp] theorem purgePeers_vals (s : State) (x : Nat) : (s.purgePeers x).vals = s.vals :=
  (LinksOnly.purgePeers s x).vals
@[simp] theorem purgePeers_raws (s : State) (x : Nat) : (s.purgePeers x).raws = s.raws :=
  (LinksOnly.purgePeers s x).raws
@[simp] theorem purgePeers_stack (s : State) (x : Nat) : (s.purgePeers x).stack = s.stack :=
  (LinksOnly.purgePeers s x).stack
@[simp] theorem purgePeers_log (s : State) (x : Nat) : (s.purgePeers x).log = s.log :=
  (LinksOnly.purgePeers s x).log
@[simp] theorem purgePeers_unwinding (s : State) (x : Nat) : (s.purgePeers x).unwinding = s.unwinding :=
  (LinksOnly.purgePeers s x).unwinding
@[simp] theorem purgePeers_hint (s : State) (x : Nat) : (s.purgePeers x).hint = s.hint :=
  (LinksOnly.purgePeers s x).hint
@[simp] theorem purgePeers_nextVid (s : State) (x : Nat) : (s.purgePeers x).nextVid = s.nextVid :=
  (LinksOnly.purgePeers s x).nextVid

@[simp] theorem ext_purgePeers (s : State) (x o : Nat) : (s.purgePeers x).ext o = s.ext o :=
  purgePeers_invariant (fun s => s.ext o) (by simp) (by simp) s x
@[simp] theorem extW_purgePeers (s : State) (x o : Nat) : (s.purgePeers x).extW o = s.extW o :=
  purgePeers_invariant (fun s => s.extW o) (by simp) (by simp) s x
@[simp] theorem pend_purgePeers (s : State) (x o : Nat) : (s.purgePeers x).pend o = s.pend o :=
  purgePeers_invariant (fun s => s.pend o) (by simp) (by simp) s x
@[simp] theorem pendW_purgePeers (s : State) (x o : Nat) : (s.purgePeers x).pendW o = s.pendW o :=
  purgePeers_invariant (fun s => s.pendW o) (by simp) (by simp) s x
@[simp] theorem owed_purgePeers (s : State) (x o : Nat) : (s.purgePeers x).owed o = s.owed o :=
  purgePeers_invariant (fun s => s.owed o) (by simp) (by simp) s x
@[simp] theorem inHeap_purgePeers (s : State) (x o : Nat) : (s.purgePeers x).inHeap o = s.inHeap o :=
  purgePeers_invariant (fun s => s.inHeap o) (by simp) (by simp) s x
@[simp] theorem inHeapW_purgePeers (s : State) (x o : Nat) : (s.purgePeers x).inHeapW o = s.inHeapW o :=
  purgePeers_invariant (fun s => s.inHeapW o) (by simp) (by simp) s x
@[simp] theorem strongNat_purgePeers (s : State) (x o : Nat) : (s.purgePeers x).strongNat o = s.strongNat o :=
  purgePeers_invariant (fun s => s.strongNat o) (by simp) (by simp) s x
@[simp] theorem strongOf_purgePeers (s : State) (x o : Nat) : (s.purgePeers x).strongOf o = s.strongOf o :=
  purgePeers_invariant (fun s => s.strongOf o) (by simp) (by simp) s x
@[simp] theorem weakNat_purgePeers (s : State) (x o : Nat) : (s.purgePeers x).weakNat o = s.weakNat o :=
  purgePeers_invariant (fun s => s.weakNat o) (by simp) (by simp) s x
@[simp] theorem implicitNat_purgePeers (s : State) (x o : Nat) : (s.purgePeers x).implicitNat o = s.implicitNat o :=
  purgePeers_invariant (fun s => s.implicitNat o) (by simp) (by simp) s x
@[simp] theorem isLive_purgePeers (s : State) (x o : Nat) : (s.purgePeers x).isLive o = s.isLive o :=
  purgePeers_invariant (fun s => s.isLive o) (by simp) (by simp) s x
@[simp] theorem heldOf_purgePeers (s : State) (x o : Nat) : (s.purgePeers x).heldOf o = s.heldOf o :=
  purgePeers_invariant (fun s => s.heldOf o) (by simp) (by simp) s x
@[simp] theorem weaksOf_purgePeers (s : State) (x o : Nat) : (s.purgePeers x).weaksOf o = s.weaksOf o :=
  purgePeers_invariant (fun s => s.weaksOf o) (by simp) (by simp) s x
@[simp] theorem H_purgePeers (s : State) (x a b : Nat) : (s.purgePeers x).H a b = s.H a b :=
  purgePeers_invariant (fun s => s.H a b) (by simp) (by simp) s x
@[simp] theorem cell_purgePeers_isSome (s : State) (x o : Nat) :
    ((s.purgePeers x).cell o).isSome = (s.cell o).isSome :=
  purgePeers_invariant (fun s => (s.cell o).isSome) (by simp) (by simp) s x
@[simp] theorem tableOf_purgePeers_isSome (s : State) (x o : Nat) :
    ((s.purgePeers x).tableOf o).isSome = (s.tableOf o).isSome :=
  purgePeers_invariant (fun s => (s.tableOf o).isSome) (by simp) (by simp) s x

/-- errors are sticky -/
theorem purgePeers_err_of_some (s : State) (x : Nat) (e0 : Err) (h : s.err = some e0) :
    (s.purgePeers x).err = some e0 := by
  unfold purgePeers
  split
  · exact setLinks_err_of_some' _ _ (err_foldl_purgeOne_of_some x _ s e0 h)
  · exact fail_err_of_some s _ e0 h

theorem purgePeers_err_none (s : State) (x : Nat) (h : (s.purgePeers x).err = none) : s.err = none := by
  cases he : s.err with
  | none => rfl
  | some e0 => rw [purgePeers_err_of_some s x e0 he] at h; cases h

/-- an empty own table: `purgePeers` does nothing -/
theorem purgePeers_of_nil {s : State} {x : Nat} (h : s.tableOf x = some []) : s.purgePeers x = s := by
  obtain ⟨ob, hc, hl, he⟩ := setLinks_of_tableOf (fun _ => ([] : Table)) h
  unfold purgePeers
  simp only [h, List.foldl_nil]
  rw [he]
  have : ({ ob with links := some ([] : Table) } : Obj) = ob := by
    cases ob; simp_all
  rw [this]
  exact setObj_self (get_of_cell hc)

/-! ## the specification -/

theorem purgePeers_spec {s : State} {x : Nat} {t : Table}
    (herr : s.err = none)
    (ht : s.tableOf x = some t)
    (hwf : ∀ p tp, s.tableOf p = some tp → tp.WF)
    (hread : ∀ e ∈ t, e.1.ptr ≠ x → ∃ tp, s.tableOf e.1.ptr = some tp)
    (hsym : ∀ p tp, p ≠ x → s.tableOf p = some tp →
      tp.get ⟨x, .fwd⟩ = t.get ⟨p, .bwd⟩ ∧ tp.get ⟨x, .bwd⟩ = t.get ⟨p, .fwd⟩) :
    (s.purgePeers x).err = none
    ∧ (s.purgePeers x).tableOf x = some []
    ∧ (∀ p, p ≠ x →
        ((s.purgePeers x).tableOf p = none ↔ s.tableOf p = none)
        ∧ ∀ tp, s.tableOf p = some tp →
            ∃ tp', (s.purgePeers x).tableOf p = some tp' ∧ tp'.WF
              ∧ tp'.get ⟨x, .fwd⟩ = 0 ∧ tp'.get ⟨x, .bwd⟩ = 0
              ∧ (∀ l : Link, l ≠ ⟨x, .fwd⟩ → l ≠ ⟨x, .bwd⟩ → tp'.get l = tp.get l)
              ∧ (∀ e ∈ tp', ∃ c, (e.1, c) ∈ tp))
    ∧ (∀ (o : Nat) (ob : Obj), s.heap[o]? = some ob → ∃ ob' : Obj, (s.purgePeers x).heap[o]? = some ob' ∧
        ob'.strong = ob.strong ∧ ob'.weak = ob.weak ∧ ob'.value = ob.value ∧ ob'.freed = ob.freed
        ∧ ob'.implicit = ob.implicit ∧ ob'.links.isSome = ob.links.isSome
        ∧ (ob.freed = true → ob'.links = ob.links))
    ∧ s.LinksOnly (s.purgePeers x) := by
  have hLO := LinksOnly.purgePeers s x
  have hdef : s.purgePeers x = (t.foldl (purgeOne x) s).setLinks x (fun _ => []) := by
    unfold purgePeers; simp only [ht]
  have hfx : (t.foldl (purgeOne x) s).tableOf x = some t := by
    rw [tableOf_foldl_purgeOne_self, ht]
  have hferr : (t.foldl (purgeOne x) s).err = none := by
    apply err_foldl_purgeOne x t s herr
    intro e he hx
    obtain ⟨tp, htp⟩ := hread e he hx
    simp [htp]
  have htwf : t.WF := hwf x t ht
  refine ⟨?_, ?_, ?_, hLO.obj, hLO⟩
  · rw [hdef, setLinks_err_of_tableOf _ hfx]; exact hferr
  · rw [hdef, tableOf_setLinks_same _ _ _ _ hfx]
  · intro p hp
    have htab : (s.purgePeers x).tableOf p = (s.tableOf p).map (fun tp => Table.purgeBy x p tp t) := by
      rw [hdef, tableOf_setLinks, if_neg hp, tableOf_foldl_purgeOne x p hp]
    refine ⟨by rw [htab]; simp, ?_⟩
    intro tp htp
    have hw := hwf p tp htp
    obtain ⟨hs1, hs2⟩ := hsym p tp hp htp
    refine ⟨Table.purgeBy x p tp t, by rw [htab, htp]; rfl, Table.WF_purgeBy x p t tp hw, ?_, ?_,
      fun l h1 h2 => Table.get_purgeBy_other x p t tp hw l h1 h2, ?_⟩
    · rw [Table.get_purgeBy_fwd x p t tp hw, hs1]
      by_cases h0 : t.get ⟨p, .bwd⟩ = 0
      · omega
      · obtain ⟨c, hc⟩ := (Table.mem_keys_iff_get_pos t htwf ⟨p, .bwd⟩).2 (by omega)
        have := Table.mem_get t htwf _ _ hc
        have := Table.le_purgeAmt hc
        omega
    · rw [Table.get_purgeBy_bwd x p t tp hw, hs2]
      by_cases h0 : t.get ⟨p, .fwd⟩ = 0
      · omega
      · obtain ⟨c, hc⟩ := (Table.mem_keys_iff_get_pos t htwf ⟨p, .fwd⟩).2 (by omega)
        have := Table.mem_get t htwf _ _ hc
        have := Table.le_purgeAmt hc
        omega
    · intro e he
      exact Table.mem_purgeBy x p t tp e.1 e.2 he

/-! ## the hypotheses of `purgePeers_spec` from the invariants -/

/-- a readable table of an object that is not live is empty -/
theorem tableOf_eq_nil_of_not_live {s : State} (hO : s.InvO) {p : Nat} {tp : Table}
    (htp : s.tableOf p = some tp) (hl : s.isLive p = false) : tp = [] := by
  obtain ⟨ob, hg, hf, hlk⟩ := (tableOf_eq_some_iff s p tp).1 htp
  obtain ⟨-, h0, hu, -⟩ := hO p ob hg
  rw [isLive_of_get hg, hf] at hl
  cases hs : ob.strong with
  | uninit =>
    rcases (hu hs).2 with h | h
    · rw [h] at hlk; cases hlk
    · rw [h.1] at hlk; cases hlk; rfl
  | cnt n =>
    cases n with
    | zero => rw [(h0 hs).2] at hlk; cases hlk
    | succ n => simp [hs] at hl

/-- Let `x` be live in a state `s` with `InvO`, `InvB`, and let `s1` have the same readable tables
(e.g. `s` with the strong count of `x` changed, and any stack).  Then the hypotheses of
`purgePeers_spec` hold for `s1`. -/
theorem purgePeers_hyps_of_InvB {s s1 : State} {x : Nat} {t : Table} (hO : s.InvO) (hB : s.InvB)
    (hx : s.isLive x = true) (hT : ∀ p, s1.tableOf p = s.tableOf p) (ht : s.tableOf x = some t) :
    s1.tableOf x = some t
    ∧ (∀ p tp, s1.tableOf p = some tp → tp.WF)
    ∧ (∀ e ∈ t, e.1.ptr ≠ x → ∃ tp, s1.tableOf e.1.ptr = some tp)
    ∧ (∀ p tp, p ≠ x → s1.tableOf p = some tp →
        tp.get ⟨x, .fwd⟩ = t.get ⟨p, .bwd⟩ ∧ tp.get ⟨x, .bwd⟩ = t.get ⟨p, .fwd⟩) := by
  refine ⟨by rw [hT, ht], ?_, ?_, ?_⟩
  · intro p tp h; rw [hT] at h; exact (hB.1 p tp h).1
  · intro e he hne
    have hk : e.1.kind ≠ .loop := fun hk => hne (((hB.1 x t ht).2 e he).1 hk)
    have hl := ((hB.1 x t ht).2 e he).2 hk
    obtain ⟨tp, htp⟩ := live_tableOf hO hl
    exact ⟨tp, by rw [hT, htp]⟩
  · intro p tp hp htp
    rw [hT] at htp
    by_cases hl : s.isLive p = true
    · have h1 := hB.2 p x hl hx
      have h2 := hB.2 x p hx hl
      rw [F_of_tableOf htp, B_of_tableOf ht] at h1
      rw [F_of_tableOf ht, B_of_tableOf htp] at h2
      exact ⟨h1, h2.symm⟩
    · have hl' : s.isLive p = false := by simpa using hl
      have hnil := tableOf_eq_nil_of_not_live hO htp hl'
      subst hnil
      have htwf := (hB.1 x t ht).1
      refine ⟨?_, ?_⟩
      · rw [Table.get_nil]
        apply Eq.symm
        apply Table.get_eq_zero_of_not_mem
        intro c hc
        have := ((hB.1 x t ht).2 _ hc).2 (by simp)
        simp [hl'] at this
      · rw [Table.get_nil]
        apply Eq.symm
        apply Table.get_eq_zero_of_not_mem
        intro c hc
        have := ((hB.1 x t ht).2 _ hc).2 (by simp)
        simp [hl'] at this

/-- `purgePeers_spec` instantiated from the invariants -/
theorem purgePeers_of_InvB {s s1 : State} {x : Nat} {t : Table} (hO : s.InvO) (hB : s.InvB)
    (hx : s.isLive x = true) (hT : ∀ p, s1.tableOf p = s.tableOf p) (ht : s.tableOf x = some t)
    (herr : s1.err = none) :
    (s1.purgePeers x).err = none
    ∧ (s1.purgePeers x).tableOf x = some []
    ∧ (∀ p, p ≠ x →
        ((s1.purgePeers x).tableOf p = none ↔ s.tableOf p = none)
        ∧ ∀ tp, s.tableOf p = some tp →
            ∃ tp', (s1.purgePeers x).tableOf p = some tp' ∧ tp'.WF
              ∧ tp'.get ⟨x, .fwd⟩ = 0 ∧ tp'.get ⟨x, .bwd⟩ = 0
              ∧ (∀ l : Link, l ≠ ⟨x, .fwd⟩ → l ≠ ⟨x, .bwd⟩ → tp'.get l = tp.get l)
              ∧ (∀ e ∈ tp', ∃ c, (e.1, c) ∈ tp))
    ∧ s1.LinksOnly (s1.purgePeers x) := by
  obtain ⟨h1, h2, h3, h4⟩ := purgePeers_hyps_of_InvB hO hB hx hT ht
  obtain ⟨c1, c2, c3, -, c5⟩ := purgePeers_spec herr h1 h2 h3 h4
  refine ⟨c1, c2, ?_, c5⟩
  intro p hp
  have := c3 p hp
  rw [hT p] at this
  exact this

end State
end Cactus
