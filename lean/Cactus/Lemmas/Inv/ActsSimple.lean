import Cactus.Lemmas.Count
import Cactus.Lemmas.Orphan
/-!
# Preservation of the invariant by the simple user-level actions

General transfer lemmas first (`InvCore_same_heap`, `InvOBK_setObj`, `InvCore_incStrong`,
`InvCore_incWeak`, `Inv_modVal`), then one theorem `applyAct_inv_<name>` per action.

`Act.new` is **not** covered under the requested name: `Inv` is not inductive for it (see
`applyAct_inv_new_counterexample`); `applyAct_inv_new_of_fresh` is the conditional statement.
-/
namespace Cactus
namespace State

/-! ## A. Transfer lemmas -/

/-- `Inv` of a failed state is vacuous -/
theorem Inv_fail (s : State) (e : Err) : (s.fail e).Inv :=
  fun h => absurd h (fail_err_ne_none s e)

theorem Inv_badRoot {s : State} (h : s.Inv) (r : Nat) : (s.badRoot r).Inv := by
  rcases badRoot_cases s r with e | ⟨e, he⟩
  · rw [e]; exact h
  · rw [he]; exact Inv_fail s e

/-- the heap is untouched; handles may move between the program and new frames that are
neither `finishSingle` nor `phase3` -/
theorem InvCore_same_heap {s s' : State} (h : InvCore s) (hh : s'.heap = s.heap)
    (hC : ∀ t, s'.ext t + s'.pend t = s.ext t + s.pend t)
    (hW : ∀ t, s'.extW t + s'.pendW t = s.extW t + s.pendW t)
    (hF : ∀ o, Frame.finishSingle o ∈ s'.stack → Frame.finishSingle o ∈ s.stack)
    (hP : ∀ ks, Frame.phase3 ks ∈ s'.stack → Frame.phase3 ks ∈ s.stack)
    (hO : ∀ o, s'.owed o = s.owed o) : InvCore s' := by
  obtain ⟨hO', hB, hCc, hWw, hK⟩ := h
  refine ⟨?_, ?_, ?_, ?_, ?_⟩
  · intro o ob hg; rw [hh] at hg; exact hO' o ob hg
  · refine ⟨?_, ?_⟩
    · intro o t ht
      rw [tableOf_congr hh] at ht
      obtain ⟨wf, he⟩ := hB.1 o t ht
      refine ⟨wf, fun e hm => ?_⟩
      rw [isLive_congr hh]; exact he e hm
    · intro a b ha hb
      rw [isLive_congr hh] at ha hb
      rw [F_congr hh, B_congr hh]; exact hB.2 a b ha hb
  · intro t ht
    rw [isLive_congr hh] at ht
    have h1 := hCc t ht
    rw [strongNat_congr hh, inHeap_congr hh]
    have h2 := hC t
    omega
  · intro t ht
    rw [hh] at ht
    have h1 := hWw t ht
    rw [weakNat_congr hh, inHeapW_congr hh, implicitNat_congr hh]
    have h2 := hW t
    omega
  · refine ⟨?_, ?_, ?_⟩
    · intro o hm; rw [hh]; exact hK.1 o (hF o hm)
    · intro ks hm; rw [hh]; exact hK.2.1 ks (hP ks hm)
    · intro o; rw [hO]; exact hK.2.2 o

/-- congruence: `InvCore` reads `heap`, `stack`, `ext`, `extW` only -/
theorem InvCore_congr {s s' : State} (h : InvCore s) (hh : s'.heap = s.heap) (hs : s'.stack = s.stack)
    (he : ∀ o, s'.ext o = s.ext o) (hw : ∀ o, s'.extW o = s.extW o) : InvCore s' := by
  refine InvCore_same_heap h hh ?_ ?_ ?_ ?_ ?_
  · intro t; rw [he, pend_congr hs]
  · intro t; rw [hw, pendW_congr hs]
  · intro o hm; rw [hs] at hm; exact hm
  · intro ks hm; rw [hs] at hm; exact hm
  · intro o; exact owed_congr hs o

theorem Inv_emit {s : State} (h : s.Inv) (e : Ev) : (s.emit e).Inv :=
  fun herr => InvCore_congr (h herr) rfl rfl (fun _ => rfl) (fun _ => rfl)

/-- `ob'` is in the same "state" as `ob`: only the counters (within their class) and the contents
of the value changed -/
structure ObjSim (ob ob' : Obj) : Prop where
  links : ob'.links = ob.links
  freed : ob'.freed = ob.freed
  implicit : ob'.implicit = ob.implicit
  value : ob'.value.isSome = ob.value.isSome
  weak : ob'.weak = 0 ↔ ob.weak = 0
  strong : ob'.strong = ob.strong ∨ ∃ n m, ob.strong = .cnt (n + 1) ∧ ob'.strong = .cnt (m + 1)

theorem ObjSim.isDead {ob ob' : Obj} (sim : ObjSim ob ob') : ob'.strong.isDead = ob.strong.isDead := by
  rcases sim.strong with e | ⟨n, m, h1, h2⟩
  · rw [e]
  · rw [h1, h2]; rfl

/-- replacing one object by a similar one keeps the invariants that do not count -/
theorem InvOBK_setObj {s s' : State} {o : Nat} {ob ob' : Obj} (h : InvCore s)
    (hg : s.heap[o]? = some ob) (sim : ObjSim ob ob')
    (hh : s'.heap = (s.setObj o ob').heap) (hst : s'.stack = s.stack) :
    InvO s' ∧ InvB s' ∧ InvK s' := by
  obtain ⟨hO, hB, -, -, hK⟩ := h
  have hlt := get_lt hg
  have hT : ∀ x, s'.tableOf x = s.tableOf x := fun x => by
    rw [tableOf_congr hh, tableOf_setObj_of_links_eq hg sim.links sim.freed]
  have hL : ∀ x, s'.isLive x = s.isLive x := fun x => by
    rw [isLive_congr hh, isLive_setObj_of_eq hg sim.freed sim.isDead]
  have hFF : ∀ x y, s'.F x y = s.F x y := fun x y => by
    rw [F_congr hh, F_setObj_of_links_eq hg sim.links sim.freed]
  have hBB : ∀ x y, s'.B x y = s.B x y := fun x y => by
    rw [B_congr hh, B_setObj_of_links_eq hg sim.links sim.freed]
  have hU : ∀ (x : Nat) (obx : Obj), s.heap[x]? = some obx → obx.strong = .uninit →
      ∃ obx' : Obj, s'.heap[x]? = some obx' ∧ obx'.strong = .uninit ∧ obx'.links = obx.links
        ∧ obx'.implicit = obx.implicit := by
    intro x obx hx hs
    rw [hh, getElem?_setObj]
    by_cases hox : o = x
    · subst hox
      rw [hg] at hx; cases hx
      refine ⟨ob', by simp [hlt], ?_, sim.links, sim.implicit⟩
      rcases sim.strong with e | ⟨n, m, h1, -⟩
      · rw [e, hs]
      · rw [hs] at h1; cases h1
    · exact ⟨obx, by simp [hox, hx], hs, rfl, rfl⟩
  refine ⟨?_, ⟨?_, ?_⟩, ?_, ?_, ?_⟩
  · intro x obx hx
    rw [hh, getElem?_setObj] at hx
    by_cases hox : o = x
    · subst hox
      simp only [if_pos hlt, if_true, Option.some.injEq] at hx
      subst hx
      obtain ⟨h1, h2, h3, h4⟩ := hO o ob hg
      refine ⟨?_, ?_, ?_, ?_⟩
      · intro n hn
        have : ∃ k, ob.strong = .cnt (k + 1) := by
          rcases sim.strong with e | ⟨k, m, hk, -⟩
          · exact ⟨n, by rw [← e, hn]⟩
          · exact ⟨k, hk⟩
        obtain ⟨k, hk⟩ := this
        obtain ⟨a, b, c, d⟩ := h1 k hk
        exact ⟨by rw [sim.value, a], by rw [sim.links, b], by rw [sim.freed, c], by rw [sim.implicit, d]⟩
      · intro h0
        have : ob.strong = .cnt 0 := by
          rcases sim.strong with e | ⟨k, m, -, hm⟩
          · rw [← e, h0]
          · rw [h0] at hm; cases hm
        obtain ⟨a, b⟩ := h2 this
        refine ⟨?_, by rw [sim.links, b]⟩
        have := sim.value; rw [a] at this
        simpa using this
      · intro hu
        have : ob.strong = .uninit := by
          rcases sim.strong with e | ⟨k, m, -, hm⟩
          · rw [← e, hu]
          · rw [hu] at hm; cases hm
        obtain ⟨a, b⟩ := h3 this
        refine ⟨?_, ?_⟩
        · have := sim.value; rw [a] at this
          simpa using this
        · rw [sim.links, sim.implicit]; exact b
      · rw [sim.freed, h4]; exact sim.weak.symm
    · simp only [if_neg hox] at hx
      exact hO x obx hx
  · intro x t ht
    rw [hT] at ht
    obtain ⟨wf, he⟩ := hB.1 x t ht
    refine ⟨wf, fun e hm => ?_⟩
    rw [hL]; exact he e hm
  · intro a b ha hb
    rw [hL] at ha hb
    rw [hFF, hBB]; exact hB.2 a b ha hb
  · intro x hm
    rw [hst] at hm
    obtain ⟨obx, hx, hs, hl, hi⟩ := hK.1 x hm
    obtain ⟨obx', hx', hs', hl', hi'⟩ := hU x obx hx hs
    exact ⟨obx', hx', hs', by rw [hl', hl], by rw [hi', hi]⟩
  · intro ks hm k hk
    rw [hst] at hm
    obtain ⟨obx, hx, hs, hl, hi⟩ := hK.2.1 ks hm k hk
    obtain ⟨obx', hx', hs', hl', hi'⟩ := hU k obx hx hs
    exact ⟨obx', hx', hs', by rw [hl', hl], by rw [hi', hi]⟩
  · intro x; rw [owed_congr hst]; exact hK.2.2 x

/-- one more strong handle to the live object `o` appears in the program and its count is
incremented -/
theorem InvCore_incStrong {s s' : State} {o : Nat} (h : InvCore s) (hl : s.isLive o = true)
    (hh : s'.heap = (s.incStrong o).heap) (hst : s'.stack = s.stack)
    (he : ∀ t, s'.ext t = s.ext t + (if o = t then 1 else 0))
    (hw : ∀ t, s'.extW t = s.extW t) : InvCore s' := by
  obtain ⟨ob, n, hc, hs, e⟩ := incStrong_of_isLive hl
  have hg := get_of_cell hc
  have sim : ObjSim ob { ob with strong := .cnt (n + 2) } :=
    ⟨rfl, rfl, rfl, rfl, Iff.rfl, Or.inr ⟨n, n + 1, hs, rfl⟩⟩
  obtain ⟨hO, hB, hK⟩ := InvOBK_setObj h hg sim (by rw [hh, e]) hst
  have hst' : s'.stack = (s.incStrong o).stack := by rw [hst, incStrong_stack]
  refine ⟨hO, hB, ?_, ?_, hK⟩
  · intro t ht
    rw [isLive_congr hh, isLive_incStrong] at ht
    have h1 := h.2.2.1 t ht
    rw [strongNat_congr hh, strongNat_incStrong hl, inHeap_congr hh, inHeap_incStrong,
      pend_congr hst, he]
    omega
  · intro t ht
    have hlen : s'.heap.length = s.heap.length := by rw [hh, incStrong_heap_length]
    rw [hlen] at ht
    have h1 := h.2.2.2.1 t ht
    rw [weakNat_congr hh, weakNat_incStrong, inHeapW_congr hh, inHeapW_incStrong,
      implicitNat_congr hh, implicitNat_incStrong, pendW_congr hst, hw]
    exact h1

/-- one more Weak handle to `o` appears in the program and its weak count is incremented -/
theorem InvCore_incWeak {s s' : State} {o : Nat} {ob : Obj} (h : InvCore s)
    (hc : s.cell o = some ob) (hw0 : ob.weak ≠ 0)
    (hh : s'.heap = (s.incWeak o).heap) (hst : s'.stack = s.stack)
    (he : ∀ t, s'.ext t = s.ext t)
    (hw : ∀ t, s'.extW t = s.extW t + (if o = t then 1 else 0)) : InvCore s' := by
  have e := incWeak_eq hc hw0
  have hg := get_of_cell hc
  have sim : ObjSim ob { ob with weak := ob.weak + 1 } :=
    ⟨rfl, rfl, rfl, rfl, by simp [hw0], Or.inl rfl⟩
  obtain ⟨hO, hB, hK⟩ := InvOBK_setObj h hg sim (by rw [hh, e]) hst
  refine ⟨hO, hB, ?_, ?_, hK⟩
  · intro t ht
    rw [isLive_congr hh, isLive_incWeak] at ht
    have h1 := h.2.2.1 t ht
    rw [strongNat_congr hh, strongNat_incWeak, inHeap_congr hh, inHeap_incWeak,
      pend_congr hst, he]
    exact h1
  · intro t ht
    have hlen : s'.heap.length = s.heap.length := by rw [hh, incWeak_heap_length]
    rw [hlen] at ht
    have h1 := h.2.2.2.1 t ht
    rw [weakNat_congr hh, weakNat_incWeak hc hw0, inHeapW_congr hh, inHeapW_incWeak,
      implicitNat_congr hh, implicitNat_incWeak, pendW_congr hst, hw]
    omega

/-- changing a stored value without touching the handles it owns -/
theorem Inv_modVal {s : State} (h : s.Inv) (o : Nat) (f : Val → Val)
    (hf : ∀ v, (f v).held = v.held) (hfw : ∀ v, (f v).weaks = v.weaks) : (s.modVal o f).Inv := by
  intro herr
  rcases modVal_cases s o f with ⟨e, he⟩ | ⟨ob, v, hc, hv, e⟩
  · rw [he] at herr; exact absurd herr (fail_err_ne_none s e)
  · have herr0 : s.err = none := ((modVal_err_eq_none_iff s o f).mp herr).1
    have hI := h herr0
    have hg := get_of_cell hc
    have sim : ObjSim ob { ob with value := some (f v) } :=
      ⟨rfl, rfl, rfl, by simp [hv], Iff.rfl, Or.inl rfl⟩
    obtain ⟨hO, hB, hK⟩ := InvOBK_setObj (s' := s.modVal o f) hI hg sim (by rw [e]) (by simp)
    refine ⟨hO, hB, ?_, ?_, hK⟩
    · intro t ht
      rw [isLive_modVal] at ht
      have h1 := hI.2.2.1 t ht
      rw [strongNat_modVal, ext_modVal, inHeap_modVal_of_held_eq s o f hf, pend_modVal]
      exact h1
    · intro t ht
      rw [modVal_heap_length] at ht
      have h1 := hI.2.2.2.1 t ht
      rw [weakNat_modVal, extW_modVal, inHeapW_modVal_of_weaks_eq s o f hfw, pendW_modVal,
        implicitNat_modVal]
      exact h1

/-- a program-owned bundle of handles moves into one new cleanup frame `f` -/
theorem InvCore_push_move {s s0 : State} {f : Frame} (h : InvCore s) (hh : s0.heap = s.heap)
    (hst : s0.stack = s.stack)
    (hC : ∀ t, s0.ext t + Frame.strongTo t f = s.ext t)
    (hW : ∀ t, s0.extW t + Frame.weakTo t f = s.extW t)
    (hf : f.isCleanup = true) : InvCore (s0.push [f]) := by
  refine InvCore_same_heap h (by simp [hh]) ?_ ?_ ?_ ?_ ?_
  · intro t
    have := hC t
    simp only [ext_push, pend_push, List.map_cons, List.map_nil, sumList_singleton, pend_congr hst]
    omega
  · intro t
    have := hW t
    simp only [extW_push, pendW_push, List.map_cons, List.map_nil, sumList_singleton, pendW_congr hst]
    omega
  · intro o hm
    simp only [push_stack, List.cons_append, List.nil_append, List.mem_cons] at hm
    rcases hm with rfl | hm
    · cases hf
    · rw [← hst]; exact hm
  · intro ks hm
    simp only [push_stack, List.cons_append, List.nil_append, List.mem_cons] at hm
    rcases hm with rfl | hm
    · cases hf
    · rw [← hst]; exact hm
  · intro o
    simp only [owed_push, List.map_cons, List.map_nil, sumList_singleton, owed_congr hst,
      Frame.owes_of_cleanup o f hf]
    omega


/-- generic form of "gain one strong handle": covers the failing case too -/
theorem Inv_incStrong_gen {s s' : State} {o : Nat} (h : s.Inv)
    (herr : s'.err = (s.incStrong o).err)
    (hh : s'.heap = (s.incStrong o).heap) (hst : s'.stack = s.stack)
    (he : ∀ t, s'.ext t = s.ext t + (if o = t then 1 else 0))
    (hw : ∀ t, s'.extW t = s.extW t) : s'.Inv := by
  intro herr'
  rw [herr] at herr'
  obtain ⟨herr0, hl⟩ := (incStrong_err_eq_none_iff s o).mp herr'
  exact InvCore_incStrong (h herr0) hl hh hst he hw

theorem Inv_incWeak_gen {s s' : State} {o : Nat} (h : s.Inv)
    (herr : s'.err = (s.incWeak o).err)
    (hh : s'.heap = (s.incWeak o).heap) (hst : s'.stack = s.stack)
    (he : ∀ t, s'.ext t = s.ext t)
    (hw : ∀ t, s'.extW t = s.extW t + (if o = t then 1 else 0)) : s'.Inv := by
  intro herr'
  rw [herr] at herr'
  obtain ⟨herr0, ob, hc, hw0⟩ := (incWeak_err_eq_none_iff s o).mp herr'
  exact InvCore_incWeak (h herr0) hc hw0 hh hst he hw

theorem F_eq_zero_of_not_live {s : State} (hB : s.InvB) (a : Nat) {b : Nat} (h : s.isLive b = false) :
    s.F a b = 0 := by
  apply Nat.eq_zero_of_not_pos
  intro hp
  obtain ⟨c, hc⟩ := (s.F_pos_iff hB a b).mp hp
  have := s.entry_live hB hc (by simp)
  simp [h] at this

theorem B_eq_zero_of_not_live {s : State} (hB : s.InvB) (b : Nat) {a : Nat} (h : s.isLive a = false) :
    s.B b a = 0 := by
  apply Nat.eq_zero_of_not_pos
  intro hp
  obtain ⟨c, hc⟩ := (s.B_pos_iff hB b a).mp hp
  have := s.entry_live hB hc (by simp)
  simp [h] at this

/-- `Rc::new`: a fresh allocation whose value owns no handles, plus one root handle to it;
needs `InvR` at the fresh index -/
theorem InvCore_new {s s' : State} {v : Val} (h : InvCore s) (hR : s.InvR)
    (hv : v.held = []) (hvw : v.weaks = [])
    (hh : s'.heap = (s.alloc v).heap) (hst : s'.stack = s.stack)
    (he : ∀ t, s'.ext t = s.ext t + (if s.heap.length = t then 1 else 0))
    (hw : ∀ t, s'.extW t = s.extW t) : InvCore s' := by
  obtain ⟨hO, hB, hC, hW, hK⟩ := h
  have hnl : s.isLive s.heap.length = false := isLive_of_ge (Nat.le_refl _)
  have hgn : s.heap[s.heap.length]? = none := get_none_iff.mpr (Nat.le_refl _)
  have hL : ∀ x, s'.isLive x = true ↔ s.isLive x = true ∨ x = s.heap.length := fun x => by
    rw [isLive_congr hh]; exact isLive_alloc_iff s v x
  refine ⟨?_, ⟨?_, ?_⟩, ?_, ?_, ?_, ?_, ?_⟩
  · intro x obx hx
    rw [hh, getElem?_alloc] at hx
    by_cases hxl : x = s.heap.length
    · simp only [if_pos hxl, Option.some.injEq] at hx
      subst hx
      simp
    · simp only [if_neg hxl] at hx
      exact hO x obx hx
  · intro x t ht
    rw [tableOf_congr hh] at ht
    by_cases hxl : x = s.heap.length
    · subst hxl
      rw [tableOf_alloc_new] at ht
      cases ht
      exact ⟨Table.WF_nil, fun e hm => by cases hm⟩
    · rw [tableOf_alloc_old s v hxl] at ht
      obtain ⟨wf, hent⟩ := hB.1 x t ht
      refine ⟨wf, fun e hm => ⟨(hent e hm).1, fun hk => ?_⟩⟩
      exact (hL _).mpr (Or.inl ((hent e hm).2 hk))
  · intro a b ha hb
    rw [F_congr hh, B_congr hh, F_alloc, B_alloc]
    rcases (hL a).mp ha with ha | ha
    · rcases (hL b).mp hb with hb | hb
      · exact hB.2 a b ha hb
      · subst hb
        rw [F_eq_zero_of_not_live hB a hnl, B_of_get_none hgn]
    · subst ha
      rw [F_of_get_none hgn]
      rcases (hL b).mp hb with hb | hb
      · rw [B_eq_zero_of_not_live hB b hnl]
      · subst hb; rw [B_of_get_none hgn]
  · intro t ht
    rw [strongNat_congr hh, strongNat_alloc, he, inHeap_congr hh, inHeap_alloc, pend_congr hst, hv]
    rcases (hL t).mp ht with ht | ht
    · have h1 := hC t ht
      have : s.heap.length ≠ t := fun e => by rw [← e, hnl] at ht; cases ht
      simp only [if_neg this, List.count_nil]
      omega
    · subst ht
      have h1 := (hR _ (Nat.le_refl _)).1
      rw [strongNat_of_get_none hgn]
      simp only [if_true, List.count_nil]
      omega
  · intro t ht
    have hlen : s'.heap.length = s.heap.length + 1 := by rw [hh, alloc_heap_length]
    rw [hlen] at ht
    rw [weakNat_congr hh, weakNat_alloc, hw, inHeapW_congr hh, inHeapW_alloc, pendW_congr hst,
      implicitNat_congr hh, implicitNat_alloc, hvw]
    by_cases htl : s.heap.length = t
    · subst htl
      have h1 := (hR _ (Nat.le_refl _)).2
      rw [weakNat_of_get_none hgn, implicitNat_of_get_none hgn]
      simp only [if_true, List.count_nil]
      omega
    · have h1 := hW t (by omega)
      simp only [if_neg htl, List.count_nil]
      omega
  · intro x hm
    rw [hst] at hm
    obtain ⟨obx, hx, r⟩ := hK.1 x hm
    exact ⟨obx, by rw [hh]; exact get_alloc_of_get v hx, r⟩
  · intro ks hm k hk
    rw [hst] at hm
    obtain ⟨obx, hx, r⟩ := hK.2.1 ks hm k hk
    exact ⟨obx, by rw [hh]; exact get_alloc_of_get v hx, r⟩
  · intro x; rw [owed_congr hst]; exact hK.2.2 x

end State

open State

/-! ## B. The actions -/

/-- `Rc::new`; `Inv` alone is not inductive here (`applyAct_inv_new_counterexample`), the fresh
index must be unused: `InvR` -/
theorem applyAct_inv_new (s : State) (fh fw : List Nat) (h : s.Inv) (hR : s.InvR) :
    (applyAct s fh fw .new).Inv := by
  intro herr
  simp only [applyAct] at herr ⊢
  exact InvCore_new (h herr) hR rfl rfl rfl rfl (fun t => by simp) (fun t => by simp)

/-- without `InvR` the statement is false: a root handle designating the not-yet-allocated index
`heap.length` is not excluded by `InvCore` -/
theorem applyAct_inv_new_counterexample :
    ∃ s : State, s.Inv ∧ ¬ (applyAct s [] [] .new).Inv := by
  refine ⟨{ roots := [0] }, ?_, ?_⟩
  · intro _
    refine ⟨?_, ⟨?_, ?_⟩, ?_, ?_, ?_, ?_, ?_⟩
    · intro o ob h; simp at h
    · intro o t h; simp [tableOf, cell] at h
    · intro a b h; simp [isLive] at h
    · intro t h; simp [isLive] at h
    · intro t h; simp at h
    · intro o h; simp at h
    · intro ks h; simp at h
    · intro o; simp [owed]
  · intro h
    have hc := (h rfl).2.2.1 0 (by decide)
    revert hc
    decide

theorem applyAct_inv_clone (s : State) (fh fw : List Nat) (r : Nat) (h : s.Inv) :
    (applyAct s fh fw (.clone r)).Inv := by
  simp only [applyAct]
  split
  · exact Inv_incStrong_gen h rfl rfl (by simp) (fun t => by simp) (fun t => by simp)
  · exact Inv_badRoot h r

theorem applyAct_inv_drop (s : State) (fh fw : List Nat) (r : Nat) (h : s.Inv) :
    (applyAct s fh fw (.drop r)).Inv := by
  simp only [applyAct]
  split
  · rename_i o hu
    obtain ⟨hr, -⟩ := useRoot_some hu
    intro herr
    refine InvCore_push_move (h herr) rfl rfl ?_ (fun t => by simp) rfl
    intro t
    have := ext_withRoots_eraseIdx s (idxMod s.roots r) t
    simp only [hr, Option.some.injEq] at this
    simpa using this
  · exact Inv_badRoot h r

theorem applyAct_inv_downgrade (s : State) (fh fw : List Nat) (r : Nat) (h : s.Inv) :
    (applyAct s fh fw (.downgrade r)).Inv := by
  simp only [applyAct]
  split
  · exact Inv_incWeak_gen h rfl rfl (by simp) (fun t => by simp) (fun t => by simp)
  · exact Inv_badRoot h r

theorem applyAct_inv_upgrade (s : State) (fh fw : List Nat) (w : Nat) (h : s.Inv) :
    (applyAct s fh fw (.upgrade w)).Inv := by
  simp only [applyAct]
  split
  · split
    · split
      · exact Inv_emit h _
      · exact Inv_incStrong_gen h rfl rfl (by simp) (fun t => by simp) (fun t => by simp)
    · exact Inv_fail _ _
  · exact h

theorem applyAct_inv_cloneWeak (s : State) (fh fw : List Nat) (w : Nat) (h : s.Inv) :
    (applyAct s fh fw (.cloneWeak w)).Inv := by
  simp only [applyAct]
  split
  · exact Inv_incWeak_gen h rfl rfl (by simp) (fun t => by simp) (fun t => by simp)
  · exact h

theorem applyAct_inv_dropWeak (s : State) (fh fw : List Nat) (w : Nat) (h : s.Inv) :
    (applyAct s fh fw (.dropWeak w)).Inv := by
  simp only [applyAct]
  split
  · rename_i o hn
    have hr := getElem?_idxMod_of_nthMod hn
    intro herr
    refine InvCore_push_move (h herr) rfl rfl (fun t => by simp) ?_ rfl
    intro t
    have := extW_withWroots_eraseIdx s (idxMod s.wroots w) t
    simp only [hr, Option.some.injEq] at this
    simpa using this
  · exact h

theorem applyAct_inv_intoRaw (s : State) (fh fw : List Nat) (r : Nat) (h : s.Inv) :
    (applyAct s fh fw (.intoRaw r)).Inv := by
  simp only [applyAct]
  split
  · rename_i o hu
    obtain ⟨hr, -⟩ := useRoot_some hu
    intro herr
    exact InvCore_congr (h herr) rfl rfl (fun t => ext_intoRaw s _ o t hr) (fun t => rfl)
  · exact Inv_badRoot h r

theorem applyAct_inv_fromRaw (s : State) (fh fw : List Nat) (i : Nat) (h : s.Inv) :
    (applyAct s fh fw (.fromRaw i)).Inv := by
  simp only [applyAct]
  split
  · rename_i o hn
    have hr := getElem?_idxMod_of_nthMod hn
    intro herr
    exact InvCore_congr (h herr) rfl rfl (fun t => ext_fromRaw s _ o t hr) (fun t => rfl)
  · exact h

theorem applyAct_inv_incStrong (s : State) (fh fw : List Nat) (i : Nat) (h : s.Inv) :
    (applyAct s fh fw (.incStrong i)).Inv := by
  simp only [applyAct]
  split
  · split
    · exact Inv_incStrong_gen h rfl rfl (by simp) (fun t => by simp) (fun t => by simp)
    · exact Inv_fail _ _
  · exact h

theorem applyAct_inv_decStrong (s : State) (fh fw : List Nat) (i : Nat) (h : s.Inv) :
    (applyAct s fh fw (.decStrong i)).Inv := by
  simp only [applyAct]
  split
  · rename_i o hn
    have hr := getElem?_idxMod_of_nthMod hn
    split
    · intro herr
      refine InvCore_push_move (h herr) rfl rfl ?_ (fun t => by simp) rfl
      intro t
      have := ext_withRaws_eraseIdx s (idxMod s.raws i) t
      simp only [hr, Option.some.injEq] at this
      simpa using this
    · exact Inv_fail _ _
  · exact h

theorem applyAct_inv_ptrEq (s : State) (fh fw : List Nat) (r1 r2 : Nat) (h : s.Inv) :
    (applyAct s fh fw (.ptrEq r1 r2)).Inv := by
  simp only [applyAct]
  split
  · exact Inv_emit h _
  · exact Inv_badRoot (Inv_badRoot h r1) r2

theorem applyAct_inv_counts (s : State) (fh fw : List Nat) (r : Nat) (h : s.Inv) :
    (applyAct s fh fw (.counts r)).Inv := by
  simp only [applyAct]
  split
  · split
    · exact Inv_emit (Inv_emit h _) _
    · exact Inv_fail _ _
  · exact Inv_badRoot h r

theorem applyAct_inv_wcounts (s : State) (fh fw : List Nat) (w : Nat) (h : s.Inv) :
    (applyAct s fh fw (.wcounts w)).Inv := by
  simp only [applyAct]
  split
  · split
    · split <;> exact Inv_emit (Inv_emit h _) _
    · exact Inv_fail _ _
  · exact h

theorem applyAct_inv_getMut (s : State) (fh fw : List Nat) (r : Nat) (h : s.Inv) :
    (applyAct s fh fw (.getMut r)).Inv := by
  simp only [applyAct]
  split
  · split
    · exact Inv_emit h _
    · exact Inv_fail _ _
  · exact Inv_badRoot h r

theorem applyAct_inv_setPanic (s : State) (fh fw : List Nat) (q : Nat) (h : s.Inv) :
    (applyAct s fh fw (.setPanic q)).Inv := by
  simp only [applyAct]
  split
  · exact Inv_modVal h _ _ (fun _ => rfl) (fun _ => rfl)
  · exact Inv_badRoot h q

theorem applyAct_inv_setShallow (s : State) (fh fw : List Nat) (q : Nat) (h : s.Inv) :
    (applyAct s fh fw (.setShallow q)).Inv := by
  simp only [applyAct]
  split
  · exact Inv_modVal h _ _ (fun _ => rfl) (fun _ => rfl)
  · exact Inv_badRoot h q

theorem applyAct_inv_upgradeField (s : State) (fh fw : List Nat) (k : Nat) (h : s.Inv) :
    (applyAct s fh fw (.upgradeField k)).Inv := by
  simp only [applyAct]
  split
  · split
    · split
      · exact Inv_emit h _
      · exact Inv_incStrong_gen h rfl rfl (by simp) (fun t => by simp) (fun t => by simp)
    · exact Inv_fail _ _
  · exact h

theorem applyAct_inv_cloneField (s : State) (fh fw : List Nat) (k : Nat) (h : s.Inv) :
    (applyAct s fh fw (.cloneField k)).Inv := by
  simp only [applyAct]
  split
  · exact Inv_incStrong_gen h rfl rfl (by simp) (fun t => by simp) (fun t => by simp)
  · exact h

theorem applyAct_inv_downgradeField (s : State) (fh fw : List Nat) (k : Nat) (h : s.Inv) :
    (applyAct s fh fw (.downgradeField k)).Inv := by
  simp only [applyAct]
  split
  · exact Inv_incWeak_gen h rfl rfl (by simp) (fun t => by simp) (fun t => by simp)
  · exact h

theorem applyAct_inv_dropValue (s : State) (fh fw : List Nat) (i : Nat) (h : s.Inv) :
    (applyAct s fh fw (.dropValue i)).Inv := by
  simp only [applyAct]
  split
  · rename_i v hn
    have hr := getElem?_idxMod_of_nthMod hn
    intro herr
    exact InvCore_push_move (h herr) rfl rfl
      (fun t => ext_withVals_eraseIdx s _ v t hr) (fun t => extW_withVals_eraseIdx s _ v t hr) rfl
  · exact h

theorem applyOp_inv_setScript (s : State) (q : Nat) (acts : List Act) (h : s.Inv) :
    (applyOp s (.setScript q acts)).Inv := by
  simp only [applyOp]
  split
  · exact Inv_modVal h _ _ (fun _ => rfl) (fun _ => rfl)
  · exact Inv_badRoot h q

end Cactus
