import Cactus.Lemmas.Count
import Cactus.Lemmas.Orphan
/-!
# Preservation of the invariant by the "small" frames

`step` pops the top frame `f` of the control stack and runs it.  This file proves that `Inv` is
preserved for every frame kind except `rcDrop` and `script` with a non-empty action list:
`weakDrop`, `dropVal`, `script _ _ []`, `panic`, `dropFields`, `finishSingle`, `phase3`.

Structure
* transport lemmas: each clause of `InvCore` only reads some components of the state;
* `InvCore_decWeakFree`: releasing one weak reference (a Weak handle that is no longer counted, or
  the implicit weak of a dead object that no pending frame owes any more) re-establishes `InvCore`;
* one theorem per frame kind, and `step_inv_frames` which puts them together.
-/
namespace Cactus
namespace State

/-! ## transport of the clauses of `InvCore` -/

theorem InvO_of_heap_eq {s s' : State} (hh : s'.heap = s.heap) (h : s.InvO) : s'.InvO := by
  intro o ob hget
  rw [hh] at hget
  exact h o ob hget

theorem InvB_of_heap_eq {s s' : State} (hh : s'.heap = s.heap) (h : s.InvB) : s'.InvB := by
  refine ⟨fun o t ht => ?_, fun a b ha hb => ?_⟩
  · rw [tableOf_congr hh] at ht
    obtain ⟨hwf, he⟩ := h.1 o t ht
    refine ⟨hwf, fun e hem => ?_⟩
    rw [isLive_congr hh]
    exact he e hem
  · rw [isLive_congr hh] at ha hb
    rw [F_congr hh, B_congr hh]
    exact h.2 a b ha hb

theorem InvC_of_eq {s s' : State} (hh : s'.heap = s.heap) (he : ∀ o, s'.ext o = s.ext o)
    (hp : ∀ o, s'.pend o = s.pend o) (h : s.InvC) : s'.InvC := by
  intro t ht
  rw [isLive_congr hh] at ht
  rw [strongNat_congr hh, he, inHeap_congr hh, hp]
  exact h t ht

theorem InvW_of_eq {s s' : State} (hh : s'.heap = s.heap) (he : ∀ o, s'.extW o = s.extW o)
    (hp : ∀ o, s'.pendW o = s.pendW o) (h : s.InvW) : s'.InvW := by
  intro t ht
  rw [hh] at ht
  rw [weakNat_congr hh, he, inHeapW_congr hh, hp, implicitNat_congr hh]
  exact h t ht

/-- `InvK` survives when continuation frames are only removed -/
theorem InvK_of_sub {s s' : State} (hh : s'.heap = s.heap)
    (hf : ∀ o, Frame.finishSingle o ∈ s'.stack → Frame.finishSingle o ∈ s.stack)
    (hp : ∀ ks, Frame.phase3 ks ∈ s'.stack → Frame.phase3 ks ∈ s.stack)
    (ho : ∀ o, s'.owed o ≤ s.owed o) (h : s.InvK) : s'.InvK := by
  refine ⟨fun o hm => ?_, fun ks hm k hk => ?_, fun o => ?_⟩
  · rw [hh]; exact h.1 o (hf o hm)
  · rw [hh]; exact h.2.1 ks (hp ks hm) k hk
  · exact Nat.le_trans (ho o) (h.2.2 o)

/-- everything but the control stack agrees, the handles owned by the stack agree, and
continuation frames were only removed -/
theorem InvCore_of_eq {s s' : State} (hh : s'.heap = s.heap)
    (he : ∀ o, s'.ext o = s.ext o) (heW : ∀ o, s'.extW o = s.extW o)
    (hp : ∀ o, s'.pend o = s.pend o) (hpW : ∀ o, s'.pendW o = s.pendW o)
    (hf : ∀ o, Frame.finishSingle o ∈ s'.stack → Frame.finishSingle o ∈ s.stack)
    (hp3 : ∀ ks, Frame.phase3 ks ∈ s'.stack → Frame.phase3 ks ∈ s.stack)
    (ho : ∀ o, s'.owed o ≤ s.owed o) (h : s.InvCore) : s'.InvCore :=
  ⟨InvO_of_heap_eq hh h.1, InvB_of_heap_eq hh h.2.1, InvC_of_eq hh he hp h.2.2.1,
    InvW_of_eq hh heW hpW h.2.2.2.1, InvK_of_sub hh hf hp3 ho h.2.2.2.2⟩

/-! ## popping the top frame -/

/-- the glue between `s` and the state `s0` in which `step` runs the popped frame -/
theorem pop_inv_general {s : State} {f : Frame} {rest : List Frame} (hst : s.stack = f :: rest) :
    ({ s with stack := rest } : State).heap = s.heap
    ∧ ({ s with stack := rest } : State).err = s.err
    ∧ ({ s with stack := rest } : State).stack = rest
    ∧ (∀ o, ({ s with stack := rest } : State).ext o = s.ext o)
    ∧ (∀ o, ({ s with stack := rest } : State).extW o = s.extW o)
    ∧ (∀ o, s.pend o = Frame.strongTo o f + ({ s with stack := rest } : State).pend o)
    ∧ (∀ o, s.pendW o = Frame.weakTo o f + ({ s with stack := rest } : State).pendW o)
    ∧ (∀ o, s.owed o = Frame.owes o f + ({ s with stack := rest } : State).owed o)
    ∧ (∀ g, g ∈ ({ s with stack := rest } : State).stack → g ∈ s.stack) :=
  ⟨rfl, rfl, rfl, fun _ => rfl, fun _ => rfl, pend_of_stack_cons hst, pendW_of_stack_cons hst,
    owed_of_stack_cons hst, fun g hg => by rw [hst]; exact List.mem_cons_of_mem _ hg⟩

/-- popping a frame keeps `InvO`, `InvB`, `InvK` -/
theorem pop_InvO {s : State} (rest : List Frame) (h : s.InvO) :
    ({ s with stack := rest } : State).InvO := InvO_of_heap_eq (s := s) rfl h

theorem pop_InvB {s : State} (rest : List Frame) (h : s.InvB) :
    ({ s with stack := rest } : State).InvB := InvB_of_heap_eq (s := s) rfl h

theorem pop_InvK {s : State} {f : Frame} {rest : List Frame} (hst : s.stack = f :: rest)
    (h : s.InvK) : ({ s with stack := rest } : State).InvK := by
  refine InvK_of_sub (s := s) rfl (fun o hm => ?_) (fun ks hm => ?_) (fun o => ?_) h
  · rw [hst]; exact List.mem_cons_of_mem _ hm
  · rw [hst]; exact List.mem_cons_of_mem _ hm
  · rw [owed_of_stack_cons hst o]; omega

/-- popping a frame that owns no handle keeps the whole invariant -/
theorem pop_InvCore {s : State} {f : Frame} {rest : List Frame} (hst : s.stack = f :: rest)
    (hs : ∀ o, Frame.strongTo o f = 0) (hw : ∀ o, Frame.weakTo o f = 0) (h : s.InvCore) :
    ({ s with stack := rest } : State).InvCore := by
  refine ⟨pop_InvO rest h.1, pop_InvB rest h.2.1, ?_, ?_, pop_InvK hst h.2.2.2.2⟩
  · refine InvC_of_eq (s := s) rfl (fun _ => rfl) (fun o => ?_) h.2.2.1
    rw [pend_of_stack_cons hst o, hs]; omega
  · refine InvW_of_eq (s := s) rfl (fun _ => rfl) (fun o => ?_) h.2.2.2.1
    rw [pendW_of_stack_cons hst o, hw]; omega

theorem pop_InvC {s : State} {f : Frame} {rest : List Frame} (hst : s.stack = f :: rest)
    (hs : ∀ o, Frame.strongTo o f = 0) (h : s.InvC) : ({ s with stack := rest } : State).InvC := by
  refine InvC_of_eq (s := s) rfl (fun _ => rfl) (fun o => ?_) h
  rw [pend_of_stack_cons hst o, hs]; omega

theorem pop_InvW {s : State} {f : Frame} {rest : List Frame} (hst : s.stack = f :: rest)
    (hw : ∀ o, Frame.weakTo o f = 0) (h : s.InvW) : ({ s with stack := rest } : State).InvW := by
  refine InvW_of_eq (s := s) rfl (fun _ => rfl) (fun o => ?_) h
  rw [pendW_of_stack_cons hst o, hw]; omega

/-! ## releasing one weak reference -/

/-- Releasing one weak reference to `o` re-establishes `InvCore` from a state in which everything
holds except that, for `imp = false`, the weak count of `o` exceeds the counted references by one
(a Weak handle has just been taken off the books), and for `imp = true` the implicit weak of the
dead object `o` is released (`o` has no table any more and no pending frame owes the release). -/
theorem InvCore_decWeakFree {s : State} {o : Nat} {ob : Obj} (imp : Bool)
    (hget : s.heap[o]? = some ob)
    (hO : s.InvO) (hB : s.InvB) (hC : s.InvC) (hK : s.InvK)
    (hWother : ∀ t, t < s.heap.length → t ≠ o →
      s.weakNat t = s.extW t + s.inHeapW t + s.pendW t + s.implicitNat t)
    (hWo : s.weakNat o
      = s.extW o + s.inHeapW o + s.pendW o + s.implicitNat o + (if imp = true then 0 else 1))
    (himp : imp = true →
      ob.implicit = true ∧ ob.strong.isDead = true ∧ ob.links = none ∧ s.owed o = 0) :
    (s.decWeakFree o imp).InvCore ∧ (s.decWeakFree o imp).err = s.err := by
  obtain ⟨hO1, hO2, hO3, hO4⟩ := hO o ob hget
  rw [weakNat_of_get hget, implicitNat_of_get hget] at hWo
  -- the weak count is positive, so the allocation has not been released
  have hwpos : ob.weak ≠ 0 := by
    cases imp with
    | false => simp at hWo; omega
    | true => obtain ⟨hi, -⟩ := himp rfl; simp [hi] at hWo; omega
  have hfr : ob.freed = false := by
    cases hf : ob.freed with
    | false => rfl
    | true => exact absurd (hO4.mp hf) hwpos
  have hc : s.cell o = some ob := cell_of_not_freed hget hfr
  have hget' := getElem?_decWeakFree_same imp hc hwpos
  have hother : ∀ x, x ≠ o → (s.decWeakFree o imp).heap[x]? = s.heap[x]? :=
    fun x hx => getElem?_decWeakFree_other s imp hx
  -- a live object keeps its implicit weak: its count stays positive
  have hlive_o : s.isLive o = true → ob.weak ≠ 1 ∧ imp = false := by
    intro hl
    rw [isLive_of_get hget, hfr] at hl
    have hnd : ob.strong.isDead = false := by simpa using hl
    obtain ⟨n, hn⟩ := (Strong.isDead_eq_false_iff _).mp hnd
    have himpl := (hO1 n hn).2.2.2
    have hi : imp = false := by
      cases imp with
      | false => rfl
      | true => have := (himp rfl).2.1; rw [hnd] at this; cases this
    subst hi
    simp [himpl] at hWo
    exact ⟨by omega, rfl⟩
  have hlive : ∀ x, (s.decWeakFree o imp).isLive x = s.isLive x := by
    intro x
    by_cases hx : x = o
    · subst hx
      rw [isLive_decWeakFree_same imp hc hwpos]
      cases hl : s.isLive x with
      | false => simp
      | true => simp [(hlive_o hl).1]
    · exact isLive_decWeakFree_other s imp hx
  have htab : ∀ x t, (s.decWeakFree o imp).tableOf x = some t → s.tableOf x = some t := by
    intro x t ht
    by_cases hx : x = o
    · subst hx
      rw [tableOf_of_get hget'] at ht
      rw [tableOf_of_get hget, hfr]
      by_cases h1 : ob.weak = 1
      · simp [h1] at ht
      · simpa [h1] using ht
    · rwa [tableOf_decWeakFree_other s imp hx] at ht
  have htbl : ∀ x, s.isLive x = true → (s.decWeakFree o imp).tbl x = s.tbl x := by
    intro x hl
    by_cases hx : x = o
    · subst hx
      rw [tbl_of_get hget', tbl_of_get hget, hfr]
      simp [(hlive_o hl).1]
    · exact tbl_decWeakFree_other s imp hx
  refine ⟨⟨?_, ?_, ?_, ?_, ?_⟩, decWeakFree_err imp hc hwpos⟩
  · -- InvO
    intro x obx hx
    by_cases hxo : x = o
    · subst hxo
      rw [hget'] at hx
      cases hx
      refine ⟨fun n hn => ?_, fun h0 => ?_, fun hu => ?_, ?_⟩
      · obtain ⟨h1, h2, -, h4⟩ := hO1 n hn
        have hl : s.isLive x = true := by rw [isLive_of_get hget, hfr, hn]; rfl
        obtain ⟨hw1, hi⟩ := hlive_o hl
        subst hi
        exact ⟨h1, h2, by simp [hw1], by simp [h4]⟩
      · exact hO2 h0
      · obtain ⟨h1, h2⟩ := hO3 hu
        refine ⟨h1, ?_⟩
        cases imp with
        | true => exact Or.inl (himp rfl).2.2.1
        | false =>
          rcases h2 with h2 | ⟨h2, h3⟩
          · exact Or.inl h2
          · exact Or.inr ⟨h2, by simp [h3]⟩
      · simp; omega
    · rw [hother x hxo] at hx
      exact hO x obx hx
  · -- InvB
    refine ⟨fun x t ht => ?_, fun a b ha hb => ?_⟩
    · obtain ⟨hwf, he⟩ := hB.1 x t (htab x t ht)
      refine ⟨hwf, fun e hem => ⟨(he e hem).1, fun hk => ?_⟩⟩
      rw [hlive]
      exact (he e hem).2 hk
    · rw [hlive] at ha hb
      rw [F, B, htbl a ha, htbl b hb]
      exact hB.2 a b ha hb
  · -- InvC
    intro t ht
    rw [hlive] at ht
    simpa using hC t ht
  · -- InvW
    intro t ht
    rw [decWeakFree_heap_length] at ht
    by_cases hto : t = o
    · subst hto
      have h1 := weakNat_decWeakFree imp hc hwpos t
      have h2 := implicitNat_decWeakFree_same imp hc hwpos
      rw [weakNat_of_get hget] at h1
      rw [implicitNat_of_get hget] at h2
      simp only [extW_decWeakFree, inHeapW_decWeakFree, pendW_decWeakFree, h2]
      cases imp with
      | false => simp at hWo h1 ⊢; omega
      | true =>
        obtain ⟨hi, -⟩ := himp rfl
        simp [hi] at hWo h1 ⊢
        omega
    · rw [weakNat_decWeakFree_other s imp hto, implicitNat_decWeakFree_other s imp hto]
      simpa using hWother t ht hto
  · -- InvK
    have hno : imp = true → ∀ x, (Frame.finishSingle x ∈ s.stack ∨
        ∃ ks, Frame.phase3 ks ∈ s.stack ∧ x ∈ ks) → x ≠ o := by
      intro hi x hx hxo
      subst hxo
      have := (owed_pos_iff s x).mpr hx
      have := (himp hi).2.2.2
      omega
    have hkeep : ∀ x st lk, (imp = true → x ≠ o) →
        (∃ obx, s.heap[x]? = some obx ∧ obx.strong = st ∧ obx.links = lk ∧ obx.implicit = true) →
        ∃ obx, (s.decWeakFree o imp).heap[x]? = some obx ∧ obx.strong = st ∧ obx.links = lk
          ∧ obx.implicit = true := by
      intro x st lk hne ⟨obx, hgx, h1, h2, h3⟩
      by_cases hxo : x = o
      · subst hxo
        rw [hget] at hgx
        cases hgx
        have hi : imp = false := by
          cases imp with
          | false => rfl
          | true => exact absurd rfl (hne rfl)
        subst hi
        exact ⟨_, hget', h1, h2, by simp [h3]⟩
      · exact ⟨obx, by rw [hother x hxo]; exact hgx, h1, h2, h3⟩
    refine ⟨fun x hm => ?_, fun ks hm k hk => ?_, fun x => ?_⟩
    · rw [decWeakFree_stack_imp] at hm
      exact hkeep x _ _ (fun hi => hno hi x (Or.inl hm)) (hK.1 x hm)
    · rw [decWeakFree_stack_imp] at hm
      exact hkeep k _ _ (fun hi => hno hi k (Or.inr ⟨ks, hm, hk⟩)) (hK.2.1 ks hm k hk)
    · rw [owed_decWeakFree]
      exact hK.2.2 x

/-! ## the frames -/

/-- continuation frames: the ones `InvK` talks about -/
def _root_.Cactus.Frame.isCont : Frame → Bool
  | .finishSingle _ => true
  | .phase3 _ => true
  | _ => false

theorem panic_heap (s : State) : s.panic.heap = s.heap := by
  unfold panic; split
  · simp
  · rfl

theorem ext_panic (s : State) (o : Nat) : s.panic.ext o = s.ext o := by
  unfold panic; split
  · simp
  · rfl

theorem extW_panic (s : State) (o : Nat) : s.panic.extW o = s.extW o := by
  unfold panic; split
  · simp
  · rfl

theorem mem_stack_panic {s : State} {g : Frame} (h : g ∈ s.panic.stack) : g ∈ s.stack := by
  unfold panic at h; split at h
  · simpa using h
  · exact (List.mem_filter.mp h).1

/-- 1. `Weak::drop` -/
theorem step_inv_weakDrop {s : State} {rest : List Frame} {o : Nat}
    (hst : s.stack = Frame.weakDrop o :: rest) (herr : s.err = none) (h : s.Inv) :
    (({ s with stack := rest } : State).weakDrop o).Inv := by
  intro herr'
  obtain ⟨hO, hB, hC, hW, hK⟩ := h herr
  unfold weakDrop at herr' ⊢
  cases hget : s.heap[o]? with
  | none =>
    have hc : ({ s with stack := rest } : State).cell o = none := cell_of_get_none hget
    rw [decWeakFree_of_cell_none false hc] at herr'
    exact absurd herr' (fail_err_ne_none _ _)
  | some ob =>
    have hlt := get_lt hget
    refine (InvCore_decWeakFree (s := { s with stack := rest }) false hget (pop_InvO rest hO)
      (pop_InvB rest hB) (pop_InvC hst (by simp) hC) (pop_InvK hst hK) ?_ ?_ (by simp)).1
    · intro t ht hto
      have h1 := hW t ht
      have h2 := pendW_of_stack_cons hst t
      rw [Frame.weakTo_weakDrop, if_neg hto.symm] at h2
      show s.weakNat t = s.extW t + s.inHeapW t + ({ s with stack := rest } : State).pendW t
        + s.implicitNat t
      omega
    · have h1 := hW o hlt
      have h2 := pendW_of_stack_cons hst o
      rw [Frame.weakTo_weakDrop, if_pos rfl] at h2
      show s.weakNat o = s.extW o + s.inHeapW o + ({ s with stack := rest } : State).pendW o
        + s.implicitNat o + 1
      omega

/-- 2. `drop(inner)`: the handles of the value move to the `dropFields` frame -/
theorem step_inv_dropVal {s : State} {rest : List Frame} {v : Val}
    (hst : s.stack = Frame.dropVal v :: rest) (herr : s.err = none) (h : s.Inv) :
    (({ s with stack := rest } : State).dropVal v).Inv := by
  intro _
  have hmem : ∀ g, g ∈ (({ s with stack := rest } : State).dropVal v).stack →
      g.isCont = true → g ∈ s.stack := by
    intro g hg hc
    rw [hst]
    have hg' : g = Frame.script v.held v.weaks v.script ∨ g = Frame.panic
        ∨ g = Frame.dropFields v.held v.weaks ∨ g ∈ rest := by
      unfold dropVal at hg
      cases v.panics <;> simp at hg
      · rcases hg with hg | hg | hg <;> simp [hg]
      · rcases hg with hg | hg | hg | hg <;> simp [hg]
    rcases hg' with rfl | rfl | rfl | hg'
    · simp [Frame.isCont] at hc
    · simp [Frame.isCont] at hc
    · simp [Frame.isCont] at hc
    · exact List.mem_cons_of_mem _ hg'
  refine InvCore_of_eq (s := s) rfl (fun _ => rfl) (fun _ => rfl) (fun o => ?_) (fun o => ?_)
    (fun o hm => hmem _ hm rfl) (fun ks hm => hmem _ hm rfl) (fun o => ?_) (h herr)
  · rw [pend_dropVal, pend_of_stack_cons hst o]; simp
  · rw [pendW_dropVal, pendW_of_stack_cons hst o]; simp
  · rw [owed_dropVal, owed_of_stack_cons hst o]; omega

/-- 3. a destructor body that has run to its end -/
theorem step_inv_scriptNil {s : State} {rest : List Frame} {hh ww : List Nat}
    (hst : s.stack = Frame.script hh ww [] :: rest) (herr : s.err = none) (h : s.Inv) :
    ({ s with stack := rest } : State).Inv :=
  fun _ => pop_InvCore hst (by simp) (by simp) (h herr)

/-- 4. the destructor panics -/
theorem step_inv_panic {s : State} {rest : List Frame}
    (hst : s.stack = Frame.panic :: rest) (herr : s.err = none) (h : s.Inv) :
    (({ s with stack := rest } : State).panic).Inv := by
  intro _
  have h0 : ({ s with stack := rest } : State).InvCore := pop_InvCore hst (by simp) (by simp) (h herr)
  exact InvCore_of_eq (panic_heap _) (ext_panic _) (extW_panic _) (pend_panic _) (pendW_panic _)
    (fun o hm => mem_stack_panic hm) (fun ks hm => mem_stack_panic hm) (owed_panic_le _) h0

/-- 5. drop glue of the fields: one field becomes an `rcDrop` / `weakDrop` frame -/
theorem step_inv_dropFields {s : State} {rest : List Frame} {hs ws : List Nat}
    (hst : s.stack = Frame.dropFields hs ws :: rest) (herr : s.err = none) (h : s.Inv) :
    (({ s with stack := rest } : State).dropFields hs ws).Inv := by
  intro _
  obtain ⟨fs, hfs⟩ := dropFields_eq_push ({ s with stack := rest } : State) hs ws
  have hheap : (({ s with stack := rest } : State).dropFields hs ws).heap = s.heap := by
    rw [hfs]; rfl
  have hext : ∀ o, (({ s with stack := rest } : State).dropFields hs ws).ext o = s.ext o := by
    intro o; rw [hfs]; rfl
  have hextW : ∀ o, (({ s with stack := rest } : State).dropFields hs ws).extW o = s.extW o := by
    intro o; rw [hfs]; rfl
  have hmem : ∀ g, g ∈ (({ s with stack := rest } : State).dropFields hs ws).stack →
      g.isCont = true → g ∈ s.stack := by
    intro g hg hc
    rw [hst]
    have hg' : (∃ a, g = Frame.rcDrop a) ∨ (∃ a, g = Frame.weakDrop a)
        ∨ (∃ a b, g = Frame.dropFields a b) ∨ g ∈ rest := by
      cases hs with
      | cons a hs => simp [dropFields] at hg; rcases hg with hg | hg | hg <;> simp [hg]
      | nil =>
        cases ws with
        | cons a ws => simp [dropFields] at hg; rcases hg with hg | hg | hg <;> simp [hg]
        | nil => simp [dropFields] at hg; simp [hg]
    rcases hg' with ⟨a, rfl⟩ | ⟨a, rfl⟩ | ⟨a, b, rfl⟩ | hg'
    · simp [Frame.isCont] at hc
    · simp [Frame.isCont] at hc
    · simp [Frame.isCont] at hc
    · exact List.mem_cons_of_mem _ hg'
  refine InvCore_of_eq (s := s) hheap hext hextW (fun o => ?_) (fun o => ?_)
    (fun o hm => hmem _ hm rfl) (fun ks hm => hmem _ hm rfl) (fun o => ?_) (h herr)
  · rw [pend_dropFields, pend_of_stack_cons hst o]; simp
  · rw [pendW_dropFields, pendW_of_stack_cons hst o]; simp
  · rw [owed_dropFields, owed_of_stack_cons hst o]; omega

/-- the table of a dead object that no pending frame refers to is moved out and dropped -/
theorem InvCore_dropLinks {s : State} {o : Nat} {ob : Obj} (hget : s.heap[o]? = some ob)
    (hdead : ob.strong.isDead = true) (howed : s.owed o = 0) (h : s.InvCore) :
    (s.setObj o { ob with links := none }).InvCore := by
  obtain ⟨hO, hB, hC, hW, hK⟩ := h
  have hlt := get_lt hget
  have hget1 : (s.setObj o { ob with links := none }).heap[o]? = some { ob with links := none } :=
    getElem?_setObj_same _ hlt
  have hlive : ∀ x, (s.setObj o { ob with links := none }).isLive x = s.isLive x :=
    isLive_setObj_of_eq hget rfl rfl
  have hnl : s.isLive o = false := by rw [isLive_of_get hget, hdead]; simp
  obtain ⟨hO1, hO2, hO3, hO4⟩ := hO o ob hget
  refine ⟨?_, ?_, ?_, ?_, ?_⟩
  · intro x obx hx
    by_cases hxo : x = o
    · subst hxo
      rw [hget1] at hx
      cases hx
      refine ⟨fun n hn => ?_, fun h0 => ?_, fun hu => ?_, hO4⟩
      · have hn' : ob.strong = .cnt (n + 1) := hn
        rw [hn'] at hdead; cases hdead
      · exact ⟨(hO2 h0).1, rfl⟩
      · exact ⟨(hO3 hu).1, Or.inl rfl⟩
    · rw [getElem?_setObj_other s _ hxo] at hx
      exact hO x obx hx
  · refine ⟨fun x t ht => ?_, fun a b ha hb => ?_⟩
    · by_cases hxo : x = o
      · subst hxo
        rw [tableOf_of_get hget1] at ht
        cases hf : ob.freed <;> simp [hf] at ht
      · rw [tableOf_setObj_other s _ hxo] at ht
        obtain ⟨hwf, he⟩ := hB.1 x t ht
        refine ⟨hwf, fun e hem => ⟨(he e hem).1, fun hk => ?_⟩⟩
        rw [hlive]
        exact (he e hem).2 hk
    · rw [hlive] at ha hb
      have hao : a ≠ o := fun e => by rw [e, hnl] at ha; cases ha
      have hbo : b ≠ o := fun e => by rw [e, hnl] at hb; cases hb
      rw [F_setObj_other s _ hao, B_setObj_other s _ hbo]
      exact hB.2 a b ha hb
  · intro t ht
    rw [hlive] at ht
    rw [strongNat_setObj_of_strong_eq (ob' := { ob with links := none }) hget rfl,
      inHeap_setObj_of_value_eq { ob with links := none } hget rfl, ext_setObj, pend_setObj]
    exact hC t ht
  · intro t ht
    rw [setObj_heap_length] at ht
    rw [weakNat_setObj_of_weak_eq (ob' := { ob with links := none }) hget rfl,
      inHeapW_setObj_of_value_eq { ob with links := none } hget rfl, extW_setObj,
      pendW_setObj, implicitNat_setObj_of_implicit_eq (ob' := { ob with links := none }) hget rfl]
    exact hW t ht
  · have hno : ∀ x, (Frame.finishSingle x ∈ s.stack ∨
        ∃ ks, Frame.phase3 ks ∈ s.stack ∧ x ∈ ks) → x ≠ o := by
      intro x hx hxo
      subst hxo
      have := (owed_pos_iff s x).mpr hx
      omega
    refine ⟨fun x hm => ?_, fun ks hm k hk => ?_, fun x => ?_⟩
    · rw [setObj_stack] at hm
      rw [getElem?_setObj_other s _ (hno x (Or.inl hm))]
      exact hK.1 x hm
    · rw [setObj_stack] at hm
      rw [getElem?_setObj_other s _ (hno k (Or.inr ⟨ks, hm, hk⟩))]
      exact hK.2.1 ks hm k hk
    · rw [owed_setObj]
      exact hK.2.2 x

/-- an object whose implicit weak is still owned has a positive weak count, hence is not released -/
theorem cell_of_implicit {s : State} {o : Nat} {ob : Obj} (hO : s.InvO) (hW : s.InvW)
    (hget : s.heap[o]? = some ob) (hi : ob.implicit = true) : s.cell o = some ob := by
  have hw := hW o (get_lt hget)
  rw [weakNat_of_get hget, implicitNat_of_get hget, hi] at hw
  have hwpos : ob.weak ≠ 0 := by simp at hw; omega
  have hfr : ob.freed = false := by
    cases hf : ob.freed with
    | false => rfl
    | true => exact absurd ((hO o ob hget).2.2.2.mp hf) hwpos
  exact cell_of_not_freed hget hfr

/-- 6. rest of `drop_unreachable*`: the table is dropped and the implicit weak released -/
theorem step_inv_finishSingle {s : State} {rest : List Frame} {o : Nat}
    (hst : s.stack = Frame.finishSingle o :: rest) (herr : s.err = none) (h : s.Inv) :
    (({ s with stack := rest } : State).finishSingle o).Inv := by
  intro _
  have hcore := h herr
  obtain ⟨ob, hget, hun, hlk, himpl⟩ :=
    hcore.2.2.2.2.1 o (by rw [hst]; exact List.mem_cons_self)
  have hlt := get_lt hget
  have h0 : ({ s with stack := rest } : State).InvCore :=
    pop_InvCore hst (by simp) (by simp) hcore
  have howed : ({ s with stack := rest } : State).owed o = 0 := by
    have h1 := hcore.2.2.2.2.2.2 o
    rw [owed_of_stack_cons hst o, Frame.owes_finishSingle, if_pos rfl] at h1
    omega
  have hc : ({ s with stack := rest } : State).cell o = some ob :=
    cell_of_implicit h0.1 h0.2.2.2.1 hget himpl
  have hfs : ({ s with stack := rest } : State).finishSingle o
      = (({ s with stack := rest } : State).setObj o { ob with links := none }).decWeakFree o true := by
    unfold finishSingle
    rw [hc]
    simp only [hlk]
  rw [hfs]
  have hdead : ob.strong.isDead = true := by rw [hun]; rfl
  have h1 := InvCore_dropLinks (s := { s with stack := rest }) hget hdead howed h0
  obtain ⟨hO1, hB1, hC1, hW1, hK1⟩ := h1
  have hget1 : (({ s with stack := rest } : State).setObj o { ob with links := none }).heap[o]?
      = some { ob with links := none } := getElem?_setObj_same _ hlt
  refine (InvCore_decWeakFree true hget1 hO1 hB1 hC1 hK1 (fun t ht _ => hW1 t ht) ?_ ?_).1
  · have := hW1 o (by rw [setObj_heap_length]; exact hlt)
    simpa using this
  · intro _
    exact ⟨himpl, hdead, rfl, by rw [owed_setObj]; exact howed⟩

/-- the loop of phase 3 of `drop_cycle` -/
theorem InvCore_phase3_fold : ∀ (ks : List Nat) (s : State), s.InvCore →
    (∀ k, k ∈ ks → ∃ ob, s.heap[k]? = some ob ∧ ob.strong = .uninit ∧ ob.links = none
      ∧ ob.implicit = true) →
    (∀ k, ks.count k + s.owed k ≤ 1) →
    (ks.foldl phase3One s).InvCore ∧ (ks.foldl phase3One s).err = s.err := by
  intro ks
  induction ks with
  | nil => intro s h _ _; exact ⟨h, rfl⟩
  | cons k ks ih =>
    intro s h hks hcnt
    obtain ⟨hO, hB, hC, hW, hK⟩ := h
    obtain ⟨ob, hget, hun, hlk, himpl⟩ := hks k List.mem_cons_self
    have hc : s.cell k = some ob := cell_of_implicit hO hW hget himpl
    have hdead : ob.strong.isDead = true := by rw [hun]; rfl
    have hone : phase3One s k = s.decWeakFree k true := by
      simp [phase3One, hc, hdead]
    have hk1 := hcnt k
    rw [List.count_cons_self] at hk1
    have hnotin : k ∉ ks := fun hm => by
      have := List.count_pos_iff.mpr hm
      omega
    obtain ⟨hcore', herr'⟩ := InvCore_decWeakFree true hget hO hB hC hK
      (fun t ht _ => hW t ht) (by simpa using hW k (get_lt hget))
      (fun _ => ⟨himpl, hdead, hlk, by omega⟩)
    rw [List.foldl_cons, hone]
    have hA : ∀ k', k' ∈ ks → ∃ ob, (s.decWeakFree k true).heap[k']? = some ob
        ∧ ob.strong = .uninit ∧ ob.links = none ∧ ob.implicit = true := by
      intro k' hk'
      have hne : k' ≠ k := fun e => hnotin (e ▸ hk')
      rw [getElem?_decWeakFree_other s true hne]
      exact hks k' (List.mem_cons_of_mem _ hk')
    have hB' : ∀ k', ks.count k' + (s.decWeakFree k true).owed k' ≤ 1 := by
      intro k'
      rw [owed_decWeakFree]
      have := hcnt k'
      have hle : ks.count k' ≤ (k :: ks).count k' := by
        rw [List.count_cons]; omega
      omega
    obtain ⟨hres, herr''⟩ := ih (s.decWeakFree k true) hcore' hA hB'
    exact ⟨hres, herr''.trans herr'⟩

/-- 7. phase 3 of `drop_cycle`: the implicit weak of every group member is released -/
theorem step_inv_phase3 {s : State} {rest : List Frame} {ks : List Nat}
    (hst : s.stack = Frame.phase3 ks :: rest) (herr : s.err = none) (h : s.Inv) :
    (ks.foldl phase3One ({ s with stack := rest } : State)).Inv := by
  intro _
  have hcore := h herr
  have h0 : ({ s with stack := rest } : State).InvCore :=
    pop_InvCore hst (by simp) (by simp) hcore
  refine (InvCore_phase3_fold ks _ h0 (fun k hk => ?_) (fun k => ?_)).1
  · exact hcore.2.2.2.2.2.1 ks (by rw [hst]; exact List.mem_cons_self) k hk
  · have h1 := hcore.2.2.2.2.2.2 k
    rw [owed_of_stack_cons hst k, Frame.owes_phase3] at h1
    exact h1

/-! ## summary: one machine step that runs any of these frames -/

/-- `step` preserves the invariant whenever the top frame is neither an `rcDrop` nor a `script`
with a pending action (those two cases are `step_inv_rcDrop` / `step_inv_script`, elsewhere) -/
theorem step_inv_frames {s : State} (h : s.Inv)
    (hf : ∀ f rest, s.stack = f :: rest →
      (∀ o, f ≠ Frame.rcDrop o) ∧ (∀ hh ww a as, f ≠ Frame.script hh ww (a :: as))) :
    (step s).Inv := by
  unfold step
  split
  · exact h
  · rename_i herr
    split
    · exact h
    · rename_i f rest hst
      obtain ⟨h1, h2⟩ := hf f rest hst
      split
      · rename_i o; exact absurd rfl (h1 o)
      · exact step_inv_weakDrop hst herr h
      · exact step_inv_dropVal hst herr h
      · exact step_inv_scriptNil hst herr h
      · rename_i hh ww a as; exact absurd rfl (h2 hh ww a as)
      · exact step_inv_panic hst herr h
      · exact step_inv_dropFields hst herr h
      · exact step_inv_finishSingle hst herr h
      · exact step_inv_phase3 hst herr h

end State
end Cactus
