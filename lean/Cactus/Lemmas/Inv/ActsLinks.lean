import Cactus.Lemmas.Count
import Cactus.Lemmas.Orphan
/-!
# Preservation of the invariant by the actions that touch link tables or stored handles

`adopt`, `unadopt`, `store`, `take`, `link`, `unlink`, `storeWeak` and the layout perturbation
`shuffle`.

Structure: `Skel s s'` says that `s'` has the same stack and the same object skeleton as `s`
(only tables of live objects and stored values were rewritten); it transfers `InvO` and `InvK`.
`InvCore.transfer` then reduces `InvCore s'` to `InvB s'` and the two balance equations
"`ext + inHeap` unchanged", "`extW + inHeapW` unchanged".
-/
namespace Cactus
namespace State

/-! ## failing steps -/

theorem Inv.fail {s : State} (_h : s.Inv) (e : Err) : (s.fail e).Inv :=
  fun herr => absurd herr (fail_err_ne_none s e)

theorem Inv.badRoot {s : State} (h : s.Inv) (r : Nat) : (s.badRoot r).Inv := by
  rcases badRoot_cases s r with he | ⟨e, he⟩ <;> rw [he]
  · exact h
  · exact h.fail e

/-! ## same skeleton -/

/-- same stack, same heap size, and every object keeps its counters, flags, whether it has a value
and a table; the table of a dead object is untouched -/
def Skel (s s' : State) : Prop :=
  s'.stack = s.stack ∧ s'.heap.length = s.heap.length ∧
  ∀ (o : Nat) (ob : Obj), s.heap[o]? = some ob → ∃ ob' : Obj, s'.heap[o]? = some ob' ∧ ob'.strong = ob.strong ∧
    ob'.weak = ob.weak ∧ ob'.freed = ob.freed ∧ ob'.implicit = ob.implicit ∧
    ob'.value.isSome = ob.value.isSome ∧ ob'.links.isSome = ob.links.isSome ∧
    (ob.strong.isDead = true → ob'.links = ob.links)

theorem Skel.refl (s : State) : Skel s s :=
  ⟨rfl, rfl, fun _ ob h => ⟨ob, h, rfl, rfl, rfl, rfl, rfl, rfl, fun _ => rfl⟩⟩

theorem Skel.of_eq {s s' : State} (hh : s'.heap = s.heap) (hs : s'.stack = s.stack) : Skel s s' :=
  ⟨hs, by rw [hh], fun _ ob h => ⟨ob, by rw [hh]; exact h, rfl, rfl, rfl, rfl, rfl, rfl, fun _ => rfl⟩⟩

theorem Skel.trans {s s' s'' : State} (h1 : Skel s s') (h2 : Skel s' s'') : Skel s s'' := by
  refine ⟨h2.1.trans h1.1, h2.2.1.trans h1.2.1, ?_⟩
  intro o ob hg
  obtain ⟨ob', hg', a1, a2, a3, a4, a5, a6, a7⟩ := h1.2.2 o ob hg
  obtain ⟨ob'', hg'', b1, b2, b3, b4, b5, b6, b7⟩ := h2.2.2 o ob' hg'
  refine ⟨ob'', hg'', b1.trans a1, b2.trans a2, b3.trans a3, b4.trans a4, b5.trans a5, b6.trans a6, ?_⟩
  intro hd
  rw [b7 (by rw [a1]; exact hd), a7 hd]

theorem Skel.setObj {s : State} {o : Nat} {ob ob' : Obj} (hg : s.heap[o]? = some ob)
    (h1 : ob'.strong = ob.strong) (h2 : ob'.weak = ob.weak) (h3 : ob'.freed = ob.freed)
    (h4 : ob'.implicit = ob.implicit) (h5 : ob'.value.isSome = ob.value.isSome)
    (h6 : ob'.links.isSome = ob.links.isSome) (h7 : ob.strong.isDead = true → ob'.links = ob.links) :
    Skel s (s.setObj o ob') := by
  refine ⟨rfl, by simp, ?_⟩
  intro x obx hx
  by_cases hxo : o = x
  · subst hxo
    rw [hg] at hx; cases hx
    exact ⟨ob', setObj_get_same s o ob' (get_lt hg), h1, h2, h3, h4, h5, h6, h7⟩
  · exact ⟨obx, by rw [setObj_get_other s o x ob' hxo]; exact hx, rfl, rfl, rfl, rfl, rfl, rfl, fun _ => rfl⟩

theorem Skel.back {s s' : State} (h : Skel s s') {o : Nat} {ob' : Obj} (hg' : s'.heap[o]? = some ob') :
    ∃ ob : Obj, s.heap[o]? = some ob ∧ ob'.strong = ob.strong ∧
    ob'.weak = ob.weak ∧ ob'.freed = ob.freed ∧ ob'.implicit = ob.implicit ∧
    ob'.value.isSome = ob.value.isSome ∧ ob'.links.isSome = ob.links.isSome ∧
    (ob.strong.isDead = true → ob'.links = ob.links) := by
  have hlt : o < s.heap.length := by rw [← h.2.1]; exact get_lt hg'
  cases hg : s.heap[o]? with
  | none => rw [get_none_iff] at hg; omega
  | some ob =>
    obtain ⟨ob'', hg'', r⟩ := h.2.2 o ob hg
    rw [hg'] at hg''; cases hg''
    exact ⟨ob, rfl, r⟩

theorem Skel.get_none {s s' : State} (h : Skel s s') {o : Nat} (hg : s.heap[o]? = none) :
    s'.heap[o]? = none := by
  rw [get_none_iff] at hg ⊢; rw [h.2.1]; exact hg

theorem Skel.isLive {s s' : State} (h : Skel s s') (x : Nat) : s'.isLive x = s.isLive x := by
  cases hg : s.heap[x]? with
  | none => rw [isLive_of_get_none hg, isLive_of_get_none (h.get_none hg)]
  | some ob =>
    obtain ⟨ob', hg', a1, _, a3, _⟩ := h.2.2 x ob hg
    rw [isLive_of_get hg, isLive_of_get hg', a1, a3]

theorem Skel.strongNat {s s' : State} (h : Skel s s') (x : Nat) : s'.strongNat x = s.strongNat x := by
  cases hg : s.heap[x]? with
  | none => rw [strongNat_of_get_none hg, strongNat_of_get_none (h.get_none hg)]
  | some ob =>
    obtain ⟨ob', hg', a1, _⟩ := h.2.2 x ob hg
    rw [strongNat_of_get hg, strongNat_of_get hg', a1]

theorem Skel.weakNat {s s' : State} (h : Skel s s') (x : Nat) : s'.weakNat x = s.weakNat x := by
  cases hg : s.heap[x]? with
  | none => rw [weakNat_of_get_none hg, weakNat_of_get_none (h.get_none hg)]
  | some ob =>
    obtain ⟨ob', hg', _, a2, _⟩ := h.2.2 x ob hg
    rw [weakNat_of_get hg, weakNat_of_get hg', a2]

theorem Skel.implicitNat {s s' : State} (h : Skel s s') (x : Nat) : s'.implicitNat x = s.implicitNat x := by
  cases hg : s.heap[x]? with
  | none => rw [implicitNat_of_get_none hg, implicitNat_of_get_none (h.get_none hg)]
  | some ob =>
    obtain ⟨ob', hg', _, _, _, a4, _⟩ := h.2.2 x ob hg
    rw [implicitNat_of_get hg, implicitNat_of_get hg', a4]

theorem Skel.invO {s s' : State} (h : Skel s s') (hO : s.InvO) : s'.InvO := by
  intro o ob' hg'
  obtain ⟨ob, hg, a1, a2, a3, a4, a5, a6, a7⟩ := h.back hg'
  obtain ⟨c1, c2, c3, c4⟩ := hO o ob hg
  refine ⟨?_, ?_, ?_, ?_⟩
  · intro n hn
    rw [a1] at hn
    obtain ⟨d1, d2, d3, d4⟩ := c1 n hn
    exact ⟨by rw [a5]; exact d1, by rw [a6]; exact d2, by rw [a3]; exact d3, by rw [a4]; exact d4⟩
  · intro hn
    rw [a1] at hn
    obtain ⟨d1, d2⟩ := c2 hn
    refine ⟨?_, by rw [a7 (by rw [hn]; rfl)]; exact d2⟩
    rw [d1] at a5
    cases hv : ob'.value with
    | none => rfl
    | some v => rw [hv] at a5; cases a5
  · intro hn
    rw [a1] at hn
    obtain ⟨d1, d2⟩ := c3 hn
    refine ⟨?_, by rw [a7 (by rw [hn]; rfl), a4]; exact d2⟩
    rw [d1] at a5
    cases hv : ob'.value with
    | none => rfl
    | some v => rw [hv] at a5; cases a5
  · rw [a3, a2]; exact c4

theorem Skel.invK {s s' : State} (h : Skel s s') (hK : s.InvK) : s'.InvK := by
  obtain ⟨k1, k2, k3⟩ := hK
  refine ⟨?_, ?_, ?_⟩
  · intro o ho
    rw [h.1] at ho
    obtain ⟨ob, hg, b1, b2, b3⟩ := k1 o ho
    obtain ⟨ob', hg', a1, _, _, a4, _, _, a7⟩ := h.2.2 o ob hg
    exact ⟨ob', hg', by rw [a1]; exact b1, by rw [a7 (by rw [b1]; rfl)]; exact b2, by rw [a4]; exact b3⟩
  · intro ks hks k hk
    rw [h.1] at hks
    obtain ⟨ob, hg, b1, b2, b3⟩ := k2 ks hks k hk
    obtain ⟨ob', hg', a1, _, _, a4, _, _, a7⟩ := h.2.2 k ob hg
    exact ⟨ob', hg', by rw [a1]; exact b1, by rw [a7 (by rw [b1]; rfl)]; exact b2, by rw [a4]; exact b3⟩
  · intro o
    rw [owed_congr h.1]; exact k3 o

/-- the transfer lemma: same skeleton, tables still consistent, handles only moved between the
program and stored values -/
theorem InvCore.transfer {s s' : State} (h : s.InvCore) (hsk : Skel s s') (hB : s'.InvB)
    (hC : ∀ x, s'.ext x + s'.inHeap x = s.ext x + s.inHeap x)
    (hW : ∀ x, s'.extW x + s'.inHeapW x = s.extW x + s.inHeapW x) : s'.InvCore := by
  obtain ⟨hO, -, hCs, hWs, hK⟩ := h
  refine ⟨hsk.invO hO, hB, ?_, ?_, hsk.invK hK⟩
  · intro t ht
    rw [hsk.isLive] at ht
    have h1 := hCs t ht
    have h2 := hC t
    rw [hsk.strongNat, pend_congr hsk.1]; omega
  · intro t ht
    rw [hsk.2.1] at ht
    have h1 := hWs t ht
    have h2 := hW t
    rw [hsk.weakNat, hsk.implicitNat, pendW_congr hsk.1]; omega

/-- the same two balance equations also transfer "no handle designates an unallocated index"
(stated unfolded; this is the clause `InvR` of the extended invariant) -/
theorem Skel.transferR {s s' : State} (hsk : Skel s s')
    (hC : ∀ x, s'.ext x + s'.inHeap x = s.ext x + s.inHeap x)
    (hW : ∀ x, s'.extW x + s'.inHeapW x = s.extW x + s.inHeapW x)
    (hR : ∀ t, s.heap.length ≤ t →
      s.ext t + s.inHeap t + s.pend t = 0 ∧ s.extW t + s.inHeapW t + s.pendW t = 0) :
    ∀ t, s'.heap.length ≤ t →
      s'.ext t + s'.inHeap t + s'.pend t = 0 ∧ s'.extW t + s'.inHeapW t + s'.pendW t = 0 := by
  intro t ht
  rw [hsk.2.1] at ht
  have h1 := hR t ht
  have h2 := hC t
  have h3 := hW t
  rw [pend_congr hsk.1, pendW_congr hsk.1]
  omega

/-! ## skeleton of the primitive updates -/

theorem Skel.fail (s : State) (e : Err) : Skel s (s.fail e) := Skel.of_eq (by simp) (by simp)

theorem Skel.setLinks {s : State} {o : Nat} (hl : s.isLive o = true) (f : Table → Table) :
    Skel s (s.setLinks o f) := by
  rcases setLinks_cases s o f with ⟨e, he⟩ | ⟨ob, t, hc, hlk, he⟩ <;> rw [he]
  · exact Skel.fail s e
  · obtain ⟨ob2, n, hc2, hst⟩ := (isLive_iff_cell s o).mp hl
    rw [hc] at hc2; cases hc2
    refine Skel.setObj (get_of_cell hc) rfl rfl rfl rfl rfl (by simp [hlk]) ?_
    intro hd; rw [hst] at hd; cases hd

theorem Skel.modVal (s : State) (o : Nat) (f : Val → Val) : Skel s (s.modVal o f) := by
  rcases modVal_cases s o f with ⟨e, he⟩ | ⟨ob, v, hc, hv, he⟩ <;> rw [he]
  · exact Skel.fail s e
  · exact Skel.setObj (get_of_cell hc) rfl rfl rfl rfl (by simp [hv]) rfl (fun _ => rfl)

theorem Skel.adopt {s : State} {a b : Nat} (ha : s.isLive a = true) (hb : s.isLive b = true)
    (same : Bool) : Skel s (s.adopt a b same) := by
  cases same
  · rw [adopt_diff]
    exact (Skel.setLinks ha _).trans (Skel.setLinks (by simpa using hb) _)
  · rw [adopt_same]; exact Skel.setLinks ha _

theorem Skel.unadopt {s : State} {a b : Nat} (ha : s.isLive a = true) (hb : s.isLive b = true)
    (same : Bool) : Skel s (s.unadopt a b same) := by
  cases same
  · rw [unadopt_diff]
    exact (Skel.setLinks ha _).trans (Skel.setLinks (by simpa using hb) _)
  · rw [unadopt_same]; exact Skel.setLinks ha _

/-! ## `InvB` under table updates -/

/-- the per-table part of `InvB` -/
def TblOK (s : State) (o : Nat) (t : Table) : Prop :=
  t.WF ∧ ∀ e, e ∈ t → (e.1.kind = .loop → e.1.ptr = o) ∧ (e.1.kind ≠ .loop → s.isLive e.1.ptr = true)

def B1 (s : State) : Prop := ∀ (o : Nat) (t : Table), s.tableOf o = some t → TblOK s o t

theorem InvB.b1 {s : State} (h : s.InvB) : B1 s := h.1

theorem TblOK.congr {s s' : State} (hl : ∀ x, s'.isLive x = s.isLive x) {o : Nat} {t : Table}
    (h : TblOK s o t) : TblOK s' o t :=
  ⟨h.1, fun e he => ⟨(h.2 e he).1, fun hk => by rw [hl]; exact (h.2 e he).2 hk⟩⟩

theorem TblOK.insert {s : State} {o : Nat} {t : Table} (h : TblOK s o t) (k : Link)
    (hk1 : k.kind = .loop → k.ptr = o) (hk2 : k.kind ≠ .loop → s.isLive k.ptr = true) :
    TblOK s o (t.insert k) := by
  refine ⟨Table.WF_insert t h.1 k, ?_⟩
  rintro ⟨l, c⟩ he
  rcases Table.mem_insert t k l c he with rfl | hm
  · exact ⟨hk1, hk2⟩
  · exact h.2 _ hm

theorem TblOK.remove {s : State} {o : Nat} {t : Table} (h : TblOK s o t) (k : Link) (n : Nat) :
    TblOK s o (t.remove k n) := by
  refine ⟨Table.WF_remove t h.1 k n, ?_⟩
  rintro ⟨l, c⟩ he
  obtain ⟨c', hm⟩ := Table.mem_remove t k l n c he
  exact h.2 (l, c') hm

theorem TblOK.swapAt {s : State} {o : Nat} {t : Table} (h : TblOK s o t) (i : Nat) :
    TblOK s o (t.swapAt i) :=
  ⟨Table.WF_swapAt t h.1 i, fun e he => h.2 e ((Table.swapAt_perm t i).mem_iff.1 he)⟩

theorem B1.setLinks {s : State} (h : B1 s) (o : Nat) (f : Table → Table)
    (hf : ∀ t, s.tableOf o = some t → TblOK s o t → TblOK s o (f t)) : B1 (s.setLinks o f) := by
  intro x t' ht'
  rw [tableOf_setLinks] at ht'
  have hok : TblOK s x t' := by
    split at ht'
    · next hx =>
      subst hx
      cases ht : s.tableOf x with
      | none => rw [ht] at ht'; cases ht'
      | some t =>
        rw [ht] at ht'; cases ht'
        exact hf t ht (h x t ht)
    · exact h x t' ht'
  exact hok.congr (fun y => isLive_setLinks s o f y)

theorem InvB.congr {s s' : State} (ht : ∀ x, s'.tableOf x = s.tableOf x)
    (hl : ∀ x, s'.isLive x = s.isLive x) (h : s.InvB) : s'.InvB := by
  refine ⟨?_, ?_⟩
  · intro o t hot
    rw [ht] at hot
    exact TblOK.congr hl (h.b1 o t hot)
  · intro a b ha hb
    rw [hl] at ha hb
    have := h.2 a b ha hb
    simp only [F, B, tbl, ht] at this ⊢
    exact this

theorem InvB.adopt {s : State} (hB : s.InvB) {a b : Nat} (ha : s.isLive a = true) (hb : s.isLive b = true)
    (hta : (s.tableOf a).isSome = true) (htb : (s.tableOf b).isSome = true) (same : Bool) :
    (s.adopt a b same).InvB := by
  cases same
  · refine ⟨?_, ?_⟩
    · rw [adopt_diff]
      refine B1.setLinks (B1.setLinks hB.b1 a _ ?_) b _ ?_
      · intro t _ hok
        exact hok.insert _ (by simp) (fun _ => hb)
      · intro t _ hok
        exact hok.insert _ (by simp) (fun _ => by simpa using ha)
    · intro x y hx hy
      rw [isLive_adopt] at hx hy
      have := hB.2 x y hx hy
      rw [F_adopt_diff hta htb, B_adopt_diff hta htb, this]
      simp only [and_comm]
  · refine ⟨?_, ?_⟩
    · rw [adopt_same]
      refine B1.setLinks hB.b1 a _ ?_
      intro t _ hok
      exact hok.insert _ (fun _ => rfl) (by simp)
    · intro x y hx hy
      rw [isLive_adopt] at hx hy
      simpa using hB.2 x y hx hy

theorem InvB.unadopt {s : State} (hB : s.InvB) {a b : Nat} {ta tb : Table}
    (hta : s.tableOf a = some ta) (htb : s.tableOf b = some tb) (same : Bool) :
    (s.unadopt a b same).InvB := by
  have hwa := (hB.1 a ta hta).1
  have hwb := (hB.1 b tb htb).1
  cases same
  · refine ⟨?_, ?_⟩
    · rw [unadopt_diff]
      refine B1.setLinks (B1.setLinks hB.b1 a _ ?_) b _ ?_
      · intro t _ hok
        exact hok.remove _ _
      · intro t _ hok
        exact hok.remove _ _
    · intro x y hx hy
      rw [isLive_unadopt] at hx hy
      have := hB.2 x y hx hy
      rw [F_unadopt_diff hta htb hwa hwb, B_unadopt_diff hta htb hwa hwb]
      by_cases hc : x = a ∧ y = b
      · obtain ⟨rfl, rfl⟩ := hc
        simp [this]
      · have hc' : ¬ (y = b ∧ x = a) := fun h => hc ⟨h.2, h.1⟩
        simp only [hc, hc', if_false]
        exact this
  · refine ⟨?_, ?_⟩
    · rw [unadopt_same]
      refine B1.setLinks hB.b1 a _ ?_
      intro t _ hok
      exact hok.remove _ _
    · intro x y hx hy
      rw [isLive_unadopt] at hx hy
      rw [F_unadopt_same hta hwa, B_unadopt_same hta hwa]
      exact hB.2 x y hx hy

theorem InvB.swap {s : State} (hB : s.InvB) (o i : Nat) : (s.setLinks o (·.swapAt i)).InvB := by
  refine ⟨?_, ?_⟩
  · refine B1.setLinks hB.b1 o _ ?_
    intro t _ hok
    exact hok.swapAt i
  · intro x y hx hy
    rw [isLive_setLinks] at hx hy
    have hF : ∀ x y, (s.setLinks o (·.swapAt i)).F x y = s.F x y := by
      intro x y
      by_cases hxo : x = o
      · subst hxo
        cases ht : s.tableOf x with
        | none => simp only [F, tbl_setLinks_of_none _ ht]
        | some t =>
          rw [F_setLinks_same _ ht, F_of_tableOf ht]
          exact Table.get_swapAt t (hB.1 x t ht).1 i _
      · exact F_setLinks_other s _ hxo y
    have hBk : ∀ x y, (s.setLinks o (·.swapAt i)).B x y = s.B x y := by
      intro x y
      by_cases hxo : x = o
      · subst hxo
        cases ht : s.tableOf x with
        | none => simp only [B, tbl_setLinks_of_none _ ht]
        | some t =>
          rw [B_setLinks_same _ ht, B_of_tableOf ht]
          exact Table.get_swapAt t (hB.1 x t ht).1 i _
      · exact B_setLinks_other s _ hxo y
    rw [hF, hBk]; exact hB.2 x y hx hy

/-! ## `InvCore` under the state transformers -/

theorem valOf_of_live {s : State} (hO : s.InvO) {o : Nat} (hl : s.isLive o = true) :
    ∃ v, s.valOf o = some v := by
  obtain ⟨ob, n, hc, hst⟩ := (isLive_iff_cell s o).mp hl
  obtain ⟨c1, -⟩ := hO o ob (get_of_cell hc)
  obtain ⟨hv, -⟩ := c1 n hst
  cases hval : ob.value with
  | none => rw [hval] at hv; cases hv
  | some v => exact ⟨v, by rw [valOf_of_cell hc, hval]⟩

theorem InvCore.adopt {s : State} (h : s.InvCore) {a b : Nat} (ha : s.isLive a = true)
    (hb : s.isLive b = true) (same : Bool) : (s.adopt a b same).InvCore := by
  obtain ⟨ta, hta⟩ := live_tableOf h.1 ha
  obtain ⟨tb, htb⟩ := live_tableOf h.1 hb
  exact h.transfer (Skel.adopt ha hb same)
    (h.2.1.adopt ha hb (by simp [hta]) (by simp [htb]) same) (by simp) (by simp)

theorem InvCore.unadopt {s : State} (h : s.InvCore) {a b : Nat} (ha : s.isLive a = true)
    (hb : s.isLive b = true) (same : Bool) : (s.unadopt a b same).InvCore := by
  obtain ⟨ta, hta⟩ := live_tableOf h.1 ha
  obtain ⟨tb, htb⟩ := live_tableOf h.1 hb
  exact h.transfer (Skel.unadopt ha hb same) (h.2.1.unadopt hta htb same) (by simp) (by simp)

theorem InvCore.swap {s : State} (h : s.InvCore) {o : Nat} (ho : s.isLive o = true) (i : Nat) :
    (s.setLinks o (·.swapAt i)).InvCore :=
  h.transfer (Skel.setLinks ho _) (h.2.1.swap o i) (by simp) (by simp)

theorem InvCore.store {s : State} (h : s.InvCore) {i t o : Nat} (hr : s.roots[i]? = some t)
    (ho : s.isLive o = true) :
    (({ s with roots := s.roots.eraseIdx i } : State).modVal o
      (fun v => { v with held := v.held ++ [t] })).InvCore := by
  obtain ⟨v, hv⟩ := valOf_of_live h.1 ho
  have hv0 : ({ s with roots := s.roots.eraseIdx i } : State).valOf o = some v := hv
  refine h.transfer ((Skel.of_eq rfl rfl).trans (Skel.modVal _ _ _))
    (InvB.congr (by simp) (by simp) h.2.1) ?_ ?_
  · intro x
    have h1 := ext_withRoots_eraseIdx s i x
    have h2 := inHeap_modVal (fun v => { v with held := v.held ++ [t] }) hv0 x
    rw [ext_modVal]
    simp only [inHeap_withRoots, count_concat, hr, Option.some.injEq] at h1 h2
    omega
  · intro x
    rw [extW_modVal, inHeapW_modVal_of_weaks_eq _ o (fun v => { v with held := v.held ++ [t] }) (fun _ => rfl)]
    rfl

theorem InvCore.storeWeak {s : State} (h : s.InvCore) {i t o : Nat} (hr : s.wroots[i]? = some t)
    (ho : s.isLive o = true) :
    (({ s with wroots := s.wroots.eraseIdx i } : State).modVal o
      (fun v => { v with weaks := v.weaks ++ [t] })).InvCore := by
  obtain ⟨v, hv⟩ := valOf_of_live h.1 ho
  have hv0 : ({ s with wroots := s.wroots.eraseIdx i } : State).valOf o = some v := hv
  refine h.transfer ((Skel.of_eq rfl rfl).trans (Skel.modVal _ _ _))
    (InvB.congr (by simp) (by simp) h.2.1) ?_ ?_
  · intro x
    rw [ext_modVal, inHeap_modVal_of_held_eq _ o (fun v => { v with weaks := v.weaks ++ [t] }) (fun _ => rfl)]
    rfl
  · intro x
    have h1 := extW_withWroots_eraseIdx s i x
    have h2 := inHeapW_modVal (fun v => { v with weaks := v.weaks ++ [t] }) hv0 x
    rw [extW_modVal]
    simp only [inHeapW_withWroots, count_concat, hr, Option.some.injEq] at h1 h2
    omega

theorem take_inHeap {s : State} {o : Nat} {v : Val} (hv : s.valOf o = some v) {i t : Nat}
    (hk : v.held[i]? = some t) (f : Val → Val) (hf : (f v).held = v.held.eraseIdx i) (x : Nat) :
    (s.modVal o f).inHeap x + (if t = x then 1 else 0) = s.inHeap x := by
  have h1 := inHeap_modVal f hv x
  have h2 := count_eraseIdx_add v.held i x
  rw [hf] at h1
  simp only [hk, Option.some.injEq] at h2
  omega

theorem take_inHeapW {s : State} {o : Nat} {v : Val} (hv : s.valOf o = some v)
    (f : Val → Val) (hfw : (f v).weaks = v.weaks) (x : Nat) :
    (s.modVal o f).inHeapW x = s.inHeapW x := by
  have h1 := inHeapW_modVal f hv x
  rw [hfw] at h1
  omega

theorem InvCore.take {s : State} (h : s.InvCore) {o : Nat} {v : Val} (hv : s.valOf o = some v)
    {i t : Nat} (hk : v.held[i]? = some t) (f : Val → Val) (hf : (f v).held = v.held.eraseIdx i)
    (hfw : (f v).weaks = v.weaks) :
    ({ s.modVal o f with roots := (s.modVal o f).roots ++ [t] } : State).InvCore := by
  refine h.transfer ((Skel.modVal _ _ _).trans (Skel.of_eq rfl rfl))
    (InvB.congr (by simp) (by simp) h.2.1) ?_ ?_
  · intro x
    have h1 := take_inHeap hv hk f hf x
    simp only [ext_withRoots_append, inHeap_withRoots, ext_modVal]
    omega
  · intro x
    have h1 := take_inHeapW hv f hfw x
    simp only [extW_withRoots, inHeapW_withRoots, extW_modVal]
    omega

theorem InvCore.unlink {s : State} (h : s.InvCore) {o : Nat} {v : Val} (hv : s.valOf o = some v)
    {i t : Nat} (hk : v.held[i]? = some t) (f : Val → Val) (hf : (f v).held = v.held.eraseIdx i)
    (hfw : (f v).weaks = v.weaks) (ho : s.isLive o = true) (ht : s.isLive t = true) :
    ({ (s.modVal o f).unadopt o t false with
        roots := ((s.modVal o f).unadopt o t false).roots ++ [t] } : State).InvCore := by
  obtain ⟨ta, hta⟩ := live_tableOf h.1 ho
  obtain ⟨tb, htb⟩ := live_tableOf h.1 ht
  have hB1 : (s.modVal o f).InvB := InvB.congr (by simp) (by simp) h.2.1
  have hB2 := hB1.unadopt (a := o) (b := t) (by simpa using hta) (by simpa using htb) false
  refine h.transfer
    ((Skel.modVal _ _ _).trans ((Skel.unadopt (by simpa using ho) (by simpa using ht) false).trans
      (Skel.of_eq rfl rfl)))
    (InvB.congr (fun _ => rfl) (fun _ => rfl) hB2) ?_ ?_
  · intro x
    have h1 := take_inHeap hv hk f hf x
    simp only [ext_withRoots_append, inHeap_withRoots, ext_modVal, ext_unadopt, inHeap_unadopt]
    omega
  · intro x
    have h1 := take_inHeapW hv f hfw x
    simp only [extW_withRoots, inHeapW_withRoots, extW_modVal, extW_unadopt, inHeapW_unadopt]
    omega

/-! ## `Inv` under the state transformers -/

theorem Inv.adopt {s : State} (h : s.Inv) {a b : Nat} (ha : s.isLive a = true)
    (hb : s.isLive b = true) (same : Bool) : (s.adopt a b same).Inv :=
  fun herr => (h ((adopt_err_eq_none_iff s a b same).mp herr).1).adopt ha hb same

theorem Inv.unadopt {s : State} (h : s.Inv) {a b : Nat} (ha : s.isLive a = true)
    (hb : s.isLive b = true) (same : Bool) : (s.unadopt a b same).Inv :=
  fun herr => (h ((unadopt_err_eq_none_iff s a b same).mp herr).1).unadopt ha hb same

end State

open State

/-! ## the actions -/

theorem applyAct_inv_adopt (s : State) (fh fw : List Nat) (r1 r2 : Nat) (h : s.Inv) :
    (applyAct s fh fw (.adopt r1 r2)).Inv := by
  simp only [applyAct]
  cases h1 : s.useRoot r1 with
  | none => exact (h.badRoot r1).badRoot r2
  | some a =>
    cases h2 : s.useRoot r2 with
    | none => exact (h.badRoot r1).badRoot r2
    | some b => exact h.adopt (useRoot_some h1).2 (useRoot_some h2).2 _

theorem applyAct_inv_unadopt (s : State) (fh fw : List Nat) (r1 r2 : Nat) (h : s.Inv) :
    (applyAct s fh fw (.unadopt r1 r2)).Inv := by
  simp only [applyAct]
  cases h1 : s.useRoot r1 with
  | none => exact (h.badRoot r1).badRoot r2
  | some a =>
    cases h2 : s.useRoot r2 with
    | none => exact (h.badRoot r1).badRoot r2
    | some b => exact h.unadopt (useRoot_some h1).2 (useRoot_some h2).2 _

theorem applyAct_inv_store (s : State) (fh fw : List Nat) (r q : Nat) (h : s.Inv) :
    (applyAct s fh fw (.store r q)).Inv := by
  simp only [applyAct]
  cases h1 : s.useRoot r with
  | none => exact (h.badRoot r).badRoot q
  | some t =>
    cases h2 : s.useRoot q with
    | none => exact (h.badRoot r).badRoot q
    | some o =>
      simp only []
      split
      · exact h
      · intro herr
        have e0 : s.err = none := ((modVal_err_eq_none_iff _ _ _).mp herr).1
        exact (h e0).store (useRoot_some h1).1 (useRoot_some h2).2

theorem applyAct_inv_storeWeak (s : State) (fh fw : List Nat) (w q : Nat) (h : s.Inv) :
    (applyAct s fh fw (.storeWeak w q)).Inv := by
  simp only [applyAct]
  cases h1 : nthMod s.wroots w with
  | none => exact h
  | some t =>
    cases h2 : s.useRoot q with
    | none => exact h.badRoot q
    | some o =>
      intro herr
      have e0 : s.err = none := ((modVal_err_eq_none_iff _ _ _).mp herr).1
      exact (h e0).storeWeak (getElem?_idxMod_of_nthMod h1) (useRoot_some h2).2

theorem applyAct_inv_take (s : State) (fh fw : List Nat) (q k : Nat) (h : s.Inv) :
    (applyAct s fh fw (.take q k)).Inv := by
  simp only [applyAct]
  cases h1 : s.useRoot q with
  | none => exact h.badRoot q
  | some o =>
    dsimp only
    cases hv : s.valOf o with
    | none => exact h.fail _
    | some v =>
      dsimp only
      cases hk : nthMod v.held k with
      | none => exact h
      | some t =>
        intro herr
        have e1 : (s.modVal o (fun v => { v with held := v.held.eraseIdx (idxMod v.held k) })).err = none := herr
        rw [modVal_err _ hv] at e1
        exact (h e1).take hv (getElem?_idxMod_of_nthMod hk) _ rfl rfl

theorem applyAct_inv_link (s : State) (fh fw : List Nat) (r q : Nat) (h : s.Inv) :
    (applyAct s fh fw (.link r q)).Inv := by
  simp only [applyAct]
  cases h1 : s.useRoot r with
  | none => exact (h.badRoot r).badRoot q
  | some t =>
    cases h2 : s.useRoot q with
    | none => exact (h.badRoot r).badRoot q
    | some o =>
      simp only []
      split
      · exact h
      · intro herr
        have e1 : (s.adopt o t false).err = none := ((modVal_err_eq_none_iff _ _ _).mp herr).1
        have e0 : s.err = none := ((adopt_err_eq_none_iff _ _ _ _).mp e1).1
        have ht := (useRoot_some h1).2
        have ho := (useRoot_some h2).2
        exact ((h e0).adopt ho ht false).store (i := idxMod s.roots r)
          (by rw [adopt_roots]; exact (useRoot_some h1).1) (by simpa using ho)

theorem applyAct_inv_unlink (s : State) (fh fw : List Nat) (q k : Nat) (h : s.Inv) :
    (applyAct s fh fw (.unlink q k)).Inv := by
  simp only [applyAct]
  cases h1 : s.useRoot q with
  | none => exact h.badRoot q
  | some o =>
    dsimp only
    cases hv : s.valOf o with
    | none => exact h.fail _
    | some v =>
      dsimp only
      cases hk : nthMod v.held k with
      | none => exact h
      | some t =>
        simp only []
        split
        · next hlt =>
          intro herr
          have e2 : ((s.modVal o (fun v => { v with held := v.held.eraseIdx (idxMod v.held k) })).unadopt
              o t false).err = none := herr
          have e1 := ((unadopt_err_eq_none_iff _ _ _ _).mp e2).1
          rw [modVal_err _ hv] at e1
          exact (h e1).unlink hv (getElem?_idxMod_of_nthMod hk) _ rfl rfl (useRoot_some h1).2
            (by simpa using hlt)
        · intro herr
          exact absurd herr (fail_err_ne_none _ _)

theorem applyOp_inv_shuffle (s : State) (q i : Nat) (h : s.Inv) : (applyOp s (.shuffle q i)).Inv := by
  simp only [applyOp]
  cases h1 : s.useRoot q with
  | none => exact h.badRoot q
  | some o =>
    intro herr
    have e0 : s.err = none := ((setLinks_err_eq_none_iff _ _ _).mp herr).1
    exact (h e0).swap (useRoot_some h1).2 i

end Cactus
