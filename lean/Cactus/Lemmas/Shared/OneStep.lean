import Cactus.Lemmas.Basic
/-!
# One-step lemmas used by more than one property file

Each lemma here is about a single call of a model function in an arbitrary state (no invariant, no
reachability hypothesis).  The property file that owns the statement restates it under its
`C<nn>_…` name and proves it by applying the lemma; the other property files that need the fact use
the lemma from here, so that no property file imports another one:

| lemma                          | stated as                      | also used by |
|--------------------------------|--------------------------------|--------------|
| `Shared.rcDrop_dead_noop`      | `C16_drop_dead_noop`           | C02, C15     |
| `Shared.decWeakFree_released`  | `C04_no_double_release`        | C02          |
| `Shared.rcDrop_last_handle`    | `C03_last_handle`              | C07          |
| `Shared.rcDrop_emptyTable_log` | `C14_drop_no_trace`            | C07          |
| `Shared.upgradeField_dead_none`| `C05_upgradeField_dead_none`   | C10          |
| `Shared.purgeOne_skips_self`   | `C12_purge_skips_self`         | C10          |
-/
namespace Cactus.Shared
open State

/-- dropping a handle to a dead object returns before touching anything (drop.rs:121-123) -/
theorem rcDrop_dead_noop (s : State) (o : Nat) (ob : Obj)
    (hc : s.cell o = some ob) (hd : ob.strong.isDead = true) : s.rcDrop o = s := by
  unfold State.rcDrop
  simp only [hc]
  cases hs : ob.strong with
  | uninit => rfl
  | cnt n =>
    cases n with
    | zero => rfl
    | succ n => simp [hs, Strong.isDead] at hd

/-- an allocation is never released twice: releasing a released allocation is reported as an
error, never silently performed -/
theorem decWeakFree_released (s : State) (o : Nat) (imp : Bool) (h : s.cell o = none) (he : s.err = none) :
    (s.decWeakFree o imp).err = some (.uaf o) ∧ (s.decWeakFree o imp).heap = s.heap := by
  unfold State.decWeakFree
  simp [h, fail_err_of_none _ _ he]

/-- the last-handle rule: dropping the last strong handle of an object without adoptions moves its
value out and schedules its destructor in that very step (synchronously, never deferred) -/
theorem rcDrop_last_handle (s : State) (o : Nat) (ob : Obj) (v : Val)
    (hc : s.cell o = some ob) (hs : ob.strong = .cnt 1) (hl : ob.links = some []) (hv : ob.value = some v) :
    (s.rcDrop o).stack = .dropVal v :: .finishSingle o :: s.stack
    ∧ ((s.rcDrop o).heap[o]?).map (·.strong) = some .uninit := by
  have hf := (cell_some_get s o ob hc).2
  have hlt := cell_some_lt s o ob hc
  unfold State.rcDrop
  simp only [hc, hs, hl, List.isEmpty_nil, if_true]
  unfold State.beginSingle
  rw [cell_setObj_same s o ob _ hc]
  simp [hf, hv, State.setObj, State.push, hlt]

/-- `Rc::drop` on an object whose link table is empty appends nothing to the event log in the
same step: in particular no trace is started (drop.rs:134-146). -/
theorem rcDrop_emptyTable_log (s : State) (o : Nat) (ob : Obj)
    (hc : s.cell o = some ob) (hl : ob.links = some []) :
    (s.rcDrop o).log = s.log := by
  unfold State.rcDrop
  simp only [hc, hl]
  cases hs : ob.strong with
  | uninit => simp
  | cnt n =>
    cases n with
    | zero => simp
    | succ n =>
      simp only [List.isEmpty_nil, if_true]
      have hf := (cell_some_get s o ob hc).2
      split
      · unfold State.beginSingle
        rw [cell_setObj_same s o ob _ hc]
        simp only [hf]
        split
        · rename_i heq
          cases heq
          simp only []
          split <;> simp
        · simp
      · rfl

/-- `Weak::upgrade` of a Weak field on a destroyed object, called from a destructor, returns
`None`: no handle is created, no counter changes -/
theorem upgradeField_dead_none (s : State) (fh fw : List Nat) (k o : Nat) (ob : Obj)
    (hw : nthMod fw k = some o) (hc : s.cell o = some ob) (hd : ob.strong.isDead = true) :
    applyAct s fh fw (.upgradeField k) = s.emit (retBool false) := by
  simp [applyAct, hw, hc, hd]

/-- the purge loop never touches the object's own table while iterating over it (the `ptr::eq`
self-skip, drop.rs:379): no nested borrow of the same `RefCell` -/
theorem purgeOne_skips_self (x : Nat) (s : State) (e : Link × Nat) (h : e.1.ptr = x) : purgeOne x s e = s := by
  simp [State.purgeOne, h]

end Cactus.Shared
