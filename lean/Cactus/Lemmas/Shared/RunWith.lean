import Cactus.Model.Step
/-!
# `runWith` — `run` with an explicit step budget

Shared by the evaluation examples / counterexamples of `Props/C01.lean`, `Props/C03.lean` and
`Props/C13.lean` (a small budget lets `decide` evaluate a history in the elaborator).  It lives here
so that no property file has to import another property file for it.
-/
namespace Cactus

/-- `run` with an explicit step budget per operation instead of `defaultFuel` -/
def runWith (fuel : Nat) (ops : List (Op × List Nat)) : State :=
  ops.foldl (fun s oh => execOp fuel s oh.1 oh.2) {}

/-- `run` is `runWith` at the default budget -/
theorem runWith_defaultFuel (ops : List (Op × List Nat)) : runWith defaultFuel ops = run ops := rfl

theorem runWith_nil (fuel : Nat) : runWith fuel [] = {} := rfl

/-- a history is executed operation by operation, left to right -/
theorem runWith_append (fuel : Nat) (ops1 ops2 : List (Op × List Nat)) :
    runWith fuel (ops1 ++ ops2)
      = ops2.foldl (fun s oh => execOp fuel s oh.1 oh.2) (runWith fuel ops1) := by
  unfold runWith
  rw [List.foldl_append]

theorem runWith_snoc (fuel : Nat) (ops : List (Op × List Nat)) (op : Op) (hint : List Nat) :
    runWith fuel (ops ++ [(op, hint)]) = execOp fuel (runWith fuel ops) op hint := by
  rw [runWith_append]; rfl

end Cactus
